#!/bin/bash
# tools/seedrun5.sh <ID> <k> : fifth round (seeds under /tmp/seed5-c<id>/<k>, numbered 12+k in /verif/seeded)
ID=$1; K=$2; shift 2
SEEDROOT=/tmp/seed5 KOFF=12 VERIF_STOP_ON_VIOLATION=1 /verif/tools/seedrun2.sh $ID $K --tier quick "$@"
