#!/bin/bash
# tools/seedconfirm6.sh <ID> <k> <detected 0|1> <only-sub> : sixth round, confirmation only (tools/seedcheck.sh) for a seed whose
# verdict was obtained by a targeted run (VERIF_MUTANT=patch ./check <ID> --only <sub>); writes /verif/seeded/<ID>-<15+k>/.
ID=$1; K=$2; DET=$3; SUB=$4
low=$(echo $ID | tr A-Z a-z); SD=/tmp/seed6-$low; K2=$((K+15)); OUT=/verif/seeded/$ID-$K2
mkdir -p $OUT/demo
cp $SD/$K/patch.diff $OUT/patch.diff; cp $SD/$K/demo/*.go $OUT/demo/; cp $SD/$K/meta.json $OUT/seeder_meta.json 2>/dev/null
/verif/tools/seedcheck.sh $SD $K > $OUT/confirm.log 2>&1
confirm=$(grep ^RESULT $OUT/confirm.log); base=$(grep '^baseline' $OUT/confirm.log)
python3 - "$OUT" "$ID" "$K2" "$DET" "$confirm" "$base" "$SUB" <<'PY'
import json,sys
out,pid,k,det,confirm,base,sub=sys.argv[1:8]
sm={}
try: sm=json.load(open(out+'/seeder_meta.json'))
except Exception: pass
meta={"property":pid,"seed":k,"summary":sm.get("summary"),"needs":sm.get("needs"),"files":sm.get("files"),
 "confirmation":{"how":"tools/seedcheck.sh: scratch worktree of /repo HEAD; demo run unmodified; git apply --check; git apply; go build ./pkg/...; demo run again; runnable baseline tests compared with BASELINE.json","result":confirm,"baseline":base},
 "our_checks":{"how":"VERIF_MUTANT=patch.diff ./check %s --tier quick --only %s (targeted run of the sub-check concerned; patch layered over /repo through the build overlay; /repo untouched)"%(pid,sub),"exit_code":int(det),"detected":det=="1","violation_signatures":[]}}
json.dump(meta,open(out+'/meta.json','w'),indent=1)
PY
echo "$ID-$K2 $confirm $base detected=$DET"
