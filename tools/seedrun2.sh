#!/bin/bash
# tools/seedrun2.sh <ID> <k> (SEEDROOT=/tmp/seed2 KOFF=3 for the second round) [check-args...] : confirm seed /tmp/seed-c<id>/<k> and run ./check <ID> against it (overlay).
ID=$1; K=$2; shift 2
low=$(echo $ID | tr A-Z a-z)
SD=${SEEDROOT:-/tmp/seed}-$low
K2=$((K+${KOFF:-0}))
OUT=/verif/seeded/$ID-$K2
mkdir -p $OUT/demo
cp $SD/$K/patch.diff $OUT/patch.diff
cp $SD/$K/demo/*.go $OUT/demo/ 2>/dev/null
cp $SD/$K/meta.json $OUT/seeder_meta.json 2>/dev/null
/verif/tools/seedcheck.sh $SD $K > $OUT/confirm.log 2>&1
confirm=$(grep ^RESULT $OUT/confirm.log)
base=$(grep '^baseline' $OUT/confirm.log)
VERIF_MUTANT=$OUT/patch.diff /verif/check $ID "$@" > $OUT/check.log 2>&1
rc=$?
sigs=$(grep -o 'signature=[^ ]*' $OUT/check.log | sort -u | tr '\n' ' ')
echo "$ID-$K2 confirm[$confirm $base] check_rc=$rc $sigs"
python3 - "$OUT" "$ID" "$K2" "$rc" "$confirm" "$base" "$sigs" <<'PY'
import json,sys,os
out,pid,k,rc,confirm,base,sigs=sys.argv[1:8]
sm={}
try: sm=json.load(open(out+'/seeder_meta.json'))
except Exception: pass
meta={"property":pid,"seed":k,"summary":sm.get("summary"),"needs":sm.get("needs"),"files":sm.get("files"),
 "confirmation":{"how":"tools/seedcheck.sh: scratch worktree of /repo HEAD; demo run unmodified; git apply --check; git apply; go build ./pkg/...; demo run again; runnable baseline tests (go test -json over the 5 baseline packages) compared with BASELINE.json","result":confirm,"baseline":base},
 "our_checks":{"how":"VERIF_MUTANT=patch.diff ./check %s --tier quick (patch layered over /repo through the build overlay; /repo untouched)"%pid,"exit_code":int(rc),"detected":int(rc)==1,"violation_signatures":sigs.split()}}
json.dump(meta,open(out+'/meta.json','w'),indent=1)
PY
tail -5 $OUT/check.log > $OUT/check_tail.log; rm -f $OUT/check.log
