#!/bin/bash
# tools/seedrun6.sh <ID> <k> : sixth round (seeds under /tmp/seed6-c<id>/<k>, numbered 15+k in /verif/seeded)
ID=$1; K=$2; shift 2
SEEDROOT=/tmp/seed6 KOFF=15 VERIF_STOP_ON_VIOLATION=1 /verif/tools/seedrun2.sh $ID $K --tier quick "$@"
