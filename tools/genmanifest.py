#!/usr/bin/env python3
"""Regenerates /verif/MANIFEST.json from the table below (one entry per claimed property)."""
import json, os
V = "/verif"
claimed = {
 "C18": dict(engine="venum",
   technique="exhaustive small-scope enumeration of authorizer answers x operations x digest sets x any-trees against the real decorator (bounded explicit enumeration, reference oracle)",
   text="Every assignment of allow/PERMISSION_DENIED/INTERNAL to 3 instance names for the authorizer in charge (other authorizers set to each constant answer), every single-digest Get/GetFromComposite/Put and every FindMissing subset over 6 digests, and every `any` tree of depth<=2 with <=3 (quick) / <=4 (thorough) leaves with every leaf answer assignment and every ordered name list, executed on the real NewAuthorizingBlobAccess / NewAnyAuthorizer and compared with a reference verdict; backend call log and upload-buffer release counter are part of the oracle. Complete enumeration of the stated finite space (exhaustive:true).",
   note="For 'any': a member that was consulted for a name and failed (non-denial) must not be overruled by another member's grant; which members are consulted, and in which order, is not judged. Bounded to 3 instance names, 2 hashes, any-trees of depth 2; scripted authorizers stand in for real ones (static/JMESPath/remote authorizers themselves are not exercised beyond NewStaticAuthorizer for the empty any).",
   ref="DESIGN.md section 3 C18"),
}
na_reason = "check not built yet in this round; planned per DESIGN.md section 3"
props = [json.loads(l)["id"] for l in open(f"{V}/properties.jsonl")]
extra = {}
if os.path.exists(f"{V}/tools/manifest_entries.json"):
    extra = json.load(open(f"{V}/tools/manifest_entries.json"))
claimed.update(extra)
checks = []
for p in props:
    if p not in claimed: continue
    c = claimed[p]
    checks.append({
      "property_id": p,
      "quick_cmd": f"./check {p} --tier quick",
      "thorough_cmd": f"./check {p} --tier thorough",
      "evidence_file": f"/verif/evidence/{p}.json",
      "replay_cmd_template": f"./check {p} --replay {{path}}",
      "engine": c["engine"],
      "level_claimed": {"category": "model_checking", "text": c["text"], "design_ref": c["ref"]},
      "level_note": c["note"],
      "technique": c["technique"],
    })
m = {
 "version": 1,
 "setup_cmd": "./setup.sh",
 "hooks": {
   "guard": "verif",
   "enable": "no source hooks live in /repo: ./check regenerates an instrumentation overlay (go build -overlay -tags verif) from /repo's working tree with /verif/h/vinstr on every run",
   "baseline_off_cmd": "/verif/tools/baseline.sh",
   "source_commits": [],
   "add_only": True,
 },
 "engines": [
   {"name": "venum", "path": "/verif/h/cmd", "serves_properties": [p for p in props if p in claimed and "venum" in claimed[p]["engine"]], "kind_free_text": "exhaustive small-scope enumeration of inputs / environment answers / fault positions against the real exported API with a reference oracle"},
   {"name": "vsched", "path": "/verif/h/shim/vsched", "serves_properties": [p for p in props if p in claimed and "vsched" in claimed[p]["engine"]], "kind_free_text": "stateless, preemption/deviation-bounded DFS over all schedules of the real code under a controlled cooperative scheduler (sync/atomic/channel/select/go rewritten by vinstr through go build -overlay)"},
   {"name": "vstate", "path": "/verif/h/engine", "serves_properties": [p for p in props if p in claimed and "vstate" in claimed[p]["engine"]], "kind_free_text": "explicit-state search over operation sequences on real objects (replay from scratch per path) with per-transition reference oracle"},
   {"name": "vcrash", "path": "/verif/h/engine", "serves_properties": [p for p in props if p in claimed and "vcrash" in claimed[p]["engine"]], "kind_free_text": "every crash point x every admissible post-crash medium over simulated block devices and state directory, recovery by the real code"},
 ],
 "checks": checks,
 "not_applicable": [{"property_id": p, "reason": na_reason} for p in props if p not in claimed],
 "notes": "All checks rebuild from /repo's working tree. Exit 0 = held on everything explored (possibly exhaustive:false with caps reported in evidence); exit 1 + VIOLATION line = unlisted violation; exit 2 + HARNESS-ERROR = tooling/build failure.",
}
json.dump(m, open(f"{V}/MANIFEST.json", "w"), indent=1)
print("claimed:", [c["property_id"] for c in checks])
