#!/bin/bash
# Regenerates /verif/h/go.mod and go.sum from /repo's (same requirements, plus
# the replace that points the bb-storage module at /repo's working tree).
set -e
cd /verif/h
tmp=$(mktemp)
{
  sed -e 's#^module github.com/buildbarn/bb-storage$#module verifh#' /repo/go.mod
  printf '\nreplace github.com/buildbarn/bb-storage => /repo\n\nrequire github.com/buildbarn/bb-storage v0.0.0\n'
} > "$tmp"
cmp -s "$tmp" go.mod || cp "$tmp" go.mod
rm -f "$tmp"
cmp -s /repo/go.sum go.sum || cp /repo/go.sum go.sum
