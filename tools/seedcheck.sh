#!/bin/bash
# tools/seedcheck.sh <seed-dir> <k> : confirm one independently seeded change in a scratch worktree:
# applies to HEAD, pkg builds, runnable baseline tests unchanged, demo passes without / fails with the change.
set -u
SD=$1; K=$2
. /verif/env.sh
export CGO_ENABLED=1
WT=/tmp/seedcheck-$$
git -C /repo worktree add -q $WT HEAD || exit 2
trap 'git -C /repo worktree remove --force '$WT' >/dev/null 2>&1' EXIT
mkdir -p $WT/cmd/seeddemo_x && cp $SD/$K/demo/*.go $WT/cmd/seeddemo_x/
cd $WT
echo "== demo on unmodified tree"; go run ./cmd/seeddemo_x > /tmp/seedcheck-$$.a 2>&1; ra=$?; tail -3 /tmp/seedcheck-$$.a
git apply --check $SD/$K/patch.diff || { echo "PATCH DOES NOT APPLY"; exit 1; }
git apply $SD/$K/patch.diff
echo "== build"; go build ./pkg/... 2>&1 | tail -3; rb=${PIPESTATUS[0]}
echo "== demo with change"; go run ./cmd/seeddemo_x > /tmp/seedcheck-$$.b 2>&1; rc=$?; tail -3 /tmp/seedcheck-$$.b
echo "== baseline tests with change"
go test -vet=off -count=1 -json ./pkg/blockdevice/... ./pkg/eviction/... ./pkg/filesystem/... ./pkg/random/... ./pkg/zstd/... 2>/dev/null | python3 -c "
import sys,json
p=set()
for l in sys.stdin:
    try: e=json.loads(l)
    except Exception: continue
    if e.get('Action')=='pass' and e.get('Test'): p.add(e['Package']+'::'+e['Test'])
want=set(json.load(open('/root/.vp/BASELINE.json'))['stable_pass'])
print('baseline %d/%d'%(len(want&p),len(want)))
"
echo "RESULT demo_unmodified_exit=$ra build_exit=$rb demo_changed_exit=$rc"
rm -f /tmp/seedcheck-$$.*
