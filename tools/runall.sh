#!/bin/bash
# runs every claimed check of a tier sequentially; prints one line per check
tier=${1:-quick}
cd /verif
for id in $(python3 -c "import json;print(' '.join(c['property_id'] for c in json.load(open('MANIFEST.json'))['checks']))"); do
  t0=$(date +%s)
  ./check $id --tier $tier > /tmp/runall-$id.log 2>&1
  rc=$?
  t1=$(date +%s)
  echo "$id rc=$rc $((t1-t0))s $(grep ^SUMMARY /tmp/runall-$id.log | cut -c1-200)"
done
