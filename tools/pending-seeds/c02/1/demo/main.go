// Demo for property C02: a block is rotated out (PopFront) while a data
// sync is in flight and an upload completed after that sync started.
// After a crash that loses the unsynchronised data writes, the store is
// rebuilt from the state file and the index; no object may be reported
// present with bytes other than the uploaded ones.
package main

import (
	"bytes"
	"crypto/sha256"
	"encoding/hex"
	"fmt"
	"io"
	"os"

	remoteexecution "github.com/bazelbuild/remote-apis/build/bazel/remote/execution/v2"
	"github.com/buildbarn/bb-storage/pkg/blobstore/buffer"
	"github.com/buildbarn/bb-storage/pkg/blobstore/local"
	"github.com/buildbarn/bb-storage/pkg/digest"
	pb "github.com/buildbarn/bb-storage/pkg/proto/blobstore/local"

	"google.golang.org/protobuf/proto"
)

const (
	sectorSize   = 16
	blockSectors = 8
	blockCount   = 4
)

// memDevice is a block device with a volatile write cache: writes only
// become durable when Sync() is called.
type memDevice struct {
	durable []byte
	current []byte
}

func newMemDevice(image []byte) *memDevice {
	return &memDevice{durable: append([]byte(nil), image...), current: append([]byte(nil), image...)}
}

func (d *memDevice) ReadAt(p []byte, off int64) (int, error) {
	if off >= int64(len(d.current)) {
		return 0, io.EOF
	}
	n := copy(p, d.current[off:])
	if n < len(p) {
		return n, io.EOF
	}
	return n, nil
}

func (d *memDevice) WriteAt(p []byte, off int64) (int, error) {
	return copy(d.current[off:], p), nil
}

func (d *memDevice) Sync() error {
	d.durable = append([]byte(nil), d.current...)
	return nil
}

func (d *memDevice) Close() error { return nil }

// rawReadBufferFactory hands out the bytes that are on the medium
// without validating them, so that the demo can compare them itself.
type rawReadBufferFactory struct{}

func (rawReadBufferFactory) NewBufferFromByteSlice(d digest.Digest, data []byte, cb buffer.DataIntegrityCallback) buffer.Buffer {
	return buffer.NewValidatedBufferFromByteSlice(data)
}

func (rawReadBufferFactory) NewBufferFromReader(d digest.Digest, r io.ReadCloser, cb buffer.DataIntegrityCallback) buffer.Buffer {
	data, err := io.ReadAll(r)
	r.Close()
	if err != nil {
		return buffer.NewBufferFromError(err)
	}
	return buffer.NewValidatedBufferFromByteSlice(data)
}

func (rawReadBufferFactory) NewBufferFromReaderAt(d digest.Digest, r buffer.ReadAtCloser, sizeBytes int64, cb buffer.DataIntegrityCallback) buffer.Buffer {
	data := make([]byte, sizeBytes)
	_, err := r.ReadAt(data, 0)
	r.Close()
	if err != nil && err != io.EOF {
		return buffer.NewBufferFromError(err)
	}
	return buffer.NewValidatedBufferFromByteSlice(data)
}

type object struct {
	name string
	data []byte
	slot int
}

func (o *object) key() local.Key { return sha256.Sum256(o.data) }

func (o *object) digest() digest.Digest {
	sum := sha256.Sum256(o.data)
	return digest.MustNewDigest("", remoteexecution.DigestFunction_SHA256, hex.EncodeToString(sum[:]), int64(len(o.data)))
}

func fail(format string, args ...interface{}) {
	fmt.Printf("FAIL: "+format+"\n", args...)
	os.Exit(1)
}

func upload(bl *local.PersistentBlockList, lra local.LocationRecordArray, blockIndex int, o *object) {
	finalizer := bl.Put(blockIndex, int64(len(o.data)))(buffer.NewValidatedBufferFromByteSlice(o.data))
	offset, err := finalizer()
	if err != nil {
		fail("upload of %s: %v", o.name, err)
	}
	// The block may have shifted; the demo only uploads while no
	// rotation happens between allocation and completion.
	if err := lra.Put(o.slot, local.LocationRecord{
		RecordKey: local.LocationRecordKey{Key: o.key()},
		Location:  local.Location{BlockIndex: blockIndex, OffsetBytes: offset, SizeBytes: int64(len(o.data))},
	}); err != nil {
		fail("index write of %s: %v", o.name, err)
	}
}

func main() {
	dataDev := newMemDevice(make([]byte, sectorSize*blockSectors*blockCount))
	indexDev := newMemDevice(make([]byte, 16*local.BlockDeviceBackedLocationRecordSize))
	allocator := local.NewBlockDeviceBackedBlockAllocator(dataDev, rawReadBufferFactory{}, sectorSize, blockSectors, blockCount, "demo")
	bl, _ := local.NewPersistentBlockList(allocator, 1, nil)
	lra := local.NewBlockDeviceBackedLocationRecordArray(indexDev, bl)

	o1 := &object{name: "O1", data: bytes.Repeat([]byte("1"), 40), slot: 1}
	o2 := &object{name: "O2", data: bytes.Repeat([]byte("2"), 40), slot: 2}
	o3 := &object{name: "O3", data: bytes.Repeat([]byte("3"), 24), slot: 3}
	o4 := &object{name: "O4", data: bytes.Repeat([]byte("4"), 24), slot: 4}
	objects := []*object{o1, o2, o3, o4}

	// The state file as it is on disk (written atomically).
	var stateOnDisk *pb.PersistentState
	writeState := func() {
		oldest, blocks := bl.GetPersistentState()
		data, err := proto.Marshal(&pb.PersistentState{OldestEpochId: oldest, Blocks: blocks})
		if err != nil {
			fail("marshal: %v", err)
		}
		stateOnDisk = &pb.PersistentState{}
		if err := proto.Unmarshal(data, stateOnDisk); err != nil {
			fail("unmarshal: %v", err)
		}
		bl.NotifyPersistentStateWritten()
	}

	// Two blocks, one object in each, everything synchronised.
	if err := bl.PushBack(); err != nil {
		fail("PushBack: %v", err)
	}
	upload(bl, lra, 0, o1)
	if err := bl.PushBack(); err != nil {
		fail("PushBack: %v", err)
	}
	upload(bl, lra, 1, o2)
	bl.NotifySyncStarting(false)
	dataDev.Sync()
	bl.NotifySyncCompleted()
	writeState()

	// O3 is uploaded, then the periodic syncer starts a data sync.
	upload(bl, lra, 1, o3)
	bl.NotifySyncStarting(false)
	dataDev.Sync() // the flush the syncer is waiting for; covers O1..O3

	// While the syncer still waits for the sync to return: O4 is
	// uploaded (its data is only in the device's write cache) and
	// the oldest block is rotated out.
	upload(bl, lra, 1, o4)
	bl.PopFront()

	// The sync returns; the syncer exposes what it synchronised and
	// writes the state file.
	bl.NotifySyncCompleted()
	writeState()

	// Crash: data writes since the last completed sync are lost, all
	// index record writes happened to reach the medium.
	postCrashData := newMemDevice(dataDev.durable)
	postCrashIndex := newMemDevice(indexDev.current)

	// Restart.
	allocator2 := local.NewBlockDeviceBackedBlockAllocator(postCrashData, rawReadBufferFactory{}, sectorSize, blockSectors, blockCount, "demo")
	bl2, restored := local.NewPersistentBlockList(allocator2, stateOnDisk.OldestEpochId, stateOnDisk.Blocks)
	lra2 := local.NewBlockDeviceBackedLocationRecordArray(postCrashIndex, bl2)
	fmt.Printf("restart: %d block(s) restored\n", restored)

	bad := 0
	for _, o := range objects {
		record, err := lra2.Get(o.slot)
		if err == local.ErrLocationRecordInvalid {
			fmt.Printf("%s: absent after restart\n", o.name)
			continue
		} else if err != nil {
			fail("index read of %s: %v", o.name, err)
		}
		if record.RecordKey.Key != o.key() {
			fmt.Printf("%s: slot holds another key\n", o.name)
			continue
		}
		got, err := bl2.Get(record.Location.BlockIndex, o.digest(), record.Location.OffsetBytes, record.Location.SizeBytes, func(bool) {}).ToByteSlice(1 << 20)
		if err != nil {
			fail("read of %s: %v", o.name, err)
		}
		if bytes.Equal(got, o.data) {
			fmt.Printf("%s: present with the uploaded bytes\n", o.name)
		} else {
			fmt.Printf("%s: PRESENT WITH WRONG BYTES: got %q, uploaded %q\n", o.name, got, o.data)
			bad++
		}
	}
	if bad > 0 {
		fail("%d object(s) served with wrong bytes after crash and restart", bad)
	}
	fmt.Println("OK")
}
