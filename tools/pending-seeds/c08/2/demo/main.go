// Demo for property C08 (detected corruption is quarantined; objects in
// newer blocks are unaffected).
//
// A CAS store on a (fake, in-memory) block device is filled in such a
// way that the layout is:
//
//	old:     block 0 {A, A2}, block 1 {B, B2}
//	current: block 2 {C}
//	new:     block 3 {D, 192 bytes of free space}
//
// Then A's bytes are corrupted on the medium and A is read. The read
// must fail with INTERNAL and block 0 is quarantined (it is physically
// released by the next allocation). B, B2, C and D live in newer
// blocks and must remain readable and present, also when reading them
// requires them to be refreshed (copied from an "old" into a "new"
// block), which is the first operation that allocates space after the
// detection.
package main

import (
	"bytes"
	"context"
	"crypto/sha256"
	"encoding/hex"
	"fmt"
	"os"
	"sync"

	remoteexecution "github.com/bazelbuild/remote-apis/build/bazel/remote/execution/v2"
	"github.com/buildbarn/bb-storage/pkg/blobstore"
	"github.com/buildbarn/bb-storage/pkg/blobstore/buffer"
	"github.com/buildbarn/bb-storage/pkg/blobstore/local"
	"github.com/buildbarn/bb-storage/pkg/digest"

	"google.golang.org/grpc/codes"
	"google.golang.org/grpc/status"
)

// memDevice is a trivial in-memory BlockDevice.
type memDevice struct {
	lock sync.RWMutex
	data []byte
}

func (d *memDevice) ReadAt(p []byte, off int64) (int, error) {
	d.lock.RLock()
	defer d.lock.RUnlock()
	return copy(p, d.data[off:]), nil
}

func (d *memDevice) WriteAt(p []byte, off int64) (int, error) {
	d.lock.Lock()
	defer d.lock.Unlock()
	return copy(d.data[off:], p), nil
}

func (d *memDevice) Sync() error  { return nil }
func (d *memDevice) Close() error { return nil }

// corrupt flips bits of the (single) stored copy of a blob.
func (d *memDevice) corrupt(contents []byte) {
	d.lock.Lock()
	defer d.lock.Unlock()
	off := bytes.Index(d.data, contents)
	if off < 0 {
		panic("blob not found on the medium")
	}
	if bytes.Index(d.data[off+1:], contents) >= 0 {
		panic("blob stored more than once")
	}
	for i := 5; i < 20; i++ {
		d.data[off+i] ^= 0xa5
	}
}

type errorLogger struct {
	lock     sync.Mutex
	messages []string
}

func (l *errorLogger) Log(err error) {
	l.lock.Lock()
	l.messages = append(l.messages, err.Error())
	l.lock.Unlock()
}

type blob struct {
	name   string
	data   []byte
	digest digest.Digest
}

func newBlob(name string, sizeBytes int) blob {
	data := make([]byte, sizeBytes)
	seed := sha256.Sum256([]byte(name))
	for i := range data {
		if i%sha256.Size == 0 {
			seed = sha256.Sum256(seed[:])
		}
		data[i] = seed[i%sha256.Size]
	}
	sum := sha256.Sum256(data)
	return blob{
		name:   name,
		data:   data,
		digest: digest.MustNewDigest("", remoteexecution.DigestFunction_SHA256, hex.EncodeToString(sum[:]), int64(sizeBytes)),
	}
}

var failures int

func fail(format string, args ...interface{}) {
	failures++
	fmt.Printf("FAIL: "+format+"\n", args...)
}

func main() {
	const (
		sectorSizeBytes  = 16
		blockSectorCount = 16
		blockSizeBytes   = sectorSizeBytes * blockSectorCount // 256
		blockCount       = 10
		oldBlocks        = 2
		currentBlocks    = 1
		newBlocks        = 1
	)
	ctx := context.Background()
	device := &memDevice{data: make([]byte, blockSizeBytes*blockCount)}
	logger := &errorLogger{}

	blockAllocator := local.NewBlockDeviceBackedBlockAllocator(device, blobstore.CASReadBufferFactory, sectorSizeBytes, blockSectorCount, blockCount, "cas")
	blockList := local.NewVolatileBlockList(blockAllocator)
	locationBlobMap := local.NewOldCurrentNewLocationBlobMap(
		blockList,
		local.NewImmutableBlockListGrowthPolicy(currentBlocks, newBlocks),
		logger, "cas", blockSizeBytes, oldBlocks, newBlocks, 0)
	const records = 1021
	keyLocationMap := local.NewHashingKeyLocationMap(
		local.NewInMemoryLocationRecordArray(records, locationBlobMap),
		records, 0x1234, 16, 64, "cas")
	var lock sync.RWMutex
	ba := local.NewFlatBlobAccess(keyLocationMap, locationBlobMap, digest.KeyWithoutInstance, &lock, "cas", nil)

	put := func(b blob) {
		if err := ba.Put(ctx, b.digest, buffer.NewValidatedBufferFromByteSlice(b.data)); err != nil {
			fmt.Printf("FAIL: Put(%s): %v\n", b.name, err)
			os.Exit(2)
		}
	}
	get := func(b blob) ([]byte, error) {
		return ba.Get(ctx, b.digest).ToByteSlice(10000)
	}
	missing := func(bs ...blob) map[string]bool {
		sb := digest.NewSetBuilder(0)
		for _, b := range bs {
			sb.Add(b.digest)
		}
		m, err := ba.FindMissing(ctx, sb.Build())
		if err != nil {
			fail("FindMissing: %v", err)
		}
		r := map[string]bool{}
		for _, b := range bs {
			for _, d := range m.Items() {
				if d == b.digest {
					r[b.name] = true
				}
			}
		}
		return r
	}

	// Every group of blobs below fills exactly one block, except
	// for D, which leaves room for refreshing A and B.
	a, a2 := newBlob("A", 64), newBlob("A2", 192)
	b, b2 := newBlob("B", 64), newBlob("B2", 192)
	c := newBlob("C", 256)
	d := newBlob("D", 64)
	for _, x := range []blob{a, a2, b, b2, c, d} {
		put(x)
	}

	// Corrupt A on the medium and read it.
	device.corrupt(a.data)
	if _, err := get(a); status.Code(err) != codes.Internal {
		fail("Get(A) on corrupted data returned %v, expected INTERNAL", err)
	}
	if len(logger.messages) != 1 {
		fail("expected exactly one logged data integrity error after reading A, got %q", logger.messages)
	}

	// A's block is gone, everything newer is unaffected. Reading B
	// refreshes it: space is allocated in the "new" block, which is
	// also the moment at which A's block is physically released.
	if _, err := get(a); status.Code(err) != codes.NotFound {
		fail("second Get(A) returned %v, expected NOT_FOUND", err)
	}
	if data, err := get(b); err != nil {
		fail("Get(B) (block newer than the corrupted one) failed: %v", err)
	} else if !bytes.Equal(data, b.data) {
		fail("Get(B) returned wrong data")
	}
	for _, x := range []blob{b, b2, c, d} {
		if data, err := get(x); err != nil {
			fail("Get(%s) (block newer than the corrupted one) failed: %v", x.name, err)
		} else if !bytes.Equal(data, x.data) {
			fail("Get(%s) returned wrong data", x.name)
		}
	}
	m := missing(a, a2, b, b2, c, d)
	for _, x := range []blob{a, a2} {
		if !m[x.name] {
			fail("FindMissing reports %s as present although its block was quarantined", x.name)
		}
	}
	for _, x := range []blob{b, b2, c, d} {
		if m[x.name] {
			fail("FindMissing reports %s as missing although it is stored in a block newer than the corrupted one", x.name)
		}
	}
	if len(logger.messages) != 1 {
		fail("data integrity errors were logged although only A was corrupted: %q", logger.messages)
	}

	// The store keeps accepting uploads.
	e := newBlob("E", 64)
	put(e)
	for _, x := range []blob{e, c, d} {
		if data, err := get(x); err != nil || !bytes.Equal(data, x.data) {
			fail("Get(%s) after upload: %v", x.name, err)
		}
	}

	if failures > 0 {
		fmt.Printf("%d failures; logged: %q\n", failures, logger.messages)
		os.Exit(1)
	}
	fmt.Println("OK")
}
