// Demo for property C08 (detected corruption is quarantined).
//
// A CAS store on a (fake, in-memory) block device is filled in such a
// way that the layout is:
//
//	old:     block 0 {A, A2}, block 1 {B, B2}
//	current: block 2 {C1, C2}
//	new:     block 3 {D}
//
// Then C1's bytes are corrupted on the medium and C1 is read. The read
// must fail with INTERNAL. From that moment on, nothing that is stored
// in block 2 or older may be returned or reported present (C2 lives in
// the very same block as C1), while D (newer block) is unaffected.
// Finally, uploads must still be accepted.
package main

import (
	"bytes"
	"context"
	"crypto/sha256"
	"encoding/hex"
	"fmt"
	"os"
	"sync"

	remoteexecution "github.com/bazelbuild/remote-apis/build/bazel/remote/execution/v2"
	"github.com/buildbarn/bb-storage/pkg/blobstore"
	"github.com/buildbarn/bb-storage/pkg/blobstore/buffer"
	"github.com/buildbarn/bb-storage/pkg/blobstore/local"
	"github.com/buildbarn/bb-storage/pkg/digest"

	"google.golang.org/grpc/codes"
	"google.golang.org/grpc/status"
)

// memDevice is a trivial in-memory BlockDevice.
type memDevice struct {
	lock sync.RWMutex
	data []byte
}

func (d *memDevice) ReadAt(p []byte, off int64) (int, error) {
	d.lock.RLock()
	defer d.lock.RUnlock()
	return copy(p, d.data[off:]), nil
}

func (d *memDevice) WriteAt(p []byte, off int64) (int, error) {
	d.lock.Lock()
	defer d.lock.Unlock()
	return copy(d.data[off:], p), nil
}

func (d *memDevice) Sync() error  { return nil }
func (d *memDevice) Close() error { return nil }

// corrupt flips bits of the (single) stored copy of a blob.
func (d *memDevice) corrupt(contents []byte) {
	d.lock.Lock()
	defer d.lock.Unlock()
	off := bytes.Index(d.data, contents)
	if off < 0 {
		panic("blob not found on the medium")
	}
	if bytes.Index(d.data[off+1:], contents) >= 0 {
		panic("blob stored more than once")
	}
	for i := 5; i < 20; i++ {
		d.data[off+i] ^= 0xa5
	}
}

type errorLogger struct {
	lock     sync.Mutex
	messages []string
}

func (l *errorLogger) Log(err error) {
	l.lock.Lock()
	l.messages = append(l.messages, err.Error())
	l.lock.Unlock()
}

type blob struct {
	name   string
	data   []byte
	digest digest.Digest
}

func newBlob(name string, sizeBytes int) blob {
	data := make([]byte, sizeBytes)
	seed := sha256.Sum256([]byte(name))
	for i := range data {
		if i%sha256.Size == 0 {
			seed = sha256.Sum256(seed[:])
		}
		data[i] = seed[i%sha256.Size]
	}
	sum := sha256.Sum256(data)
	return blob{
		name:   name,
		data:   data,
		digest: digest.MustNewDigest("", remoteexecution.DigestFunction_SHA256, hex.EncodeToString(sum[:]), int64(sizeBytes)),
	}
}

var failures int

func fail(format string, args ...interface{}) {
	failures++
	fmt.Printf("FAIL: "+format+"\n", args...)
}

func main() {
	const (
		sectorSizeBytes  = 16
		blockSectorCount = 16
		blockSizeBytes   = sectorSizeBytes * blockSectorCount // 256
		blockCount       = 10
		oldBlocks        = 2
		currentBlocks    = 1
		newBlocks        = 1
	)
	ctx := context.Background()
	device := &memDevice{data: make([]byte, blockSizeBytes*blockCount)}
	logger := &errorLogger{}

	blockAllocator := local.NewBlockDeviceBackedBlockAllocator(device, blobstore.CASReadBufferFactory, sectorSizeBytes, blockSectorCount, blockCount, "cas")
	blockList := local.NewVolatileBlockList(blockAllocator)
	locationBlobMap := local.NewOldCurrentNewLocationBlobMap(
		blockList,
		local.NewImmutableBlockListGrowthPolicy(currentBlocks, newBlocks),
		logger, "cas", blockSizeBytes, oldBlocks, newBlocks, 0)
	const records = 1021
	keyLocationMap := local.NewHashingKeyLocationMap(
		local.NewInMemoryLocationRecordArray(records, locationBlobMap),
		records, 0x1234, 16, 64, "cas")
	var lock sync.RWMutex
	ba := local.NewFlatBlobAccess(keyLocationMap, locationBlobMap, digest.KeyWithoutInstance, &lock, "cas", nil)

	put := func(b blob) {
		if err := ba.Put(ctx, b.digest, buffer.NewValidatedBufferFromByteSlice(b.data)); err != nil {
			fmt.Printf("FAIL: Put(%s): %v\n", b.name, err)
			os.Exit(2)
		}
	}
	get := func(b blob) ([]byte, error) {
		return ba.Get(ctx, b.digest).ToByteSlice(10000)
	}
	missing := func(bs ...blob) map[string]bool {
		sb := digest.NewSetBuilder(0)
		for _, b := range bs {
			sb.Add(b.digest)
		}
		m, err := ba.FindMissing(ctx, sb.Build())
		if err != nil {
			fail("FindMissing: %v", err)
		}
		r := map[string]bool{}
		for _, b := range bs {
			for _, d := range m.Items() {
				if d == b.digest {
					r[b.name] = true
				}
			}
		}
		return r
	}

	// Every pair of blobs below fills exactly one block.
	a, a2 := newBlob("A", 64), newBlob("A2", 192)
	b, b2 := newBlob("B", 64), newBlob("B2", 192)
	c1, c2 := newBlob("C1", 128), newBlob("C2", 128)
	d := newBlob("D", 64)
	for _, x := range []blob{a, a2, b, b2, c1, c2, d} {
		put(x)
	}

	// Sanity: the objects of the "current" and "new" blocks can be
	// read back (reading A/B would refresh them; not needed here).
	for _, x := range []blob{c1, c2, d} {
		if data, err := get(x); err != nil || !bytes.Equal(data, x.data) {
			fail("initial Get(%s): %v", x.name, err)
		}
	}

	// Corrupt C1 on the medium and read it.
	device.corrupt(c1.data)
	if _, err := get(c1); status.Code(err) != codes.Internal {
		fail("Get(C1) on corrupted data returned %v, expected INTERNAL", err)
	}

	// From here on nothing in C1's block or older may be served.
	for _, x := range []blob{c2, c1, b, b2, a, a2} {
		data, err := get(x)
		if err == nil {
			fail("Get(%s) returned %d bytes although its block was quarantined", x.name, len(data))
		} else if status.Code(err) != codes.NotFound {
			fail("Get(%s) returned %v, expected NOT_FOUND", x.name, err)
		}
	}
	m := missing(a, a2, b, b2, c1, c2, d)
	for _, x := range []blob{a, a2, b, b2, c1, c2} {
		if !m[x.name] {
			fail("FindMissing reports %s as present although its block was quarantined", x.name)
		}
	}
	if m[d.name] {
		fail("FindMissing reports D as missing although it is stored in a newer block")
	}
	if data, err := get(d); err != nil || !bytes.Equal(data, d.data) {
		fail("Get(D) (newer block): %v", err)
	}

	// The store keeps accepting uploads.
	e := newBlob("E", 64)
	put(e)
	if data, err := get(e); err != nil || !bytes.Equal(data, e.data) {
		fail("Get(E) after quarantine: %v", err)
	}
	if data, err := get(d); err != nil || !bytes.Equal(data, d.data) {
		fail("Get(D) after upload: %v", err)
	}
	for _, x := range []blob{c2, c1, b, a} {
		if _, err := get(x); status.Code(err) != codes.NotFound {
			fail("Get(%s) after upload returned %v, expected NOT_FOUND", x.name, err)
		}
	}

	if failures > 0 {
		fmt.Printf("%d failures; logged: %q\n", failures, logger.messages)
		os.Exit(1)
	}
	fmt.Println("OK")
}
