// Demo for seed C04/1: a block that is popped from a PersistentBlockList
// must not be handed out again by the BlockAllocator before a persistent
// state that no longer lists it has been written.
//
// Scenario (single goroutine, fully deterministic):
//
//  1. Three blocks A, B, C are pushed. A blob is written into A. The epoch
//     that is created for it is attached to the last block (C), so A and B
//     have no epochs of their own.
//  2. Data is synchronized and the persistent state is "written to disk".
//     It lists A, B and C.
//  3. Two rotations (PushBack + PopFront) happen WITHOUT the persistent
//     state being rewritten in between (the syncer is simply slow).
//
// On a correct tree the second PushBack fails with Unavailable, because the
// region of A may only be reused once a state without A is on disk. The
// demo then writes the state and checks that the region becomes available
// (nothing is leaked).
package main

import (
	"bytes"
	"crypto/sha256"
	"encoding/hex"
	"fmt"
	"io"
	"os"

	remoteexecution "github.com/bazelbuild/remote-apis/build/bazel/remote/execution/v2"
	"github.com/buildbarn/bb-storage/pkg/blobstore"
	"github.com/buildbarn/bb-storage/pkg/blobstore/buffer"
	"github.com/buildbarn/bb-storage/pkg/blobstore/local"
	"github.com/buildbarn/bb-storage/pkg/digest"
	pb "github.com/buildbarn/bb-storage/pkg/proto/blobstore/local"

	"google.golang.org/protobuf/proto"
)

const (
	sectorSizeBytes  = 16
	blockSectorCount = 4
	blockCount       = 4
)

// memDevice is a trivial in-memory block device.
type memDevice struct {
	data []byte
}

func (d *memDevice) ReadAt(p []byte, off int64) (int, error) {
	if off >= int64(len(d.data)) {
		return 0, io.EOF
	}
	n := copy(p, d.data[off:])
	if n < len(p) {
		return n, io.EOF
	}
	return n, nil
}

func (d *memDevice) WriteAt(p []byte, off int64) (int, error) {
	if off+int64(len(p)) > int64(len(d.data)) {
		return 0, fmt.Errorf("write beyond end of device")
	}
	return copy(d.data[off:], p), nil
}

func (d *memDevice) Sync() error  { return nil }
func (d *memDevice) Close() error { return nil }

// checkingAllocator forwards to the real allocator, but verifies that no
// region is handed out that is still listed in the persistent state that
// is currently on "disk".
type checkingAllocator struct {
	base       local.BlockAllocator
	onDisk     []*pb.BlockState
	violations []string
}

func (a *checkingAllocator) NewBlock() (local.Block, *pb.BlockLocation, error) {
	block, location, err := a.base.NewBlock()
	if err == nil {
		for i, blockState := range a.onDisk {
			if proto.Equal(blockState.BlockLocation, location) {
				a.violations = append(a.violations, fmt.Sprintf(
					"NewBlock() handed out region at offset %d, which is still entry %d of the persistent state on disk",
					location.OffsetBytes, i))
			}
		}
	}
	return block, location, err
}

func (a *checkingAllocator) NewBlockAtLocation(location *pb.BlockLocation, writeOffsetBytes int64) (local.Block, bool) {
	return a.base.NewBlockAtLocation(location, writeOffsetBytes)
}

func casDigest(data []byte) digest.Digest {
	sum := sha256.Sum256(data)
	return digest.MustNewDigest("", remoteexecution.DigestFunction_SHA256, hex.EncodeToString(sum[:]), int64(len(data)))
}

func put(bl *local.PersistentBlockList, index int, data []byte) (int64, error) {
	return bl.Put(index, int64(len(data)))(buffer.NewValidatedBufferFromByteSlice(data))()
}

func main() {
	device := &memDevice{data: make([]byte, sectorSizeBytes*blockSectorCount*blockCount)}
	allocator := &checkingAllocator{
		base: local.NewBlockDeviceBackedBlockAllocator(device, blobstore.CASReadBufferFactory, sectorSizeBytes, blockSectorCount, blockCount, "demo"),
	}
	bl, _ := local.NewPersistentBlockList(allocator, 0, nil)

	// writeState simulates PeriodicSyncer.writePersistentState()
	// with a store that always succeeds.
	var onDiskOldestEpochID uint32
	writeState := func() {
		oldestEpochID, blocks := bl.GetPersistentState()
		onDiskOldestEpochID = oldestEpochID
		allocator.onDisk = blocks
		bl.NotifyPersistentStateWritten()
	}
	fail := func(format string, args ...interface{}) {
		fmt.Printf("FAIL: "+format+"\n", args...)
		os.Exit(1)
	}

	// Step 1: blocks A, B, C and a blob in A.
	for i := 0; i < 3; i++ {
		if err := bl.PushBack(); err != nil {
			fail("initial PushBack: %s", err)
		}
	}
	blobA := []byte("contents of the blob in A")
	offsetA, err := put(bl, 0, blobA)
	if err != nil {
		fail("Put into A: %s", err)
	}

	// Step 2: synchronize data, write persistent state.
	bl.NotifySyncStarting(false)
	bl.NotifySyncCompleted()
	writeState()
	if len(allocator.onDisk) != 3 {
		fail("expected the persistent state to list 3 blocks, got %d", len(allocator.onDisk))
	}
	fmt.Printf("persistent state on disk lists regions at offsets")
	for _, blockState := range allocator.onDisk {
		fmt.Printf(" %d", blockState.BlockLocation.OffsetBytes)
	}
	fmt.Println()

	// Step 3: two rotations without rewriting the state.
	if err := bl.PushBack(); err != nil {
		fail("first rotation PushBack: %s", err)
	}
	bl.PopFront() // A
	err = bl.PushBack()
	if err != nil {
		// Correct behaviour: A is not reusable yet. Rewriting
		// the state must make it reusable.
		fmt.Printf("second rotation has to wait for the persistent state: %s\n", err)
		writeState()
		if err := bl.PushBack(); err != nil {
			fail("region of A remains unavailable after the persistent state was rewritten (leak): %s", err)
		}
	}
	bl.PopFront() // B

	if len(allocator.violations) > 0 {
		// Show what this means after a crash: fill the reused
		// region with other data, then restart from what is on
		// disk.
		if _, err := put(bl, 2, bytes.Repeat([]byte{'X'}, 40)); err != nil {
			fail("Put into reused block: %s", err)
		}
		restartedAllocator := local.NewBlockDeviceBackedBlockAllocator(device, blobstore.CASReadBufferFactory, sectorSizeBytes, blockSectorCount, blockCount, "demo")
		restarted, restored := local.NewPersistentBlockList(restartedAllocator, onDiskOldestEpochID, allocator.onDisk)
		fmt.Printf("after a crash, %d blocks are restored from the persistent state\n", restored)
		if restored > 0 {
			data, err := restarted.Get(0, casDigest(blobA), offsetA, int64(len(blobA)), func(dataIsValid bool) {}).ToByteSlice(1000)
			if err != nil {
				fmt.Printf("reading the blob in A after the restart: %s\n", err)
			} else if !bytes.Equal(data, blobA) {
				fmt.Printf("reading the blob in A after the restart returns %q\n", data)
			}
		}
		for _, v := range allocator.violations {
			fmt.Println("FAIL:", v)
		}
		os.Exit(1)
	}

	// Nothing may have been leaked either: with everything written
	// out, exactly one of the four regions is unused.
	writeState()
	if _, _, err := allocator.base.NewBlock(); err != nil {
		fail("expected one free region at the end: %s", err)
	}
	if _, _, err := allocator.base.NewBlock(); err == nil {
		fail("expected only one free region at the end")
	}
	fmt.Println("OK")
}
