// Demo for seed C04/2: a read that fails midway must not leave the block
// it was reading from pinned.
//
// A small flat Action Cache is built out of the repository's own parts:
// FlatBlobAccess + HashingKeyLocationMap + OldCurrentNewLocationBlobMap +
// VolatileBlockList + BlockDeviceBackedBlockAllocator (ACReadBufferFactory)
// on top of an in-memory block device that can be told to fail reads.
// The device has room for four blocks: old=1, current=1, new=1 and one
// spare block that is needed during every rotation.
//
//  1. One ActionResult is stored and read back.
//  2. The device reports an I/O error for exactly one read of that entry.
//     The Get() fails, as it should.
//  3. Lots of other entries are written, so that the blocks rotate many
//     times.
//
// Once the failed reader is done, its block must become reusable after it
// has been rotated out. If the reader is never closed, the region is lost
// for good, the spare block is gone and every later rotation fails with
// "No unused blocks available".
package main

import (
	"context"
	"errors"
	"fmt"
	"io"
	"os"
	"sync"

	remoteexecution "github.com/bazelbuild/remote-apis/build/bazel/remote/execution/v2"
	"github.com/buildbarn/bb-storage/pkg/blobstore"
	"github.com/buildbarn/bb-storage/pkg/blobstore/buffer"
	"github.com/buildbarn/bb-storage/pkg/blobstore/local"
	"github.com/buildbarn/bb-storage/pkg/capabilities"
	"github.com/buildbarn/bb-storage/pkg/digest"
	"github.com/buildbarn/bb-storage/pkg/util"
)

const (
	sectorSizeBytes  = 16
	blockSectorCount = 8
	blockCount       = 4 // old + current + new + spare
)

// faultyDevice is an in-memory block device of which reads can be made
// to fail on request.
type faultyDevice struct {
	data          []byte
	failNextReads int
}

func (d *faultyDevice) ReadAt(p []byte, off int64) (int, error) {
	if d.failNextReads > 0 {
		d.failNextReads--
		return 0, errors.New("input/output error")
	}
	if off >= int64(len(d.data)) {
		return 0, io.EOF
	}
	n := copy(p, d.data[off:])
	if n < len(p) {
		return n, io.EOF
	}
	return n, nil
}

func (d *faultyDevice) WriteAt(p []byte, off int64) (int, error) {
	if off+int64(len(p)) > int64(len(d.data)) {
		return 0, errors.New("write beyond end of device")
	}
	return copy(d.data[off:], p), nil
}

func (d *faultyDevice) Sync() error  { return nil }
func (d *faultyDevice) Close() error { return nil }

func actionDigest(i int) digest.Digest {
	return digest.MustNewDigest("", remoteexecution.DigestFunction_SHA256, fmt.Sprintf("%064x", i), 123)
}

func main() {
	device := &faultyDevice{data: make([]byte, sectorSizeBytes*blockSectorCount*blockCount)}
	blockAllocator := local.NewBlockDeviceBackedBlockAllocator(device, blobstore.ACReadBufferFactory, sectorSizeBytes, blockSectorCount, blockCount, "demo")
	blockList := local.NewVolatileBlockList(blockAllocator)
	locationBlobMap := local.NewOldCurrentNewLocationBlobMap(
		blockList,
		local.NewMutableBlockListGrowthPolicy(1),
		util.DefaultErrorLogger,
		"demo",
		sectorSizeBytes*blockSectorCount,
		/* oldBlocksCount = */ 1,
		/* newBlocksCount = */ 1,
		/* initialBlocksCount = */ 0)
	var lock sync.RWMutex
	keyLocationMap := local.NewHashingKeyLocationMap(
		local.NewInMemoryLocationRecordArray(1021, locationBlobMap),
		1021, 0x1234, 16, 64, "demo")
	ac := local.NewFlatBlobAccess(keyLocationMap, locationBlobMap, digest.KeyWithInstance, &lock, "demo",
		capabilities.NewStaticProvider(&remoteexecution.ServerCapabilities{}))
	ctx := context.Background()

	fail := func(format string, args ...interface{}) {
		fmt.Printf("FAIL: "+format+"\n", args...)
		os.Exit(1)
	}
	put := func(i int) error {
		return ac.Put(ctx, actionDigest(i), buffer.NewProtoBufferFromProto(&remoteexecution.ActionResult{
			ExitCode:  int32(i),
			StdoutRaw: []byte("some output of the action"),
		}, buffer.UserProvided))
	}
	get := func(i int) (int32, error) {
		m, err := ac.Get(ctx, actionDigest(i)).ToProto(&remoteexecution.ActionResult{}, 10000)
		if err != nil {
			return 0, err
		}
		return m.(*remoteexecution.ActionResult).ExitCode, nil
	}

	// Step 1: store one entry, read it back.
	if err := put(1); err != nil {
		fail("storing the first entry: %s", err)
	}
	if exitCode, err := get(1); err != nil || exitCode != 1 {
		fail("reading the first entry back: %d, %v", exitCode, err)
	}

	// Step 2: a single read of that entry hits an I/O error.
	device.failNextReads = 1
	if _, err := get(1); err == nil {
		fail("the read was supposed to fail with an I/O error")
	} else {
		fmt.Printf("read with injected fault failed as expected: %s\n", err)
	}
	if device.failNextReads != 0 {
		fail("the injected fault was not consumed")
	}
	if exitCode, err := get(1); err != nil || exitCode != 1 {
		fail("reading the first entry once more: %d, %v", exitCode, err)
	}

	// Step 3: many more writes, so that blocks keep rotating.
	for i := 2; i < 200; i++ {
		if err := put(i); err != nil {
			fail("storing entry %d (after %d bytes of a %d byte device): %s\n"+
				"      the block that the failed read was reading from was never handed back to the allocator",
				i, (i-1)*32, len(device.data), err)
		}
		if exitCode, err := get(i); err != nil || exitCode != int32(i) {
			fail("reading entry %d back: %d, %v", i, exitCode, err)
		}
	}
	fmt.Println("OK")
}
