// Demonstration for property C10 (hierarchical CAS: objects are visible
// exactly under the uploader's instance name subtree).
//
// Two sibling instance names whose pathname components concatenate to
// the same string ("ab" and "a/b") must not be able to see each other's
// objects.
package main

import (
	"context"
	"crypto/sha256"
	"encoding/hex"
	"fmt"
	"os"
	"sync"

	remoteexecution "github.com/bazelbuild/remote-apis/build/bazel/remote/execution/v2"
	"github.com/buildbarn/bb-storage/pkg/blobstore"
	"github.com/buildbarn/bb-storage/pkg/blobstore/buffer"
	"github.com/buildbarn/bb-storage/pkg/blobstore/local"
	"github.com/buildbarn/bb-storage/pkg/digest"
	"github.com/buildbarn/bb-storage/pkg/util"

	"google.golang.org/grpc/codes"
	"google.golang.org/grpc/status"
)

func newStore() blobstore.BlobAccess {
	var lock sync.RWMutex
	blockList := local.NewVolatileBlockList(local.NewInMemoryBlockAllocator(1 << 16))
	locationBlobMap := local.NewOldCurrentNewLocationBlobMap(
		blockList,
		local.NewImmutableBlockListGrowthPolicy(4, 2),
		util.DefaultErrorLogger,
		"cas",
		1<<16,
		2,
		2,
		0)
	const records = 10007
	keyLocationMap := local.NewHashingKeyLocationMap(
		local.NewInMemoryLocationRecordArray(records, locationBlobMap),
		records,
		0x1234567,
		16,
		64,
		"cas")
	return local.NewHierarchicalCASBlobAccess(keyLocationMap, locationBlobMap, &lock, nil)
}

func digestOf(instanceName string, data []byte) digest.Digest {
	sum := sha256.Sum256(data)
	return digest.MustNewDigest(instanceName, remoteexecution.DigestFunction_SHA256, hex.EncodeToString(sum[:]), int64(len(data)))
}

var failures int

func fail(format string, args ...interface{}) {
	failures++
	fmt.Printf("VIOLATION: "+format+"\n", args...)
}

// expectVisible checks that both Get() and FindMissing() agree on
// whether the object is visible under an instance name.
func expectVisible(ba blobstore.BlobAccess, instanceName string, data []byte, want bool, why string) {
	ctx := context.Background()
	d := digestOf(instanceName, data)

	got, err := ba.Get(ctx, d).ToByteSlice(1 << 20)
	if want {
		if err != nil {
			fail("Get(%q) of %q failed with %v, but %s", instanceName, data, err, why)
		} else if string(got) != string(data) {
			fail("Get(%q) of %q returned %q", instanceName, data, got)
		}
	} else {
		if err == nil {
			fail("Get(%q) returned %q, but %s", instanceName, got, why)
		} else if status.Code(err) != codes.NotFound {
			fail("Get(%q) of %q failed with %v instead of NOT_FOUND", instanceName, data, err)
		}
	}

	missing, err := ba.FindMissing(ctx, d.ToSingletonSet())
	if err != nil {
		fail("FindMissing(%q) of %q failed with %v", instanceName, data, err)
		return
	}
	if present := missing.Empty(); present != want {
		fail("FindMissing(%q) of %q reports present=%v, but %s", instanceName, data, present, why)
	}
}

func put(ba blobstore.BlobAccess, instanceName string, data []byte) {
	d := digestOf(instanceName, data)
	if err := ba.Put(context.Background(), d, buffer.NewCASBufferFromByteSlice(d, data, buffer.UserProvided)); err != nil {
		fmt.Printf("unexpected: Put(%q) of %q failed: %v\n", instanceName, data, err)
		os.Exit(2)
	}
}

func main() {
	ba := newStore()

	// One object is uploaded under "ab", another one under "a/b".
	// Neither name is a component-wise prefix of the other.
	first := []byte("object that was only ever uploaded under instance name ab")
	second := []byte("object that was only ever uploaded under instance name a/b")
	put(ba, "ab", first)
	put(ba, "a/b", second)

	// The uploaders and everything below them see their own object.
	expectVisible(ba, "ab", first, true, "it was uploaded under \"ab\"")
	expectVisible(ba, "ab/c", first, true, "it was uploaded under its parent \"ab\"")
	expectVisible(ba, "a/b", second, true, "it was uploaded under \"a/b\"")
	expectVisible(ba, "a/b/c", second, true, "it was uploaded under its parent \"a/b\"")

	// Parents and unrelated names see nothing.
	expectVisible(ba, "", first, false, "it was only uploaded under \"ab\"")
	expectVisible(ba, "a", first, false, "it was only uploaded under \"ab\"")
	expectVisible(ba, "a", second, false, "it was only uploaded under \"a/b\"")
	expectVisible(ba, "abc", first, false, "it was only uploaded under \"ab\"")

	// The two subtrees must not see each other's objects.
	expectVisible(ba, "a/b", first, false, "it was only uploaded under \"ab\", which is not a parent of \"a/b\"")
	expectVisible(ba, "a/b/c", first, false, "it was only uploaded under \"ab\", which is not a parent of \"a/b/c\"")
	expectVisible(ba, "ab", second, false, "it was only uploaded under \"a/b\", which is not a parent of \"ab\"")
	expectVisible(ba, "ab/c", second, false, "it was only uploaded under \"a/b\", which is not a parent of \"ab/c\"")

	if failures > 0 {
		fmt.Printf("%d violation(s) of hierarchical instance name isolation\n", failures)
		os.Exit(1)
	}
	fmt.Println("OK: objects are visible exactly under the uploaders' instance name subtrees")
}
