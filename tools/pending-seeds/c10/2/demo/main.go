// Demonstration for property C10 (hierarchical CAS: uploading a digest
// that already exists under another instance name grants access only if
// the uploader supplies the complete, valid content).
//
// An object is stored under instance name "alice". A client of the
// unrelated instance name "mallory", who only knows the digest of the
// object, "uploads" it through a stream (the way ByteStream.Write()
// uploads arrive) without actually possessing the data. Such an upload
// must be rejected, and it must not make the object visible to
// "mallory".
package main

import (
	"context"
	"crypto/sha256"
	"encoding/hex"
	"fmt"
	"io"
	"os"
	"sync"

	remoteexecution "github.com/bazelbuild/remote-apis/build/bazel/remote/execution/v2"
	"github.com/buildbarn/bb-storage/pkg/blobstore"
	"github.com/buildbarn/bb-storage/pkg/blobstore/buffer"
	"github.com/buildbarn/bb-storage/pkg/blobstore/local"
	"github.com/buildbarn/bb-storage/pkg/digest"
	"github.com/buildbarn/bb-storage/pkg/util"

	"google.golang.org/grpc/codes"
	"google.golang.org/grpc/status"
)

func newStore() blobstore.BlobAccess {
	var lock sync.RWMutex
	blockList := local.NewVolatileBlockList(local.NewInMemoryBlockAllocator(1 << 16))
	locationBlobMap := local.NewOldCurrentNewLocationBlobMap(
		blockList,
		local.NewImmutableBlockListGrowthPolicy(4, 2),
		util.DefaultErrorLogger,
		"cas",
		1<<16,
		2,
		2,
		0)
	const records = 10007
	keyLocationMap := local.NewHashingKeyLocationMap(
		local.NewInMemoryLocationRecordArray(records, locationBlobMap),
		records,
		0x1234567,
		16,
		64,
		"cas")
	return local.NewHierarchicalCASBlobAccess(keyLocationMap, locationBlobMap, &lock, nil)
}

func digestOf(instanceName string, data []byte) digest.Digest {
	sum := sha256.Sum256(data)
	return digest.MustNewDigest(instanceName, remoteexecution.DigestFunction_SHA256, hex.EncodeToString(sum[:]), int64(len(data)))
}

// streamChunkReader is a fake of the ChunkReader that the gRPC servers
// place in front of a client's upload stream. It hands out the chunks
// the client sent, followed by end-of-file.
type streamChunkReader struct {
	chunks     [][]byte
	chunksRead int
	closed     bool
}

func (r *streamChunkReader) Read() ([]byte, error) {
	if len(r.chunks) == 0 {
		return nil, io.EOF
	}
	chunk := r.chunks[0]
	r.chunks = r.chunks[1:]
	r.chunksRead++
	return chunk, nil
}

func (r *streamChunkReader) Close() {
	r.closed = true
}

// upload data as a stream of chunks under a given digest.
func upload(ba blobstore.BlobAccess, d digest.Digest, chunks ...[]byte) (*streamChunkReader, error) {
	r := &streamChunkReader{chunks: chunks}
	return r, ba.Put(context.Background(), d, buffer.NewCASBufferFromChunkReader(d, r, buffer.UserProvided))
}

var failures int

func fail(format string, args ...interface{}) {
	failures++
	fmt.Printf("VIOLATION: "+format+"\n", args...)
}

func expectVisible(ba blobstore.BlobAccess, instanceName string, data []byte, want bool, why string) {
	ctx := context.Background()
	d := digestOf(instanceName, data)

	got, err := ba.Get(ctx, d).ToByteSlice(1 << 20)
	if want {
		if err != nil {
			fail("Get(%q) failed with %v, but %s", instanceName, err, why)
		} else if string(got) != string(data) {
			fail("Get(%q) returned %q", instanceName, got)
		}
	} else {
		if err == nil {
			fail("Get(%q) returned %q, but %s", instanceName, got, why)
		} else if status.Code(err) != codes.NotFound {
			fail("Get(%q) failed with %v instead of NOT_FOUND", instanceName, err)
		}
	}

	missing, err := ba.FindMissing(ctx, d.ToSingletonSet())
	if err != nil {
		fail("FindMissing(%q) failed with %v", instanceName, err)
		return
	}
	if present := missing.Empty(); present != want {
		fail("FindMissing(%q) reports present=%v, but %s", instanceName, present, why)
	}
}

func main() {
	ba := newStore()
	secret := []byte("alice's secret build output: 0123456789 0123456789 0123456789")
	half := len(secret) / 2

	// Alice uploads the object in two chunks.
	if _, err := upload(ba, digestOf("alice", secret), secret[:half], secret[half:]); err != nil {
		fmt.Printf("unexpected: alice's upload failed: %v\n", err)
		os.Exit(2)
	}
	expectVisible(ba, "alice", secret, true, "alice uploaded it")
	expectVisible(ba, "alice/ci", secret, true, "alice uploaded it under the parent instance name")
	expectVisible(ba, "mallory", secret, false, "nobody uploaded it under \"mallory\" or one of its parents")

	// Mallory knows the digest, but not the contents. Attempt 1:
	// send the right number of bytes, but garbage.
	garbage := make([]byte, len(secret))
	for i := range garbage {
		garbage[i] = 'x'
	}
	if _, err := upload(ba, digestOf("mallory", secret), garbage); err == nil {
		fail("Put(\"mallory\") of garbage with alice's digest succeeded")
	} else {
		fmt.Printf("ok: upload of garbage was rejected: %v\n", err)
	}
	expectVisible(ba, "mallory", secret, false, "mallory only ever sent garbage for this digest")

	// Attempt 2: announce the digest, but close the stream without
	// sending a single byte.
	if _, err := upload(ba, digestOf("mallory/sub", secret)); err == nil {
		fail("Put(\"mallory/sub\") of an empty stream with alice's digest succeeded")
	} else {
		fmt.Printf("ok: empty upload was rejected: %v\n", err)
	}
	expectVisible(ba, "mallory/sub", secret, false, "mallory only ever sent an empty stream for this digest")
	expectVisible(ba, "mallory", secret, false, "mallory never supplied the contents")

	// Attempt 3: send only the first half of the object.
	if _, err := upload(ba, digestOf("mallory", secret), secret[:half]); err == nil {
		fail("Put(\"mallory\") of a truncated object succeeded")
	} else {
		fmt.Printf("ok: truncated upload was rejected: %v\n", err)
	}
	expectVisible(ba, "mallory", secret, false, "mallory never supplied the complete contents")

	// Somebody who does possess the object gains access by
	// uploading it, and the upload is consumed entirely.
	r, err := upload(ba, digestOf("bob", secret), secret[:half], secret[half:])
	if err != nil {
		fail("Put(\"bob\") of the valid object failed: %v", err)
	}
	if r.chunksRead != 2 {
		fail("Put(\"bob\") reported success after reading only %d of the 2 chunks of the upload", r.chunksRead)
	}
	if !r.closed {
		fail("Put(\"bob\") did not release the upload stream")
	}
	expectVisible(ba, "bob", secret, true, "bob uploaded the complete object")
	expectVisible(ba, "", secret, false, "nobody uploaded it under the empty instance name")

	if failures > 0 {
		fmt.Printf("%d violation(s): access was granted without possession of the object\n", failures)
		os.Exit(1)
	}
	fmt.Println("OK: access to an existing object is only granted in exchange for its complete, valid contents")
}
