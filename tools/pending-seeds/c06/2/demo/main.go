// Demo for property C06 (key-location index): whenever storing an entry
// makes ANOTHER key fall back to nothing, the index must have reported a
// discard through its metrics (put_iterations{outcome="TooManyAttempts"}
// or put_too_many_iterations_total).
//
// Scenario (tiny table: 7 slots, 3 get attempts), all in one block:
//
//	Put(X)   X lands in slot t (attempt 0)
//	Put(Y)   Y (newer, first slot t) pushes X to its attempt 1 slot s1
//	Put(Z)   Z (newer, first slot s1) pushes X to its attempt 2 slot s2
//	Put(K)   K (newer, first slot s2) pushes X beyond the last attempt
//	         Get() can reach: X is discarded, which must be reported
//	Put(W)   W is older than Y, Z and K, which occupy all of its slots:
//	         W itself is discarded, which must be reported as well
//
// The scenario is run against both record array backends. After every
// step the lookups of all keys are compared against a small model, taking
// the discards reported through the Prometheus metrics into account.
package main

import (
	"fmt"
	"os"

	"github.com/buildbarn/bb-storage/pkg/blobstore/local"
	"github.com/prometheus/client_golang/prometheus"
	"google.golang.org/grpc/codes"
	"google.golang.org/grpc/status"
)

const (
	recordsCount       = 7
	hashInitialization = 0x970aef1f90c7f916
	maximumGetAttempts = 3
	maximumPutAttempts = 8
)

// blocks is a minimal BlockReferenceResolver: every block has its own
// epoch, blocks are released oldest first.
type blocks struct {
	oldestEpochID uint32
	count         int
	released      int
}

func seedOf(epochID uint32) uint64 { return 0x9e3779b97f4a7c15 * uint64(epochID+1) }

func (b *blocks) BlockReferenceToBlockIndex(r local.BlockReference) (int, uint64, bool) {
	epochIndex := r.EpochID - b.oldestEpochID
	if epochIndex >= uint32(b.count) {
		return 0, 0, false
	}
	if uint32(r.BlocksFromLast) > epochIndex {
		return 0, 0, false
	}
	return int(epochIndex - uint32(r.BlocksFromLast)), seedOf(r.EpochID), true
}

func (b *blocks) BlockIndexToBlockReference(blockIndex int) (local.BlockReference, uint64) {
	last := b.count - 1
	epochID := b.oldestEpochID + uint32(last)
	return local.BlockReference{EpochID: epochID, BlocksFromLast: uint16(last - blockIndex)}, seedOf(epochID)
}

func (b *blocks) popFront() {
	b.oldestEpochID++
	b.count--
	b.released++
}

// memoryDevice is a trivial in-memory blockdevice.BlockDevice.
type memoryDevice struct{ data []byte }

func (d *memoryDevice) ReadAt(p []byte, off int64) (int, error)  { return copy(p, d.data[off:]), nil }
func (d *memoryDevice) WriteAt(p []byte, off int64) (int, error) { return copy(d.data[off:], p), nil }
func (d *memoryDevice) Sync() error                              { return nil }
func (d *memoryDevice) Close() error                             { return nil }

// absoluteLocation is a Location whose block number does not shift when
// blocks are released.
type absoluteLocation struct {
	block       int
	offsetBytes int64
	sizeBytes   int64
}

func (a *absoluteLocation) String() string {
	if a == nil {
		return "nothing"
	}
	return fmt.Sprintf("{block #%d, offset %d, size %d}", a.block, a.offsetBytes, a.sizeBytes)
}

func same(a, b *absoluteLocation) bool {
	if a == nil || b == nil {
		return a == nil && b == nil
	}
	return *a == *b
}

func newer(a, b *absoluteLocation) bool { // is a newer than b?
	return a.block > b.block || (a.block == b.block && a.offsetBytes > b.offsetBytes)
}

// discardsReported returns the number of discards the index reported
// through its metrics for a given storage type.
func discardsReported(storageType string) uint64 {
	families, err := prometheus.DefaultGatherer.Gather()
	if err != nil {
		panic(err)
	}
	var total uint64
	for _, family := range families {
		for _, m := range family.GetMetric() {
			labels := map[string]string{}
			for _, l := range m.GetLabel() {
				labels[l.GetName()] = l.GetValue()
			}
			if labels["storage_type"] != storageType {
				continue
			}
			switch family.GetName() {
			case "buildbarn_blobstore_hashing_key_location_map_put_iterations":
				if labels["outcome"] == "TooManyAttempts" {
					total += m.GetHistogram().GetSampleCount()
				}
			case "buildbarn_blobstore_hashing_key_location_map_put_too_many_iterations_total":
				total += uint64(m.GetCounter().GetValue())
			}
		}
	}
	return total
}

type harness struct {
	name        string
	storageType string
	blocks      *blocks
	klm         local.KeyLocationMap
	names       map[local.Key]string
	order       []local.Key
	stored      map[local.Key][]absoluteLocation
	last        map[local.Key]*absoluteLocation
	failures    int
}

func (h *harness) failf(format string, args ...interface{}) {
	h.failures++
	fmt.Printf("FAIL [%s] %s\n", h.name, fmt.Sprintf(format, args...))
}

func (h *harness) lookup(key local.Key) *absoluteLocation {
	l, err := h.klm.Get(key)
	if status.Code(err) == codes.NotFound {
		return nil
	} else if err != nil {
		h.failf("Get(%s): unexpected error %v", h.names[key], err)
		return nil
	}
	a := &absoluteLocation{block: h.blocks.released + l.BlockIndex, offsetBytes: l.OffsetBytes, sizeBytes: l.SizeBytes}
	// Soundness: the result must be something stored for this very
	// key, in a block that still exists.
	ok := false
	for _, s := range h.stored[key] {
		if s == *a {
			ok = true
		}
	}
	if !ok {
		h.failf("Get(%s) returned %s, which was never stored for that key", h.names[key], a)
	}
	if l.BlockIndex < 0 || l.BlockIndex >= h.blocks.count {
		h.failf("Get(%s) returned %s, which is not in a live block", h.names[key], a)
	}
	return a
}

func (h *harness) put(key local.Key, name string, blockIndex int, offsetBytes, sizeBytes int64) {
	if _, ok := h.names[key]; !ok {
		h.names[key] = name
		h.order = append(h.order, key)
	}
	a := &absoluteLocation{block: h.blocks.released + blockIndex, offsetBytes: offsetBytes, sizeBytes: sizeBytes}
	before := discardsReported(h.storageType)
	if err := h.klm.Put(key, local.Location{BlockIndex: blockIndex, OffsetBytes: offsetBytes, SizeBytes: sizeBytes}); err != nil {
		h.failf("Put(%s): %v", name, err)
	}
	h.stored[key] = append(h.stored[key], *a)
	discards := discardsReported(h.storageType) - before

	// Every key other than the one stored must give the same result
	// as before; the stored key must give the newest location. Each
	// reported discard excuses one key.
	var regressions []string
	for _, k := range h.order {
		current := h.lookup(k)
		expected := h.last[k]
		if k == key && (expected == nil || newer(a, expected)) {
			expected = a
		}
		if !same(current, expected) {
			regressions = append(regressions, fmt.Sprintf("%s: expected %s, got %s", h.names[k], expected, current))
		}
		h.last[k] = current
	}
	fmt.Printf("[%s] Put(%s, %s): %d discard(s) reported, %d key(s) changed unexpectedly\n", h.name, name, a, discards, len(regressions))
	if uint64(len(regressions)) > discards {
		h.failf("after Put(%s) %d key(s) regressed, but only %d discard(s) were reported: %v", name, len(regressions), discards, regressions)
	}
}

func (h *harness) releaseOldestBlock() {
	h.blocks.popFront()
	fmt.Printf("[%s] released block #%d\n", h.name, h.blocks.released-1)
	// Exactly the entries pointing into the released block vanish.
	for _, k := range h.order {
		expected := h.last[k]
		if expected != nil && expected.block < h.blocks.released {
			expected = nil
		}
		current := h.lookup(k)
		if !same(current, expected) {
			h.failf("after releasing block #%d, Get(%s) = %s, expected %s (no discard was reported for it)", h.blocks.released-1, h.names[k], current, expected)
		}
		h.last[k] = current
	}
}

func slotOf(key local.Key, attempt uint32) int {
	rk := local.LocationRecordKey{Key: key, Attempt: attempt}
	return int(rk.Hash(hashInitialization) % recordsCount)
}

// findKeys deterministically searches for five keys with the collision
// pattern described at the top of this file.
func findKeys() (x, y, z, k, w local.Key) {
	var candidates []local.Key
	for i := 0; i < 5000; i++ {
		candidates = append(candidates, local.NewKeyFromString(fmt.Sprintf("blob-%d", i)))
	}
	first := func(slot int, not ...local.Key) (local.Key, bool) {
	next:
		for _, c := range candidates {
			if slotOf(c, 0) != slot {
				continue
			}
			for _, n := range not {
				if c == n {
					continue next
				}
			}
			return c, true
		}
		return local.Key{}, false
	}
	for _, x = range candidates {
		t, s1, s2 := slotOf(x, 0), slotOf(x, 1), slotOf(x, 2)
		if t == s1 || t == s2 || s1 == s2 {
			continue
		}
		var ok bool
		if y, ok = first(t, x); !ok {
			continue
		}
		if z, ok = first(s1, x, y); !ok {
			continue
		}
		if k, ok = first(s2, x, y, z); !ok {
			continue
		}
		for _, w = range candidates {
			if w != x && w != y && w != z && w != k && slotOf(w, 0) == t && slotOf(w, 1) == s1 && slotOf(w, 2) == s2 {
				return
			}
		}
	}
	panic("no suitable keys found")
}

func run(name, storageType string, newArray func(resolver local.BlockReferenceResolver) local.LocationRecordArray) int {
	b := &blocks{oldestEpochID: 1, count: 1}
	h := &harness{
		name:        name,
		storageType: storageType,
		blocks:      b,
		klm:         local.NewHashingKeyLocationMap(newArray(b), recordsCount, hashInitialization, maximumGetAttempts, maximumPutAttempts, storageType),
		names:       map[local.Key]string{},
		stored:      map[local.Key][]absoluteLocation{},
		last:        map[local.Key]*absoluteLocation{},
	}
	x, y, z, k, w := findKeys()
	h.put(x, "X", 0, 100, 10)
	h.put(y, "Y", 0, 110, 10)
	h.put(z, "Z", 0, 120, 10)
	h.put(k, "K", 0, 130, 10)
	h.put(w, "W", 0, 50, 10)
	h.releaseOldestBlock()
	return h.failures
}

func main() {
	failures := run("in-memory", "seeddemo_mem", func(r local.BlockReferenceResolver) local.LocationRecordArray {
		return local.NewInMemoryLocationRecordArray(recordsCount, r)
	})
	failures += run("block-device", "seeddemo_dev", func(r local.BlockReferenceResolver) local.LocationRecordArray {
		return local.NewBlockDeviceBackedLocationRecordArray(
			&memoryDevice{data: make([]byte, recordsCount*local.BlockDeviceBackedLocationRecordSize)}, r)
	})
	if failures > 0 {
		fmt.Printf("%d check(s) failed\n", failures)
		os.Exit(1)
	}
	fmt.Println("OK: all lookups agree with the model")
}
