// Demo for property C05 (hierarchical CAS store): the empty blob is
// uploaded, ages into the "old" blocks and is then only ever touched by
// FindMissing (as build clients do before uploading inputs). Every time
// FindMissing reports it present it must stay readable until
// old_blocks+1 further blocks have been allocated, and repeating the
// FindMissing must not write anything.
package main

import (
	"bytes"
	"context"
	"crypto/sha256"
	"encoding/hex"
	"fmt"
	"os"
	"sync"

	remoteexecution "github.com/bazelbuild/remote-apis/build/bazel/remote/execution/v2"
	"github.com/buildbarn/bb-storage/pkg/blobstore"
	"github.com/buildbarn/bb-storage/pkg/blobstore/buffer"
	"github.com/buildbarn/bb-storage/pkg/blobstore/local"
	"github.com/buildbarn/bb-storage/pkg/digest"
	pb "github.com/buildbarn/bb-storage/pkg/proto/blobstore/local"
)

const (
	blockSize     = 100
	fillerSize    = 40
	oldBlocks     = 2
	currentBlocks = 2
	newBlocks     = 1
)

// trackingBlockAllocator numbers the blocks it hands out, counts
// allocations, releases and blob writes, and remembers into which block
// the most recent blob was written.
type trackingBlockAllocator struct {
	base         local.BlockAllocator
	allocated    int
	released     int
	writes       int
	lastPutBlock int
}

func (a *trackingBlockAllocator) NewBlock() (local.Block, *pb.BlockLocation, error) {
	b, l, err := a.base.NewBlock()
	if err != nil {
		return nil, nil, err
	}
	id := a.allocated
	a.allocated++
	return &trackingBlock{Block: b, a: a, id: id}, l, nil
}

func (a *trackingBlockAllocator) NewBlockAtLocation(location *pb.BlockLocation, writeOffsetBytes int64) (local.Block, bool) {
	return nil, false
}

type trackingBlock struct {
	local.Block
	a  *trackingBlockAllocator
	id int
}

func (b *trackingBlock) Put(sizeBytes int64) local.BlockPutWriter {
	b.a.writes++
	b.a.lastPutBlock = b.id
	return b.Block.Put(sizeBytes)
}

func (b *trackingBlock) Release() {
	b.a.released++
	b.Block.Release()
}

type stderrLogger struct{}

func (stderrLogger) Log(err error) { fmt.Fprintln(os.Stderr, "storage logged:", err) }

func fail(format string, args ...interface{}) {
	fmt.Printf("FAIL: "+format+"\n", args...)
	os.Exit(1)
}

func newDigest(instanceName string, data []byte) digest.Digest {
	sum := sha256.Sum256(data)
	return digest.MustNewDigest(instanceName, remoteexecution.DigestFunction_SHA256, hex.EncodeToString(sum[:]), int64(len(data)))
}

var fillerCount int

func uploadFiller(ba blobstore.BlobAccess) {
	data := bytes.Repeat([]byte{byte(fillerCount), byte(fillerCount >> 8)}, fillerSize/2)
	fillerCount++
	d := newDigest("fill", data)
	if err := ba.Put(context.Background(), d, buffer.NewValidatedBufferFromByteSlice(data)); err != nil {
		fail("Put(%s): %v", d, err)
	}
}

func main() {
	ctx := context.Background()
	allocator := &trackingBlockAllocator{base: local.NewInMemoryBlockAllocator(blockSize)}
	blockList := local.NewVolatileBlockList(allocator)
	locationBlobMap := local.NewOldCurrentNewLocationBlobMap(
		blockList,
		local.NewImmutableBlockListGrowthPolicy(currentBlocks, newBlocks),
		stderrLogger{},
		"demo",
		blockSize,
		oldBlocks,
		newBlocks,
		/* initialBlocksCount = */ 0)
	const records = 1021
	keyLocationMap := local.NewHashingKeyLocationMap(
		local.NewInMemoryLocationRecordArray(records, locationBlobMap),
		records, 14695981039346656037, 16, 64, "demo")
	var lock sync.RWMutex
	ba := local.NewHierarchicalCASBlobAccess(keyLocationMap, locationBlobMap, &lock, nil)

	// Upload the empty blob in between other objects, once the first
	// couple of blocks have been filled.
	for allocator.writes == 0 || allocator.lastPutBlock < 2 {
		uploadFiller(ba)
	}
	empty := newDigest("project/team", nil)
	if err := ba.Put(ctx, empty, buffer.NewValidatedBufferFromByteSlice(nil)); err != nil {
		fail("Put(empty blob): %v", err)
	}
	emptyBlock := allocator.lastPutBlock

	// Upload other objects until the block holding the empty blob has
	// become one of the "old" blocks (blocks are released oldest first,
	// and once releasing has started the oldBlocks oldest live blocks
	// are the old ones).
	for !(allocator.released > 0 && emptyBlock < allocator.released+oldBlocks) {
		uploadFiller(ba)
	}
	if emptyBlock < allocator.released {
		fail("scenario error: block of the empty blob was dropped before it was touched")
	}

	// A client checks for the empty blob, as build clients do before
	// uploading inputs. A positive answer is a promise.
	missing, err := ba.FindMissing(ctx, empty.ToSingletonSet())
	if err != nil {
		fail("FindMissing: %v", err)
	}
	if !missing.Empty() {
		fail("FindMissing reported the empty blob as missing although its block is still there")
	}
	allocatedAfterTouch := allocator.allocated

	// Repeating the check must not write anything.
	writesBefore := allocator.writes
	if missing, err := ba.FindMissing(ctx, empty.ToSingletonSet()); err != nil || !missing.Empty() {
		fail("repeated FindMissing: missing=%v err=%v", missing.Items(), err)
	}
	if allocator.writes != writesBefore {
		fail("repeating FindMissing wrote %d more blobs", allocator.writes-writesBefore)
	}

	// Let exactly old_blocks further blocks be allocated: the blob was
	// reported present, so it must still be there.
	for allocator.allocated < allocatedAfterTouch+oldBlocks {
		uploadFiller(ba)
	}
	further := allocator.allocated - allocatedAfterTouch
	if missing, err := ba.FindMissing(ctx, empty.ToSingletonSet()); err != nil {
		fail("FindMissing after %d further block allocations: %v", further, err)
	} else if !missing.Empty() {
		fail("the empty blob was reported present, but is missing after only %d further block allocations (old_blocks=%d)", further, oldBlocks)
	}
	data, err := ba.Get(ctx, empty).ToByteSlice(10)
	if err != nil {
		fail("Get(empty blob) after %d further block allocations (old_blocks=%d): %v", further, oldBlocks, err)
	}
	if len(data) != 0 {
		fail("Get(empty blob) returned %d bytes", len(data))
	}
	fmt.Println("OK")
}
