// Demo for property C05 (flat store): a FindMissing call that has to
// refresh two objects out of the "old" block, where the second refresh
// makes the block list rotate (and drop the oldest block) before the call
// returns. Both objects were reported present, so both must be readable
// (with their own contents) right afterwards and after one more rotation,
// and repeating the FindMissing must not write any data.
package main

import (
	"bytes"
	"context"
	"crypto/sha256"
	"encoding/hex"
	"fmt"
	"os"
	"sync"

	remoteexecution "github.com/bazelbuild/remote-apis/build/bazel/remote/execution/v2"
	"github.com/buildbarn/bb-storage/pkg/blobstore"
	"github.com/buildbarn/bb-storage/pkg/blobstore/buffer"
	"github.com/buildbarn/bb-storage/pkg/blobstore/local"
	"github.com/buildbarn/bb-storage/pkg/digest"
	pb "github.com/buildbarn/bb-storage/pkg/proto/blobstore/local"
)

const (
	blockSize  = 100
	objectSize = 40
	oldBlocks  = 1
)

// countingBlockAllocator counts block allocations and blob writes.
type countingBlockAllocator struct {
	base      local.BlockAllocator
	newBlocks int
	writes    int
}

func (a *countingBlockAllocator) NewBlock() (local.Block, *pb.BlockLocation, error) {
	b, l, err := a.base.NewBlock()
	if err != nil {
		return nil, nil, err
	}
	a.newBlocks++
	return &countingBlock{Block: b, a: a}, l, nil
}

func (a *countingBlockAllocator) NewBlockAtLocation(location *pb.BlockLocation, writeOffsetBytes int64) (local.Block, bool) {
	return nil, false
}

type countingBlock struct {
	local.Block
	a *countingBlockAllocator
}

func (b *countingBlock) Put(sizeBytes int64) local.BlockPutWriter {
	b.a.writes++
	return b.Block.Put(sizeBytes)
}

type stderrLogger struct{}

func (stderrLogger) Log(err error) { fmt.Fprintln(os.Stderr, "storage logged:", err) }

type object struct {
	digest digest.Digest
	data   []byte
}

func newObject(i int) object {
	data := bytes.Repeat([]byte{byte('a' + i)}, objectSize)
	sum := sha256.Sum256(data)
	return object{
		digest: digest.MustNewDigest("demo", remoteexecution.DigestFunction_SHA256, hex.EncodeToString(sum[:]), int64(len(data))),
		data:   data,
	}
}

func fail(format string, args ...interface{}) {
	fmt.Printf("FAIL: "+format+"\n", args...)
	os.Exit(1)
}

func mustRead(ba blobstore.BlobAccess, o object, when string) {
	data, err := ba.Get(context.Background(), o.digest).ToByteSlice(1000)
	if err != nil {
		fail("%s: Get(%s) failed: %v", when, o.digest, err)
	}
	if !bytes.Equal(data, o.data) {
		fail("%s: Get(%s) returned %q instead of %q", when, o.digest, data, o.data)
	}
}

func main() {
	ctx := context.Background()
	allocator := &countingBlockAllocator{base: local.NewInMemoryBlockAllocator(blockSize)}
	blockList := local.NewVolatileBlockList(allocator)
	locationBlobMap := local.NewOldCurrentNewLocationBlobMap(
		blockList,
		local.NewImmutableBlockListGrowthPolicy(1, 1),
		stderrLogger{},
		"demo",
		blockSize,
		oldBlocks,
		/* newBlocksCount = */ 1,
		/* initialBlocksCount = */ 0)
	const records = 1021
	keyLocationMap := local.NewHashingKeyLocationMap(
		local.NewInMemoryLocationRecordArray(records, locationBlobMap),
		records, 14695981039346656037, 16, 64, "demo")
	var lock sync.RWMutex
	ba := local.NewFlatBlobAccess(keyLocationMap, locationBlobMap, digest.KeyWithoutInstance, &lock, "demo", nil)

	// Seven uploads of 40 bytes into blocks of 100 bytes. Afterwards
	// the layout is old=[o3 o4] current=[o5 o6] new=[o7], the "new"
	// block having room for exactly one more object.
	var objects []object
	for i := 0; i < 7; i++ {
		o := newObject(i)
		objects = append(objects, o)
		if err := ba.Put(ctx, o.digest, buffer.NewValidatedBufferFromByteSlice(o.data)); err != nil {
			fail("Put(%s): %v", o.digest, err)
		}
	}
	if allocator.newBlocks != 4 {
		fail("unexpected number of allocated blocks after the uploads: %d", allocator.newBlocks)
	}
	a, b := objects[2], objects[3]

	// Both objects live in the only "old" block. Refreshing the first
	// fits in the "new" block, refreshing the second one forces a
	// rotation that drops the old block.
	blocksBefore := allocator.newBlocks
	missing, err := ba.FindMissing(ctx, digest.NewSetBuilder(2).Add(a.digest).Add(b.digest).Build())
	if err != nil {
		fail("FindMissing: %v", err)
	}
	if !missing.Empty() {
		fail("FindMissing reported %s as missing", missing.Items())
	}
	if d := allocator.newBlocks - blocksBefore; d != 1 {
		fail("expected FindMissing to allocate exactly one block, got %d", d)
	}

	// Reported present: must be readable now.
	mustRead(ba, a, "right after FindMissing")
	mustRead(ba, b, "right after FindMissing")

	// Repeating the existence check must not write anything.
	writesBefore := allocator.writes
	missing, err = ba.FindMissing(ctx, digest.NewSetBuilder(2).Add(a.digest).Add(b.digest).Build())
	if err != nil || !missing.Empty() {
		fail("second FindMissing: missing=%s err=%v", missing.Items(), err)
	}
	if allocator.writes != writesBefore {
		fail("repeating FindMissing wrote %d more blobs", allocator.writes-writesBefore)
	}

	// One more block allocation (= old_blocks) must not make them go away.
	blocksBefore = allocator.newBlocks
	for i := 7; allocator.newBlocks == blocksBefore; i++ {
		o := newObject(i)
		if err := ba.Put(ctx, o.digest, buffer.NewValidatedBufferFromByteSlice(o.data)); err != nil {
			fail("Put(%s): %v", o.digest, err)
		}
	}
	if allocator.newBlocks-blocksBefore > oldBlocks {
		fail("scenario allocated too many blocks")
	}
	mustRead(ba, a, "one block allocation after FindMissing")
	mustRead(ba, b, "one block allocation after FindMissing")
	fmt.Println("OK")
}
