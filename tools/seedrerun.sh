#!/bin/bash
# tools/seedrerun.sh <ID>-<k> [check-args...] : (re)run the property's check against a seed already stored under /verif/seeded
# (confirmation is repeated only when confirm.log is missing); rewrites meta.json / check_tail.log.
S=$1; shift
ID=${S%%-*}; K2=${S#*-}
OUT=/verif/seeded/$S
[ -f $OUT/patch.diff ] || { echo "no such seed $S"; exit 2; }
if ! grep -q ^RESULT $OUT/confirm.log 2>/dev/null; then /verif/tools/seedcheck.sh /verif/seeded $S > $OUT/confirm.log 2>&1; fi
confirm=$(grep ^RESULT $OUT/confirm.log)
base=$(grep '^baseline' $OUT/confirm.log)
VERIF_STOP_ON_VIOLATION=1 VERIF_MUTANT=$OUT/patch.diff /verif/check $ID --tier quick "$@" > $OUT/check.log 2>&1
rc=$?
sigs=$(grep -o 'signature=[^ ]*' $OUT/check.log | sort -u | tr '\n' ' ')
echo "$S confirm[$confirm $base] check_rc=$rc $sigs"
python3 - "$OUT" "$ID" "$K2" "$rc" "$confirm" "$base" "$sigs" <<'PY'
import json,sys,os
out,pid,k,rc,confirm,base,sigs=sys.argv[1:8]
sm={}
try: sm=json.load(open(out+'/seeder_meta.json'))
except Exception: pass
meta={"property":pid,"seed":k,"summary":sm.get("summary"),"needs":sm.get("needs"),"files":sm.get("files"),
 "confirmation":{"how":"tools/seedcheck.sh: scratch worktree of /repo HEAD; demo run unmodified; git apply --check; git apply; go build ./pkg/...; demo run again; runnable baseline tests (go test -json over the 5 baseline packages) compared with BASELINE.json","result":confirm,"baseline":base},
 "our_checks":{"how":"VERIF_MUTANT=patch.diff ./check %s --tier quick (patch layered over /repo through the build overlay; /repo untouched)"%pid,"exit_code":int(rc),"detected":int(rc)==1,"violation_signatures":sigs.split()}}
json.dump(meta,open(out+'/meta.json','w'),indent=1)
PY
tail -5 $OUT/check.log > $OUT/check_tail.log; rm -f $OUT/check.log
