#!/bin/bash
# Runs the repository's pinned baseline (guard off: no build tags, no overlay)
# and compares the passing tests with /root/.vp/BASELINE.json's stable_pass list.
. /verif/env.sh
export CGO_ENABLED=1
out=$(mktemp)
for m in $(cat /w/out/gomods.txt); do
  (cd /repo/$m && go test -mod=mod -json -vet=off -count=1 -timeout 25m ./... 2>/dev/null) >> "$out"
done
python3 - "$out" <<'PY'
import json,sys
passed=set()
for l in open(sys.argv[1]):
    try: e=json.loads(l)
    except Exception: continue
    if e.get('Action')=='pass' and e.get('Test'):
        passed.add(e['Package']+'::'+e['Test'])
base=json.load(open('/root/.vp/BASELINE.json'))
want=set(base['stable_pass'])
missing=sorted(want-passed)
print(f"baseline: {len(want&passed)}/{len(want)} stable tests pass")
for m in missing: print("MISSING", m)
sys.exit(1 if missing else 0)
PY
rc=$?
rm -f "$out"
exit $rc
