# sourced by every script: offline Go toolchain for /repo (go 1.26.5)
export PATH=/root/go/pkg/mod/golang.org/toolchain@v0.0.1-go1.26.5.linux-amd64/bin:$PATH
export GOTOOLCHAIN=local GOFLAGS=-mod=mod GOPROXY=off GOSUMDB=off
export CGO_ENABLED=${CGO_ENABLED:-0}
