// Package par runs an indexed space over all cores (plain, uninstrumented checks only).
package par

import (
	"runtime"
	"sync"
	"sync/atomic"
)

// For calls f(i) for every i in [0,n) from GOMAXPROCS workers.
func For(n int, f func(i int)) {
	w := runtime.GOMAXPROCS(0)
	if w > n {
		w = n
	}
	if w < 1 {
		w = 1
	}
	var next atomic.Int64
	var wg sync.WaitGroup
	for k := 0; k < w; k++ {
		wg.Add(1)
		go func() {
			defer wg.Done()
			for {
				i := int(next.Add(1)) - 1
				if i >= n {
					return
				}
				f(i)
			}
		}()
	}
	wg.Wait()
}
