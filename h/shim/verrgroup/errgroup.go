//go:build verif

// Package verrgroup replaces golang.org/x/sync/errgroup on top of the controlled scheduler.
package verrgroup

import (
	"context"
	"fmt"

	"github.com/buildbarn/bb-storage/pkg/verifshim/vsched"
	"github.com/buildbarn/bb-storage/pkg/verifshim/vsync"
)

// Group mirrors errgroup.Group.
type Group struct {
	cancel  func(error)
	wg      vsync.WaitGroup
	mu      vsync.Mutex
	err     error
	hasErr  bool
	limit   int
	running int
}

// WithContext mirrors errgroup.WithContext.
func WithContext(ctx context.Context) (*Group, context.Context) {
	ctx, cancel := context.WithCancelCause(ctx)
	return &Group{cancel: cancel}, ctx
}

// SetLimit mirrors errgroup.Group.SetLimit.
func (g *Group) SetLimit(n int) {
	if g.running != 0 {
		panic(fmt.Errorf("errgroup: modify limit while %v goroutines in the group are still active", g.running))
	}
	g.limit = n
}

func (g *Group) done() {
	g.running--
	g.wg.Done()
}

func (g *Group) start(f func() error) {
	g.running++
	g.wg.Add(1)
	vsched.Go(func() {
		defer g.done()
		if err := f(); err != nil {
			g.mu.Lock()
			first := !g.hasErr
			if first {
				g.hasErr = true
				g.err = err
			}
			g.mu.Unlock()
			if first && g.cancel != nil {
				g.cancel(g.err)
			}
		}
	})
}

// Go mirrors errgroup.Group.Go.
func (g *Group) Go(f func() error) {
	if g.limit > 0 {
		vsched.Block("errgroup.limit", false, func() bool { return g.running < g.limit })
	}
	g.start(f)
}

// TryGo mirrors errgroup.Group.TryGo.
func (g *Group) TryGo(f func() error) bool {
	if g.limit > 0 && g.running >= g.limit {
		return false
	}
	g.start(f)
	return true
}

// Wait mirrors errgroup.Group.Wait.
func (g *Group) Wait() error {
	g.wg.Wait()
	if g.cancel != nil {
		g.cancel(g.err)
	}
	return g.err
}
