//go:build verif

// Package vseam holds the seams through which the REAL configuration code
// (pkg/blobstore/configuration, rewritten by vinstr) is connected to harness-owned
// media and observed: constructor results pass through Obs so that the harness can
// record (and decorate) the components the real wiring creates.
package vseam

import (
	"strings"

	"github.com/buildbarn/bb-storage/pkg/blobstore/local"
	"github.com/buildbarn/bb-storage/pkg/blockdevice"
	"github.com/buildbarn/bb-storage/pkg/filesystem"
	"github.com/buildbarn/bb-storage/pkg/filesystem/path"
	pb "github.com/buildbarn/bb-storage/pkg/proto/configuration/blockdevice"
)

// Hooks are consulted by Obs: a hook may return a replacement (of the same static type) or nil.
var Hooks = map[string]func(any) any{}

// Obs passes the result of a constructor call of package local through the hook of that name.
func Obs[T any](name string, v T) T {
	if h := Hooks[name]; h != nil {
		if r := h(v); r != nil {
			return r.(T)
		}
	}
	return v
}

// ObsPBL is Obs for local.NewPersistentBlockList, which has two results.
func ObsPBL(l *local.PersistentBlockList, n int) (*local.PersistentBlockList, int) {
	if h := Hooks["NewPersistentBlockList"]; h != nil {
		h(l)
	}
	return l, n
}

// SimDevice is a harness-owned block device that can be handed to the real wiring.
type SimDevice interface {
	blockdevice.BlockDevice
	Geometry() (sectorSizeBytes int, sectorCount int64)
	ZeroInitialize()
}

// Devices maps file paths of the form "verifsim:<id>" to harness devices.
var Devices = map[string]SimDevice{}

// NewBlockDeviceFromConfiguration replaces blockdevice.NewBlockDeviceFromConfiguration in the rewritten configuration code.
func NewBlockDeviceFromConfiguration(configuration *pb.Configuration, mayZeroInitialize bool) (blockdevice.BlockDevice, int, int64, error) {
	if configuration != nil {
		if f, ok := configuration.Source.(*pb.Configuration_File); ok && strings.HasPrefix(f.File.Path, "verifsim:") {
			if d := Devices[f.File.Path]; d != nil {
				if mayZeroInitialize {
					d.ZeroInitialize()
				}
				s, c := d.Geometry()
				return d, s, c, nil
			}
		}
	}
	return blockdevice.NewBlockDeviceFromConfiguration(configuration, mayZeroInitialize)
}

// CurrentDirectory, when set, is returned for every state directory the configuration code opens.
var CurrentDirectory filesystem.DirectoryCloser

// NewLocalDirectory replaces filesystem.NewLocalDirectory in the rewritten configuration code.
func NewLocalDirectory(p path.Parser) (filesystem.DirectoryCloser, error) {
	if CurrentDirectory != nil {
		return CurrentDirectory, nil
	}
	return filesystem.NewLocalDirectory(p)
}
