//go:build verif

// Package vsemaphore replaces golang.org/x/sync/semaphore (FIFO, like upstream).
package vsemaphore

import (
	"context"

	xsem "golang.org/x/sync/semaphore"

	"github.com/buildbarn/bb-storage/pkg/verifshim/vsched"
)

type waiter struct{ n int64 }

// Weighted mirrors semaphore.Weighted.
type Weighted struct {
	real    *xsem.Weighted
	size    int64
	cur     int64
	waiters []*waiter
}

// NewWeighted mirrors semaphore.NewWeighted.
func NewWeighted(n int64) *Weighted { return &Weighted{real: xsem.NewWeighted(n), size: n} }

// Acquire mirrors (*semaphore.Weighted).Acquire.
func (s *Weighted) Acquire(ctx context.Context, n int64) error {
	if !vsched.Active() {
		return s.real.Acquire(ctx, n)
	}
	vsched.Yield("sem.Acquire")
	if ctx.Err() != nil {
		// upstream: fails immediately when the context is already done and nothing is free...
		if !(s.size-s.cur >= n && len(s.waiters) == 0) {
			return ctx.Err()
		}
	}
	if s.size-s.cur >= n && len(s.waiters) == 0 {
		s.cur += n
		return nil
	}
	if n > s.size {
		vsched.Block("sem.wait(ctx)", false, func() bool { return ctx.Err() != nil })
		return ctx.Err()
	}
	w := &waiter{n: n}
	s.waiters = append(s.waiters, w)
	vsched.Block("sem.wait", false, func() bool {
		return ctx.Err() != nil || (len(s.waiters) > 0 && s.waiters[0] == w && s.size-s.cur >= n)
	})
	if len(s.waiters) > 0 && s.waiters[0] == w && s.size-s.cur >= n {
		s.waiters = s.waiters[1:]
		s.cur += n
		return nil
	}
	for i, x := range s.waiters {
		if x == w {
			s.waiters = append(s.waiters[:i], s.waiters[i+1:]...)
			break
		}
	}
	return ctx.Err()
}

// TryAcquire mirrors (*semaphore.Weighted).TryAcquire.
func (s *Weighted) TryAcquire(n int64) bool {
	if !vsched.Active() {
		return s.real.TryAcquire(n)
	}
	vsched.Yield("sem.TryAcquire")
	if s.size-s.cur >= n && len(s.waiters) == 0 {
		s.cur += n
		return true
	}
	return false
}

// Release mirrors (*semaphore.Weighted).Release.
func (s *Weighted) Release(n int64) {
	if !vsched.Active() {
		s.real.Release(n)
		return
	}
	s.cur -= n
	if s.cur < 0 && !vsched.Aborting() {
		panic("semaphore: released more than held")
	}
}
