//go:build verif

// Package vsync replaces "sync" in the rewritten bb-storage sources.
package vsync

import (
	"sync"

	"github.com/buildbarn/bb-storage/pkg/verifshim/vsched"
)

type (
	// Once, Pool, Map, Cond and Locker are the real ones.
	Once   = sync.Once
	Pool   = sync.Pool
	Map    = sync.Map
	Cond   = sync.Cond
	Locker = sync.Locker
)

// NewCond is sync.NewCond.
func NewCond(l Locker) *Cond { return sync.NewCond(l) }

// OnceFunc is sync.OnceFunc.
func OnceFunc(f func()) func() { return sync.OnceFunc(f) }

// OnceValue is sync.OnceValue.
func OnceValue[T any](f func() T) func() T { return sync.OnceValue(f) }

// Mutex is a sync.Mutex whose Lock is a scheduling point under a controller.
type Mutex struct {
	mu   sync.Mutex
	held bool
}

// Lock acquires the mutex.
func (m *Mutex) Lock() {
	if !vsched.Active() {
		m.mu.Lock()
		return
	}
	vsched.Block("Lock", false, func() bool { return !m.held })
	m.held = true
}

// TryLock tries to acquire the mutex.
func (m *Mutex) TryLock() bool {
	if !vsched.Active() {
		return m.mu.TryLock()
	}
	vsched.Yield("TryLock")
	if m.held {
		return false
	}
	m.held = true
	return true
}

// Unlock releases the mutex.
func (m *Mutex) Unlock() {
	if !vsched.Active() {
		m.mu.Unlock()
		return
	}
	if !m.held && !vsched.Aborting() {
		panic("sync: unlock of unlocked mutex")
	}
	m.held = false
}

// RWMutex models sync.RWMutex including writer preference: a writer first
// announces itself (blocking new readers), then waits for active readers.
type RWMutex struct {
	mu      sync.RWMutex
	wHeld   bool // a writer owns the writer slot (announced or writing)
	writing bool
	readers int
}

// RLock acquires a read lock.
func (m *RWMutex) RLock() {
	if !vsched.Active() {
		m.mu.RLock()
		return
	}
	vsched.Block("RLock", false, func() bool { return !m.wHeld })
	m.readers++
}

// TryRLock tries to acquire a read lock.
func (m *RWMutex) TryRLock() bool {
	if !vsched.Active() {
		return m.mu.TryRLock()
	}
	vsched.Yield("TryRLock")
	if m.wHeld {
		return false
	}
	m.readers++
	return true
}

// RUnlock releases a read lock.
func (m *RWMutex) RUnlock() {
	if !vsched.Active() {
		m.mu.RUnlock()
		return
	}
	if m.readers <= 0 && !vsched.Aborting() {
		panic("sync: RUnlock of unlocked RWMutex")
	}
	if m.readers > 0 {
		m.readers--
	}
}

// Lock acquires the write lock in two steps (announce, then wait for readers).
func (m *RWMutex) Lock() {
	if !vsched.Active() {
		m.mu.Lock()
		return
	}
	vsched.Block("Lock(announce)", false, func() bool { return !m.wHeld })
	m.wHeld = true
	if m.readers > 0 {
		vsched.Block("Lock(readers)", false, func() bool { return m.readers == 0 })
	}
	m.writing = true
}

// TryLock tries to acquire the write lock.
func (m *RWMutex) TryLock() bool {
	if !vsched.Active() {
		return m.mu.TryLock()
	}
	vsched.Yield("TryLock")
	if m.wHeld || m.readers > 0 {
		return false
	}
	m.wHeld, m.writing = true, true
	return true
}

// Unlock releases the write lock.
func (m *RWMutex) Unlock() {
	if !vsched.Active() {
		m.mu.Unlock()
		return
	}
	if !m.writing && !vsched.Aborting() {
		panic("sync: Unlock of unlocked RWMutex")
	}
	m.writing, m.wHeld = false, false
}

// RLocker returns a Locker for the read side.
func (m *RWMutex) RLocker() Locker { return (*rlocker)(m) }

type rlocker RWMutex

func (r *rlocker) Lock()   { (*RWMutex)(r).RLock() }
func (r *rlocker) Unlock() { (*RWMutex)(r).RUnlock() }

// WaitGroup is a sync.WaitGroup whose Wait is a scheduling point.
type WaitGroup struct {
	wg sync.WaitGroup
	n  int
}

// Add adds delta.
func (w *WaitGroup) Add(delta int) {
	if !vsched.Active() {
		w.wg.Add(delta)
		return
	}
	w.n += delta
	if w.n < 0 && !vsched.Aborting() {
		panic("sync: negative WaitGroup counter")
	}
}

// Done decrements.
func (w *WaitGroup) Done() { w.Add(-1) }

// Go runs f in a new thread and tracks it.
func (w *WaitGroup) Go(f func()) {
	w.Add(1)
	vsched.Go(func() {
		defer w.Done()
		f()
	})
}

// Wait waits for the counter to reach zero.
func (w *WaitGroup) Wait() {
	if !vsched.Active() {
		w.wg.Wait()
		return
	}
	vsched.Block("WaitGroup.Wait", false, func() bool { return w.n <= 0 })
}
