//go:build verif

package vsched

import (
	"crypto/sha256"
	"encoding/hex"
	"fmt"
	"os"
	"strings"
	"time"
)

// ExploreConfig bounds one exhaustive exploration.
type ExploreConfig struct {
	Bound       int // maximum number of deviations (preemptions, faults, early timers, non-default select cases)
	MaxSteps    int
	EarlyTimers bool
	Deadline    time.Time
	MaxExec     int64
	// Sharding: nodes at DFS-tree depth ShardDepth are distributed round-robin over
	// ShardCount workers; this worker takes those with index%ShardCount==ShardIndex.
	ShardIndex, ShardCount, ShardDepth int
	// MaxFreeSwitches, when > 0, also bounds the number of non-default choices among the runnable threads at
	// points where the running thread cannot continue (it blocked or ended). Those choices cost no deviation
	// (the default is the runnable thread with the lowest id); with many short-lived threads their orders
	// multiply, so scenarios with many threads bound them separately. 0 = unbounded.
	MaxFreeSwitches int
	// Determinism: every DetEvery-th execution (and every failing one) is executed twice.
	DetEvery int64
}

// Found is a failing execution.
type Found struct {
	Failure  Failure
	Choices  []uint16
	Cost     int
	Obs      []string
	Confirms int
}

// Stats aggregates an exploration.
type Stats struct {
	Executions     int64
	Points         int64
	Steps          int64
	MaxTrace       int
	Outcomes       map[string]int64
	Blocked        int64 // executions in which at least one operation had to wait
	ByCost         []int64
	BoundCompleted int // highest k such that every execution with <=k deviations was run
	Exhaustive     bool
	CapHit         string
	DetChecked     int64
	Leaked         int64
	Found          []Found
	HarnessError   string
	SampleTraces   []string
	MaxThreads     int
	Counters       map[string]int64
}

type node struct {
	parent *node
	trace  []Point // full trace of the execution this node produced (shared, immutable)
}

type item struct {
	parent *node
	pos    int32
	alt    uint16
	cost   int8
	free   int8 // non-default free scheduling choices so far
	depth  int16
}

func (it item) prefix() ([]uint16, []Point) {
	if it.parent == nil {
		return nil, nil
	}
	p := make([]uint16, it.pos+1)
	for i := 0; i < int(it.pos); i++ {
		p[i] = it.parent.trace[i].Chosen
	}
	p[it.pos] = it.alt
	return p, it.parent.trace[:it.pos+1]
}

// dumpFile (VERIF_DUMP): debugging aid, every first occurrence of an outcome is appended to this file.
var dumpFile = os.Getenv("VERIF_DUMP")

// ObsHash hashes an observation log.
func ObsHash(obs []string, f *Failure) string {
	h := sha256.New()
	for _, o := range obs {
		h.Write([]byte(o))
		h.Write([]byte{0})
	}
	if f != nil {
		h.Write([]byte("FAIL:" + f.Signature))
	}
	return hex.EncodeToString(h.Sum(nil)[:8])
}

func choicesOf(tr []Point) []uint16 {
	out := make([]uint16, len(tr))
	last := -1
	for i, p := range tr {
		out[i] = p.Chosen
		if p.Chosen != 0 {
			last = i
		}
	}
	return out[:last+1]
}

// Explore runs body under every schedule / choice sequence within the bound.
func Explore(cfg ExploreConfig, body func()) *Stats {
	st := &Stats{Outcomes: map[string]int64{}, ByCost: make([]int64, cfg.Bound+1), Exhaustive: true, BoundCompleted: cfg.Bound}
	if cfg.ShardCount <= 0 {
		cfg.ShardCount = 1
	}
	buckets := make([][]item, cfg.Bound+1)
	buckets[0] = append(buckets[0], item{})
	rc := Config{MaxSteps: cfg.MaxSteps, EarlyTimers: cfg.EarlyTimers}
	shardCounter := 0
	for {
		b := -1
		for i := range buckets {
			if len(buckets[i]) > 0 {
				b = i
				break
			}
		}
		if b < 0 {
			break
		}
		if (!cfg.Deadline.IsZero() && time.Now().After(cfg.Deadline)) || (cfg.MaxExec > 0 && st.Executions >= cfg.MaxExec) {
			st.Exhaustive = false
			st.BoundCompleted = b - 1
			if cfg.MaxExec > 0 && st.Executions >= cfg.MaxExec {
				st.CapHit = fmt.Sprintf("execution cap %d reached while exploring executions with %d deviations", cfg.MaxExec, b)
			} else {
				st.CapHit = fmt.Sprintf("deadline reached while exploring executions with %d deviations", b)
			}
			break
		}
		it := buckets[b][len(buckets[b])-1]
		buckets[b] = buckets[b][:len(buckets[b])-1]
		prefix, expect := it.prefix()
		res := RunOnce(rc, prefix, expect, body)
		counted := int(it.depth) >= cfg.ShardDepth || cfg.ShardIndex == 0
		if res.Leaked {
			st.Leaked++
		}
		if res.Failure != nil && res.Failure.Harness {
			st.HarnessError = res.Failure.Message
			st.Exhaustive = false
			return st
		}
		oh := ObsHash(res.Obs, res.Failure)
		if counted {
			st.Executions++
			st.ByCost[b]++
			st.Points += int64(len(res.Trace))
			st.Steps += int64(res.Steps)
			if len(res.Trace) > st.MaxTrace {
				st.MaxTrace = len(res.Trace)
			}
			if res.Threads > st.MaxThreads {
				st.MaxThreads = res.Threads
			}
			if res.Blocked > 0 || res.Marked {
				st.Blocked++
			}
			if st.Outcomes[oh] == 0 && dumpFile != "" {
				if f, err := os.OpenFile(dumpFile, os.O_APPEND|os.O_CREATE|os.O_WRONLY, 0o644); err == nil {
					fmt.Fprintf(f, "choices=%v obs=%s\n", choicesOf(res.Trace), strings.Join(res.Obs, " | "))
					f.Close()
				}
			}
			st.Outcomes[oh]++
			for k, v := range res.Counters {
				if st.Counters == nil {
					st.Counters = map[string]int64{}
				}
				st.Counters[k] += v
			}
			if len(st.SampleTraces) < 4 && (st.Executions == 1 || st.Executions%9973 == 0) {
				st.SampleTraces = append(st.SampleTraces, fmt.Sprintf("choices=%v obs=%s", choicesOf(res.Trace), strings.Join(res.Obs, " | ")))
			}
		}
		// Determinism discipline.
		full := make([]uint16, len(res.Trace))
		for i, p := range res.Trace {
			full[i] = p.Chosen
		}
		if res.Failure != nil || (cfg.DetEvery > 0 && st.Executions%cfg.DetEvery == 1) {
			reps := 1
			if res.Failure != nil {
				reps = 5
			}
			confirms := 0
			for k := 0; k < reps; k++ {
				r2 := RunOnce(rc, full, res.Trace, body)
				st.DetChecked++
				if r2.Failure != nil && r2.Failure.Harness {
					st.HarnessError = "determinism check: " + r2.Failure.Message
					st.Exhaustive = false
					return st
				}
				if ObsHash(r2.Obs, r2.Failure) != oh || len(r2.Trace) != len(res.Trace) {
					st.HarnessError = fmt.Sprintf("determinism check: re-running choices %v gave a different observation (%s vs %s; trace %d vs %d)\nfirst: %v\nsecond: %v", choicesOf(res.Trace), oh, ObsHash(r2.Obs, r2.Failure), len(res.Trace), len(r2.Trace), res.Obs, r2.Obs)
					st.Exhaustive = false
					return st
				}
				confirms++
			}
			if res.Failure != nil && counted {
				dup := false
				for _, f := range st.Found {
					if f.Failure.Signature == res.Failure.Signature {
						dup = true
					}
				}
				if !dup && len(st.Found) < 8 {
					st.Found = append(st.Found, Found{Failure: *res.Failure, Choices: choicesOf(res.Trace), Cost: b, Obs: res.Obs, Confirms: confirms})
				}
			}
		}
		// Children.
		nd := &node{parent: it.parent, trace: res.Trace}
		start := 0
		cum := 0
		cumFree := int(it.free)
		if it.parent != nil {
			start = int(it.pos) + 1
			cum = int(it.cost)
		}
		for i := start; i < len(res.Trace); i++ {
			p := res.Trace[i]
			for alt := 1; alt < int(p.N); alt++ {
				cc := cum + p.Cost(alt)
				if cc > cfg.Bound {
					continue
				}
				ff := cumFree
				if p.Kind == 0 && p.Cost(alt) == 0 { // a free choice among runnable threads
					ff++
					if cfg.MaxFreeSwitches > 0 && ff > cfg.MaxFreeSwitches {
						continue
					}
				}
				child := item{parent: nd, pos: int32(i), alt: uint16(alt), cost: int8(cc), free: int8(ff), depth: it.depth + 1}
				if int(child.depth) == cfg.ShardDepth && cfg.ShardCount > 1 {
					mine := shardCounter%cfg.ShardCount == cfg.ShardIndex
					shardCounter++
					if !mine {
						continue
					}
				}
				buckets[cc] = append(buckets[cc], child)
			}
			// the chosen alternative at positions beyond the prefix is 0: cost 0
		}
	}
	return st
}

// Replay re-executes one recorded choice sequence.
func Replay(cfg ExploreConfig, choices []uint16, body func()) *Result {
	return RunOnce(Config{MaxSteps: cfg.MaxSteps, EarlyTimers: cfg.EarlyTimers}, choices, nil, body)
}
