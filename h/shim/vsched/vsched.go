//go:build verif

// Package vsched is the controlled cooperative scheduler that the rewritten
// bb-storage sources (see /verif/h/vinstr) and the harnesses call into. With no
// controller attached every function degrades to the real primitive, so the
// same binary also runs free (used by the -race pass and sequential checks).
//
// Exactly one registered thread runs at a time. A thread reaches a scheduling
// point before every acquiring operation (lock, atomic, channel receive,
// select, wait, gate); releasing operations are not scheduling points.
package vsched

import (
	"fmt"
	"reflect"
	"runtime"
	"runtime/debug"
	"sort"
	"strings"
	"sync"
	"sync/atomic"
	"time"
)

var active atomic.Pointer[Controller]

// Active reports whether a controller is attached.
func Active() bool { return active.Load() != nil }

type op struct {
	kind    string
	enabled func() bool
	idleOK  bool // a daemon may legitimately stay parked here forever
	low     bool // low priority: runnable only while no other (normal) thread is
	pcs     [6]uintptr
	npcs    int
}

type thread struct {
	id       int
	name     string
	daemon   bool
	wake     chan struct{}
	pending  *op
	finished bool
}

// Cost modes of a choice point.
const (
	costAllOne   = 0 // every alternative != 0 costs one deviation
	costAllFree  = 1 // every alternative is free (running thread is blocked)
	costLastOne  = 2 // all free except the last (early timer) which costs one
	costFirstOne = 3 // unused
)

// Point is one recorded choice point.
type Point struct {
	N      uint16
	Chosen uint16
	Mode   uint8
	Kind   uint8
}

// Cost returns the number of deviations alternative alt costs.
func (p Point) Cost(alt int) int {
	if alt == 0 {
		return 0
	}
	switch p.Mode {
	case costAllFree:
		return 0
	case costLastOne:
		if alt == int(p.N)-1 {
			return 1
		}
		return 0
	}
	return 1
}

var kindNames = []string{"sched", "select", "fault", "choice"}

func kindID(k string) uint8 {
	for i, n := range kindNames {
		if n == k {
			return uint8(i)
		}
	}
	return 3
}

// Failure describes why an execution failed.
type Failure struct {
	Signature string
	Message   string
	Harness   bool // harness/tooling error rather than a property violation
}

type vtimer struct {
	at   int64
	seq  int
	ch   chan time.Time
	dead bool
}

// Config parametrises one execution.
type Config struct {
	MaxSteps    int
	EarlyTimers bool
}

// Controller owns one execution.
type Controller struct {
	cfg       Config
	threads   []*thread
	running   *thread
	prefix    []uint16
	expect    []Point
	trace     []Point
	now       int64
	timers    []*vtimer
	timerSeq  int
	closed    map[uintptr]any
	aborting  bool
	failure   *Failure
	ended     bool
	doneCh    chan struct{}
	live      sync.WaitGroup
	steps     int
	obs       []string
	Blocked   int // number of yields whose operation was not enabled at the time (vacuity guard)
	Switches  int
	locals    map[string]any
	timeFires int
	marked    bool
	counters  map[string]int64
}

var epoch = time.Unix(1_000_000_000, 0)

func (c *Controller) vnow() time.Time { return epoch.Add(time.Duration(c.now)) }

func (c *Controller) spawn(name string, daemon bool, f func()) *thread {
	t := &thread{id: len(c.threads), name: name, daemon: daemon, wake: make(chan struct{}, 1)}
	t.pending = &op{kind: "start", enabled: func() bool { return true }}
	c.threads = append(c.threads, t)
	c.live.Add(1)
	go func() {
		defer c.live.Done()
		<-t.wake
		if c.aborting {
			return
		}
		t.pending = nil
		defer func() {
			if c.aborting {
				recover()
				return
			}
			if r := recover(); r != nil {
				st := string(debug.Stack())
				c.setFailure(&Failure{Signature: "panic:" + sanitize(fmt.Sprint(r)), Message: fmt.Sprintf("panic in thread %s: %v\n%s", t.name, r, trimStack(st))})
				t.finished = true
				c.end()
				return
			}
			t.finished = true
			c.schedule(nil)
		}()
		f()
	}()
	return t
}

func sanitize(s string) string {
	if i := strings.IndexByte(s, '\n'); i >= 0 {
		s = s[:i]
	}
	var b strings.Builder
	for _, r := range s {
		if r >= '0' && r <= '9' {
			b.WriteByte('#')
		} else {
			b.WriteRune(r)
		}
		if b.Len() > 100 {
			break
		}
	}
	return b.String()
}

func trimStack(st string) string {
	lines := strings.Split(st, "\n")
	var out []string
	for i := 0; i < len(lines); i++ {
		l := lines[i]
		if strings.Contains(l, "verifshim/vsched") || strings.Contains(l, "runtime/debug") || strings.Contains(l, "runtime/panic") {
			i++
			continue
		}
		out = append(out, l)
		if len(out) > 40 {
			break
		}
	}
	return strings.Join(out, "\n")
}

func (c *Controller) setFailure(f *Failure) {
	if c.failure == nil {
		c.failure = f
	}
}

func (c *Controller) end() {
	if !c.ended {
		c.ended = true
		close(c.doneCh)
	}
}

// park blocks the calling thread goroutine until the execution is torn down.
func (c *Controller) park(self *thread) {
	if self != nil && !self.finished {
		<-self.wake
		runtime.Goexit()
	}
}

func (c *Controller) choice(kind string, n int, mode uint8) int {
	pos := len(c.trace)
	ch := 0
	if pos < len(c.prefix) {
		ch = int(c.prefix[pos])
		if pos < len(c.expect) && (int(c.expect[pos].N) != n || c.expect[pos].Kind != kindID(kind)) {
			c.setFailure(&Failure{Harness: true, Signature: "nondeterministic-replay", Message: fmt.Sprintf("replay diverged at point %d: expected N=%d kind=%s, got N=%d kind=%s", pos, c.expect[pos].N, kindNames[c.expect[pos].Kind], n, kind)})
			ch = 0
		}
		if ch >= n {
			c.setFailure(&Failure{Harness: true, Signature: "nondeterministic-replay", Message: fmt.Sprintf("replay diverged at point %d: choice %d out of range %d", pos, ch, n)})
			ch = 0
		}
	}
	c.trace = append(c.trace, Point{N: uint16(n), Chosen: uint16(ch), Mode: mode, Kind: kindID(kind)})
	return ch
}

func (c *Controller) enabledThreads(self *thread) []*thread {
	var en, low []*thread
	if self != nil && !self.finished && self.pending != nil && self.pending.enabled() {
		if self.pending.low {
			low = append(low, self)
		} else {
			en = append(en, self)
		}
	}
	for _, t := range c.threads {
		if t == self || t.finished || t.pending == nil {
			continue
		}
		if t.pending.enabled() {
			if t.pending.low {
				low = append(low, t)
			} else {
				en = append(en, t)
			}
		}
	}
	if len(en) == 0 {
		return low // only slow operations are left: they proceed (self first, then ascending ids)
	}
	return en
}

func (c *Controller) liveTimers() bool {
	for _, t := range c.timers {
		if !t.dead {
			return true
		}
	}
	return false
}

func (c *Controller) fireEarliest() {
	var best *vtimer
	for _, t := range c.timers {
		if t.dead {
			continue
		}
		if best == nil || t.at < best.at || (t.at == best.at && t.seq < best.seq) {
			best = t
		}
	}
	if best == nil {
		return
	}
	if best.at > c.now {
		c.now = best.at
	}
	best.dead = true
	c.timeFires++
	best.ch <- c.vnow()
	// compact
	j := 0
	for _, t := range c.timers {
		if !t.dead {
			c.timers[j] = t
			j++
		}
	}
	c.timers = c.timers[:j]
}

func (c *Controller) schedule(self *thread) {
	for {
		if c.failure != nil && c.failure.Harness {
			c.end()
			c.park(self)
			return
		}
		en := c.enabledThreads(self)
		timers := c.liveTimers()
		if len(en) == 0 {
			if timers {
				c.fireEarliest()
				continue
			}
			c.terminal(self)
			return
		}
		n := len(en)
		early := timers && c.cfg.EarlyTimers
		if early {
			n++
		}
		idx := 0
		if n > 1 {
			selfEnabled := self != nil && en[0] == self
			mode := uint8(costAllOne)
			if !selfEnabled {
				mode = costAllFree
				if early {
					mode = costLastOne
				}
			}
			idx = c.choice("sched", n, mode)
		}
		if idx == len(en) {
			c.fireEarliest()
			continue
		}
		next := en[idx]
		if next == self {
			return
		}
		c.Switches++
		c.running = next
		next.wake <- struct{}{}
		if self != nil && !self.finished {
			<-self.wake
			if c.aborting {
				runtime.Goexit()
			}
		}
		return
	}
}

func (c *Controller) describeBlocked() string {
	var b strings.Builder
	for _, t := range c.threads {
		if t.finished {
			continue
		}
		k := "?"
		where := ""
		if t.pending != nil {
			k = t.pending.kind
			frames := runtime.CallersFrames(t.pending.pcs[:t.pending.npcs])
			for {
				fr, more := frames.Next()
				if fr.Function != "" && !strings.Contains(fr.Function, "verifshim/") {
					where += fmt.Sprintf(" <- %s:%d", shortFunc(fr.Function), fr.Line)
				}
				if !more {
					break
				}
			}
		}
		fmt.Fprintf(&b, "  thread %d %q (daemon=%v) blocked at %s%s\n", t.id, t.name, t.daemon, k, where)
	}
	return b.String()
}

func shortFunc(f string) string {
	if i := strings.LastIndex(f, "/"); i >= 0 {
		return f[i+1:]
	}
	return f
}

func (c *Controller) terminal(self *thread) {
	var dead []string
	for _, t := range c.threads {
		if t.finished {
			continue
		}
		if t.daemon && t.pending != nil && t.pending.idleOK {
			continue
		}
		k := "?"
		if t.pending != nil {
			k = t.pending.kind
		}
		dead = append(dead, t.name+"@"+k)
	}
	if len(dead) > 0 {
		sort.Strings(dead)
		c.setFailure(&Failure{Signature: "deadlock:" + strings.Join(dead, ","), Message: "deadlock: no thread can run and no timer is pending\n" + c.describeBlocked()})
	}
	c.end()
	c.park(self)
}

func (c *Controller) yield(o *op) {
	if c.aborting || c.ended {
		if c.ended && !c.aborting {
			// Execution already ended by another path (failure): park.
			c.park(c.running)
		}
		return
	}
	t := c.running
	c.steps++
	if c.cfg.MaxSteps > 0 && c.steps > c.cfg.MaxSteps {
		c.setFailure(&Failure{Signature: "livelock", Message: fmt.Sprintf("execution exceeded %d scheduling steps (livelock or unbounded retry loop)\n%s", c.cfg.MaxSteps, c.describeBlocked())})
		c.end()
		c.park(t)
		return
	}
	o.npcs = runtime.Callers(3, o.pcs[:])
	if !o.enabled() {
		c.Blocked++
	}
	t.pending = o
	c.schedule(t)
	t.pending = nil
}

// ---- API used by shims and harnesses -----------------------------------------

var always = func() bool { return true }

// Yield is a pure scheduling point (a "gate").
func Yield(kind string) {
	if c := active.Load(); c != nil {
		c.yield(&op{kind: kind, enabled: always})
	}
}

// YieldLow is a scheduling point of a slow operation: the caller continues only once no other thread can
// run (every other thread finished, blocked, or is itself in a slow operation). Letting everybody else
// proceed first costs no deviation.
func YieldLow(kind string) {
	if c := active.Load(); c != nil {
		c.yield(&op{kind: kind, enabled: always, low: true})
	}
}

// Block is a scheduling point that is enabled only when cond() holds.
func Block(kind string, idleOK bool, cond func() bool) {
	if c := active.Load(); c != nil {
		c.yield(&op{kind: kind, enabled: cond, idleOK: idleOK})
	}
}

// Choose is a data choice point with n alternatives; alternative 0 is the
// default, every other one costs one deviation. Without a controller it returns 0.
func Choose(kind string, n int) int {
	c := active.Load()
	if c == nil || c.aborting || c.ended || n <= 1 {
		return 0
	}
	return c.choice(kind, n, costAllOne)
}

// Go starts f as a new scheduled thread (or a plain goroutine when free-running).
func Go(f func()) {
	c := active.Load()
	if c == nil {
		go f()
		return
	}
	if c.aborting || spawnMode == SpawnSuppress {
		return
	}
	c.spawn(fmt.Sprintf("g%d", len(c.threads)), spawnMode == SpawnDaemon, f)
}

// GoNamed starts a named thread; daemon threads may stay parked at a channel wait at the end.
func GoNamed(name string, daemon bool, f func()) {
	c := active.Load()
	if c == nil {
		go f()
		return
	}
	if c.aborting || (spawnMode == SpawnSuppress && daemon) {
		return
	}
	c.spawn(name, daemon, f)
}

// Fail records a property violation and ends the execution.
func Fail(signature, format string, a ...any) {
	c := active.Load()
	if c == nil {
		panic(fmt.Sprintf("vsched.Fail outside controller: %s: %s", signature, fmt.Sprintf(format, a...)))
	}
	if c.aborting {
		return
	}
	c.setFailure(&Failure{Signature: signature, Message: fmt.Sprintf(format, a...)})
	c.end()
	c.park(c.running)
}

// HarnessFail records a harness error and ends the execution.
func HarnessFail(format string, a ...any) {
	c := active.Load()
	if c == nil {
		panic("harness error: " + fmt.Sprintf(format, a...))
	}
	if c.aborting {
		return
	}
	c.setFailure(&Failure{Harness: true, Signature: "harness", Message: fmt.Sprintf(format, a...)})
	c.end()
	c.park(c.running)
}

// Obs appends to the execution's observation log (hashed for determinism and outcome counting).
func Obs(format string, a ...any) {
	if c := active.Load(); c != nil {
		c.obs = append(c.obs, fmt.Sprintf(format, a...))
	}
}

// Mark flags the current execution as non-trivial by the harness's own rule.
func Mark() {
	if c := active.Load(); c != nil {
		c.marked = true
	}
}

// Local returns a per-execution value store for harness collaborators.
func Local(key string, mk func() any) any {
	c := active.Load()
	if c == nil {
		return mk()
	}
	if c.locals == nil {
		c.locals = map[string]any{}
	}
	v, ok := c.locals[key]
	if !ok {
		v = mk()
		c.locals[key] = v
	}
	return v
}

// Others reports whether every other thread is finished or parked at an
// operation that is currently not enabled.
func othersQuiet(c *Controller, self *thread) bool {
	for _, t := range c.threads {
		if t == self || t.finished {
			continue
		}
		if t.pending == nil || t.pending.enabled() {
			return false
		}
	}
	return true
}

// WaitQuiescent blocks the caller until no other thread can make progress and no timer is pending.
func WaitQuiescent() {
	c := active.Load()
	if c == nil {
		return
	}
	self := c.running
	c.yield(&op{kind: "wait-quiescent", enabled: func() bool { return othersQuiet(c, self) && !c.liveTimers() }})
}

// WaitOthersFinished blocks until every non-daemon thread other than the caller has finished.
func WaitOthersFinished() {
	c := active.Load()
	if c == nil {
		return
	}
	self := c.running
	c.yield(&op{kind: "join", enabled: func() bool {
		for _, t := range c.threads {
			if t != self && !t.daemon && !t.finished {
				return false
			}
		}
		return true
	}})
}

// ---- virtual time ---------------------------------------------------------------

// Now returns virtual time under a controller and real time otherwise.
func Now() time.Time {
	if c := active.Load(); c != nil {
		return c.vnow()
	}
	return time.Now()
}

// Since is time.Since on the virtual clock.
func Since(t time.Time) time.Duration { return Now().Sub(t) }

// Advance moves virtual time forward (harness use).
func Advance(d time.Duration) {
	if c := active.Load(); c != nil {
		c.now += int64(d)
	}
}

// NewTimer creates a virtual timer; the returned stop function reports whether it prevented the firing.
func NewTimer(d time.Duration) (func() bool, <-chan time.Time) {
	c := active.Load()
	if c == nil {
		t := time.NewTimer(d)
		return t.Stop, t.C
	}
	ch := make(chan time.Time, 1)
	if d <= 0 {
		ch <- c.vnow()
		return func() bool { return false }, ch
	}
	c.timerSeq++
	vt := &vtimer{at: c.now + int64(d), seq: c.timerSeq, ch: ch}
	c.timers = append(c.timers, vt)
	return func() bool {
		if vt.dead {
			return false
		}
		vt.dead = true
		return true
	}, ch
}

// ---- channels ---------------------------------------------------------------------

func chanPtr(ch any) uintptr { return reflect.ValueOf(ch).Pointer() }

func (c *Controller) isClosedRecv(ch reflect.Value) bool {
	p := ch.Pointer()
	if _, ok := c.closed[p]; ok {
		return true
	}
	if ch.Len() > 0 {
		return false
	}
	// Nothing buffered: a non-blocking receive can only succeed on a closed channel,
	// because no other thread runs and rendezvous sends are not modelled.
	v, ok := ch.TryRecv()
	if !v.IsValid() && !ok {
		// would block (open, empty)
		return false
	}
	if ok {
		c.setFailure(&Failure{Harness: true, Signature: "harness", Message: "vsched: probe consumed a value from an unbuffered channel (unsupported rendezvous send)"})
		return true
	}
	c.closed[p] = ch.Interface()
	return true
}

func (c *Controller) recvReady(ch reflect.Value) bool {
	if ch.IsNil() {
		return false
	}
	return ch.Len() > 0 || c.isClosedRecv(ch)
}

// Recv is `<-ch`.
func Recv[T any](ch <-chan T) T {
	v, _ := Recv2(ch)
	return v
}

// Recv2 is `v, ok := <-ch`.
func Recv2[T any](ch <-chan T) (T, bool) {
	c := active.Load()
	if c == nil {
		v, ok := <-ch
		return v, ok
	}
	if c.aborting {
		var z T
		return z, false
	}
	rv := reflect.ValueOf(ch)
	c.yield(&op{kind: "recv", idleOK: true, enabled: func() bool { return c.recvReady(rv) }})
	if c.aborting {
		var z T
		return z, false
	}
	select {
	case v, ok := <-ch:
		return v, ok
	default:
		c.setFailure(&Failure{Harness: true, Signature: "harness", Message: "vsched: receive scheduled but channel not ready"})
		var z T
		return z, false
	}
}

// BeforeSend precedes a send statement `ch <- v`.
func BeforeSend(ch any) {
	c := active.Load()
	if c == nil || c.aborting {
		return
	}
	rv := reflect.ValueOf(ch)
	if rv.Cap() == 0 {
		c.setFailure(&Failure{Harness: true, Signature: "harness", Message: "vsched: send on an unbuffered channel is not modelled"})
		c.end()
		c.park(c.running)
		return
	}
	if rv.Len() >= rv.Cap() {
		c.yield(&op{kind: "send", enabled: func() bool { return rv.Len() < rv.Cap() }})
	}
}

// Close is `close(ch)`.
func Close[T any](ch chan<- T) {
	if c := active.Load(); c != nil && !c.aborting {
		c.closed[chanPtr(ch)] = ch
	}
	close(ch)
}

// Select models a select statement over receive cases. It returns the index of the
// chosen case (-1 for default), the received value and the ok flag.
func Select(hasDefault bool, cases ...any) (int, any, bool) {
	c := active.Load()
	if c == nil {
		scs := make([]reflect.SelectCase, 0, len(cases)+1)
		for _, ch := range cases {
			scs = append(scs, reflect.SelectCase{Dir: reflect.SelectRecv, Chan: reflect.ValueOf(ch)})
		}
		if hasDefault {
			scs = append(scs, reflect.SelectCase{Dir: reflect.SelectDefault})
		}
		i, v, ok := reflect.Select(scs)
		if hasDefault && i == len(cases) {
			return -1, nil, false
		}
		if v.IsValid() {
			return i, v.Interface(), ok
		}
		return i, nil, ok
	}
	if c.aborting {
		return -1, nil, false
	}
	rvs := make([]reflect.Value, len(cases))
	for i, ch := range cases {
		rvs[i] = reflect.ValueOf(ch)
	}
	ready := func() []int {
		var r []int
		for i, rv := range rvs {
			if rv.IsValid() && c.recvReady(rv) {
				r = append(r, i)
			}
		}
		return r
	}
	c.yield(&op{kind: "select", idleOK: true, enabled: func() bool { return hasDefault || len(ready()) > 0 }})
	if c.aborting {
		return -1, nil, false
	}
	r := ready()
	if len(r) == 0 {
		return -1, nil, false
	}
	pick := 0
	if len(r) > 1 {
		pick = c.choice("select", len(r), costAllOne)
	}
	i := r[pick]
	v, ok := rvs[i].TryRecv()
	if v.IsValid() {
		return i, v.Interface(), ok
	}
	return i, nil, ok
}

// Cast converts a value received through Select to the element type of ch.
func Cast[T any](ch <-chan T, v any) T {
	if v == nil {
		var z T
		return z
	}
	return v.(T)
}

// ---- running one execution --------------------------------------------------------------------

// Result of one execution.
type Result struct {
	Trace    []Point
	Failure  *Failure
	Obs      []string
	Steps    int
	Blocked  int
	Switches int
	Threads  int
	Leaked   bool
	VTime    int64
	Marked   bool
	Counters map[string]int64
}

// RunOnce executes body as thread 0 under a fresh controller following prefix.
func RunOnce(cfg Config, prefix []uint16, expect []Point, body func()) *Result {
	c := &Controller{cfg: cfg, prefix: prefix, expect: expect, closed: map[uintptr]any{}, doneCh: make(chan struct{})}
	if !active.CompareAndSwap(nil, c) {
		panic("vsched: controller already active")
	}
	t0 := c.spawn("main", false, body)
	c.running = t0
	t0.wake <- struct{}{}
	<-c.doneCh
	c.aborting = true
	for _, t := range c.threads {
		if !t.finished {
			select {
			case t.wake <- struct{}{}:
			default:
			}
		}
	}
	done := make(chan struct{})
	go func() { c.live.Wait(); close(done) }()
	leaked := false
	select {
	case <-done:
	case <-time.After(10 * time.Second):
		leaked = true
	}
	active.Store(nil)
	return &Result{Trace: c.trace, Failure: c.failure, Obs: c.obs, Steps: c.steps, Blocked: c.Blocked, Switches: c.Switches, Threads: len(c.threads), Leaked: leaked, VTime: c.now, Marked: c.marked, Counters: c.counters}
}

// Aborting reports whether the current execution is being torn down (shim releases become no-ops).
func Aborting() bool {
	c := active.Load()
	return c != nil && (c.aborting || c.ended)
}

// ChooseFree is a data choice point whose alternatives cost no deviation: the
// explorer enumerates all of them regardless of the bound (used to enumerate
// operation sequences and inputs inside an execution).
func ChooseFree(kind string, n int) int {
	c := active.Load()
	if c == nil || c.aborting || c.ended || n <= 1 {
		return 0
	}
	return c.choice(kind, n, costAllFree)
}

// Count adds to a named per-execution counter that the explorer sums over all executions.
func Count(name string, n int64) {
	if c := active.Load(); c != nil {
		if c.counters == nil {
			c.counters = map[string]int64{}
		}
		c.counters[name] += n
	}
}

// Spawn modes for threads created by rewritten `go` statements (vsched.Go).
const (
	SpawnNormal   = 0
	SpawnDaemon   = 1 // threads may stay parked at a channel wait when the execution ends
	SpawnSuppress = 2 // the goroutine is not started at all (the harness drives that code inline)
)

var spawnMode = SpawnNormal

// SetSpawnMode changes how vsched.Go treats new threads (harness use, around wiring code).
func SetSpawnMode(m int) { spawnMode = m }
