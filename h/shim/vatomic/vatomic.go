//go:build verif

// Package vatomic replaces "sync/atomic": every operation is a scheduling point.
package vatomic

import (
	"sync/atomic"

	"github.com/buildbarn/bb-storage/pkg/verifshim/vsched"
)

func pt() { vsched.Yield("atomic") }

// Int32 wraps atomic.Int32.
type Int32 struct{ v atomic.Int32 }

func (x *Int32) Load() int32                    { pt(); return x.v.Load() }
func (x *Int32) Store(v int32)                  { pt(); x.v.Store(v) }
func (x *Int32) Add(d int32) int32              { pt(); return x.v.Add(d) }
func (x *Int32) Swap(v int32) int32             { pt(); return x.v.Swap(v) }
func (x *Int32) CompareAndSwap(o, n int32) bool { pt(); return x.v.CompareAndSwap(o, n) }

// Int64 wraps atomic.Int64.
type Int64 struct{ v atomic.Int64 }

func (x *Int64) Load() int64                    { pt(); return x.v.Load() }
func (x *Int64) Store(v int64)                  { pt(); x.v.Store(v) }
func (x *Int64) Add(d int64) int64              { pt(); return x.v.Add(d) }
func (x *Int64) Swap(v int64) int64             { pt(); return x.v.Swap(v) }
func (x *Int64) CompareAndSwap(o, n int64) bool { pt(); return x.v.CompareAndSwap(o, n) }

// Uint32 wraps atomic.Uint32.
type Uint32 struct{ v atomic.Uint32 }

func (x *Uint32) Load() uint32                    { pt(); return x.v.Load() }
func (x *Uint32) Store(v uint32)                  { pt(); x.v.Store(v) }
func (x *Uint32) Add(d uint32) uint32             { pt(); return x.v.Add(d) }
func (x *Uint32) Swap(v uint32) uint32            { pt(); return x.v.Swap(v) }
func (x *Uint32) CompareAndSwap(o, n uint32) bool { pt(); return x.v.CompareAndSwap(o, n) }

// Uint64 wraps atomic.Uint64.
type Uint64 struct{ v atomic.Uint64 }

func (x *Uint64) Load() uint64                    { pt(); return x.v.Load() }
func (x *Uint64) Store(v uint64)                  { pt(); x.v.Store(v) }
func (x *Uint64) Add(d uint64) uint64             { pt(); return x.v.Add(d) }
func (x *Uint64) Swap(v uint64) uint64            { pt(); return x.v.Swap(v) }
func (x *Uint64) CompareAndSwap(o, n uint64) bool { pt(); return x.v.CompareAndSwap(o, n) }

// Uintptr wraps atomic.Uintptr.
type Uintptr struct{ v atomic.Uintptr }

func (x *Uintptr) Load() uintptr                    { pt(); return x.v.Load() }
func (x *Uintptr) Store(v uintptr)                  { pt(); x.v.Store(v) }
func (x *Uintptr) Add(d uintptr) uintptr            { pt(); return x.v.Add(d) }
func (x *Uintptr) Swap(v uintptr) uintptr           { pt(); return x.v.Swap(v) }
func (x *Uintptr) CompareAndSwap(o, n uintptr) bool { pt(); return x.v.CompareAndSwap(o, n) }

// Bool wraps atomic.Bool.
type Bool struct{ v atomic.Bool }

func (x *Bool) Load() bool                    { pt(); return x.v.Load() }
func (x *Bool) Store(v bool)                  { pt(); x.v.Store(v) }
func (x *Bool) Swap(v bool) bool              { pt(); return x.v.Swap(v) }
func (x *Bool) CompareAndSwap(o, n bool) bool { pt(); return x.v.CompareAndSwap(o, n) }

// Pointer wraps atomic.Pointer.
type Pointer[T any] struct{ v atomic.Pointer[T] }

func (x *Pointer[T]) Load() *T                    { pt(); return x.v.Load() }
func (x *Pointer[T]) Store(v *T)                  { pt(); x.v.Store(v) }
func (x *Pointer[T]) Swap(v *T) *T                { pt(); return x.v.Swap(v) }
func (x *Pointer[T]) CompareAndSwap(o, n *T) bool { pt(); return x.v.CompareAndSwap(o, n) }

// Value wraps atomic.Value.
type Value struct{ v atomic.Value }

func (x *Value) Load() any                    { pt(); return x.v.Load() }
func (x *Value) Store(v any)                  { pt(); x.v.Store(v) }
func (x *Value) Swap(v any) any               { pt(); return x.v.Swap(v) }
func (x *Value) CompareAndSwap(o, n any) bool { pt(); return x.v.CompareAndSwap(o, n) }

// Function forms.
func AddInt32(p *int32, d int32) int32              { pt(); return atomic.AddInt32(p, d) }
func AddInt64(p *int64, d int64) int64              { pt(); return atomic.AddInt64(p, d) }
func AddUint32(p *uint32, d uint32) uint32          { pt(); return atomic.AddUint32(p, d) }
func AddUint64(p *uint64, d uint64) uint64          { pt(); return atomic.AddUint64(p, d) }
func LoadInt32(p *int32) int32                      { pt(); return atomic.LoadInt32(p) }
func LoadInt64(p *int64) int64                      { pt(); return atomic.LoadInt64(p) }
func LoadUint32(p *uint32) uint32                   { pt(); return atomic.LoadUint32(p) }
func LoadUint64(p *uint64) uint64                   { pt(); return atomic.LoadUint64(p) }
func StoreInt32(p *int32, v int32)                  { pt(); atomic.StoreInt32(p, v) }
func StoreInt64(p *int64, v int64)                  { pt(); atomic.StoreInt64(p, v) }
func StoreUint32(p *uint32, v uint32)               { pt(); atomic.StoreUint32(p, v) }
func StoreUint64(p *uint64, v uint64)               { pt(); atomic.StoreUint64(p, v) }
func CompareAndSwapInt32(p *int32, o, n int32) bool { pt(); return atomic.CompareAndSwapInt32(p, o, n) }
func CompareAndSwapInt64(p *int64, o, n int64) bool { pt(); return atomic.CompareAndSwapInt64(p, o, n) }
func CompareAndSwapUint32(p *uint32, o, n uint32) bool {
	pt()
	return atomic.CompareAndSwapUint32(p, o, n)
}
func CompareAndSwapUint64(p *uint64, o, n uint64) bool {
	pt()
	return atomic.CompareAndSwapUint64(p, o, n)
}
