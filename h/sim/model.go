// Package sim holds the harness-owned, deterministic collaborators: model
// backends, sources with enumerated chunkings, simulated media, clocks.
package sim

import (
	"bytes"
	"context"
	"crypto/sha256"
	"encoding/hex"
	"fmt"
	"io"
	"sort"
	"strings"
	"sync"

	remoteexecution "github.com/bazelbuild/remote-apis/build/bazel/remote/execution/v2"
	"github.com/buildbarn/bb-storage/pkg/blobstore"
	"github.com/buildbarn/bb-storage/pkg/blobstore/buffer"
	"github.com/buildbarn/bb-storage/pkg/blobstore/slicing"
	"github.com/buildbarn/bb-storage/pkg/digest"

	"google.golang.org/grpc/codes"
	"google.golang.org/grpc/status"
)

// SHA256Digest returns the true SHA-256 digest of content under an instance name.
func SHA256Digest(instance string, content []byte) digest.Digest {
	h := sha256.Sum256(content)
	return digest.MustNewDigest(instance, remoteexecution.DigestFunction_SHA256, hex.EncodeToString(h[:]), int64(len(content)))
}

// Call is one recorded backend call.
type Call struct {
	Backend string
	Op      string // Get, GetFromComposite, Put, FindMissing
	Digests []string
	Err     string
	Result  []string // FindMissing: missing digests
}

func (c Call) String() string {
	return fmt.Sprintf("%s.%s(%s)->%s%s", c.Backend, c.Op, strings.Join(c.Digests, ","), strings.Join(c.Result, ","), c.Err)
}

// ModelBlobAccess is a map with call recording and fault injection. It is the
// boring reference backend of the composite checks.
type ModelBlobAccess struct {
	Name      string
	KeyFormat digest.KeyFormat
	// Hook is consulted before every operation; a non-nil error makes the
	// operation fail with it (after releasing any buffer handed in). It may
	// also act as a scheduling gate.
	Hook func(op string, digests []digest.Digest) error
	// PostHook is called after the operation took effect, before returning.
	PostHook func(op string, digests []digest.Digest)
	// AC makes Get return Protobuf-backed ActionResult buffers.
	AC bool
	// Streaming makes Get return reader-backed CAS buffers (as local stores on block devices and gRPC
	// backends do) instead of byte-slice-backed ones: background tasks attached to such a buffer run
	// while the consumer reads, not inside the call that attached them.
	Streaming bool
	// LateError (with Streaming) makes the stream of every buffer handed out fail with this error after half of
	// the object's bytes (at least one call) were delivered: a failure that only shows while the data is consumed.
	LateError error

	mu    sync.Mutex
	data  map[string][]byte
	Calls []Call
	// PutBufferReleases counts Put buffers consumed or discarded.
	PutBufferReleases int
}

// NewModel creates an empty model backend.
func NewModel(name string, kf digest.KeyFormat) *ModelBlobAccess {
	return &ModelBlobAccess{Name: name, KeyFormat: kf, data: map[string][]byte{}}
}

var _ blobstore.BlobAccess = (*ModelBlobAccess)(nil)

func (m *ModelBlobAccess) key(d digest.Digest) string { return d.GetKey(m.KeyFormat) }

// Has reports whether the model holds d.
func (m *ModelBlobAccess) Has(d digest.Digest) bool {
	m.mu.Lock()
	defer m.mu.Unlock()
	_, ok := m.data[m.key(d)]
	return ok
}

// Peek returns the stored bytes.
func (m *ModelBlobAccess) Peek(d digest.Digest) ([]byte, bool) {
	m.mu.Lock()
	defer m.mu.Unlock()
	b, ok := m.data[m.key(d)]
	return b, ok
}

// Store inserts without recording a call (initial placement).
func (m *ModelBlobAccess) Store(d digest.Digest, content []byte) {
	m.mu.Lock()
	m.data[m.key(d)] = append([]byte(nil), content...)
	m.mu.Unlock()
}

// Remove deletes without recording a call.
func (m *ModelBlobAccess) Remove(d digest.Digest) {
	m.mu.Lock()
	delete(m.data, m.key(d))
	m.mu.Unlock()
}

// Keys returns the sorted key list (canonical content fingerprint).
func (m *ModelBlobAccess) Keys() []string {
	m.mu.Lock()
	defer m.mu.Unlock()
	ks := make([]string, 0, len(m.data))
	for k := range m.data {
		ks = append(ks, k)
	}
	sort.Strings(ks)
	return ks
}

// CallCount returns the number of recorded calls.
func (m *ModelBlobAccess) CallCount() int {
	m.mu.Lock()
	defer m.mu.Unlock()
	return len(m.Calls)
}

// CallsCopy returns a copy of the call log.
func (m *ModelBlobAccess) CallsCopy() []Call {
	m.mu.Lock()
	defer m.mu.Unlock()
	return append([]Call(nil), m.Calls...)
}

func (m *ModelBlobAccess) record(c Call) {
	m.mu.Lock()
	m.Calls = append(m.Calls, c)
	m.mu.Unlock()
}

func dstrs(ds ...digest.Digest) []string {
	out := make([]string, len(ds))
	for i, d := range ds {
		out[i] = d.String()
	}
	return out
}

func errStr(err error) string {
	if err == nil {
		return ""
	}
	return "ERR:" + status.Code(err).String()
}

// GetCapabilities implements capabilities.Provider.
func (m *ModelBlobAccess) GetCapabilities(ctx context.Context, instanceName digest.InstanceName) (*remoteexecution.ServerCapabilities, error) {
	return &remoteexecution.ServerCapabilities{}, nil
}

func (m *ModelBlobAccess) newBuffer(d digest.Digest, data []byte) buffer.Buffer {
	if m.AC {
		return buffer.NewProtoBufferFromByteSlice(&remoteexecution.ActionResult{}, data, buffer.BackendProvided(buffer.Irreparable(d)))
	}
	if m.Streaming && m.LateError != nil {
		return buffer.NewCASBufferFromReader(d, io.NopCloser(&lateFailingReader{data: data[:len(data)/2], err: m.LateError}), buffer.BackendProvided(buffer.Irreparable(d)))
	}
	if m.Streaming {
		return buffer.NewCASBufferFromReader(d, io.NopCloser(bytes.NewReader(data)), buffer.BackendProvided(buffer.Irreparable(d)))
	}
	return buffer.NewCASBufferFromByteSlice(d, data, buffer.BackendProvided(buffer.Irreparable(d)))
}

type lateFailingReader struct {
	data []byte
	err  error
}

func (r *lateFailingReader) Read(p []byte) (int, error) {
	if len(r.data) == 0 {
		return 0, r.err
	}
	n := copy(p, r.data)
	r.data = r.data[n:]
	return n, nil
}

// Get implements BlobAccess.
func (m *ModelBlobAccess) Get(ctx context.Context, d digest.Digest) buffer.Buffer {
	if m.Hook != nil {
		if err := m.Hook("Get", []digest.Digest{d}); err != nil {
			m.record(Call{Backend: m.Name, Op: "Get", Digests: dstrs(d), Err: errStr(err)})
			return buffer.NewBufferFromError(err)
		}
	}
	m.mu.Lock()
	data, ok := m.data[m.key(d)]
	m.mu.Unlock()
	if !ok {
		err := status.Errorf(codes.NotFound, "Object %s not found in %s", d.String(), m.Name)
		m.record(Call{Backend: m.Name, Op: "Get", Digests: dstrs(d), Err: errStr(err)})
		return buffer.NewBufferFromError(err)
	}
	m.record(Call{Backend: m.Name, Op: "Get", Digests: dstrs(d)})
	if m.PostHook != nil {
		m.PostHook("Get", []digest.Digest{d})
	}
	return m.newBuffer(d, append([]byte(nil), data...))
}

// GetFromComposite implements BlobAccess by slicing the parent.
func (m *ModelBlobAccess) GetFromComposite(ctx context.Context, parent, child digest.Digest, slicer slicing.BlobSlicer) buffer.Buffer {
	if m.Hook != nil {
		if err := m.Hook("GetFromComposite", []digest.Digest{parent, child}); err != nil {
			m.record(Call{Backend: m.Name, Op: "GetFromComposite", Digests: dstrs(parent, child), Err: errStr(err)})
			return buffer.NewBufferFromError(err)
		}
	}
	m.mu.Lock()
	data, ok := m.data[m.key(parent)]
	m.mu.Unlock()
	if !ok {
		err := status.Errorf(codes.NotFound, "Object %s not found in %s", parent.String(), m.Name)
		m.record(Call{Backend: m.Name, Op: "GetFromComposite", Digests: dstrs(parent, child), Err: errStr(err)})
		return buffer.NewBufferFromError(err)
	}
	m.record(Call{Backend: m.Name, Op: "GetFromComposite", Digests: dstrs(parent, child)})
	b, _ := slicer.Slice(m.newBuffer(parent, append([]byte(nil), data...)), child)
	return b
}

// Put implements BlobAccess.
func (m *ModelBlobAccess) Put(ctx context.Context, d digest.Digest, b buffer.Buffer) error {
	if m.Hook != nil {
		if err := m.Hook("Put", []digest.Digest{d}); err != nil {
			b.Discard()
			m.mu.Lock()
			m.PutBufferReleases++
			m.mu.Unlock()
			m.record(Call{Backend: m.Name, Op: "Put", Digests: dstrs(d), Err: errStr(err)})
			return err
		}
	}
	data, err := b.ToByteSlice(1 << 20)
	m.mu.Lock()
	m.PutBufferReleases++
	m.mu.Unlock()
	if err != nil {
		m.record(Call{Backend: m.Name, Op: "Put", Digests: dstrs(d), Err: errStr(err)})
		return err
	}
	m.mu.Lock()
	m.data[m.key(d)] = append([]byte(nil), data...)
	m.mu.Unlock()
	m.record(Call{Backend: m.Name, Op: "Put", Digests: dstrs(d)})
	if m.PostHook != nil {
		m.PostHook("Put", []digest.Digest{d})
	}
	return nil
}

// FindMissing implements BlobAccess.
func (m *ModelBlobAccess) FindMissing(ctx context.Context, digests digest.Set) (digest.Set, error) {
	items := digests.Items()
	if m.Hook != nil {
		if err := m.Hook("FindMissing", items); err != nil {
			m.record(Call{Backend: m.Name, Op: "FindMissing", Digests: dstrs(items...), Err: errStr(err)})
			return digest.EmptySet, err
		}
	}
	sb := digest.NewSetBuilder(0)
	var miss []digest.Digest
	m.mu.Lock()
	for _, d := range items {
		if _, ok := m.data[m.key(d)]; !ok {
			sb.Add(d)
			miss = append(miss, d)
		}
	}
	m.mu.Unlock()
	m.record(Call{Backend: m.Name, Op: "FindMissing", Digests: dstrs(items...), Result: dstrs(miss...)})
	if m.PostHook != nil {
		m.PostHook("FindMissing", items)
	}
	return sb.Build(), nil
}

// SetOf builds a digest.Set.
func SetOf(ds ...digest.Digest) digest.Set {
	sb := digest.NewSetBuilder(0)
	for _, d := range ds {
		sb.Add(d)
	}
	return sb.Build()
}

// SetStrings renders a set as sorted strings.
func SetStrings(s digest.Set) []string {
	out := dstrs(s.Items()...)
	sort.Strings(out)
	return out
}

// Code returns the gRPC code name of err ("OK" for nil).
func Code(err error) string {
	if err == nil {
		return "OK"
	}
	return status.Code(err).String()
}

// Instance parses an instance name that is known to be valid.
func Instance(s string) digest.InstanceName {
	in, err := digest.NewInstanceName(s)
	if err != nil {
		panic(err)
	}
	return in
}
