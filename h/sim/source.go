package sim

import (
	"io"
)

// Script describes how a source delivers its data: a list of chunks (empty
// chunks allowed), an optional terminal error instead of io.EOF, and whether
// the final chunk is returned together with io.EOF (readers only).
type Script struct {
	Chunks    [][]byte
	FinalErr  error // nil means io.EOF
	EOFWithIt bool  // readers: return (n>0, io.EOF) together on the last chunk
}

// Source is a scripted upload/backing source usable as io.ReadCloser and as
// buffer.ChunkReader. Every Read first calls Gate (if set).
type Source struct {
	Script Script
	Gate   func()
	pos    int
	off    int // offset inside current chunk (reader mode)
	Closes int
	Reads  int
	// ReadAfterClose counts reads issued after Close.
	ReadAfterClose int
}

// NewSource builds a source.
func NewSource(s Script) *Source { return &Source{Script: s} }

func (s *Source) final() error {
	if s.Script.FinalErr != nil {
		return s.Script.FinalErr
	}
	return io.EOF
}

// Reader view -------------------------------------------------------------

// ReaderView adapts Source to io.ReadCloser.
type ReaderView struct{ S *Source }

func (r ReaderView) Read(p []byte) (int, error) {
	s := r.S
	if s.Gate != nil {
		s.Gate()
	}
	s.Reads++
	if s.Closes > 0 {
		s.ReadAfterClose++
	}
	for {
		if s.pos >= len(s.Script.Chunks) {
			return 0, s.final()
		}
		c := s.Script.Chunks[s.pos][s.off:]
		if len(p) == 0 {
			return 0, nil
		}
		n := copy(p, c)
		s.off += n
		last := false
		if s.off >= len(s.Script.Chunks[s.pos]) {
			s.pos++
			s.off = 0
			last = s.pos >= len(s.Script.Chunks)
		}
		if n == 0 && len(c) == 0 {
			// Empty chunk: deliver a zero-length read (permitted by io.Reader).
			if last && s.Script.EOFWithIt {
				return 0, s.final()
			}
			return 0, nil
		}
		if last && s.Script.EOFWithIt {
			return n, s.final()
		}
		return n, nil
	}
}

// Close counts.
func (r ReaderView) Close() error { r.S.Closes++; return nil }

// Chunk view ----------------------------------------------------------------

// ChunkView adapts Source to buffer.ChunkReader.
type ChunkView struct{ S *Source }

// Read returns the next scripted chunk.
func (c ChunkView) Read() ([]byte, error) {
	s := c.S
	if s.Gate != nil {
		s.Gate()
	}
	s.Reads++
	if s.Closes > 0 {
		s.ReadAfterClose++
	}
	if s.pos >= len(s.Script.Chunks) {
		return nil, s.final()
	}
	d := s.Script.Chunks[s.pos]
	s.pos++
	return append([]byte(nil), d...), nil
}

// Close counts.
func (c ChunkView) Close() { c.S.Closes++ }

// Compositions enumerates all ways to split data into at most maxParts
// consecutive pieces; when allowEmpty, empty pieces may appear anywhere.
func Compositions(data []byte, maxParts int, allowEmpty bool) [][][]byte {
	var out [][][]byte
	var rec func(rest []byte, parts [][]byte)
	rec = func(rest []byte, parts [][]byte) {
		if len(parts) == maxParts-1 || (len(rest) == 0 && !allowEmpty) {
			if len(rest) > 0 || allowEmpty || len(parts) == 0 {
				p := append(append([][]byte(nil), parts...), rest)
				out = append(out, p)
			} else {
				out = append(out, append([][]byte(nil), parts...))
			}
			return
		}
		// Option: stop here with rest as the final piece.
		out = append(out, append(append([][]byte(nil), parts...), rest))
		lo := 1
		if allowEmpty {
			lo = 0
		}
		for n := lo; n <= len(rest); n++ {
			if n == len(rest) && !allowEmpty {
				continue
			}
			rec(rest[n:], append(append([][]byte(nil), parts...), rest[:n]))
		}
	}
	rec(data, nil)
	// Deduplicate.
	seen := map[string]bool{}
	var ded [][][]byte
	for _, p := range out {
		k := ""
		for _, c := range p {
			k += string(c) + "|"
		}
		if !seen[k] {
			seen[k] = true
			ded = append(ded, p)
		}
	}
	return ded
}
