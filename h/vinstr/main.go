// vinstr rewrites copies of bb-storage source files so that every
// synchronisation operation goes through the controlled scheduler
// (/verif/h/shim), and emits a `go build -overlay` file. /repo is never
// modified. A construct it does not understand is a hard error (exit 1).
package main

import (
	"bytes"
	"encoding/json"
	"flag"
	"fmt"
	"go/ast"
	"go/format"
	"go/parser"
	"go/token"
	"os"
	"path/filepath"
	"sort"
	"strconv"
	"strings"

	"golang.org/x/tools/go/ast/astutil"
)

const shimBase = "github.com/buildbarn/bb-storage/pkg/verifshim/"

var defaultPkgs = []string{
	"pkg/blobstore",
	"pkg/blobstore/buffer",
	"pkg/blobstore/local",
	"pkg/blobstore/mirrored",
	"pkg/blobstore/replication",
	"pkg/blobstore/readcaching",
	"pkg/blobstore/readfallback",
	"pkg/blobstore/sharding",
	"pkg/blobstore/completenesschecking",
	"pkg/blobstore/slicing",
	"pkg/digest",
	"pkg/eviction",
	"pkg/util",
	"pkg/zstd",
	"pkg/blobstore/configuration",
	"pkg/grpc",
}

// seamPkg is the package whose constructor calls and environment calls are routed through vseam.
const seamPkg = "pkg/blobstore/configuration"

// seamCalls maps (import path, function) of environment constructors to their vseam replacement.
var seamCalls = map[[2]string]string{
	{"github.com/buildbarn/bb-storage/pkg/blockdevice", "NewBlockDeviceFromConfiguration"}: "NewBlockDeviceFromConfiguration",
	{"github.com/buildbarn/bb-storage/pkg/filesystem", "NewLocalDirectory"}:               "NewLocalDirectory",
}

const localPkgPath = "github.com/buildbarn/bb-storage/pkg/blobstore/local"

var importMap = map[string][2]string{
	"sync":                          {"sync", shimBase + "vsync"},
	"sync/atomic":                   {"atomic", shimBase + "vatomic"},
	"golang.org/x/sync/errgroup":    {"errgroup", shimBase + "verrgroup"},
	"golang.org/x/sync/semaphore":   {"semaphore", shimBase + "vsemaphore"},
}

type overlay struct {
	Replace map[string]string
}

var failures []string

func failf(pos token.Position, format string, a ...any) {
	failures = append(failures, fmt.Sprintf("%s: %s", pos, fmt.Sprintf(format, a...)))
}

func main() {
	repo := flag.String("repo", "/repo", "repository root")
	shim := flag.String("shim", "/verif/h/shim", "shim source directory")
	out := flag.String("out", "", "output directory")
	inOv := flag.String("in-overlay", "", "input overlay (mutants)")
	pkgs := flag.String("pkgs", strings.Join(defaultPkgs, ","), "packages (relative dirs) to rewrite")
	flag.Parse()
	if *out == "" {
		fmt.Fprintln(os.Stderr, "need -out")
		os.Exit(2)
	}
	in := overlay{Replace: map[string]string{}}
	if *inOv != "" {
		b, err := os.ReadFile(*inOv)
		if err != nil {
			fmt.Fprintln(os.Stderr, err)
			os.Exit(2)
		}
		if err := json.Unmarshal(b, &in); err != nil {
			fmt.Fprintln(os.Stderr, err)
			os.Exit(2)
		}
	}
	res := overlay{Replace: map[string]string{}}
	for k, v := range in.Replace {
		res.Replace[k] = v
	}
	rewritten := 0
	for _, p := range strings.Split(*pkgs, ",") {
		dir := filepath.Join(*repo, p)
		ents, err := os.ReadDir(dir)
		if err != nil {
			fmt.Fprintf(os.Stderr, "cannot read %s: %v\n", dir, err)
			os.Exit(1)
		}
		names := map[string]bool{}
		for _, e := range ents {
			if !e.IsDir() {
				names[e.Name()] = true
			}
		}
		// Files added by the input overlay.
		for k := range in.Replace {
			if filepath.Dir(k) == dir {
				names[filepath.Base(k)] = true
			}
		}
		var sorted []string
		for n := range names {
			sorted = append(sorted, n)
		}
		sort.Strings(sorted)
		for _, n := range sorted {
			if !strings.HasSuffix(n, ".go") || strings.HasSuffix(n, "_test.go") {
				continue
			}
			orig := filepath.Join(dir, n)
			src := orig
			if r, ok := in.Replace[orig]; ok {
				if r == "" {
					continue
				}
				src = r
			}
			b, err := os.ReadFile(src)
			if err != nil {
				fmt.Fprintf(os.Stderr, "cannot read %s: %v\n", src, err)
				os.Exit(1)
			}
			nb, changed, err := rewrite(orig, b, p == seamPkg)
			if err != nil {
				fmt.Fprintf(os.Stderr, "%s: %v\n", orig, err)
				os.Exit(1)
			}
			if !changed {
				continue
			}
			dst := filepath.Join(*out, p, n)
			os.MkdirAll(filepath.Dir(dst), 0o755)
			if err := os.WriteFile(dst, nb, 0o644); err != nil {
				fmt.Fprintln(os.Stderr, err)
				os.Exit(1)
			}
			res.Replace[orig] = dst
			rewritten++
		}
	}
	if len(failures) > 0 {
		for _, f := range failures {
			fmt.Fprintln(os.Stderr, "UNSUPPORTED", f)
		}
		os.Exit(1)
	}
	// Shim packages as virtual packages inside the bb-storage module.
	shimDirs, _ := os.ReadDir(*shim)
	for _, d := range shimDirs {
		if !d.IsDir() {
			continue
		}
		files, _ := os.ReadDir(filepath.Join(*shim, d.Name()))
		for _, f := range files {
			if strings.HasSuffix(f.Name(), ".go") {
				res.Replace[filepath.Join(*repo, "pkg/verifshim", d.Name(), f.Name())] = filepath.Join(*shim, d.Name(), f.Name())
			}
		}
	}
	os.MkdirAll(*out, 0o755)
	jb, _ := json.MarshalIndent(res, "", " ")
	if err := os.WriteFile(filepath.Join(*out, "overlay.json"), jb, 0o644); err != nil {
		fmt.Fprintln(os.Stderr, err)
		os.Exit(1)
	}
	fmt.Printf("vinstr: %d files rewritten\n", rewritten)
}

type rewriter struct {
	fset     *token.FileSet
	file     *ast.File
	timeName string // local name of package "time" ("" if not imported)
	changed  bool
	needSched bool
	counter  int
	skip     map[ast.Node]bool
	seams       bool
	needSeam    bool
	keepUsed    [][2]string
	importNames map[string]string // local name -> import path
}

func sel(pkg, name string) ast.Expr {
	return &ast.SelectorExpr{X: ast.NewIdent(pkg), Sel: ast.NewIdent(name)}
}

func call(pkg, name string, args ...ast.Expr) *ast.CallExpr {
	return &ast.CallExpr{Fun: sel(pkg, name), Args: args}
}

func (r *rewriter) tmp(prefix string) *ast.Ident {
	r.counter++
	return ast.NewIdent(fmt.Sprintf("vsched%s%d", prefix, r.counter))
}

func isRecv(e ast.Expr) (*ast.UnaryExpr, bool) {
	for {
		p, ok := e.(*ast.ParenExpr)
		if !ok {
			break
		}
		e = p.X
	}
	u, ok := e.(*ast.UnaryExpr)
	if ok && u.Op == token.ARROW {
		return u, true
	}
	return nil, false
}

func rewrite(name string, src []byte, seams bool) ([]byte, bool, error) {
	fset := token.NewFileSet()
	f, err := parser.ParseFile(fset, name, src, parser.ParseComments)
	if err != nil {
		return nil, false, err
	}
	// Keep only comments that can carry meaning for the compiler (build
	// constraints before the package clause, //go: directives); free-floating
	// comments would otherwise be re-attached at odd places of rewritten statements.
	var keep []*ast.CommentGroup
	for _, cg := range f.Comments {
		directive := false
		for _, c := range cg.List {
			if strings.HasPrefix(c.Text, "//go:") || strings.HasPrefix(c.Text, "// +build") {
				directive = true
			}
		}
		if cg.End() < f.Package || directive {
			keep = append(keep, cg)
		}
	}
	f.Comments = keep
	r := &rewriter{fset: fset, file: f, skip: map[ast.Node]bool{}, seams: seams, importNames: map[string]string{}}
	// Imports.
	for _, im := range f.Imports {
		p, _ := strconv.Unquote(im.Path.Value)
		nm := p[strings.LastIndex(p, "/")+1:]
		if im.Name != nil {
			nm = im.Name.Name
		}
		r.importNames[nm] = p
		if p == "time" {
			r.timeName = "time"
			if im.Name != nil {
				r.timeName = im.Name.Name
			}
		}
		if m, ok := importMap[p]; ok {
			if im.Name == nil {
				im.Name = ast.NewIdent(m[0])
			}
			im.Path.Value = strconv.Quote(m[1])
			im.EndPos = 0
			r.changed = true
		}
	}
	for _, d := range f.Decls {
		if fd, ok := d.(*ast.FuncDecl); ok && fd.Body != nil {
			r.rewriteBody(fd.Body)
		} else if gd, ok := d.(*ast.GenDecl); ok {
			// function literals in package-level variable initialisers
			ast.Inspect(gd, func(n ast.Node) bool {
				if fl, ok := n.(*ast.FuncLit); ok {
					r.rewriteBody(fl.Body)
					return false
				}
				return true
			})
			r.rewriteExprsIn(gd)
		}
	}
	if !r.changed {
		return nil, false, nil
	}
	if r.needSched {
		astutil.AddNamedImport(fset, f, "vsched", shimBase+"vsched")
	}
	if r.needSeam {
		astutil.AddNamedImport(fset, f, "vseam", shimBase+"vseam")
	}
	for _, ku := range r.keepUsed {
		// keep the import of a replaced environment constructor used
		f.Decls = append(f.Decls, &ast.GenDecl{Tok: token.VAR, Specs: []ast.Spec{&ast.ValueSpec{
			Names:  []*ast.Ident{ast.NewIdent("_")},
			Values: []ast.Expr{sel(ku[0], ku[1])},
		}}})
	}
	if r.timeName != "" {
		// keep "time" used even if every use was rewritten
		f.Decls = append(f.Decls, &ast.GenDecl{Tok: token.VAR, Specs: []ast.Spec{&ast.ValueSpec{
			Names: []*ast.Ident{ast.NewIdent("_")},
			Type:  sel(r.timeName, "Duration"),
		}}})
	}
	var buf bytes.Buffer
	if err := format.Node(&buf, fset, f); err != nil {
		return nil, false, err
	}
	return buf.Bytes(), true, nil
}

// rewriteExprsIn handles time.Now()/receives inside a non-function declaration.
func (r *rewriter) rewriteExprsIn(n ast.Node) {
	astutil.Apply(n, func(c *astutil.Cursor) bool {
		if _, ok := c.Node().(*ast.FuncLit); ok {
			return false
		}
		return true
	}, func(c *astutil.Cursor) bool {
		r.post(c)
		return true
	})
}

func (r *rewriter) rewriteBody(body *ast.BlockStmt) {
	astutil.Apply(body, func(c *astutil.Cursor) bool {
		n := c.Node()
		switch s := n.(type) {
		case *ast.LabeledStmt:
			if _, ok := s.Stmt.(*ast.SelectStmt); ok {
				failf(r.fset.Position(s.Pos()), "labelled select statement")
			}
		case *ast.RangeStmt:
			// cannot tell a channel range without types: flag only the obvious form
			if _, ok := isRecv(s.X); ok {
				failf(r.fset.Position(s.Pos()), "range over receive expression")
			}
		}
		return true
	}, func(c *astutil.Cursor) bool {
		r.post(c)
		return true
	})
}

func (r *rewriter) post(c *astutil.Cursor) {
	n := c.Node()
	if n == nil || r.skip[n] {
		return
	}
	switch s := n.(type) {
	case *ast.CallExpr:
		if r.seams {
			if se, ok := s.Fun.(*ast.SelectorExpr); ok {
				if id, ok := se.X.(*ast.Ident); ok && id.Obj == nil {
					ip := r.importNames[id.Name]
					if repl, ok := seamCalls[[2]string{ip, se.Sel.Name}]; ok {
						r.keepUsed = append(r.keepUsed, [2]string{id.Name, se.Sel.Name})
						s.Fun = sel("vseam", repl)
						r.changed, r.needSeam = true, true
						return
					}
					if ip == localPkgPath && strings.HasPrefix(se.Sel.Name, "New") && !r.skip[s] {
						r.skip[s] = true
						if se.Sel.Name == "NewPersistentBlockList" {
							c.Replace(call("vseam", "ObsPBL", s))
						} else {
							c.Replace(call("vseam", "Obs", &ast.BasicLit{Kind: token.STRING, Value: strconv.Quote(se.Sel.Name)}, s))
						}
						r.changed, r.needSeam = true, true
						return
					}
				}
			}
		}
		// time.Now() / time.Since(x)
		if se, ok := s.Fun.(*ast.SelectorExpr); ok {
			if id, ok := se.X.(*ast.Ident); ok && r.timeName != "" && id.Name == r.timeName && id.Obj == nil {
				switch se.Sel.Name {
				case "Now":
					if len(s.Args) == 0 {
						c.Replace(call("vsched", "Now"))
						r.changed, r.needSched = true, true
					}
				case "Since":
					if len(s.Args) == 1 {
						c.Replace(call("vsched", "Since", s.Args[0]))
						r.changed, r.needSched = true, true
					}
				case "After", "Sleep", "NewTimer", "NewTicker", "Tick", "AfterFunc":
					// Real timers are left alone: code reaching them under the controller
					// makes the run nondeterministic, which the determinism check reports.
					fmt.Fprintf(os.Stderr, "note: %s: time.%s is not virtualised\n", r.fset.Position(s.Pos()), se.Sel.Name)
				}
			}
		}
		// close(ch)
		if id, ok := s.Fun.(*ast.Ident); ok && id.Name == "close" && id.Obj == nil && len(s.Args) == 1 {
			c.Replace(call("vsched", "Close", s.Args[0]))
			r.changed, r.needSched = true, true
		}
	case *ast.UnaryExpr:
		if s.Op == token.ARROW {
			c.Replace(call("vsched", "Recv", s.X))
			r.changed, r.needSched = true, true
		}
	case *ast.AssignStmt:
		// v, ok := <-ch   (the receive has already become vsched.Recv(ch))
		if len(s.Lhs) == 2 && len(s.Rhs) == 1 {
			if ce, ok := s.Rhs[0].(*ast.CallExpr); ok && isSchedCall(ce, "Recv") {
				ce.Fun = sel("vsched", "Recv2")
			}
		}
	case *ast.ValueSpec:
		if len(s.Names) == 2 && len(s.Values) == 1 {
			if ce, ok := s.Values[0].(*ast.CallExpr); ok && isSchedCall(ce, "Recv") {
				ce.Fun = sel("vsched", "Recv2")
			}
		}
	case *ast.SendStmt:
		if _, ok := c.Parent().(*ast.CommClause); ok {
			failf(r.fset.Position(s.Pos()), "send case in select")
			return
		}
		t := r.tmp("Ch")
		blk := &ast.BlockStmt{List: []ast.Stmt{
			&ast.AssignStmt{Lhs: []ast.Expr{t}, Tok: token.DEFINE, Rhs: []ast.Expr{s.Chan}},
			&ast.ExprStmt{X: call("vsched", "BeforeSend", t)},
			&ast.SendStmt{Chan: t, Value: s.Value},
		}}
		r.skip[blk.List[2]] = true
		c.Replace(blk)
		r.changed, r.needSched = true, true
	case *ast.GoStmt:
		r.rewriteGo(c, s)
	case *ast.SelectStmt:
		r.rewriteSelect(c, s)
	}
}

func isSchedCall(ce *ast.CallExpr, name string) bool {
	se, ok := ce.Fun.(*ast.SelectorExpr)
	if !ok {
		return false
	}
	id, ok := se.X.(*ast.Ident)
	return ok && id.Name == "vsched" && se.Sel.Name == name
}

func (r *rewriter) rewriteGo(c *astutil.Cursor, s *ast.GoStmt) {
	r.changed, r.needSched = true, true
	if fl, ok := s.Call.Fun.(*ast.FuncLit); ok && len(s.Call.Args) == 0 {
		c.Replace(&ast.ExprStmt{X: call("vsched", "Go", fl)})
		return
	}
	// go f(a, b) => { t1 := a; t2 := b; vsched.Go(func() { f(t1, t2) }) }
	var stmts []ast.Stmt
	var args []ast.Expr
	for _, a := range s.Call.Args {
		t := r.tmp("Arg")
		stmts = append(stmts, &ast.AssignStmt{Lhs: []ast.Expr{t}, Tok: token.DEFINE, Rhs: []ast.Expr{a}})
		args = append(args, t)
	}
	fun := s.Call.Fun
	if _, ok := fun.(*ast.FuncLit); ok {
		t := r.tmp("Fn")
		stmts = append(stmts, &ast.AssignStmt{Lhs: []ast.Expr{t}, Tok: token.DEFINE, Rhs: []ast.Expr{fun}})
		fun = t
	}
	inner := &ast.CallExpr{Fun: fun, Args: args, Ellipsis: s.Call.Ellipsis}
	lit := &ast.FuncLit{Type: &ast.FuncType{Params: &ast.FieldList{}}, Body: &ast.BlockStmt{List: []ast.Stmt{&ast.ExprStmt{X: inner}}}}
	stmts = append(stmts, &ast.ExprStmt{X: call("vsched", "Go", lit)})
	c.Replace(&ast.BlockStmt{List: stmts})
}

func (r *rewriter) rewriteSelect(c *astutil.Cursor, s *ast.SelectStmt) {
	r.changed, r.needSched = true, true
	var pre []ast.Stmt
	var chans []ast.Expr
	hasDefault := false
	idx := r.tmp("Idx")
	val := r.tmp("Val")
	okv := r.tmp("Ok")
	sw := &ast.SwitchStmt{Tag: idx, Body: &ast.BlockStmt{}}
	for _, cl := range s.Body.List {
		cc := cl.(*ast.CommClause)
		if cc.Comm == nil {
			hasDefault = true
			sw.Body.List = append(sw.Body.List, &ast.CaseClause{List: nil, Body: cc.Body})
			continue
		}
		// The receive expression has already been rewritten to vsched.Recv(x) / Recv2(x).
		var recvCall *ast.CallExpr
		var bind ast.Stmt
		chTmp := r.tmp("Case")
		mk := func(lhs []ast.Expr, tok token.Token, two bool) ast.Stmt {
			rhs := []ast.Expr{call("vsched", "Cast", chTmp, val)}
			if two {
				rhs = append(rhs, okv)
			}
			return &ast.AssignStmt{Lhs: lhs, Tok: tok, Rhs: rhs}
		}
		switch st := cc.Comm.(type) {
		case *ast.ExprStmt:
			ce, ok := st.X.(*ast.CallExpr)
			if !ok || !isSchedCall(ce, "Recv") {
				failf(r.fset.Position(st.Pos()), "unsupported select case expression")
				return
			}
			recvCall = ce
		case *ast.AssignStmt:
			if len(st.Rhs) != 1 {
				failf(r.fset.Position(st.Pos()), "unsupported select case assignment")
				return
			}
			ce, ok := st.Rhs[0].(*ast.CallExpr)
			if !ok || !(isSchedCall(ce, "Recv") || isSchedCall(ce, "Recv2")) {
				failf(r.fset.Position(st.Pos()), "unsupported select case assignment")
				return
			}
			recvCall = ce
			bind = mk(st.Lhs, st.Tok, len(st.Lhs) == 2)
		default:
			failf(r.fset.Position(cc.Pos()), "unsupported select case (send?)")
			return
		}
		pre = append(pre, &ast.AssignStmt{Lhs: []ast.Expr{chTmp}, Tok: token.DEFINE, Rhs: []ast.Expr{recvCall.Args[0]}})
		body := cc.Body
		if bind != nil {
			body = append([]ast.Stmt{bind}, body...)
		}
		sw.Body.List = append(sw.Body.List, &ast.CaseClause{
			List: []ast.Expr{&ast.BasicLit{Kind: token.INT, Value: strconv.Itoa(len(chans))}},
			Body: body,
		})
		chans = append(chans, chTmp)
	}
	hd := "false"
	if hasDefault {
		hd = "true"
	}
	args := append([]ast.Expr{ast.NewIdent(hd)}, chans...)
	pre = append(pre,
		&ast.AssignStmt{Lhs: []ast.Expr{idx, val, okv}, Tok: token.DEFINE, Rhs: []ast.Expr{call("vsched", "Select", args...)}},
		&ast.AssignStmt{Lhs: []ast.Expr{ast.NewIdent("_"), ast.NewIdent("_")}, Tok: token.ASSIGN, Rhs: []ast.Expr{val, okv}},
		sw,
	)
	c.Replace(&ast.BlockStmt{List: pre})
}
