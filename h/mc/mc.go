//go:build verif

// Package mc is the harness-side driver of vsched explorations: it shards a
// scenario over worker processes, merges their statistics into an ev.Sub,
// reports failures as violations and replays recorded choice sequences.
package mc

import (
	"bufio"
	"encoding/json"
	"fmt"
	"io"
	"log"
	"os"
	"os/exec"
	"runtime"
	"sort"
	"strings"
	"sync"
	"time"

	"github.com/buildbarn/bb-storage/pkg/verifshim/vsched"

	"verifh/ev"
)

// Scenario is one closed concurrent system to explore exhaustively within a bound.
type Scenario struct {
	Name        string
	Group       string // scenarios sharing a Group are reported as one sub-check and distributed whole over workers
	Space       string // what is enumerated, for the evidence file
	Bound       int    // deviation bound (preemptions + faults + early timers + non-default select cases)
	EarlyTimers bool
	MaxSteps    int
	ShardDepth  int
	Workers     int
	Budget      time.Duration // wall-clock budget; exceeding it is not a failure (exhaustive:false)
	MaxExec     int64
	Body        func()
	MinOutcomes int // vacuity guard: fewer distinct outcomes is a harness error
	// MaxFreeSwitches > 0 bounds the non-default choices among runnable threads at points where the running
	// thread blocked or ended (they cost no deviation; unbounded by default).
	MaxFreeSwitches int
}

type workerResult struct {
	Stats *vsched.Stats
	Group *groupResult
}

type groupFound struct {
	Scenario string
	Found    vsched.Found
}

type groupResult struct {
	Scenarios     int
	Executions    int64
	Blocked       int64
	Steps         int64
	Points        int64
	DetChecked    int64
	Outcomes      int64 // sum over scenarios of distinct outcomes
	SingleOutcome int   // scenarios with exactly one distinct outcome
	MaxTrace      int
	MaxThreads    int
	ByCost        []int64
	NonExhaustive []string
	MinBound      int
	Found         []groupFound
	Samples       []string
	HarnessError  string
}

type replayCase struct {
	Scenario string   `json:"scenario"`
	Choices  []uint16 `json:"choices"`
	Obs      []string `json:"observations,omitempty"`
}

func init() {
	log.SetOutput(io.Discard)
}

func cfgOf(s Scenario) vsched.ExploreConfig {
	ms := s.MaxSteps
	if ms == 0 {
		ms = 20000
	}
	return vsched.ExploreConfig{Bound: s.Bound, MaxSteps: ms, EarlyTimers: s.EarlyTimers, MaxExec: s.MaxExec, DetEvery: 997, MaxFreeSwitches: s.MaxFreeSwitches}
}

// Run executes all scenarios (or acts as worker / replayer, depending on flags). It does not call r.Finish().
func Run(r *ev.Run, scs []Scenario) {
	// Work caps are counted in executions, not seconds, so that two runs of the same tier do the same
	// work whatever the machine load (the wall-clock budget stays as a safety net only).
	for i := range scs {
		if scs[i].MaxExec == 0 && scs[i].Group == "" {
			scs[i].MaxExec = ev.Pick(r, int64(400000), int64(2000000))
		}
		if scs[i].Budget > 0 && !r.Thorough() {
			scs[i].Budget = 10 * time.Minute
		}
		// thorough: a scenario that is still running after 8 minutes is cut (exhaustive:false with the
		// deviation count completed), so that a thorough run of a check stays within hours
		if r.Thorough() && (scs[i].Budget == 0 || scs[i].Budget > 8*time.Minute) && scs[i].Group == "" {
			scs[i].Budget = 8 * time.Minute
		}
	}
	byName := map[string]Scenario{}
	for _, s := range scs {
		if _, dup := byName[s.Name]; dup {
			ev.HarnessError("duplicate scenario %s", s.Name)
		}
		byName[s.Name] = s
	}
	if r.Shard != "" {
		worker(r, byName, scs)
		return
	}
	if r.Replay != "" {
		rf := ev.LoadReplay(r.Replay)
		var rc replayCase
		ev.MustJSON(rf.Case, &rc)
		s, ok := byName[rc.Scenario]
		if !ok {
			ev.HarnessError("replay: unknown scenario %q", rc.Scenario)
		}
		res := vsched.Replay(cfgOf(s), rc.Choices, s.Body)
		fmt.Printf("replay scenario=%s choices=%v\n", rc.Scenario, rc.Choices)
		for _, o := range res.Obs {
			fmt.Println("  obs:", o)
		}
		if res.Failure != nil {
			fmt.Printf("  failure: %s\n  %s\n", res.Failure.Signature, res.Failure.Message)
			if res.Failure.Harness {
				ev.HarnessError("replay: %s", res.Failure.Message)
			}
			r.Violate(ev.Violation{Signature: res.Failure.Signature, Sub: s.Name, Message: res.Failure.Message, Case: rc})
		} else {
			fmt.Println("  no failure")
		}
		return
	}
	var order []string
	groups := map[string][]Scenario{}
	for _, s := range scs {
		if !r.Want(s.Name) {
			continue
		}
		if s.Group == "" {
			continue
		}
		if _, ok := groups[s.Group]; !ok {
			order = append(order, s.Group)
		}
		groups[s.Group] = append(groups[s.Group], s)
	}
	// VERIF_STOP_ON_VIOLATION=1 (used when trying deliberately broken trees): once a violation has been
	// recorded the remaining scenarios are skipped; the run then reports exhaustive:false for them.
	stop := os.Getenv("VERIF_STOP_ON_VIOLATION") == "1"
	for _, g := range order {
		if stop && r.Violations() > 0 {
			r.Note("VERIF_STOP_ON_VIOLATION: group " + g + " skipped after an earlier violation")
			continue
		}
		runGroup(r, g, groups[g])
	}
	for _, s := range scs {
		if !r.Want(s.Name) || s.Group != "" {
			continue
		}
		if stop && r.Violations() > 0 {
			r.Note("VERIF_STOP_ON_VIOLATION: scenario " + s.Name + " skipped after an earlier violation")
			continue
		}
		runScenario(r, s)
	}
}

// GroupSpace lets a harness describe a group's enumerated space for the evidence file.
var GroupSpace = map[string]string{}

// GroupBudget is the wall-clock budget of a group (0 = none).
var GroupBudget = map[string]time.Duration{}

func runGroup(r *ev.Run, g string, scs []Scenario) {
	sub := r.NewSub(g, "vsched", GroupSpace[g])
	done := sub.Timer()
	defer done()
	workers := runtime.NumCPU()
	if workers > len(scs) {
		workers = len(scs)
	}
	var deadline int64
	if b := GroupBudget[g]; b > 0 {
		deadline = time.Now().Add(b).UnixMilli()
	}
	results := make([]*groupResult, workers)
	errs := make([]string, workers)
	var wg sync.WaitGroup
	for w := 0; w < workers; w++ {
		wg.Add(1)
		go func(w int) {
			defer wg.Done()
			spec := fmt.Sprintf("G:%s|%d|%d|0|%d", g, w, workers, deadline)
			args := []string{"--shard", spec, "--tier", r.Tier}
			if r.Only != "" {
				args = append(args, "--only", r.Only)
			}
			cmd := exec.Command(os.Args[0], args...)
			cmd.Env = append(os.Environ(), "GOMAXPROCS=2")
			out, err := cmd.Output()
			for _, line := range strings.Split(string(out), "\n") {
				if strings.HasPrefix(line, "RESULT ") {
					var wr workerResult
					if e := json.Unmarshal([]byte(line[7:]), &wr); e == nil && wr.Group != nil {
						results[w] = wr.Group
					}
				}
			}
			if results[w] == nil {
				msg := ""
				if ee, ok := err.(*exec.ExitError); ok {
					msg = string(ee.Stderr)
				}
				tail := string(out)
				if len(tail) > 2000 {
					tail = tail[len(tail)-2000:]
				}
				if len(msg) > 3000 {
					msg = msg[:3000]
				}
				errs[w] = fmt.Sprintf("worker %d of group %s produced no result: %v\nstdout tail: %s\nstderr: %s", w, g, err, tail, msg)
			}
		}(w)
	}
	wg.Wait()
	for _, e := range errs {
		if e != "" {
			ev.HarnessError("%s", e)
		}
	}
	sub.Exhaustive = true
	minBound := 1 << 30
	var byCost []int64
	var steps, points, det int64
	single, scen, maxTrace, maxThreads := 0, 0, 0, 0
	for _, gr := range results {
		if gr.HarnessError != "" {
			r.DeferHarnessError("group %s: %s", g, gr.HarnessError)
			sub.Exhaustive = false
			continue
		}
		scen += gr.Scenarios
		sub.Evaluations += gr.Executions
		sub.Nontrivial += gr.Blocked
		sub.Outcomes += gr.Outcomes
		steps += gr.Steps
		points += gr.Points
		det += gr.DetChecked
		single += gr.SingleOutcome
		if gr.MaxTrace > maxTrace {
			maxTrace = gr.MaxTrace
		}
		if gr.MaxThreads > maxThreads {
			maxThreads = gr.MaxThreads
		}
		for i, v := range gr.ByCost {
			for len(byCost) <= i {
				byCost = append(byCost, 0)
			}
			byCost[i] += v
		}
		if len(gr.NonExhaustive) > 0 {
			sub.Exhaustive = false
			n := gr.NonExhaustive
			if len(n) > 3 {
				n = n[:3]
			}
			sub.CapsHit = append(sub.CapsHit, fmt.Sprintf("%d scenarios cut short by the budget, e.g. %v", len(gr.NonExhaustive), n))
		}
		if gr.Scenarios > 0 && gr.MinBound < minBound {
			minBound = gr.MinBound
		}
		for _, f := range gr.Found {
			r.Violate(ev.Violation{Signature: f.Found.Failure.Signature, Sub: g,
				Message: fmt.Sprintf("scenario %s: %s\n(deviations=%d, re-executed %d times with identical outcome)\nobservations: %s", f.Scenario, f.Found.Failure.Message, f.Found.Cost, f.Found.Confirms, strings.Join(f.Found.Obs, " | ")),
				Case:    replayCase{Scenario: f.Scenario, Choices: f.Found.Choices, Obs: f.Found.Obs}})
		}
		for _, sm := range gr.Samples {
			if len(sm) > 500 {
				sm = sm[:500] + "..."
			}
			r.Sample(map[string]any{"group": g, "execution": sm})
		}
	}
	sub.States = sub.Outcomes
	if sub.States == 0 {
		sub.States = 1
	}
	sub.Transitions = steps
	sub.Validated = det
	sub.BoundCompleted = fmt.Sprintf("%d scenarios, each: all executions with <=%d deviations", scen, minBound)
	sub.Extra = map[string]any{
		"scenarios":                     scen,
		"scenarios_with_single_outcome": single,
		"executions_by_deviation_count": byCost,
		"choice_points":                 points,
		"max_choice_points_per_run":     maxTrace,
		"max_threads":                   maxThreads,
		"workers":                       workers,
	}
}

func groupWorker(r *ev.Run, g string, idx, cnt int, deadline int64, scs []Scenario) {
	gr := &groupResult{MinBound: 1 << 30}
	k := 0
	for _, s := range scs {
		if s.Group != g || !r.Want(s.Name) {
			continue
		}
		mine := k%cnt == idx
		k++
		if !mine {
			continue
		}
		cfg := cfgOf(s)
		if deadline > 0 {
			cfg.Deadline = time.UnixMilli(deadline)
		}
		st := vsched.Explore(cfg, s.Body)
		if st.HarnessError != "" {
			gr.HarnessError = "scenario " + s.Name + ": " + st.HarnessError
			break
		}
		gr.Scenarios++
		gr.Executions += st.Executions
		gr.Blocked += st.Blocked
		gr.Steps += st.Steps
		gr.Points += st.Points
		gr.DetChecked += st.DetChecked
		gr.Outcomes += int64(len(st.Outcomes))
		if len(st.Outcomes) == 1 {
			gr.SingleOutcome++
		}
		if st.MaxTrace > gr.MaxTrace {
			gr.MaxTrace = st.MaxTrace
		}
		if st.MaxThreads > gr.MaxThreads {
			gr.MaxThreads = st.MaxThreads
		}
		for i, v := range st.ByCost {
			for len(gr.ByCost) <= i {
				gr.ByCost = append(gr.ByCost, 0)
			}
			gr.ByCost[i] += v
		}
		if !st.Exhaustive {
			gr.NonExhaustive = append(gr.NonExhaustive, s.Name)
		}
		if st.BoundCompleted < gr.MinBound {
			gr.MinBound = st.BoundCompleted
		}
		for _, f := range st.Found {
			if len(gr.Found) < 12 {
				gr.Found = append(gr.Found, groupFound{Scenario: s.Name, Found: f})
			}
		}
		if len(gr.Samples) < 2 && len(st.SampleTraces) > 0 && (gr.Scenarios%97 == 1) {
			gr.Samples = append(gr.Samples, s.Name+": "+st.SampleTraces[0])
		}
	}
	b, _ := json.Marshal(workerResult{Group: gr})
	w := bufio.NewWriter(os.Stdout)
	w.WriteString("RESULT ")
	w.Write(b)
	w.WriteString("\n")
	w.Flush()
	ev.StopProfile()
	os.Exit(0)
}

func worker(r *ev.Run, byName map[string]Scenario, all []Scenario) {
	// spec: name|index|count|depth|deadlineUnixMilli
	p := strings.Split(r.Shard, "|")
	if len(p) != 5 {
		ev.HarnessError("bad shard spec %q", r.Shard)
	}
	if strings.HasPrefix(p[0], "G:") {
		var idx, cnt int
		var dl int64
		fmt.Sscan(p[1], &idx)
		fmt.Sscan(p[2], &cnt)
		fmt.Sscan(p[4], &dl)
		groupWorker(r, p[0][2:], idx, cnt, dl, all)
		return
	}
	s, ok := byName[p[0]]
	if !ok {
		ev.HarnessError("worker: unknown scenario %q", p[0])
	}
	var idx, cnt, depth int
	var dl int64
	fmt.Sscan(p[1], &idx)
	fmt.Sscan(p[2], &cnt)
	fmt.Sscan(p[3], &depth)
	fmt.Sscan(p[4], &dl)
	cfg := cfgOf(s)
	cfg.ShardIndex, cfg.ShardCount, cfg.ShardDepth = idx, cnt, depth
	if dl > 0 {
		cfg.Deadline = time.UnixMilli(dl)
	}
	if cfg.MaxExec > 0 {
		// shards are uneven: allow each worker a quarter of the scenario's cap
		cfg.MaxExec = cfg.MaxExec/4 + 1
	}
	st := vsched.Explore(cfg, s.Body)
	b, _ := json.Marshal(workerResult{Stats: st})
	w := bufio.NewWriter(os.Stdout)
	w.WriteString("RESULT ")
	w.Write(b)
	w.WriteString("\n")
	w.Flush()
	ev.StopProfile()
	os.Exit(0)
}

func runScenario(r *ev.Run, s Scenario) {
	sub := r.NewSub(s.Name, "vsched", s.Space)
	done := sub.Timer()
	defer done()
	workers := s.Workers
	if workers <= 0 {
		workers = runtime.NumCPU()
	}
	depth := s.ShardDepth
	if depth <= 0 {
		depth = 1
	}
	var deadline int64
	if s.Budget > 0 {
		deadline = time.Now().Add(s.Budget).UnixMilli()
	}
	results := make([]*vsched.Stats, workers)
	errs := make([]string, workers)
	// Small scenarios are explored in-process; only when a probe of 400 executions does not
	// exhaust the space is the scenario sharded over worker processes.
	probe := cfgOf(s)
	probe.MaxExec = 400
	probe.Deadline = time.Now().Add(2 * time.Second)
	if pst := vsched.Explore(probe, s.Body); pst.Exhaustive || pst.HarnessError != "" || len(pst.Found) > 0 {
		results = []*vsched.Stats{pst}
		workers = 0
	}
	var wg sync.WaitGroup
	for w := 0; w < workers; w++ {
		wg.Add(1)
		go func(w int) {
			defer wg.Done()
			spec := fmt.Sprintf("%s|%d|%d|%d|%d", s.Name, w, workers, depth, deadline)
			cmd := exec.Command(os.Args[0], "--shard", spec, "--tier", r.Tier)
			cmd.Env = append(os.Environ(), "GOMAXPROCS=2")
			out, err := cmd.Output()
			var found bool
			for _, line := range strings.Split(string(out), "\n") {
				if strings.HasPrefix(line, "RESULT ") {
					var wr workerResult
					if e := json.Unmarshal([]byte(line[7:]), &wr); e == nil {
						results[w] = wr.Stats
						found = true
					}
				}
			}
			if !found {
				msg := ""
				if ee, ok := err.(*exec.ExitError); ok {
					msg = string(ee.Stderr)
				}
				tail := string(out)
				if len(tail) > 2000 {
					tail = tail[len(tail)-2000:]
				}
				if len(msg) > 3000 {
					msg = msg[:3000]
				}
				errs[w] = fmt.Sprintf("worker %d of scenario %s produced no result: %v\nstdout tail: %s\nstderr: %s", w, s.Name, err, tail, msg)
			}
		}(w)
	}
	wg.Wait()
	for _, e := range errs {
		if e != "" {
			ev.HarnessError("%s", e)
		}
	}
	outcomes := map[string]int64{}
	sub.Exhaustive = true
	bound := s.Bound
	byCost := make([]int64, s.Bound+1)
	var detChecked, steps, points, leaked int64
	maxTrace, maxThreads := 0, 0
	var samples []string
	counters := map[string]int64{}
	for _, st := range results {
		for k, v := range st.Counters {
			counters[k] += v
		}
		if st.HarnessError != "" {
			r.DeferHarnessError("scenario %s: %s", s.Name, st.HarnessError)
			sub.Exhaustive = false
			return
		}
		sub.Evaluations += st.Executions
		sub.Nontrivial += st.Blocked
		steps += st.Steps
		points += st.Points
		detChecked += st.DetChecked
		leaked += st.Leaked
		for k, v := range st.Outcomes {
			outcomes[k] += v
		}
		for i, v := range st.ByCost {
			if i < len(byCost) {
				byCost[i] += v
			}
		}
		if !st.Exhaustive {
			sub.Exhaustive = false
			if st.CapHit != "" {
				sub.CapsHit = append(sub.CapsHit, st.CapHit)
			}
		}
		if st.BoundCompleted < bound {
			bound = st.BoundCompleted
		}
		if st.MaxTrace > maxTrace {
			maxTrace = st.MaxTrace
		}
		if st.MaxThreads > maxThreads {
			maxThreads = st.MaxThreads
		}
		if len(samples) < 3 {
			samples = append(samples, st.SampleTraces...)
		}
		for _, f := range st.Found {
			r.Violate(ev.Violation{Signature: f.Failure.Signature, Sub: s.Name,
				Message: fmt.Sprintf("%s\n(deviations=%d, re-executed %d times with identical outcome)\nobservations: %s", f.Failure.Message, f.Cost, f.Confirms, strings.Join(f.Obs, " | ")),
				Case:    replayCase{Scenario: s.Name, Choices: f.Choices, Obs: f.Obs}})
		}
	}
	sort.Strings(sub.CapsHit)
	sub.CapsHit = dedup(sub.CapsHit)
	sub.Outcomes = int64(len(outcomes))
	sub.States = int64(len(outcomes))
	if sub.States == 0 {
		sub.States = 1
	}
	sub.Transitions = steps
	sub.Validated = detChecked
	sub.BoundCompleted = fmt.Sprintf("all executions with <=%d deviations (requested bound %d)", bound, s.Bound)
	if s.MaxFreeSwitches > 0 {
		sub.BoundCompleted += fmt.Sprintf(" and <=%d non-default choices among runnable threads where the running thread blocked or ended", s.MaxFreeSwitches)
	}
	sub.Extra = map[string]any{
		"executions_by_deviation_count": byCost,
		"choice_points":                 points,
		"max_choice_points_per_run":     maxTrace,
		"max_threads":                   maxThreads,
		"workers":                       len(results),
		"leaked_executions":             leaked,
	}
	for k, v := range counters {
		sub.Extra[k] = v
	}
	for _, sm := range samples {
		if len(sm) > 600 {
			sm = sm[:600] + "..."
		}
		r.Sample(map[string]any{"scenario": s.Name, "execution": sm})
	}
	if s.MinOutcomes > 0 && int(sub.Outcomes) < s.MinOutcomes && sub.Exhaustive && r.Violations() == 0 {
		ev.HarnessError("scenario %s is vacuous: only %d distinct outcomes from %d executions (expected >= %d)", s.Name, sub.Outcomes, sub.Evaluations, s.MinOutcomes)
	}
}

func dedup(s []string) []string {
	var out []string
	for i, x := range s {
		if i == 0 || x != s[i-1] {
			out = append(out, x)
		}
	}
	return out
}
