// C12 — sharding: deterministic, order-independent routing with minimal
// disruption.
//
// Exhaustive small-scope enumeration (venum) against the real
// sharding.NewRendezvousShardSelector, sharding.NewShardingBlobAccess and the
// `sharding` case of configuration.NewBlobAccessFromConfiguration:
//
//   - selector-relations: every shard map over keys {a..e} x weights
//     {1,2,7,1000,2^20,2^32-1} with <=4 (quick) / <=5 (thorough) shards, every permutation,
//     every single removal, every single addition, x a structured hash set
//     (generic boundary values, pre-images that put the mixed value of each shard
//     on every boundary of the log2 table, hashes at which two shards tie).
//   - selector-duplicates: a key listed twice is rejected.
//   - composite-routing / composite-findmissing / composite-errors: recording
//     model backends behind NewShardingBlobAccess.
//   - configuration: the same through NewBlobAccessFromConfiguration.
package main

import (
	"fmt"
	"io"
	"log"

	"verifh/ev"
)

func main() {
	r := ev.Start("C12")
	// buffer.Irreparable logs every integrity failure of the crafted digests.
	log.SetOutput(io.Discard)
	r.Rule("venum: every (shard map x hash) with all permutations/removals/additions, every (ordered shard list x instance name x digest x operation), every (ordered shard list x digest universe x presence pattern x asked subset), every (ordered shard list x failing-shard assignment x operation); non-trivial = the shard map has >= 2 shards (selector, routing, configuration), the asked digests belong to >= 2 shards (FindMissing), the operation addresses a failing shard (errors)")
	r.Assume("'leading bytes of its hash' is read as in the code and DESIGN section 3: the expected shard of a digest is GetShard(big-endian value of the first 8 hash bytes) of a selector built separately from the same list")
	r.Assume("GetFromComposite(parent, child) reads the object `parent`, so it must address the shard of the parent digest whatever the child digest is")
	r.Assume("a shard list in which a key occurs twice is not a shard map (its routing could not be order independent); the check demands that construction rejects it, as the code documents ('hash collision between shards')")
	r.Assume("'errors carry the shard key' = the gRPC code of the failing backend is preserved, the message still contains the backend's message and contains the key of the failing shard and of no other shard of the map; the wording around the key is not compared")
	r.Assume("when several addressed shards fail during one FindMissing, the error of any one of them is accepted")
	r.Assume("a zero weight is outside the property (non-zero weights); the configuration sub-check demands that the configuration path rejects it, because with only zero weights the selector degenerates to 'first listed shard' and the configuration is a Go map without order")
	r.Assume("the goroutines of FindMissing run under the Go scheduler; their interleavings are not enumerated (no controlled scheduler in this check), only their results and per-backend call logs are compared")
	r.Assume("the harness copy of splitmix64/score is used only to aim hashes (pre-images, ties) and for an informational agreement counter; every verdict comes from relations between results of the real code")

	if r.Replay != "" {
		rf := ev.LoadReplay(r.Replay)
		switch rf.Sub {
		case "selector-relations":
			var c selCase
			ev.MustJSON(rf.Case, &c)
			replaySelector(r, c)
		case "selector-duplicates":
			var c dupCase
			ev.MustJSON(rf.Case, &c)
			sig, msg := checkDup(c)
			fmt.Printf("replay selector-duplicates case=%+v message=%q\n", c, msg)
			if sig != "" {
				r.Violate(ev.Violation{Signature: sig, Sub: rf.Sub, Message: msg, Case: c})
			}
		case "composite-routing", "composite-findmissing", "composite-errors":
			var c compCase
			ev.MustJSON(rf.Case, &c)
			c.Sub = rf.Sub
			replayComposite(r, c)
		case "configuration":
			var c cfgCase
			ev.MustJSON(rf.Case, &c)
			replayConfig(r, c)
		default:
			ev.HarnessError("unknown sub-check %q in replay file", rf.Sub)
		}
		r.Finish()
	}

	if r.Want("selector-relations") {
		runSelector(r)
	}
	if r.Want("selector-duplicates") {
		runDuplicates(r)
	}
	lists, space := compositeLists(r)
	if r.Want("composite-routing") {
		runCompositeSub(r, "composite-routing", space+" x 3 instance names x 8 digests (2 real SHA-256, 2 crafted sharing the leading 8 bytes with them under another tail / digest function, all-zero, all-ff, 2 sharing only the leading 4 bytes) x {Put,Get,FindMissing; GetFromComposite with each of the 8 child digests}", lists,
			func(l []shardJ, st *compStats, emit func(compViol)) { runRouting(l, nil, st, emit) })
	}
	if r.Want("composite-findmissing") {
		us := fmUniverses(r.Thorough())
		runCompositeSub(r, "composite-findmissing", space+fmt.Sprintf(" x 4 digest universes (8 digests under each of 3 instance names; %d mixed (digest, instance name) pairs) x presence patterns (all 256 for the 8-digest universe under instance name \"\" and, in the thorough tier, under the other two names; otherwise none/all/alternating/each single present/each single absent; present = held only by its own shard, absent = held by every other shard) x every asked subset", len(us[3])), lists,
			func(l []shardJ, st *compStats, emit func(compViol)) {
				runFindMissing(l, us, r.Thorough(), nil, st, emit)
			})
	}
	if r.Want("composite-errors") {
		runCompositeSub(r, "composite-errors", space+" x every failing-shard assignment (one shard INTERNAL or UNAVAILABLE; two shards, one each) x 2 instance names x ({Put,Get,GetFromComposite,FindMissing} x 8 digests + FindMissing of every subset of the 8 digests)", lists,
			func(l []shardJ, st *compStats, emit func(compViol)) { runErrors(l, nil, st, emit) })
	}
	if r.Want("configuration") {
		runConfig(r)
	}
	r.Finish()
}
