package main

import (
	"crypto/sha256"
	"encoding/binary"
	"fmt"
	"sort"
	"strconv"
	"sync"

	"github.com/buildbarn/bb-storage/pkg/blobstore/sharding"

	"verifh/ev"
	"verifh/par"
)

// ---- universe -------------------------------------------------------------

var selKeys = []string{"a", "b", "c", "d", "e"}
var selWeights = []uint32{1, 2, 7, 1000, 1 << 20, 0xFFFFFFFF}

type shardJ struct {
	Key    string `json:"key"`
	Weight uint32 `json:"weight"`
}

func toShards(l []shardJ) []sharding.Shard {
	out := make([]sharding.Shard, len(l))
	for i, s := range l {
		out[i] = sharding.Shard{Key: s.Key, Weight: s.Weight}
	}
	return out
}

// ---- harness-side copy of the mixing (used ONLY to generate inputs) --------

func refHashServer(key string) uint64 {
	h := sha256.Sum256([]byte(key))
	return binary.BigEndian.Uint64(h[:8])
}

const mulA, mulB = uint64(0xbf58476d1ce4e5b9), uint64(0x94d049bb133111eb)

func refMix(x uint64) uint64 {
	x ^= x >> 30
	x *= mulA
	x ^= x >> 27
	x *= mulB
	x ^= x >> 31
	return x
}

// modInv is the inverse of an odd number modulo 2^64 (Newton iteration).
func modInv(a uint64) uint64 {
	x := a
	for i := 0; i < 7; i++ {
		x *= 2 - a*x
	}
	return x
}

func unxorshift(y uint64, s uint) uint64 {
	x := y
	for t := s; t < 64; t += s {
		x ^= y >> t
	}
	return x
}

var invA, invB = modInv(mulA), modInv(mulB)

var selKeyHash = func() []uint64 {
	out := make([]uint64, len(selKeys))
	for i, k := range selKeys {
		out[i] = refHashServer(k)
	}
	return out
}()

func refUnmix(y uint64) uint64 {
	y = unxorshift(y, 31)
	y *= invB
	y = unxorshift(y, 27)
	y *= invA
	y = unxorshift(y, 30)
	return y
}

// refScore mirrors the score of the real code using the real exported
// Log2Fixed; it is used for input generation (ties) and for the informational
// agreement counter, never as an oracle.
func refScore(mixed uint64, weight uint32) uint64 {
	l := uint64(64)<<16 - sharding.Log2Fixed(mixed)
	return (uint64(weight) << 32) / l
}

// ---- hash set H --------------------------------------------------------------

func genericHashes() []uint64 {
	g := []uint64{0, 1, 2, ^uint64(0)}
	for k := uint(0); k < 64; k++ {
		p := uint64(1) << k
		g = append(g, p-1, p, p+1)
	}
	return g
}

// boundaryTargets are mixed values that drive Log2Fixed to the first and last
// interpolation position of each of the 64 table rows, for every position of
// the leading one bit that leaves at least lutEntryBits bits below it.
func boundaryTargets(positions []uint) []uint64 {
	var m []uint64
	for x := uint64(0); x <= 64; x++ {
		m = append(m, x)
	}
	for _, p := range positions {
		for row := uint64(0); row < 64; row++ {
			base := uint64(1)<<p | row<<(p-6)
			m = append(m, base, base|(uint64(1)<<(p-6)-1))
		}
	}
	return m
}

type tieInfo struct {
	A, B   int // key indices
	WA, WB int // weight indices
	H      uint64
}

// findTies deterministically scans h = 0,1,2,... below limit and returns, for
// every unordered key pair and every ordered weight pair, the first `per`
// hashes at which the (harness copy of the) score of both shards is equal.
func findTies(limit uint64, per int) []tieInfo {
	type pair struct{ a, b int }
	var pairs []pair
	for a := 0; a < len(selKeys); a++ {
		for b := a + 1; b < len(selKeys); b++ {
			pairs = append(pairs, pair{a, b})
		}
	}
	res := make([][]tieInfo, len(pairs))
	par.For(len(pairs), func(i int) {
		pa := pairs[i]
		ha, hb := refHashServer(selKeys[pa.a]), refHashServer(selKeys[pa.b])
		var cnt [4][4]int
		remaining := 16 * per
		for h := uint64(0); h < limit && remaining > 0; h++ {
			la := uint64(64)<<16 - sharding.Log2Fixed(refMix(ha^h))
			lb := uint64(64)<<16 - sharding.Log2Fixed(refMix(hb^h))
			for wa := 0; wa < 4; wa++ {
				sa := (uint64(selWeights[wa]) << 32) / la
				for wb := 0; wb < 4; wb++ {
					if cnt[wa][wb] >= per {
						continue
					}
					if sa == (uint64(selWeights[wb])<<32)/lb {
						cnt[wa][wb]++
						remaining--
						res[i] = append(res[i], tieInfo{pa.a, pa.b, wa, wb, h})
					}
				}
			}
		}
	})
	var out []tieInfo
	for _, r := range res {
		out = append(out, r...)
	}
	return out
}

// ---- shard maps -------------------------------------------------------------

// A map is identified by a number in base len(selWeights)+1: digit i is 0 if key i is absent and
// weightIndex+1 otherwise.
var mapBase = len(selWeights) + 1

var pow5 = func() []int {
	out := []int{1}
	for i := 0; i < 5; i++ {
		out = append(out, out[len(out)-1]*mapBase)
	}
	return out
}()

type permSel struct {
	order []int // order[j] = position in canonical list of the j-th listed shard
	sel   sharding.ShardSelector
}

type smap struct {
	id     int
	list   []shardJ // canonical order (by key)
	keyIdx []int    // universe index of list[i]
	canon  sharding.ShardSelector
	perms  []permSel
}

func decodeMap(id int) *smap {
	m := &smap{id: id}
	x := id
	for i := range selKeys {
		d := x % mapBase
		x /= mapBase
		if d > 0 {
			m.list = append(m.list, shardJ{selKeys[i], selWeights[d-1]})
			m.keyIdx = append(m.keyIdx, i)
		}
	}
	return m
}

func permutations(n int) [][]int {
	var out [][]int
	cur := make([]int, 0, n)
	used := make([]bool, n)
	var rec func()
	rec = func() {
		if len(cur) == n {
			out = append(out, append([]int(nil), cur...))
			return
		}
		for i := 0; i < n; i++ {
			if !used[i] {
				used[i] = true
				cur = append(cur, i)
				rec()
				cur = cur[:len(cur)-1]
				used[i] = false
			}
		}
	}
	rec()
	return out
}

type selCase struct {
	Shards   []shardJ `json:"shards"` // canonical order
	Hash     string   `json:"hash"`   // decimal uint64
	Relation string   `json:"relation"`
	Detail   string   `json:"detail"`
}

type selViol struct {
	sig, msg string
	c        selCase
}

func safeGet(sel sharding.ShardSelector, h uint64) (idx int, panicked any) {
	defer func() {
		if p := recover(); p != nil {
			panicked = p
		}
	}()
	return sel.GetShard(h), nil
}

// buildSel constructs a selector for list in the given order.
func buildSel(list []shardJ, order []int) (sharding.ShardSelector, error) {
	l := make([]shardJ, len(order))
	for j, o := range order {
		l[j] = list[o]
	}
	return sharding.NewRendezvousShardSelector(toShards(l))
}

type selStats struct {
	evals, nontrivial                             int64
	removedChosen, removedOther, addTook, addKept int64
	topTies                                       int64
	refAgree, refTotal                            int64
	outcomes                                      map[uint32]struct{}
	getShardCalls                                 int64
	permCompared                                  int64
}

// checkMapHash evaluates every relation for (m, h). lookup returns the
// canonical map with the given id (nil if not built).
func checkMapHash(m *smap, h uint64, lookup func(int) *smap, st *selStats, emit func(selViol)) {
	k := len(m.list)
	mk := func(rel, detail string) selCase {
		return selCase{Shards: m.list, Hash: strconv.FormatUint(h, 10), Relation: rel, Detail: detail}
	}
	get := func(sel sharding.ShardSelector, n int, rel string, detailf func() string) (int, bool) {
		st.getShardCalls++
		idx, p := safeGet(sel, h)
		if p != nil {
			detail := detailf()
			emit(selViol{"selector:panic", fmt.Sprintf("GetShard(%d) panicked: %v (%s %s)", h, p, rel, detail), mk(rel, detail)})
			return 0, false
		}
		if idx < 0 || idx >= n {
			detail := detailf()
			emit(selViol{"selector:index-out-of-range", fmt.Sprintf("GetShard(%d) returned index %d for %d shards (%s %s)", h, idx, n, rel, detail), mk(rel, detail)})
			return 0, false
		}
		return idx, true
	}
	st.evals++
	if k >= 2 {
		st.nontrivial++
	}
	base, ok := get(m.canon, k, "base", func() string { return "" })
	if !ok {
		return
	}
	baseKey := m.keyIdx[base]

	// Informational: agreement with the harness copy of the algorithm
	// (arg max of the score, ties to the smaller key hash).
	{
		var best, bestKH uint64
		bestKey, atBest := -1, 0
		for i, s := range m.list {
			kh := selKeyHash[m.keyIdx[i]]
			sc := refScore(refMix(kh^h), s.Weight)
			switch {
			case bestKey < 0 || sc > best:
				best, bestKH, bestKey, atBest = sc, kh, m.keyIdx[i], 1
			case sc == best:
				atBest++
				if kh < bestKH {
					bestKH, bestKey = kh, m.keyIdx[i]
				}
			}
		}
		st.refTotal++
		if bestKey == baseKey {
			st.refAgree++
		}
		if atBest >= 2 {
			st.topTies++
		}
	}

	// Permutations.
	for _, p := range m.perms {
		idx, ok := get(p.sel, k, "permutation", func() string { return fmt.Sprint(p.order) })
		if !ok {
			continue
		}
		st.permCompared++
		if got := m.keyIdx[p.order[idx]]; got != baseKey {
			l := make([]string, k)
			for j, o := range p.order {
				l[j] = m.list[o].Key
			}
			emit(selViol{"selector:permutation-dependent",
				fmt.Sprintf("hash %d: shards listed as %v select key %q, listed in key order they select %q (weights %v)", h, l, selKeys[got], selKeys[baseKey], m.list),
				mk("permutation", fmt.Sprint(p.order))})
		}
	}

	// Removals.
	rerouted := 0
	if k >= 2 {
		for i := range m.list {
			ki := m.keyIdx[i]
			id2 := m.id - ((m.id/pow5[ki])%mapBase)*pow5[ki]
			m2 := lookup(id2)
			if m2 == nil {
				ev.HarnessError("map %d (removal from %d) not built", id2, m.id)
			}
			idx, ok := get(m2.canon, k-1, "removal", func() string { return selKeys[ki] })
			if !ok {
				continue
			}
			got := m2.keyIdx[idx]
			if ki == baseKey {
				st.removedChosen++
				rerouted++
				continue
			}
			st.removedOther++
			if got != baseKey {
				emit(selViol{"selector:removal-reroutes-unrelated",
					fmt.Sprintf("hash %d: map %v selects %q; after removing %q (not the selected shard) it selects %q", h, m.list, selKeys[baseKey], selKeys[ki], selKeys[got]),
					mk("removal", selKeys[ki])})
			}
		}
	}

	// Additions.
	took := 0
	for t := range selKeys {
		if (m.id/pow5[t])%mapBase != 0 {
			continue
		}
		for w := range selWeights {
			m2 := lookup(m.id + (w+1)*pow5[t])
			if m2 == nil {
				ev.HarnessError("map (addition to %d) not built", m.id)
			}
			detailf := func() string { return fmt.Sprintf("%s:%d", selKeys[t], selWeights[w]) }
			idx, ok := get(m2.canon, k+1, "addition", detailf)
			if !ok {
				continue
			}
			got := m2.keyIdx[idx]
			switch got {
			case t:
				st.addTook++
				took++
			case baseKey:
				st.addKept++
			default:
				detail := detailf()
				emit(selViol{"selector:addition-reroutes-to-old-shard",
					fmt.Sprintf("hash %d: map %v selects %q; after adding %s it selects %q, which is neither the previous nor the new shard", h, m.list, selKeys[baseKey], detail, selKeys[got]),
					mk("addition", detail)})
			}
		}
	}
	if st.outcomes != nil {
		wIdx := (m.id / pow5[baseKey]) % mapBase
		o := uint32(k) | uint32(baseKey)<<4 | uint32(wIdx)<<8 | uint32(rerouted)<<12 | uint32(took)<<16
		st.outcomes[o] = struct{}{}
	}
}

func prepareMap(m *smap, withPerms bool, emit func(selViol)) bool {
	ident := make([]int, len(m.list))
	for i := range ident {
		ident[i] = i
	}
	sel, err := buildSel(m.list, ident)
	if err != nil {
		emit(selViol{"selector:valid-map-rejected", fmt.Sprintf("NewRendezvousShardSelector(%v) failed: %v", m.list, err), selCase{Shards: m.list, Hash: "0", Relation: "construct"}})
		return false
	}
	m.canon = sel
	if withPerms {
		for _, o := range permutations(len(m.list)) {
			s, err := buildSel(m.list, o)
			if err != nil {
				emit(selViol{"selector:valid-map-rejected", fmt.Sprintf("NewRendezvousShardSelector(%v in order %v) failed: %v", m.list, o, err), selCase{Shards: m.list, Hash: "0", Relation: "construct", Detail: fmt.Sprint(o)}})
				return false
			}
			m.perms = append(m.perms, permSel{o, s})
		}
	}
	return true
}

func popcountMap(id int) int {
	n := 0
	for i := range selKeys {
		if (id/pow5[i])%mapBase != 0 {
			n++
		}
	}
	return n
}

func runSelector(r *ev.Run) {
	maxK := ev.Pick(r, 4, 5)
	tieLimit := ev.Pick(r, uint64(1)<<22, uint64(1)<<25)

	// Self-check of the inverse mixing.
	if mulA*invA != 1 || mulB*invB != 1 {
		ev.HarnessError("modular inverse wrong")
	}

	// Hash set.
	type hent struct {
		h   uint64
		tie bool
	}
	seen := map[uint64]int{}
	var H []hent
	add := func(h uint64, tie bool) {
		if i, ok := seen[h]; ok {
			if tie {
				H[i].tie = true
			}
			return
		}
		seen[h] = len(H)
		H = append(H, hent{h, tie})
	}
	generic := genericHashes()
	for _, h := range generic {
		add(h, false)
	}
	nGeneric := len(H)
	var positions []uint
	for p := uint(6); p < 64; p++ {
		positions = append(positions, p)
	}
	positions = ev.Pick(r, []uint{6, 7, 8, 15, 16, 17, 31, 32, 33, 47, 48, 49, 56, 57, 58, 61, 62, 63}, positions)
	targets := append(boundaryTargets(positions), generic...)
	for _, k := range selKeys {
		kh := refHashServer(k)
		for _, m := range targets {
			x := refUnmix(m)
			if refMix(x) != m {
				ev.HarnessError("inverse mixing self-check failed: mix(unmix(%#x)) = %#x", m, refMix(x))
			}
			add(x^kh, false)
		}
	}
	for _, e := range H {
		if refUnmix(refMix(e.h)) != e.h {
			ev.HarnessError("inverse mixing self-check failed: unmix(mix(%#x)) != x", e.h)
		}
	}
	nPre := len(H) - nGeneric
	ties := findTies(tieLimit, 3)
	tiePairs := map[string]int{}
	for _, t := range ties {
		add(t.H, true)
		tiePairs[fmt.Sprintf("w%d/w%d", selWeights[t.WA], selWeights[t.WB])]++
	}
	nTie := len(H) - nGeneric - nPre

	sub := r.NewSub("selector-relations", "venum",
		fmt.Sprintf("all shard maps over keys {a..e} x weights {1,2,7,1000,2^20,2^32-1} with 1..%d shards (every weight assignment), every permutation of each, every single removal, every single addition (key x weight) x hash set H (%d generic: 0,1,2,2^k-1,2^k,2^k+1,2^64-1; %d pre-images unmix(m)^hash(key) for each key and m in {0..64, per leading-bit position in %v x 64 table rows x {first,last} interpolation position, generic set}; %d tie hashes found by scanning h<%d for equal scores of two shards)", maxK, nGeneric, nPre, positions, nTie, tieLimit))
	done := sub.Timer()

	// Build maps.
	maps := make([]*smap, pow5[5])
	var ids []int
	for id := 1; id < pow5[5]; id++ {
		maps[id] = decodeMap(id)
		ids = append(ids, id)
	}
	var vmu sync.Mutex
	emit := func(v selViol) {
		vmu.Lock()
		r.Violate(ev.Violation{Signature: v.sig, Sub: "selector-relations", Message: v.msg, Case: v.c})
		vmu.Unlock()
	}
	okBuilt := make([]bool, pow5[5])
	par.For(len(ids), func(i int) {
		m := maps[ids[i]]
		okBuilt[ids[i]] = prepareMap(m, len(m.list) <= maxK, emit)
	})
	lookup := func(id int) *smap {
		if id <= 0 || id >= len(maps) || !okBuilt[id] {
			return nil
		}
		return maps[id]
	}
	var work []int
	for _, id := range ids {
		if okBuilt[id] && len(maps[id].list) <= maxK {
			work = append(work, id)
		}
	}
	// Largest maps first for load balance.
	sort.SliceStable(work, func(i, j int) bool { return len(maps[work[i]].list) > len(maps[work[j]].list) })
	stats := make([]selStats, len(work))
	par.For(len(work), func(i int) {
		st := &stats[i]
		st.outcomes = map[uint32]struct{}{}
		m := maps[work[i]]
		for _, e := range H {
			checkMapHash(m, e.h, lookup, st, emit)
		}
	})
	var tot selStats
	outc := map[uint32]struct{}{}
	nperm := 0
	for i := range stats {
		s := &stats[i]
		tot.evals += s.evals
		tot.nontrivial += s.nontrivial
		tot.removedChosen += s.removedChosen
		tot.removedOther += s.removedOther
		tot.addTook += s.addTook
		tot.addKept += s.addKept
		tot.topTies += s.topTies
		tot.refAgree += s.refAgree
		tot.refTotal += s.refTotal
		tot.getShardCalls += s.getShardCalls
		tot.permCompared += s.permCompared
		for o := range s.outcomes {
			outc[o] = struct{}{}
		}
		nperm += len(maps[work[i]].perms)
	}
	sub.Evaluations = tot.evals
	sub.Nontrivial = tot.nontrivial
	sub.States, sub.Transitions = tot.evals, tot.getShardCalls
	sub.Outcomes = int64(len(outc))
	sub.Exhaustive = true
	sub.BoundCompleted = fmt.Sprintf("<=%d shards", maxK)
	sub.Extra = map[string]any{
		"shard_maps":                        len(work),
		"ordered_shard_lists":               nperm,
		"hashes":                            len(H),
		"hashes_generic":                    nGeneric,
		"hashes_preimages":                  nPre,
		"hashes_ties":                       nTie,
		"tie_hashes_per_weight_pair":        tiePairs,
		"cases_with_tied_top_score":         tot.topTies,
		"getshard_calls":                    tot.getShardCalls,
		"permutation_comparisons":           tot.permCompared,
		"removals_of_selected_shard":        tot.removedChosen,
		"removals_of_other_shard_checked":   tot.removedOther,
		"additions_taking_over":             tot.addTook,
		"additions_keeping_previous":        tot.addKept,
		"harness_reference_model_agreement": fmt.Sprintf("%d/%d", tot.refAgree, tot.refTotal),
	}
	if tot.refAgree != tot.refTotal {
		r.Note(fmt.Sprintf("selector: the harness copy of the mixing/score (used only to aim hashes at table boundaries and ties) agrees with the real GetShard on %d of %d cases; the pre-image and tie hashes are aimed correctly only if this is 100%%", tot.refAgree, tot.refTotal))
	}
	done()
	for i, e := range []int{0, nGeneric - 1, nGeneric + 200, nGeneric + nPre} {
		if e < len(H) && len(work) > 0 {
			m := maps[work[(i*7919)%len(work)]]
			idx, _ := safeGet(m.canon, H[e].h)
			r.Sample(map[string]any{"sub": "selector-relations", "shards": m.list, "hash": strconv.FormatUint(H[e].h, 10), "tie_hash": H[e].tie, "selected": m.list[idx%len(m.list)].Key})
		}
	}
}

// ---- duplicates ---------------------------------------------------------------

type dupCase struct {
	Shards []shardJ `json:"shards"` // list as passed, contains a duplicate key
}

func checkDup(c dupCase) (string, string) {
	_, err := sharding.NewRendezvousShardSelector(toShards(c.Shards))
	if err == nil {
		return "selector:duplicate-key-accepted", fmt.Sprintf("NewRendezvousShardSelector accepted %v although a key occurs twice (the result would depend on the order of the list)", c.Shards)
	}
	return "", ""
}

func runDuplicates(r *ev.Run) {
	maxK := ev.Pick(r, 3, 4)
	sub := r.NewSub("selector-duplicates", "venum", fmt.Sprintf("every shard map with 1..%d shards (all weight assignments) x every shard of it duplicated with every weight at every list position", maxK))
	done := sub.Timer()
	var outcomes ev.Set
	for id := 1; id < pow5[5]; id++ {
		if popcountMap(id) > maxK {
			continue
		}
		m := decodeMap(id)
		for i := range m.list {
			for _, w := range selWeights {
				for pos := 0; pos <= len(m.list); pos++ {
					var l []shardJ
					l = append(l, m.list[:pos]...)
					l = append(l, shardJ{m.list[i].Key, w})
					l = append(l, m.list[pos:]...)
					c := dupCase{l}
					sig, msg := checkDup(c)
					sub.Evaluations++
					if len(m.list) >= 2 {
						sub.Nontrivial++
					}
					if sig != "" {
						outcomes.Add("accepted")
						r.Violate(ev.Violation{Signature: sig, Sub: "selector-duplicates", Message: msg, Case: c})
					} else {
						outcomes.Add("rejected")
					}
					if sub.Evaluations == 20000 {
						r.Sample(map[string]any{"sub": "selector-duplicates", "shards": l, "rejected": sig == ""})
					}
				}
			}
		}
	}
	sub.Outcomes = outcomes.Len()
	sub.States, sub.Transitions = sub.Evaluations, sub.Evaluations
	sub.Exhaustive = true
	done()
}

// ---- replay -----------------------------------------------------------------

func replaySelector(r *ev.Run, c selCase) {
	h, err := strconv.ParseUint(c.Hash, 10, 64)
	if err != nil {
		ev.HarnessError("bad hash in replay: %v", err)
	}
	id := 0
	for _, s := range c.Shards {
		ki, wi := -1, -1
		for i, k := range selKeys {
			if k == s.Key {
				ki = i
			}
		}
		for i, w := range selWeights {
			if w == s.Weight {
				wi = i
			}
		}
		if ki < 0 || wi < 0 {
			ev.HarnessError("replay shard %v outside the universe", s)
		}
		id += (wi + 1) * pow5[ki]
	}
	emit := func(v selViol) {
		fmt.Printf("replay: %s: %s\n", v.sig, v.msg)
		r.Violate(ev.Violation{Signature: v.sig, Sub: "selector-relations", Message: v.msg, Case: v.c})
	}
	cache := map[int]*smap{}
	lookup := func(i int) *smap {
		if m, ok := cache[i]; ok {
			return m
		}
		m := decodeMap(i)
		if !prepareMap(m, false, emit) {
			return nil
		}
		cache[i] = m
		return m
	}
	m := decodeMap(id)
	if !prepareMap(m, true, emit) {
		return
	}
	st := &selStats{}
	checkMapHash(m, h, lookup, st, emit)
	fmt.Printf("replay selector-relations shards=%v hash=%d getshard_calls=%d\n", m.list, h, st.getShardCalls)
}
