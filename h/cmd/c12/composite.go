package main

import (
	"bytes"
	"context"
	"encoding/binary"
	"encoding/hex"
	"fmt"
	"io"
	"sort"
	"strings"
	"sync"

	remoteexecution "github.com/bazelbuild/remote-apis/build/bazel/remote/execution/v2"
	"github.com/buildbarn/bb-storage/pkg/blobstore"
	"github.com/buildbarn/bb-storage/pkg/blobstore/buffer"
	"github.com/buildbarn/bb-storage/pkg/blobstore/sharding"
	"github.com/buildbarn/bb-storage/pkg/blobstore/slicing"
	"github.com/buildbarn/bb-storage/pkg/digest"
	"google.golang.org/grpc/codes"
	"google.golang.org/grpc/status"

	"verifh/ev"
	"verifh/par"
	"verifh/sim"
)

// ---- universes ----------------------------------------------------------------

// Shard keys of the composite checks: distinctive words (so "the error carries
// the shard key" is not satisfied by accident) and one key with a format verb.
var compKeys = []string{"alpha", "bravo", "charlie", "delta", "echo%d"}
var compWeights = []uint32{1, 7}
var instanceNames = []string{"", "a", "a/b"}

type dspec struct {
	Name    string
	Fn      remoteexecution.DigestFunction_Value
	Hash    string
	Content []byte
	Real    bool // Hash is the true hash of Content
}

var digestUniverse = func() []dspec {
	x := sim.SHA256Digest("", []byte("x"))
	yy := sim.SHA256Digest("", []byte("yy"))
	return []dspec{
		{"D0=sha256(x)", remoteexecution.DigestFunction_SHA256, x.GetHashString(), []byte("x"), true},
		{"D1=sha256(yy)", remoteexecution.DigestFunction_SHA256, yy.GetHashString(), []byte("yy"), true},
		{"D2=sha256-sized,leading 8 bytes of D0", remoteexecution.DigestFunction_SHA256, x.GetHashString()[:16] + strings.Repeat("5a", 24), []byte("222"), false},
		{"D3=md5-sized,leading 8 bytes of D1", remoteexecution.DigestFunction_MD5, yy.GetHashString()[:16] + strings.Repeat("a5", 8), []byte("3333"), false},
		{"D4=sha256-sized,all zero", remoteexecution.DigestFunction_SHA256, strings.Repeat("00", 32), []byte("44444"), false},
		{"D5=sha1-sized,all ff", remoteexecution.DigestFunction_SHA1, strings.Repeat("ff", 20), []byte("555555"), false},
		// the selector is fed the leading 8 bytes: these two agree with D0 in the first four only
		{"D6=sha256-sized,leading 4 bytes of D0 then 11223344", remoteexecution.DigestFunction_SHA256, x.GetHashString()[:8] + "11223344" + strings.Repeat("6b", 24), []byte("6666666"), false},
		{"D7=sha256-sized,leading 4 bytes of D0 then eeddccbb", remoteexecution.DigestFunction_SHA256, x.GetHashString()[:8] + "eeddccbb" + strings.Repeat("7c", 24), []byte("77777777"), false},
	}
}()

func (d dspec) digest(instance string) digest.Digest {
	return digest.MustNewDigest(instance, d.Fn, d.Hash, int64(len(d.Content)))
}

func (d dspec) lead() uint64 {
	b, err := hex.DecodeString(d.Hash)
	if err != nil {
		panic(err)
	}
	return binary.BigEndian.Uint64(b[:8])
}

func (d dspec) putBuffer(dg digest.Digest) buffer.Buffer {
	if d.Real {
		return buffer.NewCASBufferFromByteSlice(dg, d.Content, buffer.UserProvided)
	}
	return buffer.NewValidatedBufferFromByteSlice(d.Content)
}

// udig is one element of a FindMissing universe.
type udig struct {
	D        int    `json:"digest"` // index in digestUniverse
	Instance string `json:"instance"`
}

// FindMissing universes: the 8 digests under each single instance name, and a
// mixed universe where equal hashes occur under several instance names.
func fmUniverses(thorough bool) [][]udig {
	var out [][]udig
	for _, in := range instanceNames {
		var u []udig
		for i := range digestUniverse {
			u = append(u, udig{i, in})
		}
		out = append(out, u)
	}
	mixed := []udig{{0, ""}, {0, "a"}, {1, ""}, {1, "a/b"}, {2, "a"}, {3, "a/b"}, {4, ""}, {5, "a"}}
	if thorough {
		mixed = append(mixed, udig{0, "a/b"}, udig{4, "a"})
	}
	out = append(out, mixed)
	return out
}

type sliceAll struct{}

func (sliceAll) Slice(b buffer.Buffer, child digest.Digest) (buffer.Buffer, []slicing.BlobSlice) {
	return b, nil
}

// ---- ordered shard lists ------------------------------------------------------

func orderedLists(nKeys, maxK int) [][]shardJ {
	var out [][]shardJ
	for mask := 1; mask < 1<<nKeys; mask++ {
		var ks []int
		for i := 0; i < nKeys; i++ {
			if mask&(1<<i) != 0 {
				ks = append(ks, i)
			}
		}
		if len(ks) > maxK {
			continue
		}
		nw := 1
		for range ks {
			nw *= len(compWeights)
		}
		for wa := 0; wa < nw; wa++ {
			list := make([]shardJ, len(ks))
			x := wa
			for j, ki := range ks {
				list[j] = shardJ{compKeys[ki], compWeights[x%len(compWeights)]}
				x /= len(compWeights)
			}
			for _, o := range permutations(len(ks)) {
				l := make([]shardJ, len(o))
				for j, oi := range o {
					l[j] = list[oi]
				}
				out = append(out, l)
			}
		}
	}
	return out
}

// ---- fixture --------------------------------------------------------------------

type failSpec struct {
	Backend int    `json:"backend"` // index in the ordered list
	Code    string `json:"code"`    // "Internal" or "Unavailable"
}

func codeOf(s string) codes.Code {
	for c := codes.Canceled; c <= codes.Unauthenticated; c++ {
		if c.String() == s {
			return c
		}
	}
	ev.HarnessError("unknown code %q", s)
	return codes.OK
}

type fixture struct {
	list     []shardJ
	backends []*sim.ModelBlobAccess
	ba       blobstore.BlobAccess
	ref      sharding.ShardSelector // separately constructed, used for expectations
}

func newFixture(list []shardJ, fails []failSpec) *fixture {
	f := &fixture{list: list}
	sel, err := sharding.NewRendezvousShardSelector(toShards(list))
	if err != nil {
		ev.HarnessError("selector for %v: %v", list, err)
	}
	f.ref, err = sharding.NewRendezvousShardSelector(toShards(list))
	if err != nil {
		ev.HarnessError("selector for %v: %v", list, err)
	}
	var sb []sharding.ShardBackend
	for i, s := range list {
		m := sim.NewModel(fmt.Sprintf("backend#%d", i), digest.KeyWithInstance)
		f.backends = append(f.backends, m)
		sb = append(sb, sharding.ShardBackend{Backend: m, Key: s.Key})
	}
	for _, fs := range fails {
		c, n := codeOf(fs.Code), fs.Backend
		f.backends[n].Hook = func(op string, ds []digest.Digest) error {
			return status.Errorf(c, "injected failure #%d", n)
		}
	}
	f.ba = sharding.NewShardingBlobAccess(sb, sel)
	return f
}

// route is the expectation: the shard the selector picks for the big-endian
// value of the first 8 hash bytes.
func (f *fixture) route(d dspec) int {
	idx, p := safeGet(f.ref, d.lead())
	if p != nil || idx < 0 || idx >= len(f.list) {
		return -1 // reported by the selector sub-check; composite cases are skipped
	}
	return idx
}

func (f *fixture) resetCalls() {
	for _, b := range f.backends {
		b.Calls = nil
	}
}

// callsByBackend renders the call logs: for every backend the sorted list of
// "Op(d1,d2,...)" with the digest list sorted.
func (f *fixture) callsByBackend() [][]string {
	out := make([][]string, len(f.backends))
	for i, b := range f.backends {
		for _, c := range b.CallsCopy() {
			ds := append([]string(nil), c.Digests...)
			if c.Op == "FindMissing" {
				sort.Strings(ds)
			}
			out[i] = append(out[i], c.Op+"("+strings.Join(ds, ",")+")")
		}
		sort.Strings(out[i])
	}
	return out
}

func sameCalls(a, b [][]string) bool {
	if len(a) != len(b) {
		return false
	}
	for i := range a {
		if strings.Join(a[i], ";") != strings.Join(b[i], ";") {
			return false
		}
	}
	return true
}

type compCase struct {
	Sub      string     `json:"sub"`
	Shards   []shardJ   `json:"shards"` // as listed
	Instance string     `json:"instance,omitempty"`
	Op       string     `json:"op,omitempty"`
	Digest   int        `json:"digest"`
	Child    int        `json:"child"`
	Universe int        `json:"universe"`
	USize    int        `json:"universe_size"`
	Present  int        `json:"present_mask"`
	Subset   int        `json:"subset_mask"`
	Fails    []failSpec `json:"fails,omitempty"`
}

type compViol struct {
	sig, msg string
	c        compCase
}

type compStats struct {
	evals, nontrivial int64
	outcomes          map[string]struct{}
	sample            []any
}

func (s *compStats) outcome(o string) {
	if s.outcomes == nil {
		s.outcomes = map[string]struct{}{}
	}
	s.outcomes[o] = struct{}{}
}

func recovered(f func()) (p any) {
	defer func() { p = recover() }()
	f()
	return nil
}

// ---- routing ----------------------------------------------------------------------

var singleOps = []string{"Put", "Get", "GetFromComposite", "FindMissing"}

// doSingle performs one single-digest operation on the composite; for Get
// variants it returns the bytes read (real digests) and the error.
// consumeRead reads dg completely through one consumption method and returns the error the consumer saw.
func consumeRead(ba blobstore.BlobAccess, op, how string, dg, child digest.Digest) error {
	ctx := context.Background()
	var b buffer.Buffer
	if op == "Get" {
		b = ba.Get(ctx, dg)
	} else {
		b = ba.GetFromComposite(ctx, dg, child, sliceAll{})
	}
	switch how {
	case "ToByteSlice":
		_, err := b.ToByteSlice(1000)
		return err
	case "IntoWriter":
		return b.IntoWriter(io.Discard)
	case "ToReader":
		r := b.ToReader()
		_, err := io.ReadAll(r)
		r.Close()
		return err
	default:
		cr := b.ToChunkReader(0, 2)
		defer cr.Close()
		for {
			if _, err := cr.Read(); err == io.EOF {
				return nil
			} else if err != nil {
				return err
			}
		}
	}
}

func doSingle(ba blobstore.BlobAccess, op string, d dspec, dg, child digest.Digest) ([]byte, digest.Set, error) {
	ctx := context.Background()
	switch op {
	case "Put":
		return nil, digest.EmptySet, ba.Put(ctx, dg, d.putBuffer(dg))
	case "Get", "GetFromComposite":
		var b buffer.Buffer
		if op == "Get" {
			b = ba.Get(ctx, dg)
		} else {
			b = ba.GetFromComposite(ctx, dg, child, sliceAll{})
		}
		if d.Real {
			data, err := b.ToByteSlice(1000)
			return data, digest.EmptySet, err
		}
		// Crafted digest: the content cannot match the hash; only learn
		// whether the buffer is an error buffer.
		_, err := b.GetSizeBytes()
		b.Discard()
		return nil, digest.EmptySet, err
	case "FindMissing":
		s, err := ba.FindMissing(ctx, dg.ToSingletonSet())
		return nil, s, err
	}
	ev.HarnessError("unknown op %s", op)
	return nil, digest.EmptySet, nil
}

func expectSingleCall(n, target int, op string, dg, child digest.Digest) [][]string {
	out := make([][]string, n)
	switch op {
	case "GetFromComposite":
		out[target] = []string{op + "(" + dg.String() + "," + child.String() + ")"}
	default:
		out[target] = []string{op + "(" + dg.String() + ")"}
	}
	return out
}

func runRouting(list []shardJ, filter *compCase, st *compStats, emit func(compViol)) {
	for _, in := range instanceNames {
		if filter != nil && filter.Instance != in {
			continue
		}
		for di, d := range digestUniverse {
			if filter != nil && filter.Digest != di {
				continue
			}
			for ci := range digestUniverse {
				if filter != nil && filter.Child != ci {
					continue
				}
				// The child only matters for GetFromComposite; the other
				// operations are run once (child == digest).
				ops := singleOps
				if ci != di {
					ops = []string{"GetFromComposite"}
				}
				f := newFixture(list, nil)
				target := f.route(d)
				if target < 0 {
					continue
				}
				dg := d.digest(in)
				child := digestUniverse[ci].digest(in)
				// The object lives in the shard the selector names, and a
				// *different* object (wrong bytes) would be found anywhere else.
				for i, b := range f.backends {
					if i == target {
						b.Store(dg, d.Content)
					}
				}
				for _, op := range ops {
					if filter != nil && filter.Op != "" && filter.Op != op {
						continue
					}
					c := compCase{Sub: "composite-routing", Shards: list, Instance: in, Op: op, Digest: di, Child: ci}
					f.resetCalls()
					var data []byte
					var missing digest.Set
					var err error
					if p := recovered(func() { data, missing, err = doSingle(f.ba, op, d, dg, child) }); p != nil {
						emit(compViol{"routing:panic:" + op, fmt.Sprintf("%s(%s) panicked: %v", op, dg, p), c})
						continue
					}
					st.evals++
					if len(list) >= 2 {
						st.nontrivial++
					}
					got := f.callsByBackend()
					want := expectSingleCall(len(list), target, op, dg, child)
					st.outcome(fmt.Sprintf("%s:k=%d:target=%d:%s", op, len(list), target, sim.Code(err)))
					if !sameCalls(got, want) {
						emit(compViol{"routing:wrong-backend:" + op,
							fmt.Sprintf("%s of %s (%s) on shards %v: GetShard(%#x) selects #%d (%s), expected backend calls %v, observed %v", op, dg, d.Name, list, d.lead(), target, list[target].Key, want, got), c})
						continue
					}
					if !d.Real && (op == "Get" || op == "GetFromComposite") {
						// The stored bytes cannot match a crafted hash: the
						// shard's own integrity error must come back under
						// the key of exactly that shard.
						if m := checkCraftedReadError(err, list, target); m != "" {
							emit(compViol{"routing:integrity-error-not-attributed:" + op, fmt.Sprintf("%s of %s (%s): %s", op, dg, d.Name, m), c})
						}
						continue
					}
					if err != nil {
						emit(compViol{"routing:unexpected-error:" + op, fmt.Sprintf("%s of %s failed although its shard holds the object: %v", op, dg, err), c})
						continue
					}
					switch op {
					case "Get", "GetFromComposite":
						if d.Real && !bytes.Equal(data, d.Content) {
							emit(compViol{"routing:wrong-bytes:" + op, fmt.Sprintf("%s of %s returned %q, want %q", op, dg, data, d.Content), c})
						}
					case "FindMissing":
						if !missing.Empty() {
							emit(compViol{"routing:findmissing-reports-present-object", fmt.Sprintf("FindMissing({%s}) = %v although shard %s holds it", dg, sim.SetStrings(missing), list[target].Key), c})
						}
					case "Put":
						if got, ok := f.backends[target].Peek(dg); !ok || !bytes.Equal(got, d.Content) {
							emit(compViol{"routing:put-not-stored", fmt.Sprintf("Put of %s did not store the bytes in shard %s", dg, list[target].Key), c})
						}
					}
					if len(st.sample) < 2 && len(list) == 3 && op == "Get" && di == 2 && in == "a" {
						st.sample = append(st.sample, map[string]any{"sub": "composite-routing", "case": c, "selected_shard": list[target].Key, "calls": got})
					}
				}
			}
		}
	}
}

// ---- FindMissing ---------------------------------------------------------------------

// presencePatterns: every pattern for universes of <= 6 elements when full;
// otherwise (and always for the larger mixed universe): nothing, everything,
// the two alternating patterns, every single element present, every single
// element absent.
func presencePatterns(n int, full bool) []int {
	var out []int
	if n <= 6 && full {
		for p := 0; p < 1<<n; p++ {
			out = append(out, p)
		}
		return out
	}
	all := 1<<n - 1
	out = append(out, 0, all, 0x55555555&all, 0xAAAAAAAA&all)
	for i := 0; i < n; i++ {
		out = append(out, 1<<i, all&^(1<<i))
	}
	return out
}

type fmOutcome struct{ k, asked, touched, missing int }

func runFindMissing(list []shardJ, universes [][]udig, thorough bool, filter *compCase, st *compStats, emit func(compViol)) {
	ctx := context.Background()
	fmOut := map[fmOutcome]struct{}{}
	for ui, u := range universes {
		if filter != nil && filter.Universe != ui {
			continue
		}
		n := len(u)
		f := newFixture(list, nil)
		dgs := make([]digest.Digest, n)
		dstr := make([]string, n)
		route := make([]int, n)
		bad := false
		for i, e := range u {
			dgs[i] = digestUniverse[e.D].digest(e.Instance)
			dstr[i] = dgs[i].String()
			route[i] = f.route(digestUniverse[e.D])
			if route[i] < 0 {
				bad = true
			}
		}
		if bad {
			continue
		}
		// Order of the universe by digest string, so that per-shard lists
		// come out sorted.
		order := make([]int, n)
		for i := range order {
			order[i] = i
		}
		sort.Slice(order, func(a, b int) bool { return dstr[order[a]] < dstr[order[b]] })
		perShard := make([][]string, len(list))
		for _, present := range presencePatterns(n, thorough || ui == 0) {
			if filter != nil && filter.Present != present {
				continue
			}
			// Adversarial placement: a present object is held by its own
			// shard only; an absent object is held by every OTHER shard, so
			// asking the wrong shard changes the answer.
			for i := range u {
				for bi, b := range f.backends {
					own := bi == route[i]
					if own == (present&(1<<i) != 0) {
						b.Store(dgs[i], digestUniverse[u[i].D].Content)
					} else {
						b.Remove(dgs[i])
					}
				}
			}
			for subset := 0; subset < 1<<n; subset++ {
				if filter != nil && filter.Subset != subset {
					continue
				}
				mkCase := func() compCase {
					return compCase{Sub: "composite-findmissing", Shards: list, Universe: ui, USize: n, Present: present, Subset: subset}
				}
				sb := digest.NewSetBuilder(n)
				for bi := range perShard {
					perShard[bi] = perShard[bi][:0]
				}
				var wantMissing []string
				nAsked := 0
				for _, i := range order {
					if subset&(1<<i) == 0 {
						continue
					}
					nAsked++
					sb.Add(dgs[i])
					perShard[route[i]] = append(perShard[route[i]], dstr[i])
					if present&(1<<i) == 0 {
						wantMissing = append(wantMissing, dstr[i])
					}
				}
				touched := 0
				for bi := range perShard {
					if len(perShard[bi]) > 0 {
						touched++
					}
				}
				f.resetCalls()
				var res digest.Set
				var err error
				if p := recovered(func() { res, err = f.ba.FindMissing(ctx, sb.Build()) }); p != nil {
					emit(compViol{"findmissing:panic", fmt.Sprintf("FindMissing panicked: %v", p), mkCase()})
					continue
				}
				st.evals++
				if touched >= 2 {
					st.nontrivial++
				}
				fmOut[fmOutcome{len(list), nAsked, touched, len(wantMissing)}] = struct{}{}
				// Every shard is asked exactly about its own digests.
				partitionOK := true
				var union []string
				for bi, b := range f.backends {
					calls := b.Calls
					if len(perShard[bi]) == 0 {
						partitionOK = partitionOK && len(calls) == 0
						continue
					}
					if len(calls) != 1 || calls[0].Op != "FindMissing" || len(calls[0].Digests) != len(perShard[bi]) {
						partitionOK = false
						continue
					}
					ds := sortedCopy(calls[0].Digests)
					for j := range ds {
						partitionOK = partitionOK && ds[j] == perShard[bi][j]
					}
					union = append(union, calls[0].Result...)
				}
				if !partitionOK {
					want := make([][]string, len(list))
					for bi := range perShard {
						if len(perShard[bi]) > 0 {
							want[bi] = []string{"FindMissing(" + strings.Join(perShard[bi], ",") + ")"}
						}
					}
					emit(compViol{"findmissing:wrong-partition",
						fmt.Sprintf("FindMissing on shards %v: every shard must be asked exactly once about exactly its own digests: expected %v, observed %v", list, want, f.callsByBackend()), mkCase()})
					continue
				}
				if err != nil {
					emit(compViol{"findmissing:unexpected-error", fmt.Sprintf("FindMissing failed without any backend failing: %v", err), mkCase()})
					continue
				}
				sort.Strings(union)
				gotMissing := sim.SetStrings(res)
				if !equalStrings(gotMissing, union) {
					emit(compViol{"findmissing:not-union-of-answers",
						fmt.Sprintf("FindMissing on shards %v returned %v; the shards answered %v (union %v)", list, gotMissing, f.callsByBackend(), union), mkCase()})
					continue
				}
				if !equalStrings(gotMissing, wantMissing) {
					emit(compViol{"findmissing:wrong-result",
						fmt.Sprintf("FindMissing returned %v, the asked objects not held by their shard are %v", gotMissing, wantMissing), mkCase()})
				}
				if len(st.sample) < 1 && touched == 3 && len(wantMissing) == 2 && ui == 3 {
					st.sample = append(st.sample, map[string]any{"sub": "composite-findmissing", "case": mkCase(), "calls": f.callsByBackend(), "result": gotMissing})
				}
			}
		}
	}
	for o := range fmOut {
		st.outcome(fmt.Sprintf("k=%d:asked=%d:touched=%d:missing=%d", o.k, o.asked, o.touched, o.missing))
	}
}

func equalStrings(a, b []string) bool {
	if len(a) != len(b) {
		return false
	}
	for i := range a {
		if a[i] != b[i] {
			return false
		}
	}
	return true
}

// ---- errors ------------------------------------------------------------------------------

func failSpecs(k int) [][]failSpec {
	var out [][]failSpec
	for b := 0; b < k; b++ {
		// a single failing shard: every status code a backend can answer with
		for c := codes.Canceled; c <= codes.Unauthenticated; c++ {
			out = append(out, []failSpec{{b, c.String()}})
		}
	}
	for a := 0; a < k; a++ {
		for b := 0; b < k; b++ {
			if a != b {
				out = append(out, []failSpec{{a, "Internal"}, {b, "Unavailable"}})
			}
		}
	}
	return out
}

func sameFails(a, b []failSpec) bool {
	if len(a) != len(b) {
		return false
	}
	for i := range a {
		if a[i] != b[i] {
			return false
		}
	}
	return true
}

// checkShardError verifies that err is the failure of one of the failing
// backends in `candidates`, with that backend's code, its shard key and the
// original message, and no other shard's key.
func checkShardError(err error, list []shardJ, candidates []failSpec) string {
	if err == nil {
		return "no error returned"
	}
	msg := status.Convert(err).Message()
	for _, fs := range candidates {
		if status.Code(err) != codeOf(fs.Code) {
			continue
		}
		if !strings.Contains(msg, fmt.Sprintf("injected failure #%d", fs.Backend)) {
			continue
		}
		if !strings.Contains(msg, list[fs.Backend].Key) {
			return fmt.Sprintf("error %q (code %s) is the failure of shard %q but does not carry that shard key", msg, status.Code(err), list[fs.Backend].Key)
		}
		for i, s := range list {
			if i != fs.Backend && strings.Contains(msg, s.Key) {
				return fmt.Sprintf("error %q names shard %q, but it is the failure of shard %q", msg, s.Key, list[fs.Backend].Key)
			}
		}
		return ""
	}
	return fmt.Sprintf("error %q (code %s) is not the failure (code and message) of any failing shard that was addressed (%v)", msg, status.Code(err), candidates)
}

// checkCraftedReadError: reading a crafted digest from the shard that holds
// bytes for it yields the integrity error of that shard's buffer (INTERNAL,
// "checksum"), which must carry the key of that shard and of no other.
func checkCraftedReadError(err error, list []shardJ, target int) string {
	if err == nil {
		return "no integrity error although the stored bytes do not match the crafted hash"
	}
	msg := status.Convert(err).Message()
	if status.Code(err) != codes.Internal || !strings.Contains(msg, "checksum") {
		return fmt.Sprintf("expected the INTERNAL checksum error of the shard's buffer, got %v", err)
	}
	if !strings.Contains(msg, list[target].Key) {
		return fmt.Sprintf("error %q of shard %q does not carry that shard key", msg, list[target].Key)
	}
	for i, s := range list {
		if i != target && strings.Contains(msg, s.Key) {
			return fmt.Sprintf("error %q names shard %q but comes from shard %q", msg, s.Key, list[target].Key)
		}
	}
	return ""
}

func runErrors(list []shardJ, filter *compCase, st *compStats, emit func(compViol)) {
	ctx := context.Background()
	names := []string{"", "a/b"}
	for fi, fails := range failSpecs(len(list)) {
		if filter != nil && !sameFails(filter.Fails, fails) {
			continue
		}
		failOf := map[int]failSpec{}
		for _, fs := range fails {
			failOf[fs.Backend] = fs
		}
		for _, in := range names {
			if filter != nil && filter.Instance != in {
				continue
			}
			// Single-digest operations.
			for di, d := range digestUniverse {
				for _, op := range singleOps {
					if filter != nil && (filter.Op != op || filter.Digest != di) {
						continue
					}
					c := compCase{Sub: "composite-errors", Shards: list, Instance: in, Op: op, Digest: di, Child: (di + 1) % len(digestUniverse), Fails: fails}
					f := newFixture(list, fails)
					target := f.route(d)
					if target < 0 {
						continue
					}
					dg := d.digest(in)
					child := digestUniverse[c.Child].digest(in)
					if op != "Put" {
						f.backends[target].Store(dg, d.Content)
					}
					var err error
					if p := recovered(func() { _, _, err = doSingle(f.ba, op, d, dg, child) }); p != nil {
						emit(compViol{"errors:panic:" + op, fmt.Sprintf("%s(%s) panicked: %v", op, dg, p), c})
						continue
					}
					st.evals++
					fs, failing := failOf[target]
					if failing {
						st.nontrivial++
					}
					st.outcome(fmt.Sprintf("%s:k=%d:failing=%v:%s", op, len(list), failing, sim.Code(err)))
					got := f.callsByBackend()
					want := expectSingleCall(len(list), target, op, dg, child)
					if !sameCalls(got, want) {
						emit(compViol{"errors:wrong-backend:" + op, fmt.Sprintf("%s of %s with failing shards %v: expected calls %v, observed %v", op, dg, fails, want, got), c})
						continue
					}
					if failing {
						if m := checkShardError(err, list, []failSpec{fs}); m != "" {
							emit(compViol{"errors:shard-error-not-attributed:" + op, fmt.Sprintf("%s of %s routed to failing shard %q: %s", op, dg, list[target].Key, m), c})
						}
					} else if !d.Real && (op == "Get" || op == "GetFromComposite") {
						if m := checkCraftedReadError(err, list, target); m != "" {
							emit(compViol{"errors:integrity-error-not-attributed:" + op, fmt.Sprintf("%s of %s (%s) served by healthy shard %q: %s", op, dg, d.Name, list[target].Key, m), c})
						}
					} else if err != nil {
						emit(compViol{"errors:healthy-shard-op-fails:" + op, fmt.Sprintf("%s of %s is served by healthy shard %q but failed: %v", op, dg, list[target].Key, err), c})
					}
					if len(st.sample) < 1 && failing && op == "Get" && len(list) == 2 {
						st.sample = append(st.sample, map[string]any{"sub": "composite-errors", "case": c, "error": fmt.Sprint(err)})
					}
				}
			}
			// Reads from streaming backends (reader-backed buffers, as block-device stores and gRPC backends hand
			// out): (a) a failure that only shows while the data is consumed - the stream of the target shard
			// fails with UNAVAILABLE after half of the bytes; (b) crafted digests, whose integrity error only
			// shows at the end of the stream. Every consumption method; the error must carry the shard key.
			for di, d := range digestUniverse {
				for _, op := range []string{"Get", "GetFromComposite"} {
					for _, how := range []string{"ToByteSlice", "IntoWriter", "ToReader", "ToChunkReader"} {
						lop := "late:" + op + ":" + how
						if filter != nil && (filter.Op != lop || filter.Digest != di) {
							continue
						}
						if fi != 0 {
							continue // once per shard list, not per injected-failure pattern (the case records the first)
						}
						c := compCase{Sub: "composite-errors", Shards: list, Instance: in, Op: lop, Digest: di, Child: (di + 1) % len(digestUniverse), Fails: fails}
						f := newFixture(list, nil)
						target := f.route(d)
						if target < 0 {
							continue
						}
						for _, b := range f.backends {
							b.Streaming = true
						}
						if d.Real {
							f.backends[target].LateError = status.Errorf(codes.Unavailable, "injected failure #%d: the stream broke midway", target)
						}
						dg := d.digest(in)
						child := digestUniverse[c.Child].digest(in)
						f.backends[target].Store(dg, d.Content)
						var err error
						if p := recovered(func() { err = consumeRead(f.ba, op, how, dg, child) }); p != nil {
							emit(compViol{"errors:panic:" + lop, fmt.Sprintf("%s(%s) panicked: %v", lop, dg, p), c})
							continue
						}
						st.evals++
						st.nontrivial++
						st.outcome(fmt.Sprintf("%s:k=%d:%s", lop, len(list), sim.Code(err)))
						if d.Real {
							if m := checkShardError(err, list, []failSpec{{Backend: target, Code: "Unavailable"}}); m != "" {
								emit(compViol{"errors:late-shard-error-not-attributed:" + op, fmt.Sprintf("%s of %s consumed with %s, stream of shard %q failing midway: %s", op, dg, how, list[target].Key, m), c})
							}
						} else if err == nil || status.Code(err) != codes.Internal {
							// The mismatch of a streamed object is found by the consumer-side validation at the end of
							// the stream, above the error handler that adds the shard key: it is not a shard's answer,
							// so the key is not demanded - only that the read does not complete.
							emit(compViol{"errors:streamed-mismatch-completes:" + op, fmt.Sprintf("%s of %s (%s) streamed by shard %q, consumed with %s: expected the INTERNAL integrity error, got %v", op, dg, d.Name, list[target].Key, how, err), c})
						}
					}
				}
			}
			// FindMissing over every subset (nothing stored: every digest is missing).
			if filter != nil && filter.Op != "FindMissingSubset" {
				continue
			}
			f := newFixture(list, fails)
			n := len(digestUniverse)
			dgs := make([]digest.Digest, n)
			route := make([]int, n)
			bad := false
			for i, d := range digestUniverse {
				dgs[i] = d.digest(in)
				route[i] = f.route(d)
				bad = bad || route[i] < 0
			}
			if bad {
				continue
			}
			for subset := 0; subset < 1<<n; subset++ {
				if filter != nil && filter.Subset != subset {
					continue
				}
				c := compCase{Sub: "composite-errors", Shards: list, Instance: in, Op: "FindMissingSubset", Subset: subset, Fails: fails}
				var asked []digest.Digest
				var wantMissing []string
				perShard := make([][]string, len(list))
				for i := range dgs {
					if subset&(1<<i) != 0 {
						asked = append(asked, dgs[i])
						wantMissing = append(wantMissing, dgs[i].String())
						perShard[route[i]] = append(perShard[route[i]], dgs[i].String())
					}
				}
				sort.Strings(wantMissing)
				var cands []failSpec
				for bi := range perShard {
					if fs, ok := failOf[bi]; ok && len(perShard[bi]) > 0 {
						cands = append(cands, fs)
					}
				}
				f.resetCalls()
				var res digest.Set
				var err error
				if p := recovered(func() { res, err = f.ba.FindMissing(ctx, sim.SetOf(asked...)) }); p != nil {
					emit(compViol{"errors:panic:FindMissing", fmt.Sprintf("FindMissing panicked: %v", p), c})
					continue
				}
				st.evals++
				if len(cands) > 0 {
					st.nontrivial++
				}
				st.outcome(fmt.Sprintf("FindMissingSubset:k=%d:failing-addressed=%d:%s", len(list), len(cands), sim.Code(err)))
				// No shard may be asked about foreign digests, even on failure.
				foreign := ""
				for bi, b := range f.backends {
					for _, call := range b.CallsCopy() {
						ds := append([]string(nil), call.Digests...)
						sort.Strings(ds)
						if call.Op != "FindMissing" || strings.Join(ds, ",") != strings.Join(sortedCopy(perShard[bi]), ",") {
							foreign = fmt.Sprintf("shard %q received %s", list[bi].Key, call.String())
						}
					}
				}
				if foreign != "" {
					emit(compViol{"errors:findmissing-wrong-partition", fmt.Sprintf("FindMissing(%v) with failing shards %v: %s, its own digests are %v", wantMissing, fails, foreign, perShard), c})
					continue
				}
				if len(cands) > 0 {
					if m := checkShardError(err, list, cands); m != "" {
						emit(compViol{"errors:shard-error-not-attributed:FindMissing", fmt.Sprintf("FindMissing(%v) addresses failing shards %v: %s", wantMissing, cands, m), c})
					} else if !res.Empty() {
						emit(compViol{"errors:findmissing-partial-result-with-error", fmt.Sprintf("FindMissing returned both an error and %v", sim.SetStrings(res)), c})
					}
				} else {
					if err != nil {
						emit(compViol{"errors:healthy-shard-op-fails:FindMissing", fmt.Sprintf("FindMissing(%v) touches no failing shard (%v) but failed: %v", wantMissing, fails, err), c})
					} else if got := sim.SetStrings(res); strings.Join(got, ",") != strings.Join(wantMissing, ",") {
						emit(compViol{"errors:findmissing-wrong-result", fmt.Sprintf("FindMissing(%v) returned %v", wantMissing, got), c})
					}
				}
			}
		}
	}
}

func sortedCopy(s []string) []string {
	o := append([]string(nil), s...)
	sort.Strings(o)
	return o
}

// ---- drivers --------------------------------------------------------------------------------

func runCompositeSub(r *ev.Run, name, space string, lists [][]shardJ, body func(list []shardJ, st *compStats, emit func(compViol))) {
	sub := r.NewSub(name, "venum", space)
	done := sub.Timer()
	stats := make([]compStats, len(lists))
	var mu sync.Mutex
	emit := func(v compViol) {
		mu.Lock()
		r.Violate(ev.Violation{Signature: v.sig, Sub: name, Message: v.msg, Case: v.c})
		mu.Unlock()
	}
	par.For(len(lists), func(i int) {
		body(lists[i], &stats[i], emit)
	})
	outc := map[string]struct{}{}
	samples := 0
	for i := range stats {
		sub.Evaluations += stats[i].evals
		sub.Nontrivial += stats[i].nontrivial
		for o := range stats[i].outcomes {
			outc[o] = struct{}{}
		}
		for _, s := range stats[i].sample {
			if samples < 2 {
				r.Sample(s)
				samples++
			}
		}
	}
	sub.Outcomes = int64(len(outc))
	sub.States, sub.Transitions = sub.Evaluations, sub.Evaluations
	sub.Exhaustive = true
	sub.Extra = map[string]any{"ordered_shard_lists": len(lists)}
	done()
}

func compositeLists(r *ev.Run) ([][]shardJ, string) {
	nKeys, maxK := ev.Pick(r, 4, 5), ev.Pick(r, 3, 4)
	return orderedLists(nKeys, maxK), fmt.Sprintf("every ordered shard list with 1..%d shards over keys %q x weights {1,7}", maxK, compKeys[:nKeys])
}

func replayComposite(r *ev.Run, c compCase) {
	var st compStats
	emit := func(v compViol) {
		fmt.Printf("replay: %s: %s\n", v.sig, v.msg)
		r.Violate(ev.Violation{Signature: v.sig, Sub: c.Sub, Message: v.msg, Case: v.c})
	}
	switch c.Sub {
	case "composite-routing":
		runRouting(c.Shards, &c, &st, emit)
	case "composite-findmissing":
		runFindMissing(c.Shards, fmUniverses(c.USize > 8), true, &c, &st, emit)
	case "composite-errors":
		runErrors(c.Shards, &c, &st, emit)
	default:
		ev.HarnessError("unknown sub %q in replay", c.Sub)
	}
	fmt.Printf("replay %s case=%+v evaluations=%d\n", c.Sub, c, st.evals)
}
