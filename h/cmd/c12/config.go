package main

import (
	"fmt"
	"regexp"
	"sync"

	"github.com/buildbarn/bb-storage/pkg/blobstore"
	bb_configuration "github.com/buildbarn/bb-storage/pkg/blobstore/configuration"
	"github.com/buildbarn/bb-storage/pkg/blobstore/sharding"
	pb "github.com/buildbarn/bb-storage/pkg/proto/configuration/blobstore"
	status_pb "google.golang.org/genproto/googleapis/rpc/status"
	"google.golang.org/grpc/codes"
	"google.golang.org/grpc/status"

	"verifh/ev"
	"verifh/par"
	"verifh/sim"
)

// The configuration path: a `sharding` BlobAccessConfiguration whose shards are
// `error` backends with a message that names the shard they were configured
// under. Every operation on the resulting BlobAccess fails with
// "Shard <key>: <message of the backend configured under some key>", which
// reveals (a) which shard the selector built from the configuration picked and
// (b) whether the backend listed at that position is the one configured under
// that key.

type cfgCase struct {
	Shards []shardJ `json:"shards"` // the configuration map (order irrelevant)
	Repeat int      `json:"repeat"`
}

var cfgMsg = regexp.MustCompile(`Shard (.*): configured-under<(.*)>$`)

func buildConfig(list []shardJ) *pb.BlobAccessConfiguration {
	shards := map[string]*pb.ShardingBlobAccessConfiguration_Shard{}
	for _, s := range list {
		shards[s.Key] = &pb.ShardingBlobAccessConfiguration_Shard{
			Weight: s.Weight,
			Backend: &pb.BlobAccessConfiguration{Backend: &pb.BlobAccessConfiguration_Error{
				Error: &status_pb.Status{Code: int32(codes.DataLoss), Message: "configured-under<" + s.Key + ">"},
			}},
		}
	}
	return &pb.BlobAccessConfiguration{Backend: &pb.BlobAccessConfiguration_Sharding{
		Sharding: &pb.ShardingBlobAccessConfiguration{Shards: shards},
	}}
}

func newFromConfig(list []shardJ) (ba blobstore.BlobAccess, err error, panicked any) {
	defer func() {
		if p := recover(); p != nil {
			panicked = p
		}
	}()
	info, err := bb_configuration.NewBlobAccessFromConfiguration(nil, buildConfig(list), bb_configuration.NewCASBlobAccessCreator(nil, 1<<20, nil))
	return info.BlobAccess, err, nil
}

type cfgViol struct {
	sig, msg string
}

// runConfigCase builds the BlobAccess from configuration and checks every
// digest x instance name x operation.
func runConfigCase(c cfgCase, st *compStats) []cfgViol {
	var out []cfgViol
	zero := false
	for _, s := range c.Shards {
		if s.Weight == 0 {
			zero = true
		}
	}
	ba, err, p := newFromConfig(c.Shards)
	st.evals++
	if p != nil {
		return []cfgViol{{"config:panic", fmt.Sprintf("NewBlobAccessFromConfiguration panicked for %v: %v", c.Shards, p)}}
	}
	if zero {
		st.outcome("zero-weight:" + sim.Code(err))
		if err == nil {
			out = append(out, cfgViol{"config:zero-weight-accepted", fmt.Sprintf("sharding configuration %v with a zero weight was accepted (with only zero weights every score is 0 and the selector returns list position 0, i.e. depends on map iteration order)", c.Shards)})
		}
		return out
	}
	if err != nil {
		return []cfgViol{{"config:valid-configuration-rejected", fmt.Sprintf("sharding configuration %v rejected: %v", c.Shards, err)}}
	}
	ref, err := sharding.NewRendezvousShardSelector(toShards(c.Shards))
	if err != nil {
		return nil // reported by the selector sub-check
	}
	for _, in := range instanceNames {
		for _, d := range digestUniverse {
			idx, pp := safeGet(ref, d.lead())
			if pp != nil || idx < 0 || idx >= len(c.Shards) {
				continue
			}
			wantKey := c.Shards[idx].Key
			dg := d.digest(in)
			child := digestUniverse[0].digest(in)
			for _, op := range singleOps {
				var opErr error
				if p := recovered(func() { _, _, opErr = doSingle(ba, op, d, dg, child) }); p != nil {
					out = append(out, cfgViol{"config:panic", fmt.Sprintf("%s(%s) on BlobAccess from configuration %v panicked: %v", op, dg, c.Shards, p)})
					continue
				}
				st.evals++
				if len(c.Shards) >= 2 {
					st.nontrivial++
				}
				msg := status.Convert(opErr).Message()
				m := cfgMsg.FindStringSubmatch(msg)
				if opErr == nil || status.Code(opErr) != codes.DataLoss || m == nil {
					out = append(out, cfgViol{"config:error-not-attributed:" + op, fmt.Sprintf("%s(%s) on configuration %v: expected the DATA_LOSS error of an error backend prefixed with the shard key, got %v", op, dg, c.Shards, opErr)})
					continue
				}
				st.outcome(fmt.Sprintf("%s:k=%d:%s", op, len(c.Shards), m[1]))
				if m[1] != m[2] {
					out = append(out, cfgViol{"config:key-backend-mismatch", fmt.Sprintf("%s(%s) on configuration %v: shard key %q is attached to the backend that was configured under key %q", op, dg, c.Shards, m[1], m[2])})
					continue
				}
				if m[2] != wantKey {
					out = append(out, cfgViol{"config:wrong-shard:" + op, fmt.Sprintf("%s(%s) on configuration %v was served by the backend of %q; a selector over the same (key, weight) pairs selects %q for %#x", op, dg, c.Shards, m[2], wantKey, d.lead())})
				}
			}
		}
	}
	return out
}

func cfgMaps(maxK int, withZero bool) [][]shardJ {
	var out [][]shardJ
	ws := []uint32{1, 2, 7, 0xFFFFFFFF}
	if withZero {
		ws = append([]uint32{0}, ws...)
	}
	n := len(compKeys)
	for mask := 1; mask < 1<<n; mask++ {
		var ks []int
		for i := 0; i < n; i++ {
			if mask&(1<<i) != 0 {
				ks = append(ks, i)
			}
		}
		if len(ks) > maxK {
			continue
		}
		nw := 1
		for range ks {
			nw *= len(ws)
		}
		for wa := 0; wa < nw; wa++ {
			l := make([]shardJ, len(ks))
			x := wa
			for j, ki := range ks {
				l[j] = shardJ{compKeys[ki], ws[x%len(ws)]}
				x /= len(ws)
			}
			out = append(out, l)
		}
	}
	return out
}

func runConfig(r *ev.Run) {
	maxK := ev.Pick(r, 3, 4)
	repeats := ev.Pick(r, 3, 6)
	maps := cfgMaps(maxK, true)
	sub := r.NewSub("configuration", "venum", fmt.Sprintf("every sharding configuration with 1..%d shards over keys %q x weights {0,1,2,7,2^32-1}, each built %d times through NewBlobAccessFromConfiguration (Go map iteration order varies between builds) x 8 digests x 3 instance names x {Put,Get,GetFromComposite,FindMissing}", maxK, compKeys, repeats))
	done := sub.Timer()
	stats := make([]compStats, len(maps))
	var mu sync.Mutex
	par.For(len(maps), func(i int) {
		for rep := 0; rep < repeats; rep++ {
			c := cfgCase{maps[i], rep}
			for _, v := range runConfigCase(c, &stats[i]) {
				mu.Lock()
				r.Violate(ev.Violation{Signature: v.sig, Sub: "configuration", Message: v.msg, Case: c})
				mu.Unlock()
			}
		}
	})
	outc := map[string]struct{}{}
	for i := range stats {
		sub.Evaluations += stats[i].evals
		sub.Nontrivial += stats[i].nontrivial
		for o := range stats[i].outcomes {
			outc[o] = struct{}{}
		}
	}
	sub.Outcomes = int64(len(outc))
	sub.States, sub.Transitions = sub.Evaluations, sub.Evaluations
	sub.Exhaustive = true
	sub.Extra = map[string]any{"configurations": len(maps), "builds_per_configuration": repeats}
	done()
	r.Sample(map[string]any{"sub": "configuration", "case": cfgCase{maps[len(maps)/2], 0}})
}

func replayConfig(r *ev.Run, c cfgCase) {
	var st compStats
	// The order in which the configuration code walks its map is not
	// controllable; build several times.
	for i := 0; i < 16; i++ {
		for _, v := range runConfigCase(c, &st) {
			fmt.Printf("replay: %s: %s\n", v.sig, v.msg)
			r.Violate(ev.Violation{Signature: v.sig, Sub: "configuration", Message: v.msg, Case: c})
		}
	}
	fmt.Printf("replay configuration case=%+v evaluations=%d\n", c, st.evals)
}
