//go:build verif

package main

// conc/*: two requests in flight through ONE shared authorizer tree / decorator. The authorizers are stateless
// by specification, so each request's verdict must equal what the same request gets alone, whatever the
// interleaving. Members' Authorize calls (and the backend) are the scheduling points; the deviation-bounded DFS
// of vsched enumerates every interleaving of the two requests at those points, and the leaves' answers for the
// names of both requests are free choices of the same search.

import (
	"context"
	"fmt"

	"github.com/buildbarn/bb-storage/pkg/auth"
	"github.com/buildbarn/bb-storage/pkg/blobstore"
	"github.com/buildbarn/bb-storage/pkg/digest"
	"github.com/buildbarn/bb-storage/pkg/verifshim/vsched"
	"github.com/buildbarn/bb-storage/pkg/verifshim/vsync"
	"google.golang.org/grpc/codes"
	"google.golang.org/grpc/status"

	"verifh/ev"
	"verifh/mc"
	"verifh/sim"
)

// concLeaf answers allow/deny per name; every call is a scheduling point.
type concLeaf struct {
	id  string
	ans map[string]bool // true = allow
}

func (l *concLeaf) Authorize(ctx context.Context, ins []digest.InstanceName) []error {
	vsched.Yield("member " + l.id)
	errs := make([]error, 0, len(ins))
	for _, in := range ins {
		if l.ans[in.String()] {
			errs = append(errs, nil)
		} else {
			errs = append(errs, status.Error(codes.PermissionDenied, "denied by "+l.id))
		}
	}
	vsched.Yield("member " + l.id + " returns")
	return errs
}

func (n *node) buildConc(leaves []*concLeaf) auth.Authorizer {
	if n.leaf >= 0 {
		return leaves[n.leaf]
	}
	var cs []auth.Authorizer
	for _, c := range n.children {
		cs = append(cs, c.buildConc(leaves))
	}
	return auth.NewAnyAuthorizer(cs)
}

var concShapes = map[string]*node{
	"any(L0,L1,L2)":      {leaf: -1, children: []*node{{leaf: 0}, {leaf: 1}, {leaf: 2}}},
	"any(any(L0,L1),L2)": {leaf: -1, children: []*node{{leaf: -1, children: []*node{{leaf: 0}, {leaf: 1}}}, {leaf: 2}}},
	"any(L0,any(L1,L2))": {leaf: -1, children: []*node{{leaf: 0}, {leaf: -1, children: []*node{{leaf: 1}, {leaf: 2}}}}},
}

// Request X asks about x1 and x2, request Y about y (names disjoint, so a verdict or a name that leaks from one
// request into the other is visible).
var concNames = [][]string{{"x1", "x2"}, {"y"}}

func chooseLeaves() []*concLeaf {
	leaves := make([]*concLeaf, 3)
	for i := range leaves {
		m := vsched.ChooseFree(fmt.Sprintf("answers of L%d", i), 8)
		leaves[i] = &concLeaf{id: fmt.Sprintf("L%d", i), ans: map[string]bool{"x1": m&1 != 0, "x2": m&2 != 0, "y": m&4 != 0}}
	}
	return leaves
}

func granted(leaves []*concLeaf, n string) bool {
	for _, l := range leaves {
		if l.ans[n] {
			return true
		}
	}
	return false
}

func anyConcBody(shape *node) func() {
	return func() {
		leaves := chooseLeaves()
		a := shape.buildConc(leaves)
		var wg vsync.WaitGroup
		for t, nl := range concNames {
			t, nl := t, nl
			wg.Add(1)
			vsched.GoNamed(fmt.Sprintf("request%d", t), false, func() {
				defer wg.Done()
				ins := make([]digest.InstanceName, len(nl))
				for i, n := range nl {
					ins[i] = sim.Instance(n)
				}
				errs := a.Authorize(context.Background(), ins)
				if len(errs) != len(ins) {
					vsched.Fail("conc:any:result-length", "Authorize returned %d results for %d names", len(errs), len(ins))
				}
				for i, n := range nl {
					vsched.Obs("r%d %s=%s", t, n, status.Code(errs[i]))
					switch {
					case errs[i] == nil && !granted(leaves, n):
						vsched.Fail("conc:any:granted-without-grant", "request %d (names %v), in flight together with another request through the same authorizer: name %q granted although no member grants it", t, nl, n)
					case errs[i] != nil && granted(leaves, n):
						vsched.Fail("conc:any:denied-despite-grant", "request %d (names %v), in flight together with another request through the same authorizer: name %q got %v although a member grants it and none fails", t, nl, n, errs[i])
					case errs[i] != nil && status.Code(errs[i]) != codes.PermissionDenied:
						vsched.Fail("conc:any:foreign-error", "request %d: name %q: %v although every member answers allow or deny", t, n, errs[i])
					}
				}
			})
		}
		wg.Wait()
	}
}

// decoratorConcBody: FindMissing over {x1,x2} and Get under y through one authorizing decorator whose three
// authorizers are the same shared any-tree.
func decoratorConcBody(shape *node) func() {
	return func() {
		leaves := chooseLeaves()
		a := shape.buildConc(leaves)
		backend := sim.NewModel("backend", digest.KeyWithInstance)
		content := []byte("x")
		dx1, dx2, dy := sim.SHA256Digest("x1", content), sim.SHA256Digest("x2", content), sim.SHA256Digest("y", content)
		for _, d := range []digest.Digest{dx1, dx2, dy} {
			backend.Store(d, content)
		}
		ba := blobstore.NewAuthorizingBlobAccess(backend, a, a, a)
		var wg vsync.WaitGroup
		wg.Add(2)
		var errX, errY error
		vsched.GoNamed("findmissing", false, func() {
			defer wg.Done()
			_, errX = ba.FindMissing(context.Background(), sim.SetOf(dx1, dx2))
		})
		vsched.GoNamed("get", false, func() {
			defer wg.Done()
			_, errY = ba.Get(context.Background(), dy).ToByteSlice(100)
		})
		wg.Wait()
		vsched.Obs("fm=%s get=%s", status.Code(errX), status.Code(errY))
		fmCalls, getCalls := 0, 0
		for _, c := range backend.CallsCopy() {
			switch c.Op {
			case "FindMissing":
				fmCalls++
			case "Get":
				getCalls++
			}
		}
		wantX := granted(leaves, "x1") && granted(leaves, "x2")
		wantY := granted(leaves, "y")
		check := func(what string, want bool, err error, calls int) {
			switch {
			case want && err != nil:
				vsched.Fail("conc:"+what+":allowed-but-error", "%s concurrent with another request: every involved name is granted by a member, but it returned %v", what, err)
			case want && calls != 1:
				vsched.Fail("conc:"+what+":allowed-backend-calls", "%s: allowed, but the backend received %d such calls", what, calls)
			case !want && calls != 0:
				vsched.Fail("conc:"+what+":denied-but-backend-contacted", "%s concurrent with another request through the same authorizer reached the backend although no member grants one of its names", what)
			case !want && status.Code(err) != codes.PermissionDenied:
				vsched.Fail("conc:"+what+":denied-but-"+status.Code(err).String(), "%s concurrent with another request: an involved name is granted by no member, result %v (want PERMISSION_DENIED)", what, err)
			}
		}
		check("FindMissing", wantX, errX, fmCalls)
		check("Get", wantY, errY, getCalls)
	}
}

func concScenarios(r *ev.Run) []mc.Scenario {
	bound := ev.Pick(r, 2, 3)
	var scs []mc.Scenario
	for _, name := range []string{"any(L0,L1,L2)", "any(any(L0,L1),L2)", "any(L0,any(L1,L2))"} {
		sh := concShapes[name]
		scs = append(scs, mc.Scenario{Name: "conc/any/" + name, Space: "Authorize([x1 x2]) || Authorize([y]) through one shared " + name + "; 8^3 allow/deny answer assignments of the three leaves (free choices) x every interleaving at the members' calls and returns within the deviation bound; each request must get the verdict it gets alone", Bound: bound, ShardDepth: 3, Body: anyConcBody(sh)})
		scs = append(scs, mc.Scenario{Name: "conc/decorator/" + name, Space: "FindMissing({x1,x2}) || Get(y) through one authorizing decorator whose authorizers are one shared " + name + "; 8^3 answer assignments x every interleaving within the deviation bound; backend contacted iff every involved name is granted", Bound: bound, ShardDepth: 3, Body: decoratorConcBody(sh)})
	}
	return scs
}

func concRun(r *ev.Run) { mc.Run(r, concScenarios(r)) }
