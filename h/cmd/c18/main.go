// C18 — authorization: no backend access for a denied instance name.
//
// Exhaustive small-scope enumeration (venum) over the real
// blobstore.NewAuthorizingBlobAccess and auth.NewAnyAuthorizer:
//   - every assignment allow/PERMISSION_DENIED/INTERNAL to the instance names
//     {"", "a", "a/b"} for the authorizer of the operation kind, with the two
//     other authorizers set to each constant answer (so using the wrong
//     authorizer is observable);
//   - every single-digest operation (Get, GetFromComposite, Put) for every
//     (hash, instance name) and every FindMissing digest subset over 2 hashes
//     x 3 names;
//   - every tree of `any` authorizers of depth <= 2 with <= 3 (quick) / 4
//     (thorough) scripted leaves, every leaf answer assignment, every ordered
//     list of distinct instance names.
package main

import (
	"context"
	"fmt"
	"sort"
	"strings"

	"github.com/buildbarn/bb-storage/pkg/auth"
	"github.com/buildbarn/bb-storage/pkg/blobstore"
	"github.com/buildbarn/bb-storage/pkg/blobstore/buffer"
	"github.com/buildbarn/bb-storage/pkg/blobstore/slicing"
	"github.com/buildbarn/bb-storage/pkg/digest"
	"google.golang.org/grpc/codes"
	"google.golang.org/grpc/status"

	"verifh/ev"
	"verifh/sim"
)

const (
	allow = iota
	deny
	fail
)

var names = []string{"", "a", "a/b"}

// scripted is an Authorizer answering per instance name.
type scripted struct {
	id    string
	ans   map[string]int
	calls [][]string
}

func (s *scripted) Authorize(ctx context.Context, ins []digest.InstanceName) []error {
	var asked []string
	errs := make([]error, 0, len(ins))
	for _, in := range ins {
		asked = append(asked, in.String())
		switch s.ans[in.String()] {
		case allow:
			errs = append(errs, nil)
		case deny:
			errs = append(errs, status.Error(codes.PermissionDenied, "denied by "+s.id))
		default:
			errs = append(errs, status.Error(codes.Internal, "failure of "+s.id+" for "+in.String()))
		}
	}
	s.calls = append(s.calls, asked)
	return errs
}

func assignment(n int) map[string]int {
	m := map[string]int{}
	for _, nm := range names {
		m[nm] = n % 3
		n /= 3
	}
	return m
}

func constant(v int) map[string]int {
	m := map[string]int{}
	for _, nm := range names {
		m[nm] = v
	}
	return m
}

type opCase struct {
	Op       string   `json:"op"`
	Assign   int      `json:"assign"`
	Others   int      `json:"others"`
	Digests  []string `json:"digests"` // "hashIdx@instance"
	contents [][]byte
}

type sliceAll struct{}

func (sliceAll) Slice(b buffer.Buffer, child digest.Digest) (buffer.Buffer, []slicing.BlobSlice) {
	return b, nil
}

var contents = [][]byte{[]byte("x"), []byte("yy")}

func mkDigest(spec string) (digest.Digest, []byte) {
	p := strings.SplitN(spec, "@", 2)
	c := contents[int(p[0][0]-'0')]
	return sim.SHA256Digest(p[1], c), c
}

// runOp executes one case and returns ("" if fine, else message), signature, outcome.
func runOp(c opCase) (msg, sig, outcome string) {
	kinds := map[string]int{"Get": 0, "GetFromComposite": 0, "Put": 1, "FindMissing": 2}
	as := []*scripted{{id: "get"}, {id: "put"}, {id: "findmissing"}}
	for i := range as {
		if i == kinds[c.Op] {
			as[i].ans = assignment(c.Assign)
		} else {
			as[i].ans = constant(c.Others)
		}
	}
	rel := as[kinds[c.Op]]
	backend := sim.NewModel("backend", digest.KeyWithInstance)
	var ds []digest.Digest
	for _, s := range c.Digests {
		d, content := mkDigest(s)
		ds = append(ds, d)
		backend.Store(d, content)
	}
	ba := blobstore.NewAuthorizingBlobAccess(backend, as[0], as[1], as[2])
	ctx := context.Background()

	// Expected verdict.
	involved := map[string]bool{}
	for _, d := range ds {
		involved[d.GetInstanceName().String()] = true
	}
	childOnlyDenied := false
	if c.Op == "GetFromComposite" && len(ds) > 1 {
		// Parent and child under different instance names: the parent is what the backend reads, so its name
		// must be allowed; whether the child's name is consulted as well is left open (the weakest reading:
		// a denied child name under an allowed parent name is don't-care, see DESIGN 5.14).
		pn, cn := ds[0].GetInstanceName().String(), ds[1].GetInstanceName().String()
		if rel.ans[pn] == allow && rel.ans[cn] != allow {
			childOnlyDenied = true
		}
	}
	allAllowed := true
	okCodes := map[codes.Code]bool{}
	for nm := range involved {
		switch rel.ans[nm] {
		case deny:
			allAllowed = false
			okCodes[codes.PermissionDenied] = true
		case fail:
			allAllowed = false
			okCodes[codes.Internal] = true
		}
	}

	var err error
	src := sim.NewSource(sim.Script{Chunks: [][]byte{nil}})
	switch c.Op {
	case "Get":
		_, err = ba.Get(ctx, ds[0]).ToByteSlice(100)
	case "GetFromComposite":
		child := ds[0]
		if len(ds) > 1 {
			child = ds[1]
		}
		_, err = ba.GetFromComposite(ctx, ds[0], child, sliceAll{}).ToByteSlice(100)
	case "Put":
		_, content := mkDigest(c.Digests[0])
		src = sim.NewSource(sim.Script{Chunks: [][]byte{content}})
		err = ba.Put(ctx, ds[0], buffer.NewCASBufferFromReader(ds[0], sim.ReaderView{S: src}, buffer.UserProvided))
	case "FindMissing":
		_, err = ba.FindMissing(ctx, sim.SetOf(ds...))
	}
	calls := backend.CallCount()
	outcome = fmt.Sprintf("%s:%s:backendcalls=%d", c.Op, sim.Code(err), calls)
	if childOnlyDenied {
		return "", "", outcome + ":child-name-only-denied"
	}
	if allAllowed {
		if err != nil {
			return fmt.Sprintf("all involved instance names allowed, but %s returned %v", c.Op, err), c.Op + ":allowed-but-error", outcome
		}
		if calls != 1 {
			return fmt.Sprintf("all allowed, but backend received %d calls (want 1)", calls), c.Op + ":allowed-backend-calls", outcome
		}
	} else {
		if calls != 0 {
			return fmt.Sprintf("%s reached the backend (%v) although authorizer answers were %v for %v", c.Op, backend.CallsCopy(), rel.ans, c.Digests), c.Op + ":denied-but-backend-contacted", outcome
		}
		if err == nil {
			return fmt.Sprintf("%s succeeded although an involved instance name was not allowed", c.Op), c.Op + ":denied-but-ok", outcome
		}
		if !okCodes[status.Code(err)] {
			return fmt.Sprintf("%s returned code %s; the authorizer's errors had codes %v", c.Op, status.Code(err), okCodes), c.Op + ":wrong-error-code", outcome
		}
	}
	if c.Op == "Put" && src.Closes != 1 {
		return fmt.Sprintf("Put (allowed=%v, err=%v): upload buffer's source closed %d times, want exactly 1", allAllowed, err, src.Closes), fmt.Sprintf("Put:buffer-closes=%d:allowed=%v", src.Closes, allAllowed), outcome
	}
	return "", "", outcome
}

// ---- any ------------------------------------------------------------------

// tree shapes: a node is either a leaf (index) or a list of children.
type node struct {
	leaf     int
	children []*node
}

func shapes(maxLeaves int) []*node {
	// depth<=2: root any over items; each item is a leaf or an any of 0..3 leaves.
	var out []*node
	var rec func(items [][]int, used int)
	var build func(items [][]int) *node
	build = func(items [][]int) *node {
		root := &node{leaf: -1}
		for _, it := range items {
			if len(it) == 1 && it[0] >= 0 {
				root.children = append(root.children, &node{leaf: it[0]})
			} else {
				sub := &node{leaf: -1}
				for _, l := range it {
					if l >= 0 {
						sub.children = append(sub.children, &node{leaf: l})
					}
				}
				root.children = append(root.children, sub)
			}
		}
		return root
	}
	rec = func(items [][]int, used int) {
		if len(items) > 0 || used == 0 {
			out = append(out, build(items))
		}
		if len(items) >= 3 {
			return
		}
		// plain leaf
		if used < maxLeaves {
			rec(append(append([][]int(nil), items...), []int{used}), used+1)
		}
		// nested any with k leaves (k=0 encoded as [-1])
		for k := 0; k <= 3 && used+k <= maxLeaves; k++ {
			if k == 0 {
				rec(append(append([][]int(nil), items...), []int{-1}), used)
				continue
			}
			var sub []int
			for j := 0; j < k; j++ {
				sub = append(sub, used+j)
			}
			// distinguish nested single from plain leaf by appending -1 marker
			rec(append(append([][]int(nil), items...), append(sub, -1)), used+k)
		}
	}
	rec(nil, 0)
	return out
}

func (n *node) describe() string {
	if n.leaf >= 0 {
		return fmt.Sprintf("L%d", n.leaf)
	}
	var p []string
	for _, c := range n.children {
		p = append(p, c.describe())
	}
	return "any(" + strings.Join(p, ",") + ")"
}

func (n *node) leaves() int {
	if n.leaf >= 0 {
		return 1
	}
	t := 0
	for _, c := range n.children {
		t += c.leaves()
	}
	return t
}

func (n *node) build(leaves []*scripted) auth.Authorizer {
	if n.leaf >= 0 {
		return leaves[n.leaf]
	}
	var cs []auth.Authorizer
	for _, c := range n.children {
		cs = append(cs, c.build(leaves))
	}
	return auth.NewAnyAuthorizer(cs)
}

func nameLists() [][]string {
	var out [][]string
	var rec func(cur []string)
	rec = func(cur []string) {
		if len(cur) > 0 {
			out = append(out, append([]string(nil), cur...))
		}
		for _, n := range names {
			dup := false
			for _, c := range cur {
				if c == n {
					dup = true
				}
			}
			if !dup {
				rec(append(cur, n))
			}
		}
	}
	rec(nil)
	return out
}

type anyCase struct {
	Shape   string   `json:"shape"`
	ShapeIx int      `json:"shape_index"`
	Assigns []int    `json:"leaf_assignments"`
	Names   []string `json:"names"`
	// Static: the leaves are the repository's own static authorizers (auth.NewStaticAuthorizer with a matcher
	// for the names the assignment allows) instead of scripted ones; only for assignments without failures.
	Static bool `json:"static_leaves,omitempty"`
}

func staticFor(ans map[string]int) auth.Authorizer {
	return auth.NewStaticAuthorizer(func(in digest.InstanceName) bool { return ans[in.String()] == allow })
}

func (n *node) buildStatic(leaves []*scripted) auth.Authorizer {
	if n.leaf >= 0 {
		return staticFor(leaves[n.leaf].ans)
	}
	var cs []auth.Authorizer
	for _, c := range n.children {
		cs = append(cs, c.buildStatic(leaves))
	}
	return auth.NewAnyAuthorizer(cs)
}

func noFailures(assigns []int) bool {
	for _, a := range assigns {
		for _, v := range assignment(a) {
			if v == fail {
				return false
			}
		}
	}
	return true
}

func runAny(sh *node, c anyCase) (msg, sig, outcome string) {
	nl := sh.leaves()
	leaves := make([]*scripted, nl)
	for i := range leaves {
		leaves[i] = &scripted{id: fmt.Sprintf("L%d", i), ans: assignment(c.Assigns[i])}
	}
	a := sh.build(leaves)
	if c.Static {
		a = sh.buildStatic(leaves)
	}
	ins := make([]digest.InstanceName, len(c.Names))
	for i, n := range c.Names {
		ins[i] = sim.Instance(n)
	}
	errs := a.Authorize(context.Background(), ins)
	if len(errs) != len(ins) {
		return fmt.Sprintf("Authorize returned %d results for %d names", len(errs), len(ins)), "any:result-length", "len"
	}
	var oc []string
	for i, n := range c.Names {
		anyAllow, anyFail := false, false
		failMsgs := map[string]bool{}
		for li, l := range leaves {
			switch l.ans[n] {
			case allow:
				anyAllow = true
			case fail:
				anyFail = true
				failMsgs[fmt.Sprintf("failure of L%d for %s", li, n)] = true
			}
		}
		err := errs[i]
		code := status.Code(err)
		oc = append(oc, code.String())
		switch {
		case err == nil:
			if !anyAllow {
				return fmt.Sprintf("name %q granted although no member grants it (answers %v)", n, c.Assigns), "any:granted-without-grant", ""
			}
			// "reports a member's failure other than denial instead of granting": which members are consulted,
			// and in which order, is the implementation's business, but a member that WAS asked about this name
			// and failed must not be overruled by another member's grant.
			for li, l := range leaves {
				if l.ans[n] != fail {
					continue
				}
				for _, asked := range l.calls {
					for _, a := range asked {
						if a == n {
							return fmt.Sprintf("name %q granted although member L%d was consulted for it and failed (answers %v)", n, li, c.Assigns), "any:granted-despite-failure-of-consulted-member", ""
						}
					}
				}
			}
		case code == codes.PermissionDenied:
			if anyAllow && !anyFail {
				return fmt.Sprintf("name %q denied although a member grants it and none fails", n), "any:denied-despite-grant", ""
			}
			if anyAllow && anyFail {
				return fmt.Sprintf("name %q denied although a member grants it (a failing member may be reported, a denial may not)", n), "any:denied-despite-grant-with-failure", ""
			}
		default:
			if !failMsgs[status.Convert(err).Message()] {
				return fmt.Sprintf("name %q: error %v is not the failure of any member for that name", n, err), "any:foreign-error", ""
			}
		}
		if nl == 0 && code != codes.PermissionDenied {
			return "empty any must deny", "any:empty-not-deny", ""
		}
	}
	return "", "", strings.Join(oc, ",")
}

func main() {
	r := ev.Start("C18")
	r.Rule("venum: every (authorizer answer assignment x operation x digest set) and every (any-tree x leaf assignment x name list); non-trivial = the relevant authorizer gives different answers to different names, or an any-tree has members that disagree on a name")
	r.Assume("GetFromComposite is exercised with parent and child under the same instance name (the only way callers build child digests)")
	r.Assume("order in which `any` consults members is not part of the property (DESIGN section 5.5)")

	if r.Shard != "" { // worker process of a conc/* exploration
		concRun(r)
		return
	}
	if r.Replay != "" {
		rf := ev.LoadReplay(r.Replay)
		if strings.HasPrefix(rf.Sub, "conc/") {
			concRun(r)
		} else {
			replay(r, rf)
		}
		r.Finish()
	}

	// ---- decorator ----
	if r.Want("decorator") {
		sub := r.NewSub("decorator", "venum", "27 assignments x 3 constant other-authorizers x {Get,GetFromComposite,Put: 6 digests; GetFromComposite with the child under another instance name than the parent: 24 pairs; FindMissing: 63 subsets}")
		done := sub.Timer()
		var outcomes ev.Set
		var all []string
		for h := 0; h < 2; h++ {
			for _, n := range names {
				all = append(all, fmt.Sprintf("%d@%s", h, n))
			}
		}
		for assign := 0; assign < 27; assign++ {
			mixed := false
			am := assignment(assign)
			if am[""] != am["a"] || am["a"] != am["a/b"] {
				mixed = true
			}
			for others := 0; others < 3; others++ {
				var cases []opCase
				for _, op := range []string{"Get", "GetFromComposite", "Put"} {
					for _, d := range all {
						cases = append(cases, opCase{Op: op, Assign: assign, Others: others, Digests: []string{d}})
					}
				}
				// composite reads whose child digest carries another instance name than the parent
				for _, pd := range all {
					for _, cd := range all {
						if strings.SplitN(pd, "@", 2)[1] != strings.SplitN(cd, "@", 2)[1] {
							cases = append(cases, opCase{Op: "GetFromComposite", Assign: assign, Others: others, Digests: []string{pd, cd}})
						}
					}
				}
				for mask := 1; mask < 1<<len(all); mask++ {
					var ds []string
					for i, d := range all {
						if mask&(1<<i) != 0 {
							ds = append(ds, d)
						}
					}
					cases = append(cases, opCase{Op: "FindMissing", Assign: assign, Others: others, Digests: ds})
				}
				for _, c := range cases {
					msg, sig, oc := runOp(c)
					sub.Evaluations++
					if mixed {
						sub.Nontrivial++
					}
					outcomes.Add(oc)
					if msg != "" {
						r.Violate(ev.Violation{Signature: sig, Sub: "decorator", Message: msg, Case: c})
					}
					if sub.Evaluations%20011 == 1 {
						r.Sample(map[string]any{"sub": "decorator", "case": c, "outcome": oc})
					}
				}
			}
		}
		sub.Outcomes = outcomes.Len()
		sub.States, sub.Transitions = sub.Evaluations, sub.Evaluations
		sub.Exhaustive = true
		done()
	}

	// ---- any ----
	if r.Want("any") {
		maxLeaves := ev.Pick(r, 3, 4)
		sub := r.NewSub("any", "venum", fmt.Sprintf("all any-trees of depth<=2 with <=%d scripted leaves x 27^leaves answer assignments x 15 ordered name lists; assignments without failures additionally with the repository's static authorizers as leaves", maxLeaves))
		done := sub.Timer()
		var outcomes ev.Set
		lists := nameLists()
		shs := shapes(maxLeaves)
		seenShape := map[string]bool{}
		for si, sh := range shs {
			d := sh.describe()
			if seenShape[d] {
				continue
			}
			seenShape[d] = true
			nl := sh.leaves()
			total := 1
			for i := 0; i < nl; i++ {
				total *= 27
			}
			for a := 0; a < total; a++ {
				assigns := make([]int, nl)
				x := a
				for i := range assigns {
					assigns[i] = x % 27
					x /= 27
				}
				disagree := false
				for _, n := range names {
					for i := 1; i < nl; i++ {
						if assignment(assigns[i])[n] != assignment(assigns[0])[n] {
							disagree = true
						}
					}
				}
				for _, l := range lists {
					c := anyCase{Shape: d, ShapeIx: si, Assigns: assigns, Names: l}
					msg, sig, oc := runAny(sh, c)
					sub.Evaluations++
					if disagree {
						sub.Nontrivial++
					}
					outcomes.Add(oc)
					if msg != "" {
						r.Violate(ev.Violation{Signature: sig, Sub: "any", Message: msg, Case: c})
					}
					if nl > 0 && noFailures(assigns) {
						cs := c
						cs.Static = true
						msg, sig, oc := runAny(sh, cs)
						sub.Evaluations++
						if disagree {
							sub.Nontrivial++
						}
						outcomes.Add("static:" + oc)
						if msg != "" {
							r.Violate(ev.Violation{Signature: "static-leaves:" + sig, Sub: "any", Message: "(leaves are static authorizers) " + msg, Case: cs})
						}
					}
					if sub.Evaluations%400009 == 7 {
						r.Sample(map[string]any{"sub": "any", "case": c, "outcome": oc})
					}
				}
			}
		}
		sub.Extra = map[string]any{"shapes": len(seenShape)}
		sub.Outcomes = outcomes.Len()
		sub.States, sub.Transitions = sub.Evaluations, sub.Evaluations
		sub.Exhaustive = true
		done()
		var sl []string
		for s := range seenShape {
			sl = append(sl, s)
		}
		sort.Strings(sl)
		r.Note("any shapes: " + strings.Join(sl, " "))
	}
	concRun(r)
	r.Finish()
}

func replay(r *ev.Run, rf ev.ReplayFile) {
	switch rf.Sub {
	case "decorator":
		var c opCase
		ev.MustJSON(rf.Case, &c)
		msg, sig, oc := runOp(c)
		fmt.Printf("replay decorator case=%+v outcome=%s message=%q\n", c, oc, msg)
		if msg != "" {
			r.Violate(ev.Violation{Signature: sig, Sub: "decorator", Message: msg, Case: c})
		}
	case "any":
		var c anyCase
		ev.MustJSON(rf.Case, &c)
		shs := shapes(4)
		for _, sh := range shs {
			if sh.describe() == c.Shape {
				msg, sig, oc := runAny(sh, c)
				fmt.Printf("replay any case=%+v outcome=%s message=%q\n", c, oc, msg)
				if msg != "" {
					r.Violate(ev.Violation{Signature: sig, Sub: "any", Message: msg, Case: c})
				}
				return
			}
		}
		ev.HarnessError("shape %s not found", c.Shape)
	}
}
