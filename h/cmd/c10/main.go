//go:build verif

// C10 — hierarchical CAS: objects are visible exactly under the uploader's instance subtree.
//
//   seq/*   every operation sequence of the stated depth over uploads (valid / invalid content) of
//           one or two digests under the instance names {"", a, a/b, a/b/c, ab, b}, reads and
//           existence checks under each name, and block-sized filler uploads (rotation/refresh).
//           After EVERY transition and for EVERY name J the visible set is recomputed with a
//           non-touching probe (the real index lookups a Get under J would make) and must be a
//           subset of the component-prefix closure of the successful uploads; while nothing has
//           been evicted the converse (completeness) is demanded too.
//   conc/*  concurrent uploads of one digest under unrelated names (one of them invalid) and a
//           reader under a third name; all schedules within the bound.
package main

import (
	"bytes"
	"fmt"
	"strings"
	"time"

	"github.com/buildbarn/bb-storage/pkg/blobstore/local"
	"github.com/buildbarn/bb-storage/pkg/digest"
	"github.com/buildbarn/bb-storage/pkg/verifshim/vsched"
	"github.com/buildbarn/bb-storage/pkg/verifshim/vsync"
	"google.golang.org/grpc/codes"
	"google.golang.org/grpc/status"

	"verifh/ev"
	"verifh/lstore"
	"verifh/mc"
	"verifh/sim"
)

var names = []string{"", "a", "a/b", "a/b/c", "ab", "b"}

func failf(sig, format string, a ...any) { vsched.Fail(sig, format, a...) }

// componentPrefix reports whether p is a component-wise prefix of j.
func componentPrefix(p, j string) bool {
	if p == "" {
		return true
	}
	return j == p || strings.HasPrefix(j, p+"/")
}

type world struct {
	s        *lstore.Store
	contents [][]byte
	up       []map[string]bool // per digest: names with a successful valid upload
}

func (w *world) dig(i int, name string) digest.Digest { return sim.SHA256Digest(name, w.contents[i]) }

// visible is the non-touching probe: would a lookup under name j find digest i right now?
func (w *world) visible(i int, j string) bool {
	s := w.s
	s.Lock.RLock()
	defer s.Lock.RUnlock()
	for _, pd := range w.dig(i, j).GetDigestsWithParentInstanceNames() {
		if _, err := s.KLM.Get(local.NewKeyFromString(pd.GetKey(digest.KeyWithInstance))); err == nil {
			return true
		}
	}
	return false
}

func (w *world) allowed(i int, j string) bool {
	for p := range w.up[i] {
		if componentPrefix(p, j) {
			return true
		}
	}
	return false
}

func (w *world) evicted() bool { return w.s.Alloc.LiveInList() != w.s.Alloc.NewBlocks }

func (w *world) invariant(where string) {
	for i := range w.contents {
		for _, j := range names {
			v := w.visible(i, j)
			a := w.allowed(i, j)
			if v && !a {
				failf("visible-outside-uploader-subtree", "%s: object %d is visible under instance name %q although successful uploads were only made under %v", where, i, j, keys(w.up[i]))
			}
			if a && !v && !w.evicted() && w.s.IndexDiscards() == 0 {
				failf("not-visible-under-descendant", "%s: object %d was uploaded under %v but is not visible under %q (nothing has been evicted)", where, i, keys(w.up[i]), j)
			}
			if v {
				vsched.Mark()
			}
		}
	}
}

func keys(m map[string]bool) []string {
	var out []string
	for _, n := range names {
		if m[n] {
			out = append(out, fmt.Sprintf("%q", n))
		}
	}
	return out
}

func newWorld(g lstore.Geometry, digests int) *world {
	w := &world{s: lstore.Open(g, lstore.NewMedia(g))}
	w.contents = [][]byte{[]byte("xyz"), []byte("pqrst")}[:digests]
	for range w.contents {
		w.up = append(w.up, map[string]bool{})
	}
	return w
}

func (w *world) put(i int, name string, valid bool, gate bool) error {
	return w.putClone(i, name, valid, gate, 0)
}

// putClone: the store receives one half of a stream clone of the upload (sibling: 1 released, 2 consumed elsewhere).
func (w *world) putClone(i int, name string, valid bool, gate bool, sibling int) error {
	content := w.contents[i]
	data := content
	if !valid {
		data = bytes.Repeat([]byte("!"), len(content))
	}
	err, src := w.s.Put(w.dig(i, name), lstore.PutSpec{Chunks: [][]byte{data}, Gate: gate, CloneSibling: sibling})
	if src.Closes != 1 {
		failf(fmt.Sprintf("upload-source-closes=%d", src.Closes), "upload source closed %d times", src.Closes)
	}
	if err == nil {
		if !valid {
			failf("invalid-upload-acknowledged", "upload of wrong content for object %d under %q was acknowledged", i, name)
		}
		w.up[i][name] = true
	}
	return err
}

func (w *world) get(i int, j string) {
	d, err := w.s.Get(w.dig(i, j))
	vsched.Obs("G%d@%s=%s", i, j, status.Code(err))
	if err == nil {
		if !w.allowed(i, j) {
			failf("read-outside-uploader-subtree", "Get of object %d under %q returned data although successful uploads were only made under %v", i, j, keys(w.up[i]))
		}
		if !bytes.Equal(d, w.contents[i]) {
			failf("wrong-bytes", "Get returned %q", d)
		}
		return
	}
	if status.Code(err) != codes.NotFound {
		failf("get-error-"+status.Code(err).String(), "Get(%d@%q) failed: %v", i, j, err)
	}
	if w.allowed(i, j) && !w.evicted() && w.s.IndexDiscards() == 0 {
		failf("not-readable-under-descendant", "Get of object %d under %q is NOT_FOUND although it was uploaded under %v and nothing has been evicted", i, j, keys(w.up[i]))
	}
}

func seqBody(g lstore.Geometry, depth, digests int) func() {
	return func() {
		w := newWorld(g, digests)
		type op func()
		var ops []op
		for i := 0; i < digests; i++ {
			i := i
			for _, n := range names {
				n := n
				ops = append(ops, func() { err := w.put(i, n, true, false); vsched.Obs("P%d@%s=%s", i, n, status.Code(err)) })
				ops = append(ops, func() { w.get(i, n) })
			}
			for _, n := range []string{"", "a/b", "ab"} {
				n := n
				ops = append(ops, func() { err := w.put(i, n, false, false); vsched.Obs("X%d@%s=%s", i, n, status.Code(err)) })
			}
		}
		ops = append(ops, func() {
			var ds []digest.Digest
			for i := 0; i < digests; i++ {
				for _, n := range names {
					ds = append(ds, w.dig(i, n))
				}
			}
			miss, err := w.s.FindMissing(ds...)
			if err != nil {
				failf("findmissing-error-"+status.Code(err).String(), "FindMissing failed: %v", err)
			}
			for i := 0; i < digests; i++ {
				for _, n := range names {
					if !miss[w.dig(i, n).String()] && !w.allowed(i, n) {
						failf("reported-present-outside-uploader-subtree", "FindMissing reports object %d present under %q although successful uploads were only made under %v", i, n, keys(w.up[i]))
					}
					if miss[w.dig(i, n).String()] && w.allowed(i, n) && !w.evicted() && w.s.IndexDiscards() == 0 {
						failf("reported-missing-under-descendant", "FindMissing reports object %d missing under %q although it was uploaded under %v", i, n, keys(w.up[i]))
					}
				}
			}
			vsched.Obs("FM")
		})
		fill := 0
		ops = append(ops, func() {
			fill++
			o := lstore.CASObj("F", "zz", []byte(fmt.Sprintf("filler-%08d!", fill))[:g.BlockSize()])
			err := w.s.PutOK(o.Digest, o.Content)
			vsched.Obs("F=%s", status.Code(err))
		})
		for step := 0; step < depth; step++ {
			k := vsched.ChooseFree("choice", len(ops))
			ops[k]()
			w.invariant(fmt.Sprintf("after operation %d", step))
		}
	}
}

func concBody(g lstore.Geometry, variant int) func() {
	return func() {
		w := newWorld(g, 1)
		var wg vsync.WaitGroup
		run := func(name string, f func()) {
			wg.Add(1)
			vsched.GoNamed(name, false, func() { defer wg.Done(); f() })
		}
		switch variant {
		case 0:
			// valid upload under "a", invalid upload under "b", reader under "b"
			run("put-a", func() { err := w.put(0, "a", true, true); vsched.Obs("Pa=%s", status.Code(err)) })
			run("bad-b", func() { err := w.put(0, "b", false, true); vsched.Obs("Xb=%s", status.Code(err)) })
			run("get-b", func() {
				d, err := w.s.Get(w.dig(0, "b"))
				vsched.Obs("Gb=%s", status.Code(err))
				if err == nil {
					failf("read-outside-uploader-subtree", "Get under %q returned %q although the only valid upload was under %q", "b", d, "a")
				}
			})
		case 1:
			// valid uploads under "a/b" and "ab"; readers under "a" and "a/b/c"
			run("put-a/b", func() { err := w.put(0, "a/b", true, true); vsched.Obs("Pab=%s", status.Code(err)) })
			run("put-ab", func() { err := w.put(0, "ab", true, true); vsched.Obs("Pab2=%s", status.Code(err)) })
			run("get-a", func() {
				d, err := w.s.Get(w.dig(0, "a"))
				vsched.Obs("Ga=%s", status.Code(err))
				if err == nil {
					failf("read-outside-uploader-subtree", "Get under %q returned %q although uploads were only under a/b and ab", "a", d)
				}
			})
		case 2:
			// object exists under "a" in an old block; FindMissing under a/b refreshes while "b" uploads invalid content
			if err := w.put(0, "a", true, false); err != nil {
				vsched.HarnessFail("prefill: %v", err)
			}
			for i := 0; i < 2; i++ {
				o := lstore.CASObj("F", "zz", []byte(fmt.Sprintf("filler-%08d!", i))[:g.BlockSize()])
				if err := w.s.PutOK(o.Digest, o.Content); err != nil {
					vsched.HarnessFail("prefill filler: %v", err)
				}
			}
			run("fm-a/b", func() {
				_, err := w.s.FindMissing(w.dig(0, "a/b"), w.dig(0, "b"))
				vsched.Obs("FM=%s", status.Code(err))
			})
			run("bad-b", func() { err := w.put(0, "b", false, true); vsched.Obs("Xb=%s", status.Code(err)) })
			run("get-b", func() {
				d, err := w.s.Get(w.dig(0, "b"))
				vsched.Obs("Gb=%s", status.Code(err))
				if err == nil {
					failf("read-outside-uploader-subtree", "Get under b returned %q", d)
				}
			})
		case 3, 4:
			// the object exists under "a"; an upload of wrong content under "b" arrives as one half of a stream
			// clone whose other half is released (3) / consumed (4) by another thread (a mirroring front end)
			if err := w.put(0, "a", true, false); err != nil {
				vsched.HarnessFail("prefill: %v", err)
			}
			run("bad-b-cloned", func() { err := w.putClone(0, "b", false, true, variant-2); vsched.Obs("Xb=%s", status.Code(err)) })
			run("get-b", func() {
				d, err := w.s.Get(w.dig(0, "b"))
				vsched.Obs("Gb=%s", status.Code(err))
				if err == nil {
					failf("read-outside-uploader-subtree", "Get under b returned %q", d)
				}
			})
		}
		wg.Wait()
		w.invariantSound("at the end")
	}
}

func (w *world) invariantSound(where string) {
	for i := range w.contents {
		for _, j := range names {
			if w.visible(i, j) && !w.allowed(i, j) {
				failf("visible-outside-uploader-subtree", "%s: object %d is visible under %q although successful uploads were only made under %v", where, i, j, keys(w.up[i]))
			}
		}
	}
}

func main() {
	r := ev.Start("C10")
	r.Rule("vsched/vstate: every operation sequence of the stated depth (one execution each, prefix replayed on a fresh store) with the visibility invariant evaluated for every (object, instance name) after every transition; non-trivial = executions in which at least one object was visible under at least one name")
	r.Assume("completeness is demanded only while no block has been released and the index reports no discards")
	base := lstore.Geometry{SectorSize: 4, SectorsPerBlock: 4, Old: 1, Current: 1, New: 2, Spare: 1, Hierarchical: true, IndexSlots: 127, GetAttempts: 16, PutAttempts: 64}
	var scs []mc.Scenario
	d1 := ev.Pick(r, 4, 5)
	scs = append(scs, mc.Scenario{Name: "seq/one-digest", Space: fmt.Sprintf("all sequences of %d operations over 17 operations (6 valid uploads, 3 invalid uploads, 6 reads, FindMissing over all names, filler) on %s", d1, base), Bound: 0, ShardDepth: 2, Body: seqBody(base, d1, 1), Budget: time.Duration(ev.Pick(r, 120, 1200)) * time.Second})
	d2 := ev.Pick(r, 3, 4)
	ecg := base
	ecg.ExistenceCache = true
	scs = append(scs, mc.Scenario{Name: "seq/one-digest-existence-cache", Space: fmt.Sprintf("as seq/one-digest behind an existence_caching decorator keyed by the digest key format the wiring announces for the hierarchical local backend (a FindMissing under one name must not make the object present under another) on %s", ecg), Bound: 0, ShardDepth: 2, Body: seqBody(ecg, d1, 1), Budget: time.Duration(ev.Pick(r, 150, 1200)) * time.Second})
	scs = append(scs, mc.Scenario{Name: "seq/two-digests", Space: fmt.Sprintf("all sequences of %d operations over 32 operations (two digests) on %s", d2, base), Bound: 0, ShardDepth: 2, Body: seqBody(base, d2, 2), Budget: time.Duration(ev.Pick(r, 60, 600)) * time.Second})
	small := base
	small.SectorsPerBlock, small.New, small.Old = 2, 1, 1
	scs = append(scs, mc.Scenario{Name: "seq/one-digest-tiny-blocks", Space: fmt.Sprintf("all sequences of %d operations, 8-byte blocks (rotation after 2 uploads) on %s", d1, small), Bound: 0, ShardDepth: 2, Body: seqBody(small, d1, 1), Budget: time.Duration(ev.Pick(r, 60, 600)) * time.Second})
	cg := base
	cg.DataGates = true
	for v := 0; v < 5; v++ {
		scs = append(scs, mc.Scenario{Name: fmt.Sprintf("conc/variant%d", v), Space: []string{"Put(d@a valid) || Put(d@b invalid) || Get(d@b)", "Put(d@a/b) || Put(d@ab) || Get(d@a)", "d@a in an old block: FindMissing(d@a/b, d@b) || Put(d@b invalid) || Get(d@b)", "d@a stored: Put(d@b invalid, arriving as one half of a stream clone whose other half is released by another thread) || Get(d@b)", "d@a stored: Put(d@b invalid, arriving as one half of a stream clone whose other half is consumed by another thread) || Get(d@b)"}[v] + " on " + cg.String(), Bound: ev.Pick(r, 2, 3), Body: concBody(cg, v), Budget: time.Duration(ev.Pick(r, 40, 400)) * time.Second})
	}
	mc.Run(r, scs)
	r.Finish()
}
