// C20 — digest / resource-name codecs round-trip and reject bad input; digest
// sets obey set algebra.
//
// Exhaustive small-scope enumeration (venum) against the real exported API of
// pkg/digest, compared with a reference model written from the REv2 resource
// name grammar (ref.go):
//   - roundtrip: every digest of 8 functions x 5 hashes x sizes x instance names,
//     through ByteStream read path and write path (x 4 compressors), REv2
//     message, compact binary, keys; ancestor chain == component prefixes;
//   - roundtrip-exotic: the same for unusual but valid instance names;
//   - keys: every pair of digests: equal keys <=> equal components;
//   - reject: every malformed-class mutation of every valid resource name;
//   - path-tokens: every string of <= N tokens fed to both path parsers;
//   - instance-tokens: the same strings fed to NewInstanceName;
//   - proto: GetDigestFunction/NewDigestFromProto on a product of functions,
//     hash strings and sizes;
//   - compact: every byte string of length <= 3 plus structured encodings and
//     all their truncations fed to NewDigestFromCompactBinary;
//   - setbuilder / setalgebra: every Add sequence / every family of <= 3 sets
//     over a small universe versus Go maps.
//
// Every parser call runs under recover(); a panic is a violation with
// signature "panic:<function>".
package main

import (
	"fmt"
	"sort"
	"strings"
	"sync"

	"github.com/buildbarn/bb-storage/pkg/digest"

	"verifh/ev"
	"verifh/par"
)

// Case is the replayable description of one evaluated case.
type Case struct {
	Kind   string     `json:"kind"`
	Digest *rd        `json:"digest,omitempty"`
	Other  *rd        `json:"other,omitempty"`
	Parser string     `json:"parser,omitempty"`
	Input  []byte     `json:"input,omitempty"` // raw bytes of the string / binary input (base64 in JSON)
	Quoted string     `json:"input_quoted,omitempty"`
	Mode   string     `json:"mode,omitempty"`
	Class  string     `json:"class,omitempty"`
	Comp   int32      `json:"compressor,omitempty"`
	Inst   string     `json:"instance,omitempty"`
	Proto  *protoCase `json:"proto,omitempty"`
	Univ   int        `json:"universe,omitempty"`
	Adds   []int      `json:"adds,omitempty"`
	Sets   []setSpec  `json:"sets,omitempty"`
}

func pathCase(parser, s string, ex pathExpect) Case {
	c := Case{Kind: "path", Parser: parser, Input: []byte(s), Quoted: fmt.Sprintf("%q", s), Mode: ex.mode, Class: ex.class, Comp: ex.comp}
	if ex.mode == "accept" {
		w := ex.want
		c.Digest = &w
	}
	return c
}

type viol struct {
	f finding
	c Case
}

// collector gathers per-job results so that reporting is independent of the
// scheduling of the workers.
type collector struct {
	mu       sync.Mutex
	viols    [][]viol
	outcomes ev.Set
}

func newCollector(jobs int) *collector { return &collector{viols: make([][]viol, jobs)} }

func (c *collector) flush(r *ev.Run, sub string) {
	for _, vs := range c.viols {
		for _, v := range vs {
			r.Violate(ev.Violation{Signature: v.f.sig, Sub: sub, Message: v.f.msg, Case: v.c})
		}
	}
}

const maxViolsPerJob = 50

func main() {
	r := ev.Start("C20")
	r.Rule("venum over inputs. Non-trivial = (roundtrip) digest with a non-empty instance name or a non-identity compressor; (keys) pair agreeing on at least one but not all components; (reject) every mutated string; (path-tokens) string containing a structural keyword and a hex-like token; (instance-tokens) string with >= 2 tokens; (proto/compact) input that gets past function resolution; (sets) family with at least two overlapping, different sets or an Add sequence with a duplicate")
	r.Assume("only the malformed classes the property names must be rejected (DESIGN 5.7); other leniencies (collapsed slashes in a ByteStream path, trailing components after the size of a read path, a write path without a blobs component, '+5' or '-0' as size, non-minimal or overflowing varints, nil REv2 message) are only checked for totality and self-consistency")
	r.Assume("redundant slashes are demanded to be rejected by NewInstanceName only; the ByteStream parsers split on runs of slashes")
	r.Assume("a resource name written exactly as REv2 prescribes ({instance}/[uploads/{uuid}/]blobs|compressed-blobs/{compressor}/[{function}/]{hash}/{size}) must be accepted; the malformed-class mutations are applied to those strings")
	r.Assume("truncation = a proper prefix in whole components (with and without trailing slash); cutting inside the size component yields another valid name")
	r.Assume("keys have no parser in pkg/digest; for keys the property is checked as: deterministic, and equal <=> components equal, over all pairs")
	r.Assume("'sorted' means ascending by the digest's own String() (instance-aware key), the order SetBuilder documents")
	r.Assume("NewInstanceNameFromComponents is only called with components produced by GetComponents (non-empty); its deliberate panic on an empty component is a programmer-error guard, not input parsing")
	r.Assume("unknown function names demanded to be rejected in a path: bogus, vso, murmur3, blake2b, unknown, sha3; names of the five legacy functions (sha256, md5, ...) which REv2 says must be omitted are only fed for totality")

	if r.Replay != "" {
		replay(r)
		r.Finish()
	}
	thorough := r.Thorough()
	if got := fmt.Sprint(sortedFns(digest.SupportedDigestFunctions)); got != fmt.Sprint(supported) {
		r.Violate(ev.Violation{Signature: "supported-functions-list", Sub: "roundtrip", Message: "SupportedDigestFunctions = " + got + ", the property speaks of the eight functions " + fmt.Sprint(supported), Case: Case{Kind: "none"}})
	}

	if r.Want("roundtrip") {
		subRoundTrip(r, "roundtrip", allDigests(thorough), fmt.Sprintf("8 functions x 5 hashes (0s, fs, 2 patterns, real) x sizes %v x instance names %q; each through read path and write path x compressors %v, REv2 message (explicit and inferred function), compact binary (own and foreign instance name), keys, ancestor chain", sizesFor(thorough), instancesFor(thorough), compressors))
	}
	if r.Want("roundtrip-exotic") {
		var ds []rd
		for _, fn := range supported {
			for _, in := range exoticInstances {
				ds = append(ds, rd{fn, hashesFor(fn)[2], 12, in})
			}
		}
		subRoundTrip(r, "roundtrip-exotic", ds, fmt.Sprintf("8 functions x %d unusual instance names that contain no reserved keyword and no redundant slash (dashes, digits, function/compressor names, near-keywords, hash-like components, non-UTF-8 bytes, '.' and '..' components); same codecs as roundtrip", len(exoticInstances)))
	}
	if r.Want("keys") {
		subKeys(r, thorough)
	}
	if r.Want("reject") {
		subReject(r, thorough)
	}
	if r.Want("path-tokens") {
		subPathTokens(r, "path-tokens-A", tokenAlphaA, ev.Pick(r, 6, 7))
		subPathTokens(r, "path-tokens-B", tokenAlphaB, ev.Pick(r, 4, 5))
	}
	if r.Want("instance-tokens") {
		subInstanceTokens(r, ev.Pick(r, 4, 5))
	}
	if r.Want("proto") {
		subProto(r, thorough)
	}
	if r.Want("compact") {
		subCompact(r, thorough)
	}
	if r.Want("setbuilder") {
		subSetBuilder(r, 5, ev.Pick(r, 6, 8))
		if thorough {
			subSetBuilder(r, 7, 6)
		}
	}
	if r.Want("setalgebra") {
		subSetAlgebra(r, 5, 3)
		if thorough {
			subSetAlgebra(r, 6, 3)
			subSetAlgebra(r, 4, 4)
		}
	}
	r.Finish()
}

func sortedFns(in []fnEnum) []int32 {
	var o []int32
	for _, f := range in {
		o = append(o, int32(f))
	}
	sort.Slice(o, func(a, b int) bool { return o[a] < o[b] })
	return o
}

// ---- roundtrip ---------------------------------------------------------------

func subRoundTrip(r *ev.Run, name string, ds []rd, space string) {
	sub := r.NewSub(name, "venum", space)
	done := sub.Timer()
	col := newCollector(len(ds))
	evals := make([]int, len(ds))
	par.For(len(ds), func(i int) {
		fs, n, oc := checkDigest(ds[i])
		evals[i] = n
		col.outcomes.Add(oc)
		for _, f := range fs {
			d := ds[i]
			col.viols[i] = append(col.viols[i], viol{f, Case{Kind: "digest", Digest: &d}})
		}
	})
	for i, d := range ds {
		sub.Evaluations += int64(evals[i])
		if d.Inst != "" {
			sub.Nontrivial += int64(evals[i])
		}
	}
	col.flush(r, name)
	for _, i := range []int{len(ds) - 1} {
		d, f := buildReal(ds[i])
		if f == nil {
			rp, _, _ := formatPath("read", d, 1)
			wp, _, _ := formatPath("write", d, 0)
			r.Sample(map[string]any{"sub": name, "digest": ds[i].String(), "read_path_zstd": fmt.Sprintf("%q", rp), "write_path": fmt.Sprintf("%q", wp), "key": fmt.Sprintf("%q", dstr(d)), "compact": fmt.Sprintf("%x", d.GetCompactBinary())})
		}
	}
	failing := map[string]bool{}
	for i, vs := range col.viols {
		if len(vs) > 0 {
			failing[fmt.Sprintf("%q", ds[i].Inst)] = true
		}
	}
	var fl []string
	for k := range failing {
		fl = append(fl, k)
	}
	sort.Strings(fl)
	sub.Outcomes = col.outcomes.Len()
	sub.States, sub.Transitions = sub.Evaluations, sub.Evaluations
	sub.Extra = map[string]any{"digests": len(ds), "instance_names_with_findings": fl}
	sub.Exhaustive = true
	done()
}

// ---- keys ------------------------------------------------------------------

func subKeys(r *ev.Run, thorough bool) {
	ds := allDigests(thorough)
	// add digests whose instance names contain the key separator and digits
	for _, fn := range []int32{1, 8, 10} {
		for _, in := range []string{"-", "0-a", "1", "0", "a-"} {
			for _, sz := range []int64{1, 10} {
				ds = append(ds, rd{fn, hashesFor(fn)[0], sz, in})
			}
		}
	}
	sub := r.NewSub("keys", "venum", fmt.Sprintf("all ordered pairs of %d digests (the roundtrip digests plus instance names made of '-' and digits; functions sharing a hash length share hash values): keys of both formats equal <=> components equal", len(ds)))
	done := sub.Timer()
	real := make([]digest.Digest, len(ds))
	for i, d := range ds {
		x, f := buildReal(d)
		if f != nil {
			r.Violate(ev.Violation{Signature: f.sig, Sub: "keys", Message: f.msg, Case: Case{Kind: "digest", Digest: &d}})
			done()
			return
		}
		real[i] = x
	}
	col := newCollector(len(ds))
	nontriv := make([]int64, len(ds))
	par.For(len(ds), func(i int) {
		for j := range ds {
			a, b := ds[i], ds[j]
			f := checkKeyPair(a, b, real[i], real[j])
			agree := 0
			if a.Fn == b.Fn {
				agree++
			}
			if a.Hash == b.Hash {
				agree++
			}
			if a.Size == b.Size {
				agree++
			}
			if a.Inst == b.Inst {
				agree++
			}
			if agree > 0 && agree < 4 {
				nontriv[i]++
			}
			col.outcomes.Add(fmt.Sprintf("agree=%d:fn=%v:hash=%v:size=%v:inst=%v", agree, a.Fn == b.Fn, a.Hash == b.Hash, a.Size == b.Size, a.Inst == b.Inst))
			if f != nil && len(col.viols[i]) < maxViolsPerJob {
				col.viols[i] = append(col.viols[i], viol{*f, Case{Kind: "keypair", Digest: &a, Other: &b}})
			}
		}
	})
	col.flush(r, "keys")
	sub.Evaluations = int64(len(ds)) * int64(len(ds))
	for _, n := range nontriv {
		sub.Nontrivial += n
	}
	r.Sample(map[string]any{"sub": "keys", "a": ds[1].String(), "b": ds[len(ds)-1].String(), "key_a_without_instance": real[1].GetKey(digest.KeyWithoutInstance), "key_b_with_instance": real[len(ds)-1].GetKey(digest.KeyWithInstance)})
	sub.Outcomes = col.outcomes.Len()
	sub.States, sub.Transitions = sub.Evaluations, sub.Evaluations
	sub.Exhaustive = true
	done()
}

// ---- reject -------------------------------------------------------------------

func subReject(r *ev.Run, thorough bool) {
	var bases []rd
	sizes := []int64{0, 12}
	if thorough {
		sizes = sizesFor(true)
	}
	for _, fn := range supported {
		hs := hashesFor(fn)
		if !thorough {
			hs = hs[2:] // one pattern with all hex digits, second pattern, real hash
		}
		for _, h := range hs {
			for _, sz := range sizes {
				for _, in := range instancesFor(thorough) {
					bases = append(bases, rd{fn, h, sz, in})
				}
			}
		}
	}
	type job struct {
		d     rd
		comp  int32
		write bool
	}
	var jobs []job
	for _, d := range bases {
		for _, c := range compressors {
			jobs = append(jobs, job{d, c, false}, job{d, c, true})
		}
	}
	sub := r.NewSub("reject", "venum", fmt.Sprintf("%d valid resource names (%d digests x 4 compressors x read/write) written per REv2; each must be accepted, and each mutation must be rejected: wrong hash length (every length near a supported one), a non-lowercase-hex character %q at first/middle/last position and the upper-cased hash, negative sizes %q, non-numeric sizes %q, each reserved keyword replacing / inserted at each instance-name position, unknown functions %q, unknown compressors %q, truncation at every component (with/without trailing slash)", len(jobs), len(bases), badHexChars, negativeSizes, nonNumericSizes, unknownFunctionNames, unknownCompressorNames))
	done := sub.Timer()
	col := newCollector(len(jobs))
	evals := make([]int64, len(jobs))
	classCount := make([]map[string]int, len(jobs))
	par.For(len(jobs), func(i int) {
		j := jobs[i]
		parser := "read"
		if j.write {
			parser = "write"
		}
		base, muts := pathMutations(j.d, j.comp, j.write)
		classCount[i] = map[string]int{}
		run := func(s string, ex pathExpect) {
			evals[i]++
			f, oc := checkPath(parser, s, ex)
			col.outcomes.Add(ex.mode + ":" + ex.class + ":" + oc)
			if f != nil && len(col.viols[i]) < maxViolsPerJob {
				col.viols[i] = append(col.viols[i], viol{*f, pathCase(parser, s, ex)})
			}
		}
		run(base, pathExpect{mode: "accept", want: j.d, comp: j.comp})
		for _, m := range muts {
			classCount[i][m.class]++
			run(m.s, pathExpect{mode: "reject", class: m.class})
		}
	})
	col.flush(r, "reject")
	total := map[string]int{}
	for i := range jobs {
		sub.Evaluations += evals[i]
		sub.Nontrivial += evals[i] - 1
		for k, v := range classCount[i] {
			total[k] += v
		}
	}
	sub.Extra = map[string]any{"mutations_per_class": total, "valid_names": len(jobs)}
	for _, i := range []int{len(jobs) - 2} {
		j := jobs[i]
		base, muts := pathMutations(j.d, j.comp, j.write)
		var ex []string
		seen := map[string]bool{}
		for _, m := range muts {
			if !seen[m.class] {
				seen[m.class] = true
				ex = append(ex, m.class+": "+fmt.Sprintf("%q", m.s))
			}
		}
		r.Sample(map[string]any{"sub": "reject", "valid": base, "one_mutation_per_class": ex})
	}
	sub.Outcomes = col.outcomes.Len()
	sub.States, sub.Transitions = sub.Evaluations, sub.Evaluations
	sub.Exhaustive = true
	done()
}

// ---- token strings ---------------------------------------------------------

func subPathTokens(r *ev.Run, name string, alpha []string, maxTok int) {
	sub := r.NewSub(name, "venum", fmt.Sprintf("every sequence of <= %d tokens from the %d-token alphabet %q joined by '/' (the empty token gives leading, trailing and doubled slashes), sequences of fewer than the maximum number of tokens additionally as /s, s/, /s/, fed to NewDigestFromByteStreamReadPath and NewDigestFromByteStreamWritePath: no panic; if accepted, the digest is non-degenerate, its components sit in the input where REv2 puts them, and format+parse reproduces it", maxTok, len(alpha), alpha))
	done := sub.Timer()
	jobs := tokenJobs(len(alpha), maxTok)
	col := newCollector(len(jobs))
	evals := make([]int64, len(jobs))
	nontriv := make([]int64, len(jobs))
	accepted := make([]int64, len(jobs))
	par.For(len(jobs), func(i int) {
		local := map[[2]string]struct{}{}
		jobs[i].forEachSequence(alpha, maxTok, func(joined string, nt, full bool) {
			for _, s := range slashVariants(joined, full) {
				for _, parser := range []string{"read", "write"} {
					evals[i]++
					if nt {
						nontriv[i]++
					}
					f, oc := checkPath(parser, s, pathExpect{mode: "any"})
					if _, ok := local[[2]string{parser, oc}]; !ok {
						local[[2]string{parser, oc}] = struct{}{}
					}
					if oc[0] == 'a' {
						accepted[i]++
					}
					if f != nil && len(col.viols[i]) < maxViolsPerJob {
						col.viols[i] = append(col.viols[i], viol{*f, pathCase(parser, s, pathExpect{mode: "any"})})
					}
				}
			}
		})
		for k := range local {
			col.outcomes.Add(k[0] + ":" + k[1])
		}
	})
	col.flush(r, name)
	var acc int64
	for i := range jobs {
		sub.Evaluations += evals[i]
		sub.Nontrivial += nontriv[i]
		acc += accepted[i]
	}
	sub.Extra = map[string]any{"accepted": acc, "strings": sub.Evaluations / 2}
	for _, s := range []string{"a//blobs/" + hex64 + "/12/x", "/uploads/" + fixedUUIDString + "//" + hex64 + "/12/"} {
		for _, parser := range []string{"read", "write"} {
			_, oc := checkPath(parser, s, pathExpect{mode: "any"})
			if strings.HasPrefix(oc, "accept") && (len(alpha) == len(tokenAlphaA) || parser == "write") {
				r.Sample(map[string]any{"sub": name, "parser": parser, "input": s, "outcome": oc})
			}
		}
	}
	sub.Outcomes = col.outcomes.Len()
	sub.States, sub.Transitions = sub.Evaluations, sub.Evaluations
	sub.BoundCompleted = fmt.Sprintf("%d tokens", maxTok)
	sub.Exhaustive = true
	done()
}

func subInstanceTokens(r *ev.Run, maxTok int) {
	alpha := tokenAlphaB
	sub := r.NewSub("instance-tokens", "venum", fmt.Sprintf("every sequence of <= %d tokens from the %d-token alphabet of path-tokens-B joined by '/', sequences shorter than the maximum additionally as /s, s/, /s/, plus every valid exotic name with each slash doubled, fed to NewInstanceName: accepted <=> no redundant slash and no reserved keyword component; accepted names reproduce their string and components", maxTok, len(alpha)))
	done := sub.Timer()
	jobs := tokenJobs(len(alpha), maxTok)
	col := newCollector(len(jobs) + 1)
	evals := make([]int64, len(jobs)+1)
	nontriv := make([]int64, len(jobs)+1)
	par.For(len(jobs), func(i int) {
		local := map[string]struct{}{}
		jobs[i].forEachSequence(alpha, maxTok, func(joined string, _, full bool) {
			for _, s := range slashVariants(joined, full) {
				evals[i]++
				if strings.Count(s, "/") > 0 {
					nontriv[i]++
				}
				f, oc := checkInstance(s)
				local[oc] = struct{}{}
				if f != nil && len(col.viols[i]) < maxViolsPerJob {
					col.viols[i] = append(col.viols[i], viol{*f, Case{Kind: "instance", Input: []byte(s), Quoted: fmt.Sprintf("%q", s)}})
				}
			}
		})
		for k := range local {
			col.outcomes.Add(k)
		}
	})
	// slash mutations of the exotic names
	last := len(jobs)
	for _, n := range exoticInstances {
		cands := []string{n, "/" + n, n + "/", "//" + n, n + "//"}
		for i := 0; i < len(n); i++ {
			if n[i] == '/' {
				cands = append(cands, n[:i]+"/"+n[i:])
			}
		}
		for _, k := range reservedKeywords {
			cands = append(cands, n+"/"+k, k+"/"+n, n+"/"+k+"/"+n)
		}
		for _, s := range cands {
			evals[last]++
			nontriv[last]++
			f, oc := checkInstance(s)
			col.outcomes.Add(oc)
			if f != nil {
				col.viols[last] = append(col.viols[last], viol{*f, Case{Kind: "instance", Input: []byte(s), Quoted: fmt.Sprintf("%q", s)}})
			}
		}
	}
	col.flush(r, "instance-tokens")
	for i := range evals {
		sub.Evaluations += evals[i]
		sub.Nontrivial += nontriv[i]
	}
	for _, s := range []string{"a/actionResults/x"} {
		_, oc := checkInstance(s)
		r.Sample(map[string]any{"sub": "instance-tokens", "input": s, "outcome": oc})
	}
	sub.Outcomes = col.outcomes.Len()
	sub.States, sub.Transitions = sub.Evaluations, sub.Evaluations
	sub.BoundCompleted = fmt.Sprintf("%d tokens", maxTok)
	sub.Exhaustive = true
	done()
}

// ---- proto -------------------------------------------------------------------

func subProto(r *ev.Run, thorough bool) {
	fns := []int32{-1, 0, 1, 2, 3, 4, 5, 6, 7, 8, 9, 10, 11, 12, 100, 1<<31 - 1, -1 << 31}
	sizes := []int64{0, 12, 1<<63 - 1, -1, -1 << 63}
	var cases []protoCase
	for _, inst := range []string{"", "a/b"} {
		for _, fn := range fns {
			fallbacks := []int{0, 64}
			if fn == 0 {
				fallbacks = []int{0, 1, 31, 32, 33, 40, 63, 64, 65, 96, 128, 129, -1}
			}
			for _, fb := range fallbacks {
				resolved, ok := fn, isSupported(fn)
				if fn == 0 {
					resolved, ok = inferredFn[fb]
				}
				var hashes []string
				if !ok {
					hashes = []string{strings.Repeat("0", 64), strings.Repeat("0", 32), ""}
				} else {
					hs := hashesFor(resolved)
					if !thorough {
						hs = hs[2:]
					}
					for _, h := range hs {
						hashes = append(hashes, h)
						hashes = append(hashes, allWrongLengths(h)...)
						for _, pos := range []int{0, len(h) / 2, len(h) - 1} {
							for _, c := range append([]string{"/"}, badHexChars...) {
								hashes = append(hashes, h[:pos]+c+h[pos+1:])
							}
						}
						hashes = append(hashes, strings.ToUpper(h), " "+h, h+" ", h[:len(h)-1]+"\n")
					}
					hashes = append(hashes, tokenAlphaB...)
				}
				for _, h := range hashes {
					for _, sz := range sizes {
						cases = append(cases, protoCase{Inst: inst, Fn: fn, Fallback: fb, Hash: []byte(h), Size: sz})
					}
				}
				cases = append(cases, protoCase{Inst: inst, Fn: fn, Fallback: fb, Nil: true})
			}
		}
	}
	sub := r.NewSub("proto", "venum", fmt.Sprintf("instance names {\"\", a/b} x function enum values %v (x fallback hash lengths for UNKNOWN) x hash strings {valid, every wrong length near a supported one, a bad character %q or '/' at first/middle/last position, upper case, padded, the %d tokens} x sizes %v, plus the nil message: accepted <=> function supported, hash of the exact length in lowercase hex, size >= 0", fns, badHexChars, len(tokenAlphaB), sizes))
	done := sub.Timer()
	col := newCollector(len(cases))
	par.For(len(cases), func(i int) {
		f, oc := checkProto(cases[i])
		col.outcomes.Add(oc)
		if f != nil {
			c := cases[i]
			col.viols[i] = append(col.viols[i], viol{*f, Case{Kind: "proto", Proto: &c, Quoted: fmt.Sprintf("%q", string(c.Hash))}})
		}
	})
	col.flush(r, "proto")
	sub.Evaluations = int64(len(cases))
	for _, c := range cases {
		if isSupported(c.Fn) || (c.Fn == 0 && inferredFn[c.Fallback] != 0) {
			sub.Nontrivial++
		}
	}
	r.Sample(map[string]any{"sub": "proto", "case": fmt.Sprintf("%+v", cases[len(cases)/3]), "hash": string(cases[len(cases)/3].Hash)})
	sub.Outcomes = col.outcomes.Len()
	sub.States, sub.Transitions = sub.Evaluations, sub.Evaluations
	sub.Exhaustive = true
	done()
}

// ---- compact binary --------------------------------------------------------

func subCompact(r *ev.Run, thorough bool) {
	// structured inputs: every function byte x hash bytes x varint encodings, and every proper prefix
	var structured [][]byte
	seen := map[string]bool{}
	addAll := func(b []byte) {
		for l := 0; l <= len(b); l++ {
			if !seen[string(b[:l])] {
				seen[string(b[:l])] = true
				structured = append(structured, append([]byte(nil), b[:l]...))
			}
		}
	}
	for fn := 0; fn < 256; fn++ {
		n := 32
		if isSupported(int32(fn)) {
			n = hashHexLen[int32(fn)] / 2
		} else if !thorough && fn > 16 && fn < 250 && fn != 0x80 {
			// unsupported function bytes: the short strings below cover all 256 values; here a sample with long bodies
			continue
		}
		for _, fill := range []byte{0x00, 0xff, 0xa5} {
			for _, v := range varintEncodings() {
				b := []byte{byte(fn)}
				for k := 0; k < n; k++ {
					x := fill
					if fill == 0xa5 {
						x = byte(k*37 + 1)
					}
					b = append(b, x)
				}
				b = append(b, v...)
				addAll(b)
				addAll(append(b, 0x07)) // trailing byte after a complete encoding
			}
		}
	}
	sub := r.NewSub("compact", "venum", fmt.Sprintf("every byte string of length <= 3 (16,843,009) plus %d structured inputs (function byte x 3 hash fills x %d varint encodings incl. negative, non-minimal and overflowing ones, with a trailing byte, and every proper prefix of each), under instance names \"\" and a/b: no panic; unknown function byte, truncated input and negative size are rejected; accepted input yields exactly the components the bytes encode and re-encodes/parses identically", len(structured), len(varintEncodings())))
	done := sub.Timer()
	col := newCollector(257)
	evals := make([]int64, 257)
	nontriv := make([]int64, 257)
	par.For(256, func(i int) {
		local := map[string]struct{}{}
		run := func(b []byte) {
			evals[i]++
			if isSupported(int32(i)) {
				nontriv[i]++
			}
			f, oc := checkCompact("", b)
			local[oc] = struct{}{}
			if f != nil && len(col.viols[i]) < maxViolsPerJob {
				col.viols[i] = append(col.viols[i], viol{*f, Case{Kind: "compact", Inst: "", Input: append([]byte(nil), b...), Quoted: fmt.Sprintf("%x", b)}})
			}
		}
		if i == 0 {
			run(nil)
		}
		buf := []byte{byte(i), 0, 0}
		run(buf[:1])
		for a := 0; a < 256; a++ {
			buf[1] = byte(a)
			run(buf[:2])
			for b := 0; b < 256; b++ {
				buf[2] = byte(b)
				run(buf[:3])
			}
		}
		for k := range local {
			col.outcomes.Add(k)
		}
	})
	for _, inst := range []string{"", "a/b"} {
		for _, b := range structured {
			evals[256]++
			if len(b) > 0 && isSupported(int32(b[0])) {
				nontriv[256]++
			}
			f, oc := checkCompact(inst, b)
			col.outcomes.Add(oc)
			if f != nil && len(col.viols[256]) < maxViolsPerJob {
				col.viols[256] = append(col.viols[256], viol{*f, Case{Kind: "compact", Inst: inst, Input: b, Quoted: fmt.Sprintf("%x", b)}})
			}
		}
	}
	col.flush(r, "compact")
	for i := range evals {
		sub.Evaluations += evals[i]
		sub.Nontrivial += nontriv[i]
	}
	for _, b := range [][]byte{structured[len(structured)/2]} {
		_, oc := checkCompact("a/b", b)
		r.Sample(map[string]any{"sub": "compact", "input_hex": fmt.Sprintf("%x", b), "outcome": oc})
	}
	sub.Outcomes = col.outcomes.Len()
	sub.States, sub.Transitions = sub.Evaluations, sub.Evaluations
	sub.Exhaustive = true
	done()
}

// ---- sets ------------------------------------------------------------------

func subSetBuilder(r *ev.Run, n, maxLen int) {
	name := fmt.Sprintf("setbuilder-u%d", n)
	sub := r.NewSub(name, "venum", fmt.Sprintf("every sequence of <= %d SetBuilder.Add calls over a universe of %d digests (mixed instance names, empty blobs, three functions): Length and Build vs. a Go map, Build twice, Add after Build leaves the built set intact", maxLen, n))
	done := sub.Timer()
	env, f := newSetEnv(n)
	if f != nil {
		ev.HarnessError("cannot build the set universe: %s", f.msg)
	}
	// jobs by first two adds
	var seqs [][]int
	var rec func(cur []int)
	rec = func(cur []int) {
		seqs = append(seqs, append([]int(nil), cur...))
		if len(cur) >= maxLen {
			return
		}
		for i := 0; i < n; i++ {
			rec(append(cur, i))
		}
	}
	rec(nil)
	col := newCollector(len(seqs))
	nt := make([]bool, len(seqs))
	par.For(len(seqs), func(i int) {
		f, oc := env.checkBuilder(seqs[i])
		col.outcomes.Add(oc)
		var m mask
		for _, x := range seqs[i] {
			if m&(1<<uint(x)) != 0 {
				nt[i] = true
			}
			m |= 1 << uint(x)
		}
		if f != nil {
			col.viols[i] = append(col.viols[i], viol{*f, Case{Kind: "builder", Univ: n, Adds: seqs[i]}})
		}
	})
	col.flush(r, name)
	sub.Evaluations = int64(len(seqs))
	for _, b := range nt {
		if b {
			sub.Nontrivial++
		}
	}
	r.Sample(map[string]any{"sub": name, "adds": seqs[len(seqs)/2], "universe": fmt.Sprint(env.u)})
	sub.Outcomes = col.outcomes.Len()
	sub.States, sub.Transitions = sub.Evaluations, sub.Evaluations
	sub.BoundCompleted = fmt.Sprintf("%d adds", maxLen)
	sub.Exhaustive = true
	done()
}

func subSetAlgebra(r *ev.Run, n, maxSets int) {
	name := fmt.Sprintf("setalgebra-u%d-k%d", n, maxSets)
	specs := subsetSpecs(n)
	sub := r.NewSub(name, "venum", fmt.Sprintf("every ordered family of <= %d sets, each one of %d ways to build a subset of a %d-digest universe (ascending adds; descending adds with every element given three times; digest.EmptySet; ToSingletonSet): per set RemoveEmptyBlob, PartitionByInstanceName, Items/First/Length/Empty; per ordered pair GetDifferenceAndIntersection; GetUnion of the family, then RemoveEmptyBlob/PartitionByInstanceName of the union; all vs. Go maps, sorted by String(), duplicate-free; afterwards inputs and earlier results unchanged", maxSets, len(specs), n))
	done := sub.Timer()
	env, f := newSetEnv(n)
	if f != nil {
		ev.HarnessError("cannot build the set universe: %s", f.msg)
	}
	ns := len(specs)
	total := 0
	pow := 1
	offsets := []int{}
	for k := 0; k <= maxSets; k++ {
		offsets = append(offsets, total)
		total += pow
		pow *= ns
	}
	decode := func(idx int) []setSpec {
		k := 0
		for k+1 < len(offsets) && idx >= offsets[k+1] {
			k++
		}
		idx -= offsets[k]
		fam := make([]setSpec, k)
		for i := 0; i < k; i++ {
			fam[i] = specs[idx%ns]
			idx /= ns
		}
		return fam
	}
	// chunk the family index space
	const chunk = 512
	nchunks := (total + chunk - 1) / chunk
	col := newCollector(nchunks)
	evals := make([]int64, nchunks)
	nontriv := make([]int64, nchunks)
	par.For(nchunks, func(c int) {
		local := map[string]struct{}{}
		for idx := c * chunk; idx < (c+1)*chunk && idx < total; idx++ {
			fam := decode(idx)
			f, ne, oc := env.checkFamily(fam)
			evals[c] += int64(ne)
			local[oc] = struct{}{}
			if overlapping(fam) {
				nontriv[c] += int64(ne)
			}
			if f != nil && len(col.viols[c]) < maxViolsPerJob {
				col.viols[c] = append(col.viols[c], viol{*f, Case{Kind: "family", Univ: n, Sets: fam}})
			}
		}
		for k := range local {
			col.outcomes.Add(k)
		}
	})
	col.flush(r, name)
	for c := range evals {
		sub.Evaluations += evals[c]
		sub.Nontrivial += nontriv[c]
	}
	sub.Extra = map[string]any{"families": total}
	r.Sample(map[string]any{"sub": name, "family": decode(total - total/3), "universe_sorted_indices": env.rank})
	sub.Outcomes = col.outcomes.Len()
	sub.States, sub.Transitions = int64(total), sub.Evaluations
	sub.BoundCompleted = fmt.Sprintf("%d sets", maxSets)
	sub.Exhaustive = true
	done()
}

func overlapping(fam []setSpec) bool {
	for i := range fam {
		for j := i + 1; j < len(fam); j++ {
			a, b := fam[i].members(), fam[j].members()
			if a&b != 0 && a != b {
				return true
			}
		}
	}
	return false
}

// ---- replay ----------------------------------------------------------------

func replay(r *ev.Run) {
	rf := ev.LoadReplay(r.Replay)
	var c Case
	ev.MustJSON(rf.Case, &c)
	var fs []finding
	oc := ""
	switch c.Kind {
	case "digest":
		fs, _, oc = checkDigest(*c.Digest)
	case "keypair":
		da, f1 := buildReal(*c.Digest)
		db, f2 := buildReal(*c.Other)
		if f1 != nil || f2 != nil {
			ev.HarnessError("cannot rebuild the digests of the replay")
		}
		if f := checkKeyPair(*c.Digest, *c.Other, da, db); f != nil {
			fs = append(fs, *f)
		}
	case "path":
		ex := pathExpect{mode: c.Mode, class: c.Class, comp: c.Comp}
		if c.Digest != nil {
			ex.want = *c.Digest
		}
		var f *finding
		f, oc = checkPath(c.Parser, string(c.Input), ex)
		if f != nil {
			fs = append(fs, *f)
		}
	case "instance":
		var f *finding
		f, oc = checkInstance(string(c.Input))
		if f != nil {
			fs = append(fs, *f)
		}
	case "proto":
		var f *finding
		f, oc = checkProto(*c.Proto)
		if f != nil {
			fs = append(fs, *f)
		}
	case "compact":
		var f *finding
		f, oc = checkCompact(c.Inst, c.Input)
		if f != nil {
			fs = append(fs, *f)
		}
	case "builder":
		env, f := newSetEnv(c.Univ)
		if f != nil {
			ev.HarnessError("cannot build the set universe: %s", f.msg)
		}
		f, oc = env.checkBuilder(c.Adds)
		if f != nil {
			fs = append(fs, *f)
		}
	case "family":
		env, f := newSetEnv(c.Univ)
		if f != nil {
			ev.HarnessError("cannot build the set universe: %s", f.msg)
		}
		f, _, oc = env.checkFamily(c.Sets)
		if f != nil {
			fs = append(fs, *f)
		}
	case "none":
		if got := fmt.Sprint(sortedFns(digest.SupportedDigestFunctions)); got != fmt.Sprint(supported) {
			fs = append(fs, finding{"supported-functions-list", "SupportedDigestFunctions = " + got})
		}
	default:
		ev.HarnessError("unknown replay kind %q", c.Kind)
	}
	fmt.Printf("replay sub=%s kind=%s input=%s outcome=%s findings=%d\n", rf.Sub, c.Kind, c.Quoted, oc, len(fs))
	for _, f := range fs {
		fmt.Printf("  %s: %s\n", f.sig, f.msg)
		r.Violate(ev.Violation{Signature: f.sig, Sub: rf.Sub, Message: f.msg, Case: c})
	}
}
