package main

// Reference model of REv2 digests / resource names (written from the REv2
// specification and the property text, not from pkg/digest) plus panic-safe
// wrappers around every exported pkg/digest entry point the check uses.

import (
	"bufio"
	"bytes"
	"encoding/hex"
	"fmt"
	"io"
	"sort"
	"strconv"
	"strings"

	remoteexecution "github.com/bazelbuild/remote-apis/build/bazel/remote/execution/v2"
	"github.com/buildbarn/bb-storage/pkg/digest"
	"github.com/google/uuid"
)

type (
	fnEnum   = remoteexecution.DigestFunction_Value
	compEnum = remoteexecution.Compressor_Value
)

// The eight supported digest functions (REv2 enum values).
var supported = []int32{1, 2, 3, 5, 6, 8, 9, 10}

var fnLabel = map[int32]string{1: "SHA256", 2: "SHA1", 3: "MD5", 5: "SHA384", 6: "SHA512", 8: "SHA256TREE", 9: "BLAKE3", 10: "GITSHA1"}

// Length of the lowercase hexadecimal hash per function.
var hashHexLen = map[int32]int{1: 64, 2: 40, 3: 32, 5: 96, 6: 128, 8: 64, 9: 64, 10: 40}

// REv2: functions with enum value > 7 carry their lowercase name in the
// resource name; older ones are inferred from the hash length.
var fnPathName = map[int32]string{8: "sha256tree", 9: "blake3", 10: "gitsha1"}

var inferredFn = map[int]int32{32: 3, 40: 2, 64: 1, 96: 5, 128: 6}

// All values of the REv2 Compressor enum.
var compressors = []int32{0, 1, 2, 3}

var compPathName = map[int32]string{1: "zstd", 2: "deflate", 3: "brotli"}

// REv2: "instance_name MUST NOT contain the segments ...".
var reservedKeywords = []string{"blobs", "uploads", "actions", "actionResults", "operations", "capabilities", "compressed-blobs"}

func isReserved(s string) bool {
	for _, k := range reservedKeywords {
		if s == k {
			return true
		}
	}
	return false
}

func isSupported(fn int32) bool {
	_, ok := hashHexLen[fn]
	return ok
}

const fixedUUIDString = "36e9ecd9-58d5-4b0a-a5b7-6c3e7a0a1d2f"

var fixedUUID = uuid.MustParse(fixedUUIDString)

// rd is the reference digest: the four components the property talks about.
type rd struct {
	Fn   int32  `json:"fn"`
	Hash string `json:"hash"`
	Size int64  `json:"size"`
	Inst string `json:"instance"`
}

func (r rd) String() string {
	return fmt.Sprintf("{%s %s %d %q}", fnLabel[r.Fn], r.Hash, r.Size, r.Inst)
}

// refKey is an injective rendering of the components, used for set models.
func (r rd) refKey() string {
	return fmt.Sprintf("%02d|%s|%020d|%s", r.Fn, r.Hash, r.Size, r.Inst)
}

// instanceNameClass classifies an instance name string by the rules of the
// property: "" = valid.
func instanceNameClass(s string) string {
	if s == "" {
		return ""
	}
	if strings.HasPrefix(s, "/") || strings.HasSuffix(s, "/") || strings.Contains(s, "//") {
		return "redundant-slashes"
	}
	for _, c := range strings.Split(s, "/") {
		if isReserved(c) {
			return "reserved-keyword"
		}
	}
	return ""
}

func splitInstance(s string) []string {
	if s == "" {
		return nil
	}
	return strings.Split(s, "/")
}

func hasDotComponent(inst string) bool {
	for _, c := range splitInstance(inst) {
		if c == "." || c == ".." {
			return true
		}
	}
	return false
}

func isLowerHex(s string) bool {
	for i := 0; i < len(s); i++ {
		c := s[i]
		if !(c >= '0' && c <= '9') && !(c >= 'a' && c <= 'f') {
			return false
		}
	}
	return true
}

// pathParts is a structured resource name; Join renders it.
type pathParts struct {
	inst   []string
	upload []string // nil for read paths, {"uploads", uuid} for write paths
	comp   []string // {"blobs"} or {"compressed-blobs", name}
	fn     []string // {} or {name}
	hash   string
	size   string
}

func (p pathParts) fields() []string {
	var out []string
	out = append(out, p.inst...)
	out = append(out, p.upload...)
	out = append(out, p.comp...)
	out = append(out, p.fn...)
	out = append(out, p.hash, p.size)
	return out
}

func (p pathParts) join() string { return strings.Join(p.fields(), "/") }

func refParts(r rd, comp int32, write bool) pathParts {
	p := pathParts{inst: splitInstance(r.Inst), hash: r.Hash, size: strconv.FormatInt(r.Size, 10)}
	if write {
		p.upload = []string{"uploads", fixedUUIDString}
	}
	if comp == 0 {
		p.comp = []string{"blobs"}
	} else {
		p.comp = []string{"compressed-blobs", compPathName[comp]}
	}
	if n, ok := fnPathName[r.Fn]; ok {
		p.fn = []string{n}
	}
	return p
}

// ---- panic-safe wrappers ---------------------------------------------------

type finding struct{ sig, msg string }

func guard(f func()) (p string) {
	defer func() {
		if x := recover(); x != nil {
			p = fmt.Sprintf("%v", x)
		}
	}()
	f()
	return ""
}

func panicFinding(fn, p, input string) finding {
	if strings.HasPrefix(p, readerKindMarker) {
		return finding{"reader-kind-dependent:" + fn, fmt.Sprintf("%s on %s: %s", fn, input, p)}
	}
	return finding{"panic:" + fn, fmt.Sprintf("%s panicked on %s: %s", fn, input, p)}
}

type parsed struct {
	d    digest.Digest
	c    compEnum
	err  error
	pan  string
	name string
}

func parsePath(parser, s string) (r parsed) {
	switch parser {
	case "read":
		r.name = "NewDigestFromByteStreamReadPath"
		r.d, r.c, r.err, r.pan = safeRead(s)
	case "write":
		r.name = "NewDigestFromByteStreamWritePath"
		r.d, r.c, r.err, r.pan = safeWrite(s)
	default:
		panic("unknown parser " + parser)
	}
	return
}

func safeRead(s string) (d digest.Digest, c compEnum, err error, pan string) {
	defer func() {
		if x := recover(); x != nil {
			pan = fmt.Sprintf("%v", x)
		}
	}()
	d, c, err = digest.NewDigestFromByteStreamReadPath(s)
	return
}

func safeWrite(s string) (d digest.Digest, c compEnum, err error, pan string) {
	defer func() {
		if x := recover(); x != nil {
			pan = fmt.Sprintf("%v", x)
		}
	}()
	d, c, err = digest.NewDigestFromByteStreamWritePath(s)
	return
}

func formatPath(parser string, d digest.Digest, c compEnum) (s, pan, name string) {
	if parser == "read" {
		name = "GetByteStreamReadPath"
		pan = guard(func() { s = d.GetByteStreamReadPath(c) })
	} else {
		name = "GetByteStreamWritePath"
		pan = guard(func() { s = d.GetByteStreamWritePath(fixedUUID, c) })
	}
	return
}

// buildReal constructs the digest through the validating public API.
func buildReal(r rd) (d digest.Digest, f *finding) {
	var err error
	var stage string
	pan := guard(func() {
		var in digest.InstanceName
		stage = "NewInstanceName"
		if in, err = digest.NewInstanceName(r.Inst); err != nil {
			return
		}
		var fun digest.Function
		stage = "GetDigestFunction"
		if fun, err = in.GetDigestFunction(fnEnum(r.Fn), 0); err != nil {
			return
		}
		stage = "NewDigest"
		d, err = fun.NewDigest(r.Hash, r.Size)
	})
	if pan != "" {
		x := panicFinding(stage, pan, r.String())
		return d, &x
	}
	if err != nil {
		return d, &finding{"valid-rejected:" + stage, fmt.Sprintf("%s rejected valid component(s) of %s: %v", stage, r, err)}
	}
	return d, nil
}

// observe extracts the components of a real digest through its accessors and
// validates that they form a non-degenerate digest.
func observe(d digest.Digest) (r rd, f *finding) {
	var hb []byte
	var key string
	var uses bool
	pan := guard(func() {
		r.Fn = int32(d.GetDigestFunction().GetEnumValue())
		r.Hash = d.GetHashString()
		r.Size = d.GetSizeBytes()
		r.Inst = d.GetInstanceName().String()
		hb = d.GetHashBytes()
		key = d.String()
		uses = d.UsesDigestFunction(d.GetDigestFunction())
	})
	if pan != "" {
		x := panicFinding("Digest-accessors", pan, fmt.Sprintf("digest %s", dstr(d)))
		return r, &x
	}
	switch {
	case !isSupported(r.Fn):
		f = &finding{"degenerate-digest:function", fmt.Sprintf("digest %q reports unsupported function %d", key, r.Fn)}
	case len(r.Hash) != hashHexLen[r.Fn] || !isLowerHex(r.Hash):
		f = &finding{"degenerate-digest:hash", fmt.Sprintf("digest %q: hash %q is not %d lowercase hex characters", key, r.Hash, hashHexLen[r.Fn])}
	case r.Size < 0:
		f = &finding{"degenerate-digest:size", fmt.Sprintf("digest %q has negative size %d", key, r.Size)}
	case instanceNameClass(r.Inst) != "":
		f = &finding{"degenerate-digest:instance-name", fmt.Sprintf("digest %q has invalid instance name %q (%s)", key, r.Inst, instanceNameClass(r.Inst))}
	case hex.EncodeToString(hb) != r.Hash:
		f = &finding{"accessor-mismatch:GetHashBytes", fmt.Sprintf("digest %q: GetHashBytes %x != GetHashString %s", key, hb, r.Hash)}
	case !uses:
		f = &finding{"accessor-mismatch:UsesDigestFunction", fmt.Sprintf("digest %q does not use its own digest function", key)}
	}
	return r, f
}

// roundTripPath formats d through one ByteStream codec and parses it back.
func roundTripPath(parser string, d digest.Digest, c compEnum, inst string) *finding {
	dot := hasDotComponent(inst)
	s, pan, name := formatPath(parser, d, c)
	if pan != "" {
		x := panicFinding(name, pan, fmt.Sprintf("digest %q compressor %v", dstr(d), c))
		return &x
	}
	p := parsePath(parser, s)
	if p.pan != "" {
		x := panicFinding(p.name, p.pan, fmt.Sprintf("%q", s))
		return &x
	}
	codec := parser + "-path"
	sig := func(kind string) string {
		if dot {
			// one stable signature for the whole class of instance names with "." / ".." components
			return "roundtrip:bytestream-path:dot-component-instance"
		}
		return "roundtrip:" + codec + ":" + kind
	}
	if p.err != nil {
		return &finding{sig("rejected"), fmt.Sprintf("digest %q compressor %v formats as %q which %s rejects: %v", dstr(d), c, s, p.name, p.err)}
	}
	if p.d != d {
		return &finding{sig("different-digest"), fmt.Sprintf("digest %q compressor %v formats as %q which parses back as digest %q", dstr(d), c, s, dstr(p.d))}
	}
	if p.c != c {
		return &finding{sig("different-compressor"), fmt.Sprintf("digest %q compressor %v formats as %q which parses back with compressor %v", dstr(d), c, s, p.c)}
	}
	return nil
}

const readerKindMarker = "verdict depends on the kind of io.ByteReader: "

// byteReaderOnly hides every method of the underlying reader but ReadByte.
type byteReaderOnly struct{ r *bytes.Reader }

func (b byteReaderOnly) ReadByte() (byte, error) { return b.r.ReadByte() }

// shortReader is an io.Reader and io.ByteReader whose Read hands out at most n
// bytes per call (a legitimate short read, as of a pipe or a socket).
type shortReader struct {
	r *bytes.Reader
	n int
}

func (s shortReader) ReadByte() (byte, error) { return s.r.ReadByte() }
func (s shortReader) Read(p []byte) (int, error) {
	if len(p) > s.n {
		p = p[:s.n]
	}
	return s.r.Read(p)
}

// parseCompact parses b through every kind of io.ByteReader the API admits
// (the environment answer "how many bytes does one Read return" is enumerated:
// all at once, ByteReader only, 1 and 3 bytes per Read, bufio over each) and
// demands the same verdict from all of them.
func parseCompact(inst digest.InstanceName, b []byte) (d digest.Digest, err error, pan string) {
	pan = guard(func() { d, err = inst.NewDigestFromCompactBinary(bytes.NewReader(b)) })
	if pan != "" {
		return
	}
	kinds := []struct {
		name string
		mk   func() io.ByteReader
	}{
		{"ByteReader only", func() io.ByteReader { return byteReaderOnly{bytes.NewReader(b)} }},
		{"Reader+ByteReader, 1 byte per Read", func() io.ByteReader { return shortReader{bytes.NewReader(b), 1} }},
		{"Reader+ByteReader, 3 bytes per Read", func() io.ByteReader { return shortReader{bytes.NewReader(b), 3} }},
		{"bufio.Reader over 1 byte per Read", func() io.ByteReader { return bufio.NewReaderSize(shortReader{bytes.NewReader(b), 1}, 16) }},
		{"bufio.Reader over 3 bytes per Read", func() io.ByteReader { return bufio.NewReaderSize(shortReader{bytes.NewReader(b), 3}, 16) }},
	}
	for _, k := range kinds {
		var d2 digest.Digest
		var err2 error
		if p2 := guard(func() { d2, err2 = inst.NewDigestFromCompactBinary(k.mk()) }); p2 != "" {
			return d, err, p2
		}
		if (err == nil) != (err2 == nil) || (err == nil && d != d2) {
			return d, err, fmt.Sprintf("%sbytes.Reader gives (%q, %v), %s gives (%q, %v)", readerKindMarker, dstr(d), err, k.name, dstr(d2), err2)
		}
	}
	return
}

func sortedCopy(s []string) []string {
	o := append([]string(nil), s...)
	sort.Strings(o)
	return o
}

func nonEmptyFields(s string) []string {
	var out []string
	for _, f := range strings.Split(s, "/") {
		if f != "" {
			out = append(out, f)
		}
	}
	return out
}
