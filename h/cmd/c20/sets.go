package main

// Digest sets versus reference sets (bit masks over a small universe; the
// reference operations are |, &, &^ on the masks).

import (
	"fmt"
	"sort"
	"strings"

	"github.com/buildbarn/bb-storage/pkg/digest"
)

// universe: digests with mixed instance names whose sort order interleaves the
// instance names, empty blobs, equal hashes under different names.
func universe(n int) []rd {
	h0 := "e3b0c44298fc1c149afbf4c8996fb92427ae41e4649b934ca495991b7852b855" // empty blob
	h1 := "f2ca1bb6c7e907d06dafe4687e579fce76b37e4e93b7605022da52e6ccc26fd2"
	u := []rd{
		{1, h0, 0, ""},
		{1, h0, 0, "a"},
		{1, h1, 5, ""},
		{1, h1, 5, "a"},
		{3, "8b1a9953c4611296a827abf8c47804d7", 5, "a/b"},
		{2, "da39a3ee5e6b4b0d3255bfef95601890afd80709", 0, "a/b"}, // empty blob, SHA-1
		{1, h1, 50, ""},
	}
	return u[:n]
}

// setSpec describes how one input set is built.
type setSpec struct {
	Adds []int  `json:"adds"` // universe indices in the order they are given to SetBuilder.Add
	Via  string `json:"via"`  // "builder", "singleton" (ToSingletonSet), "emptyset" (digest.EmptySet)
}

type mask uint32

func (s setSpec) members() (m mask) {
	for _, i := range s.Adds {
		m |= 1 << uint(i)
	}
	return
}

type setEnv struct {
	u        []rd
	real     []digest.Digest
	keys     []string // the digests' own String()
	rank     []int    // universe indices ordered by String()
	nonEmpty mask     // digests with size != 0
	index    map[digest.Digest]int
}

func newSetEnv(n int) (*setEnv, *finding) {
	e := &setEnv{u: universe(n), index: map[digest.Digest]int{}}
	for i, r := range e.u {
		d, f := buildReal(r)
		if f != nil {
			return nil, f
		}
		e.real = append(e.real, d)
		e.keys = append(e.keys, d.String())
		e.index[d] = i
		if r.Size != 0 {
			e.nonEmpty |= 1 << uint(i)
		}
	}
	for i := range e.u {
		e.rank = append(e.rank, i)
	}
	sort.Slice(e.rank, func(a, b int) bool { return e.keys[e.rank[a]] < e.keys[e.rank[b]] })
	return e, nil
}

// expected renders a reference set as the sorted list of universe indices.
func (e *setEnv) expected(m mask) []int {
	out := make([]int, 0, len(e.rank))
	for _, i := range e.rank {
		if m&(1<<uint(i)) != 0 {
			out = append(out, i)
		}
	}
	return out
}

func (e *setEnv) indexOf(d digest.Digest) int {
	if i, ok := e.index[d]; ok {
		return i
	}
	return -1
}

func (e *setEnv) keyOf(d digest.Digest) string {
	if i, ok := e.index[d]; ok {
		return e.keys[i]
	}
	return dstr(d)
}

// compare checks that a real Set is exactly the reference set, sorted and
// duplicate-free, and that its scalar accessors agree.
func (e *setEnv) compare(op string, s digest.Set, m mask) *finding {
	exp := e.expected(m)
	items := s.Items()
	length := s.Length()
	empty := s.Empty()
	first, okFirst := s.First()
	describe := func() []int {
		var got []int
		for _, d := range items {
			got = append(got, e.indexOf(d))
		}
		return got
	}
	for i := 1; i < len(items); i++ {
		a, b := e.keyOf(items[i-1]), e.keyOf(items[i])
		if a == b {
			return &finding{"set:" + op + ":duplicate", fmt.Sprintf("%s: result %v contains a duplicate (expected %v; universe indices)", op, describe(), exp)}
		}
		if a > b {
			return &finding{"set:" + op + ":unsorted", fmt.Sprintf("%s: result %v is not sorted (expected %v; universe indices)", op, describe(), exp)}
		}
	}
	same := len(items) == len(exp)
	for i := 0; same && i < len(exp); i++ {
		same = e.indexOf(items[i]) == exp[i]
	}
	if !same {
		return &finding{"set:" + op + ":wrong-elements", fmt.Sprintf("%s: result %v, expected %v (universe indices)", op, describe(), exp)}
	}
	if length != len(exp) || empty != (len(exp) == 0) || okFirst != (len(exp) > 0) || (okFirst && e.indexOf(first) != exp[0]) {
		return &finding{"set:" + op + ":accessors", fmt.Sprintf("%s: Length=%d Empty=%v First=(%d,%v) for expected set %v", op, length, empty, e.indexOf(first), okFirst, exp)}
	}
	return nil
}

func (e *setEnv) build(spec setSpec) (s digest.Set, f *finding) {
	pan := guard(func() {
		switch spec.Via {
		case "emptyset":
			s = digest.EmptySet
		case "singleton":
			s = e.real[spec.Adds[0]].ToSingletonSet()
		default:
			sb := digest.NewSetBuilder(len(spec.Adds) / 2)
			for _, i := range spec.Adds {
				sb.Add(e.real[i])
			}
			s = sb.Build()
		}
	})
	if pan != "" {
		x := panicFinding("SetBuilder", pan, fmt.Sprint(spec))
		return s, &x
	}
	return s, nil
}

// checkBuilder: one Add sequence; Build equals the model; Length agrees;
// building again and adding afterwards leaves the earlier set intact.
func (e *setEnv) checkBuilder(adds []int) (*finding, string) {
	var model mask
	var s1, s2, s3 digest.Set
	var l1 int
	if pan := guard(func() {
		sb := digest.NewSetBuilder(0)
		for _, i := range adds {
			sb.Add(e.real[i])
			model |= 1 << uint(i)
		}
		l1 = sb.Length()
		s1 = sb.Build()
		s2 = sb.Build()
		// keep using the builder
		sb.Add(e.real[0])
		s3 = sb.Build()
	}); pan != "" {
		x := panicFinding("SetBuilder", pan, fmt.Sprint(adds))
		return &x, "panic"
	}
	size := len(e.expected(model))
	if l1 != size {
		return &finding{"set:builder:length", fmt.Sprintf("adds %v: SetBuilder.Length() = %d, want %d", adds, l1, size)}, "bad"
	}
	var f *finding
	if pan := guard(func() {
		if f = e.compare("Build", s1, model); f != nil {
			return
		}
		if f = e.compare("Build-again", s2, model); f != nil {
			return
		}
		if f = e.compare("Build-after-more-adds", s3, model|1); f != nil {
			return
		}
		f = e.compare("Build-aliasing", s1, model)
	}); pan != "" {
		x := panicFinding("Set-accessors", pan, fmt.Sprint(adds))
		return &x, "panic"
	}
	if f != nil {
		return &finding{f.sig, fmt.Sprintf("adds %v: %s", adds, f.msg)}, "bad"
	}
	return nil, fmt.Sprintf("ok:size=%d:dups=%d", size, len(adds)-size)
}

type result struct {
	op    string
	s     digest.Set
	model mask
}

// checkFamily runs every operation on a family of sets and compares with the
// reference sets.
func (e *setEnv) checkFamily(specs []setSpec) (f *finding, evals int, outcome string) {
	stage := "build"
	if pan := guard(func() { f, evals, outcome = e.checkFamilyUnguarded(specs, &stage) }); pan != "" {
		x := panicFinding(stage, pan, fmt.Sprint(specs))
		return &x, evals, "panic"
	}
	return
}

func (e *setEnv) checkFamilyUnguarded(specs []setSpec, stage *string) (fs *finding, evals int, outcome string) {
	sets := make([]digest.Set, len(specs))
	models := make([]mask, len(specs))
	for i, sp := range specs {
		s, f := e.build(sp)
		if f != nil {
			return f, 1, "panic"
		}
		sets[i], models[i] = s, sp.members()
		if f := e.compare("build-"+sp.Via, s, models[i]); f != nil {
			return f, 1, "bad"
		}
	}
	results := make([]result, 0, 64)
	record := func(op string, s digest.Set, m mask) *finding {
		evals++
		results = append(results, result{op, s, m})
		return e.compare(op, s, m)
	}
	single := func(tag string, s digest.Set, m mask) *finding {
		*stage = "RemoveEmptyBlob"
		if f := record("RemoveEmptyBlob", s.RemoveEmptyBlob(), m&e.nonEmpty); f != nil {
			return &finding{f.sig, fmt.Sprintf("%s %v: %s", tag, e.expected(m), f.msg)}
		}
		*stage = "PartitionByInstanceName"
		parts := s.PartitionByInstanceName()
		var order []string
		var groups []mask
		for _, i := range e.expected(m) {
			in := e.u[i].Inst
			k := 0
			for k < len(order) && order[k] != in {
				k++
			}
			if k == len(order) {
				order = append(order, in)
				groups = append(groups, 0)
			}
			groups[k] |= 1 << uint(i)
		}
		if len(parts) != len(order) {
			return &finding{"set:PartitionByInstanceName:count", fmt.Sprintf("%s %v: %d partitions, want %d (%q)", tag, e.expected(m), len(parts), len(order), order)}
		}
		for k, p := range parts {
			if f := record("PartitionByInstanceName", p, groups[k]); f != nil {
				return &finding{f.sig, fmt.Sprintf("%s %v partition %d (instance %q): %s", tag, e.expected(m), k, order[k], f.msg)}
			}
		}
		return nil
	}
	// per-set operations
	for i := range sets {
		if f := single("input set", sets[i], models[i]); f != nil {
			return f, evals, "bad"
		}
	}
	// pairwise difference / intersection (ordered pairs, including a set with itself)
	*stage = "GetDifferenceAndIntersection"
	for i := range sets {
		for j := range sets {
			oa, both, ob := digest.GetDifferenceAndIntersection(sets[i], sets[j])
			tag := func(f *finding) *finding {
				return &finding{f.sig, fmt.Sprintf("A=%v B=%v: %s", e.expected(models[i]), e.expected(models[j]), f.msg)}
			}
			if f := record("GetDifferenceAndIntersection:onlyA", oa, models[i]&^models[j]); f != nil {
				return tag(f), evals, "bad"
			}
			if f := record("GetDifferenceAndIntersection:both", both, models[i]&models[j]); f != nil {
				return tag(f), evals, "bad"
			}
			if f := record("GetDifferenceAndIntersection:onlyB", ob, models[j]&^models[i]); f != nil {
				return tag(f), evals, "bad"
			}
		}
	}
	// union of the whole family, then filter / partition the union
	*stage = "GetUnion"
	un := digest.GetUnion(append([]digest.Set(nil), sets...))
	var mu mask
	for _, m := range models {
		mu |= m
	}
	if f := record("GetUnion", un, mu); f != nil {
		var in [][]int
		for _, m := range models {
			in = append(in, e.expected(m))
		}
		return &finding{f.sig, fmt.Sprintf("sets %v: %s", in, f.msg)}, evals, "bad"
	}
	if f := single("union", un, mu); f != nil {
		return f, evals, "bad"
	}
	// Inputs must not have been modified, and no later operation may have
	// damaged an earlier result (shared backing arrays).
	*stage = "Set-accessors"
	for i := range sets {
		if f := e.compare("input-after-operations", sets[i], models[i]); f != nil {
			return &finding{"set:input-mutated", fmt.Sprintf("input set %d (%v) changed after the operations: %s", i, specs[i], f.msg)}, evals, "bad"
		}
	}
	for _, r := range results {
		if f := e.compare(r.op, r.s, r.model); f != nil {
			return &finding{"set:result-clobbered:" + r.op, "an earlier result changed after later operations: " + f.msg}, evals, "bad"
		}
	}
	var sb strings.Builder
	sb.WriteString("ok:sizes=")
	for _, m := range models {
		sb.WriteByte(byte('0' + len(e.expected(m))))
		sb.WriteByte(',')
	}
	sb.WriteString(":union=")
	sb.WriteByte(byte('0' + len(e.expected(mu))))
	return nil, evals, sb.String()
}

// subsetSpecs lists the ways every subset of the universe is built: ascending
// single adds; descending with every element added twice followed by the
// ascending adds again (duplicates); and the package's own constructors for
// empty / singleton sets.
func subsetSpecs(n int) []setSpec {
	var out []setSpec
	for m := 0; m < 1<<n; m++ {
		var asc, desc []int
		for i := 0; i < n; i++ {
			if m&(1<<i) != 0 {
				asc = append(asc, i)
			}
		}
		for i := len(asc) - 1; i >= 0; i-- {
			desc = append(desc, asc[i], asc[i])
		}
		desc = append(desc, asc...)
		out = append(out, setSpec{Adds: asc, Via: "builder"})
		if len(asc) == 0 {
			out = append(out, setSpec{Via: "emptyset"})
		} else {
			out = append(out, setSpec{Adds: desc, Via: "builder"})
		}
		if len(asc) == 1 {
			out = append(out, setSpec{Adds: asc, Via: "singleton"})
		}
	}
	return out
}
