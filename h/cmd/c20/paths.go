package main

// Evaluation of one resource-name string against one ByteStream path parser,
// the malformed-class mutations of valid resource names, and the token-string
// enumeration.

import (
	"fmt"
	"math"
	"strconv"
	"strings"

	"github.com/buildbarn/bb-storage/pkg/digest"
	"google.golang.org/grpc/codes"
	"google.golang.org/grpc/status"
)

// pathExpect says what the oracle demands for a string.
type pathExpect struct {
	mode  string // "any": only totality + self-consistency; "reject": must be an error; "accept": must parse as want/comp
	class string // malformed class (for the signature) when mode == "reject"
	want  rd
	comp  int32
}

// checkPath feeds s to one parser. Oracle:
//   - never a panic;
//   - mode reject: an error must be returned;
//   - mode accept: must be accepted with exactly the expected components;
//   - whenever accepted: the digest is non-degenerate, its components occur in
//     the input at the places REv2 prescribes, and formatting it again and
//     parsing that gives the same digest and compressor.
func checkPath(parser, s string, ex pathExpect) (f *finding, outcome string) {
	p := parsePath(parser, s)
	if p.pan != "" {
		x := panicFinding(p.name, p.pan, fmt.Sprintf("%q", s))
		return &x, "panic"
	}
	if p.err != nil {
		if ex.mode == "accept" {
			return &finding{"valid-rejected:" + parser + "-path", fmt.Sprintf("%s rejects the valid resource name %q of %s: %v", p.name, s, ex.want, p.err)}, "reject"
		}
		return nil, rejectOutcome(p.err)
	}
	if ex.mode == "reject" {
		return &finding{"accepted-malformed:" + ex.class + ":" + parser + "-path", fmt.Sprintf("%s accepts %q (malformed class %s) as digest %q compressor %v", p.name, s, ex.class, dstr(p.d), p.c)}, "accept"
	}
	got, df := observe(p.d)
	if df != nil {
		return &finding{df.sig, fmt.Sprintf("%s(%q): %s", p.name, s, df.msg)}, "accept-degenerate"
	}
	if ex.mode == "accept" && (got != ex.want || int32(p.c) != ex.comp) {
		return &finding{"valid-misparsed:" + parser + "-path", fmt.Sprintf("%s(%q) = %s compressor %v, want %s compressor %d", p.name, s, got, p.c, ex.want, ex.comp)}, "accept"
	}
	if msg := consistentWithInput(parser, s, got, int32(p.c)); msg != "" {
		return &finding{"accepted-inconsistent:" + parser + "-path", fmt.Sprintf("%s(%q) = %s compressor %v: %s", p.name, s, got, p.c, msg)}, "accept"
	}
	if rf := roundTripPath(parser, p.d, p.c, got.Inst); rf != nil {
		return &finding{rf.sig, fmt.Sprintf("after %s accepted %q: %s", p.name, s, rf.msg)}, "accept"
	}
	return nil, fmt.Sprintf("accept:fn=%d:comp=%d:components=%d", got.Fn, p.c, len(splitInstance(got.Inst)))
}

var rejectOutcomes = func() (o [17]string) {
	for i := range o {
		o[i] = "reject:" + codes.Code(i).String()
	}
	return
}()

func rejectOutcome(err error) string {
	if c := status.Code(err); int(c) < len(rejectOutcomes) {
		return rejectOutcomes[c]
	}
	return "reject:other"
}

// consistentWithInput checks an accepted digest against the places REv2 gives
// to its components in the resource name.
func consistentWithInput(parser, s string, got rd, comp int32) string {
	fields := nonEmptyFields(s)
	comps := splitInstance(got.Inst)
	if len(comps) >= len(fields) {
		return "instance name is not a proper prefix of the resource name"
	}
	for i, c := range comps {
		if fields[i] != c {
			return "instance name is not a prefix of the resource name"
		}
	}
	next := fields[len(comps)]
	if parser == "write" && next != "uploads" {
		return "the component after the instance name is not \"uploads\""
	}
	if parser == "read" && next != "blobs" && next != "compressed-blobs" {
		return "the component after the instance name is neither \"blobs\" nor \"compressed-blobs\""
	}
	found := false
	for i := len(comps); i+1 < len(fields); i++ {
		if fields[i] != got.Hash {
			continue
		}
		if v, err := strconv.ParseInt(fields[i+1], 10, 64); err != nil || v != got.Size {
			continue
		}
		if n, ok := fnPathName[got.Fn]; ok {
			if i == 0 || fields[i-1] != n {
				continue
			}
		}
		found = true
	}
	if !found {
		return "hash, size (and explicit function name) do not occur consecutively in the resource name"
	}
	if _, ok := fnPathName[got.Fn]; !ok && inferredFn[len(got.Hash)] != got.Fn {
		return "function is neither named in the resource name nor the one implied by the hash length"
	}
	if comp != 0 {
		n, ok := compPathName[comp]
		if !ok {
			return "unknown compressor value returned"
		}
		okc := false
		for i := 0; i+1 < len(fields); i++ {
			if fields[i] == "compressed-blobs" && fields[i+1] == n {
				okc = true
			}
		}
		if !okc {
			return "compressor does not occur after \"compressed-blobs\" in the resource name"
		}
	}
	return ""
}

func dstr(d digest.Digest) string {
	var s string
	if p := guard(func() { s = d.String() }); p != "" {
		return "<degenerate digest; String() panics: " + p + ">"
	}
	return s
}

// ---- malformed classes -------------------------------------------------------

type mutation struct {
	class string
	s     string
}

var badHexChars = []string{"A", "F", "G", "g", "z", " ", "-", ":", "`", "@", "\x00", "\x7f", "\x80", "\xff", "é"}

var negativeSizes = []string{"-1", "-12", strconv.FormatInt(math.MinInt64, 10)}

var nonNumericSizes = []string{"x", "1x", "x1", "1.5", "0x10", "1e3", " 1", "1 ", "1_000", "--1", "-", "١٢", "NaN", "twelve"}

var unknownFunctionNames = []string{"bogus", "vso", "murmur3", "blake2b", "unknown", "sha3"}

var unknownCompressorNames = []string{"bogus", "gzip", "lz4", "xz", "zst", "zstd1"}

// wrongLengths returns hash strings of lengths that are invalid for the digest
// in question. With an explicitly named function any other length is wrong;
// when the function is inferred from the length, only lengths that belong to
// no function are wrong.
func wrongLengths(r rd) []string {
	h := r.Hash
	long := h + h + h
	_, explicit := fnPathName[r.Fn]
	var lens []int
	for _, l := range []int{1, 2, 31, 33, 39, 41, 63, 65, 95, 97, 127, 129, 130, 256, len(h) - 1, len(h) + 1, len(h) - 2, len(h) + 2} {
		lens = append(lens, l)
	}
	if explicit {
		lens = append(lens, 32, 40, 64, 96, 128)
	}
	seen := map[int]bool{}
	var out []string
	for _, l := range lens {
		if l <= 0 || l == len(h) || seen[l] {
			continue
		}
		if !explicit {
			if _, ok := inferredFn[l]; ok {
				continue
			}
		}
		seen[l] = true
		for len(long) < l {
			long += h
		}
		out = append(out, long[:l])
	}
	return out
}

func pathMutations(r rd, comp int32, write bool) (base string, muts []mutation) {
	p := refParts(r, comp, write)
	base = p.join()
	add := func(class string, q pathParts) { muts = append(muts, mutation{class, q.join()}) }
	// wrong hash length
	for _, h := range wrongLengths(r) {
		q := p
		q.hash = h
		add("hash-length", q)
	}
	// non-lowercase-hex characters
	for _, pos := range []int{0, len(r.Hash) / 2, len(r.Hash) - 1} {
		for _, c := range badHexChars {
			q := p
			q.hash = r.Hash[:pos] + c + r.Hash[pos+1:]
			add("non-lowercase-hex", q)
		}
	}
	q := p
	q.hash = strings.ToUpper(r.Hash)
	if q.hash != r.Hash {
		add("non-lowercase-hex", q)
	}
	// sizes
	for _, s := range negativeSizes {
		q := p
		q.size = s
		add("negative-size", q)
	}
	for _, s := range nonNumericSizes {
		q := p
		q.size = s
		add("non-numeric-size", q)
	}
	// reserved keyword in the instance name: replace each component, insert at each position
	for _, k := range reservedKeywords {
		for i := range p.inst {
			q := p
			q.inst = append(append(append([]string(nil), p.inst[:i]...), k), p.inst[i+1:]...)
			add("reserved-keyword", q)
		}
		for i := 0; i <= len(p.inst); i++ {
			q := p
			q.inst = append(append(append([]string(nil), p.inst[:i]...), k), p.inst[i:]...)
			add("reserved-keyword", q)
		}
	}
	// unknown function
	for _, n := range unknownFunctionNames {
		q := p
		q.fn = []string{n}
		add("unknown-function", q)
	}
	// unknown compressor
	for _, n := range unknownCompressorNames {
		q := p
		q.comp = []string{"compressed-blobs", n}
		add("unknown-compressor", q)
	}
	// truncation at every component
	f := p.fields()
	for i := 0; i < len(f); i++ {
		t := strings.Join(f[:i], "/")
		muts = append(muts, mutation{"truncated", t})
		if i > 0 {
			muts = append(muts, mutation{"truncated", t + "/"})
		}
	}
	return base, muts
}

// ---- token strings ---------------------------------------------------------

var (
	hex64       = "e3b0c44298fc1c149afbf4c8996fb92427ae41e4649b934ca495991b7852b855"
	tokenAlphaA = []string{
		"", "a", "blobs", "uploads", "compressed-blobs", "zstd", "bogus", "sha256", "blake3",
		hex64, hex64[:63], hex64 + "0", strings.ToUpper(hex64), "12", "-1", "x", fixedUUIDString,
	}
	tokenAlphaB = append(append([]string(nil), tokenAlphaA...),
		".", "..", "deflate", "brotli", "identity", "sha256tree", "gitsha1", "md5",
		hex64[:40], hex64[:32], hex64+hex64[:32], hex64+hex64, "0", "+5", "9223372036854775807", "9223372036854775808",
		"actions", "actionResults", "operations", "capabilities", "BLAKE3", "\xff",
	)
)

func isHexLike(t string) bool {
	if len(t) < 32 {
		return false
	}
	for i := 0; i < len(t); i++ {
		c := t[i]
		if !(c >= '0' && c <= '9') && !(c >= 'a' && c <= 'f') && !(c >= 'A' && c <= 'F') {
			return false
		}
	}
	return true
}

// tokenJobs splits the space of all token sequences of length <= maxTok into
// independent jobs (one per prefix of length <= 2).
type tokenJob struct{ prefix []int }

func tokenJobs(n, maxTok int) []tokenJob {
	jobs := []tokenJob{{nil}}
	if maxTok >= 1 {
		for i := 0; i < n; i++ {
			jobs = append(jobs, tokenJob{[]int{i}})
		}
	}
	if maxTok >= 2 {
		for i := 0; i < n; i++ {
			for j := 0; j < n; j++ {
				jobs = append(jobs, tokenJob{[]int{i, j}})
			}
		}
	}
	return jobs
}

// forEachSequence calls visit for every token sequence that the job owns: the
// prefix itself if shorter than 2 tokens, otherwise every extension of it up
// to maxTok tokens. nontrivial = contains a structural keyword and a hex-like token.
func (j tokenJob) forEachSequence(alpha []string, maxTok int, visit func(joined string, nontrivial, full bool)) {
	var toks []string
	kw, hx := 0, 0
	push := func(i int) {
		t := alpha[i]
		toks = append(toks, t)
		if t == "blobs" || t == "compressed-blobs" || t == "uploads" {
			kw++
		}
		if isHexLike(t) {
			hx++
		}
	}
	pop := func() {
		t := toks[len(toks)-1]
		toks = toks[:len(toks)-1]
		if t == "blobs" || t == "compressed-blobs" || t == "uploads" {
			kw--
		}
		if isHexLike(t) {
			hx--
		}
	}
	for _, i := range j.prefix {
		push(i)
	}
	var rec func()
	rec = func() {
		visit(strings.Join(toks, "/"), kw > 0 && hx > 0, len(toks) >= maxTok)
		if len(toks) >= maxTok {
			return
		}
		for i := range alpha {
			push(i)
			rec()
			pop()
		}
	}
	if len(j.prefix) < 2 {
		visit(strings.Join(toks, "/"), kw > 0 && hx > 0, len(toks) >= maxTok)
		return
	}
	rec()
}

// slashVariants: sequences shorter than the bound are also tried with a
// leading and/or trailing slash; sequences of full length only as they are
// (the empty token already yields leading, trailing and doubled slashes for
// all shorter sequences).
func slashVariants(s string, full bool) []string {
	if full {
		return []string{s}
	}
	return []string{s, "/" + s, s + "/", "/" + s + "/"}
}
