package main

// Round trips of valid digests through every codec, ancestor chains and key
// equality.

import (
	"fmt"
	"math"
	"strings"

	remoteexecution "github.com/bazelbuild/remote-apis/build/bazel/remote/execution/v2"
	"github.com/buildbarn/bb-storage/pkg/digest"
)

// hashesFor returns the hash values used for a function: all-zero, all-f, two
// patterns that contain every hex digit, and a real hash (of "hello") produced
// by the package's own Generator.
func hashesFor(fn int32) []string {
	n := hashHexLen[fn]
	rep := func(p string) string { return strings.Repeat(p, n/len(p)+1)[:n] }
	out := []string{rep("0"), rep("f"), rep("0123456789abcdef"), rep("fedcba9876543210a9")}
	var real string
	guard(func() {
		f := digest.MustNewFunction("", fnEnum(fn))
		g := f.NewGenerator(5)
		g.Write([]byte("hello"))
		real = g.Sum().GetHashString()
	})
	if len(real) == n && isLowerHex(real) {
		out = append(out, real)
	}
	return out
}

func sizesFor(thorough bool) []int64 {
	s := []int64{0, 1, 9, 10, math.MaxInt64}
	if thorough {
		s = append(s, 11, 99, 100, 1<<32, math.MaxInt64-1)
	}
	return s
}

func instancesFor(thorough bool) []string {
	s := []string{"", "a", "a/b", "hello/world/x"}
	if thorough {
		s = append(s, "a/b/c/d/e/f/g/h", "x-1/0-y", "blake3/zstd")
	}
	return s
}

// Instance names that NewInstanceName must accept (no reserved keyword, no
// redundant slash) but that are unusual: dashes and digits (the packed key uses
// '-' as separator), components equal to function / compressor names or to
// hash-and-size-looking strings, near-keywords, non-ASCII and non-UTF-8 bytes,
// and "." / ".." components.
var exoticInstances = []string{
	"-", "0-a", "1", "1-2-3/4-5", "a-b/c-d", "blake3", "zstd", "sha256", "12", "-1",
	"blobsx", "xblobs", "Blobs", "upload", "uploads-x", "compressed-blobs2", "actionresults",
	"a b", "é", "\xff\xfe", "a\x00b", fixedUUIDString,
	strings.Repeat("0", 64) + "/12", strings.Repeat("0", 64),
	".", "..", "a/.", "a/..", "./a", "../a", "a/./b", "a/../b", "...", ".a", "a.",
}

func allDigests(thorough bool) []rd {
	var out []rd
	for _, fn := range supported {
		for _, h := range hashesFor(fn) {
			for _, sz := range sizesFor(thorough) {
				for _, in := range instancesFor(thorough) {
					out = append(out, rd{fn, h, sz, in})
				}
			}
		}
	}
	return out
}

// checkDigest runs every round trip for one valid digest. It returns the
// findings, the number of codec evaluations, and an outcome label.
func checkDigest(want rd) (fs []finding, evals int, outcome string) {
	add := func(f *finding) bool {
		if f != nil {
			fs = append(fs, *f)
			return true
		}
		return false
	}
	d, f := buildReal(want)
	if add(f) {
		return fs, 1, "construction-failed"
	}
	got, f := observe(d)
	evals++
	if add(f) {
		return fs, evals, "degenerate"
	}
	if got != want {
		fs = append(fs, finding{"accessor-mismatch:components", fmt.Sprintf("digest built from %s reports components %s", want, got)})
		return fs, evals, "accessor-mismatch"
	}
	// ByteStream read and write paths, every compressor.
	for _, parser := range []string{"read", "write"} {
		for _, c := range compressors {
			evals++
			add(roundTripPath(parser, d, compEnum(c), want.Inst))
		}
	}
	// REv2 message.
	evals++
	var p *remoteexecution.Digest
	var d2, d3, d4 digest.Digest
	var e2, e3, e4 error
	inferrable := inferredFn[len(want.Hash)] == want.Fn
	if pan := guard(func() {
		p = d.GetProto()
		d2, e2 = d.GetDigestFunction().NewDigestFromProto(p)
		in, err := digest.NewInstanceName(want.Inst)
		if err != nil {
			e3 = err
			return
		}
		fun, err := in.GetDigestFunction(fnEnum(want.Fn), 0)
		if err != nil {
			e3 = err
			return
		}
		d3, e3 = fun.NewDigestFromProto(p)
		if inferrable {
			fun, err = in.GetDigestFunction(remoteexecution.DigestFunction_UNKNOWN, len(p.GetHash()))
			if err != nil {
				e4 = err
				return
			}
			d4, e4 = fun.NewDigestFromProto(p)
		}
	}); pan != "" {
		fs = append(fs, panicFinding("GetProto/NewDigestFromProto", pan, want.String()))
	} else {
		switch {
		case p == nil || p.Hash != want.Hash || p.SizeBytes != want.Size:
			fs = append(fs, finding{"roundtrip:proto:wrong-message", fmt.Sprintf("%s: GetProto returned %v", want, p)})
		case e2 != nil || e3 != nil:
			fs = append(fs, finding{"roundtrip:proto:rejected", fmt.Sprintf("%s: NewDigestFromProto(GetProto()) failed: %v / %v", want, e2, e3)})
		case d2 != d || d3 != d:
			fs = append(fs, finding{"roundtrip:proto:different-digest", fmt.Sprintf("%s: NewDigestFromProto(GetProto()) gave %q / %q, want %q", want, dstr(d2), dstr(d3), dstr(d))})
		case inferrable && (e4 != nil || d4 != d):
			fs = append(fs, finding{"roundtrip:proto:inferred-function", fmt.Sprintf("%s: with the function inferred from hash length %d: %q, %v; want %q", want, len(want.Hash), dstr(d4), e4, dstr(d))})
		}
	}
	// Compact binary (does not carry the instance name: parse under the same one).
	evals++
	var cb []byte
	var d5 digest.Digest
	var e5 error
	if pan := guard(func() {
		cb = d.GetCompactBinary()
	}); pan != "" {
		fs = append(fs, panicFinding("GetCompactBinary", pan, want.String()))
	} else {
		cbCopy := append([]byte(nil), cb...)
		var pan string
		d5, e5, pan = parseCompact(d.GetInstanceName(), cbCopy)
		switch {
		case pan != "":
			fs = append(fs, panicFinding("NewDigestFromCompactBinary", pan, fmt.Sprintf("%x", cb)))
		case e5 != nil:
			fs = append(fs, finding{"roundtrip:compact-binary:rejected", fmt.Sprintf("%s: compact binary %x rejected: %v", want, cb, e5)})
		case d5 != d:
			fs = append(fs, finding{"roundtrip:compact-binary:different-digest", fmt.Sprintf("%s: compact binary %x parses back as %q", want, cb, dstr(d5))})
		}
		// Under another instance name only the instance name may differ.
		other, _ := digest.NewInstanceName("other/name")
		d6, e6, pan := parseCompact(other, cbCopy)
		if pan != "" {
			fs = append(fs, panicFinding("NewDigestFromCompactBinary", pan, fmt.Sprintf("%x", cb)))
		} else if e6 != nil {
			fs = append(fs, finding{"roundtrip:compact-binary:rejected", fmt.Sprintf("%s: compact binary %x rejected under instance other/name: %v", want, cb, e6)})
		} else if o, f := observe(d6); f != nil {
			fs = append(fs, *f)
		} else if (o != rd{want.Fn, want.Hash, want.Size, "other/name"}) {
			fs = append(fs, finding{"roundtrip:compact-binary:different-digest", fmt.Sprintf("%s: compact binary %x under instance other/name parses as %s", want, cb, o)})
		}
	}
	// Keys: deterministic, instance-aware key == String().
	evals++
	var k0, k1, k0b, k1b string
	if pan := guard(func() {
		k0, k1 = d.GetKey(digest.KeyWithoutInstance), d.GetKey(digest.KeyWithInstance)
		k0b, k1b = d2.GetKey(digest.KeyWithoutInstance), d2.GetKey(digest.KeyWithInstance)
	}); pan != "" {
		fs = append(fs, panicFinding("GetKey", pan, want.String()))
	} else if k0 != k0b || k1 != k1b {
		fs = append(fs, finding{"key:not-deterministic", fmt.Sprintf("%s: keys differ between two constructions of the same digest: %q/%q vs %q/%q", want, k0, k1, k0b, k1b)})
	}
	// Ancestors: exactly the chain of component prefixes.
	evals++
	fs = append(fs, checkParents(want, d)...)
	if len(fs) == 0 {
		return fs, evals, fmt.Sprintf("ok:fn=%d:sizeDigits=%d:components=%d", want.Fn, len(fmt.Sprint(want.Size)), len(splitInstance(want.Inst)))
	}
	return fs, evals, "violation:" + fs[0].sig
}

func checkParents(want rd, d digest.Digest) (fs []finding) {
	var chain []digest.Digest
	if pan := guard(func() { chain = d.GetDigestsWithParentInstanceNames() }); pan != "" {
		return []finding{panicFinding("GetDigestsWithParentInstanceNames", pan, want.String())}
	}
	comps := splitInstance(want.Inst)
	var got []string
	for _, c := range chain {
		o, f := observe(c)
		if f != nil {
			return []finding{{"parents:" + f.sig, fmt.Sprintf("%s: element of ancestor chain: %s", want, f.msg)}}
		}
		if o.Fn != want.Fn || o.Hash != want.Hash || o.Size != want.Size {
			return []finding{{"parents:changed-hash-or-size", fmt.Sprintf("%s: ancestor chain contains %s", want, o)}}
		}
		got = append(got, o.Inst)
	}
	var exp []string
	for i := 0; i <= len(comps); i++ {
		exp = append(exp, strings.Join(comps[:i], "/"))
	}
	if strings.Join(got, "\x00") != strings.Join(exp, "\x00") || len(got) != len(exp) {
		return []finding{{"parents:wrong-chain", fmt.Sprintf("%s: ancestor instance names %q, want %q", want, got, exp)}}
	}
	// Every element must be identical to the digest built from scratch.
	for i, in := range exp {
		e, f := buildReal(rd{want.Fn, want.Hash, want.Size, in})
		if f != nil {
			return []finding{*f}
		}
		if e != chain[i] {
			return []finding{{"parents:element-not-equal", fmt.Sprintf("%s: ancestor %d is %q, a digest built for instance %q is %q", want, i, dstr(chain[i]), in, dstr(e))}}
		}
	}
	if chain[len(chain)-1] != d {
		return []finding{{"parents:last-not-self", fmt.Sprintf("%s: last ancestor is %q", want, dstr(chain[len(chain)-1]))}}
	}
	return nil
}

// checkKeyPair: equal keys <=> equal components.
func checkKeyPair(a, b rd, da, db digest.Digest) *finding {
	var a0, a1, b0, b1 string
	if pan := guard(func() {
		a0, a1 = da.GetKey(digest.KeyWithoutInstance), da.GetKey(digest.KeyWithInstance)
		b0, b1 = db.GetKey(digest.KeyWithoutInstance), db.GetKey(digest.KeyWithInstance)
	}); pan != "" {
		x := panicFinding("GetKey", pan, a.String()+" / "+b.String())
		return &x
	}
	same3 := a.Fn == b.Fn && a.Hash == b.Hash && a.Size == b.Size
	same4 := same3 && a.Inst == b.Inst
	if (a0 == b0) != same3 {
		return &finding{"key:without-instance:equality", fmt.Sprintf("%s and %s: keys without instance %q and %q; equal=%v but function/hash/size equal=%v", a, b, a0, b0, a0 == b0, same3)}
	}
	if (a1 == b1) != same4 {
		return &finding{"key:with-instance:equality", fmt.Sprintf("%s and %s: keys with instance %q and %q; equal=%v but components equal=%v", a, b, a1, b1, a1 == b1, same4)}
	}
	if (da == db) != same4 {
		return &finding{"key:digest-equality", fmt.Sprintf("%s and %s: Digest values compare equal=%v but components equal=%v", a, b, da == db, same4)}
	}
	return nil
}
