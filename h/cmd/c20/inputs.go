package main

// Checks of NewInstanceName, NewDigestFromProto and the compact binary parser
// on arbitrary input.

import (
	"bytes"
	"encoding/hex"
	"fmt"
	"strings"

	remoteexecution "github.com/bazelbuild/remote-apis/build/bazel/remote/execution/v2"
	"github.com/buildbarn/bb-storage/pkg/digest"
)

// checkInstance: NewInstanceName accepts exactly the strings without
// redundant slashes and reserved keywords, and an accepted name reproduces
// its input.
func checkInstance(s string) (*finding, string) {
	var in digest.InstanceName
	var err error
	if pan := guard(func() { in, err = digest.NewInstanceName(s) }); pan != "" {
		x := panicFinding("NewInstanceName", pan, fmt.Sprintf("%q", s))
		return &x, "panic"
	}
	class := instanceNameClass(s)
	if err != nil {
		if class == "" {
			return &finding{"valid-rejected:instance-name", fmt.Sprintf("NewInstanceName(%q) rejects a name without redundant slashes or reserved keywords: %v", s, err)}, "reject"
		}
		return nil, "reject:" + class
	}
	if class != "" {
		return &finding{"accepted-malformed:" + class + ":instance-name", fmt.Sprintf("NewInstanceName(%q) accepts a name with %s", s, class)}, "accept"
	}
	var str string
	var comps []string
	var in2 digest.InstanceName
	var err2 error
	if pan := guard(func() {
		str = in.String()
		comps = in.GetComponents()
		in2, err2 = digest.NewInstanceNameFromComponents(comps)
	}); pan != "" {
		x := panicFinding("InstanceName-accessors", pan, fmt.Sprintf("%q", s))
		return &x, "panic"
	}
	if str != s {
		return &finding{"roundtrip:instance-name:string", fmt.Sprintf("NewInstanceName(%q).String() = %q", s, str)}, "accept"
	}
	if strings.Join(comps, "\x00") != strings.Join(splitInstance(s), "\x00") || len(comps) != len(splitInstance(s)) {
		return &finding{"roundtrip:instance-name:components", fmt.Sprintf("NewInstanceName(%q).GetComponents() = %q", s, comps)}, "accept"
	}
	if err2 != nil || in2 != in {
		return &finding{"roundtrip:instance-name:from-components", fmt.Sprintf("NewInstanceNameFromComponents(%q) = %q, %v; want %q", comps, in2.String(), err2, s)}, "accept"
	}
	return nil, fmt.Sprintf("accept:components=%d", len(comps))
}

type protoCase struct {
	Inst     string `json:"instance"`
	Fn       int32  `json:"fn"`
	Fallback int    `json:"fallback_hash_length"`
	Hash     []byte `json:"hash"`
	Size     int64  `json:"size"`
	Nil      bool   `json:"nil_message"`
}

// checkProto: GetDigestFunction + NewDigestFromProto accept exactly the
// (function, hash, size) triples that are well formed.
func checkProto(c protoCase) (*finding, string) {
	in, err := digest.NewInstanceName(c.Inst)
	if err != nil {
		return &finding{"valid-rejected:instance-name", fmt.Sprintf("NewInstanceName(%q): %v", c.Inst, err)}, "reject"
	}
	resolved, ok := c.Fn, isSupported(c.Fn)
	if c.Fn == 0 {
		resolved, ok = inferredFn[c.Fallback]
	}
	var fun digest.Function
	if pan := guard(func() { fun, err = in.GetDigestFunction(fnEnum(c.Fn), c.Fallback) }); pan != "" {
		x := panicFinding("GetDigestFunction", pan, fmt.Sprintf("(%d, %d)", c.Fn, c.Fallback))
		return &x, "panic"
	}
	if !ok {
		if err == nil {
			return &finding{"accepted-malformed:unknown-function:GetDigestFunction", fmt.Sprintf("GetDigestFunction(%d, %d) succeeds although that is no supported function", c.Fn, c.Fallback)}, "accept"
		}
		return nil, "reject:unknown-function"
	}
	if err != nil {
		return &finding{"valid-rejected:GetDigestFunction", fmt.Sprintf("GetDigestFunction(%d, %d) fails: %v", c.Fn, c.Fallback, err)}, "reject"
	}
	var ev int32
	var fin string
	guard(func() { ev = int32(fun.GetEnumValue()); fin = fun.GetInstanceName().String() })
	if ev != resolved || fin != c.Inst {
		return &finding{"accessor-mismatch:Function", fmt.Sprintf("GetDigestFunction(%d, %d) under %q yields function %d instance %q, want %d", c.Fn, c.Fallback, c.Inst, ev, fin, resolved)}, "accept"
	}
	var msg *remoteexecution.Digest
	hash := string(c.Hash)
	if !c.Nil {
		msg = &remoteexecution.Digest{Hash: hash, SizeBytes: c.Size}
	}
	var d digest.Digest
	if pan := guard(func() { d, err = fun.NewDigestFromProto(msg) }); pan != "" {
		x := panicFinding("NewDigestFromProto", pan, fmt.Sprintf("fn %d hash %q size %d nil=%v", resolved, hash, c.Size, c.Nil))
		return &x, "panic"
	}
	class := ""
	switch {
	case c.Nil:
		class = "nil-message"
	case len(hash) != hashHexLen[resolved]:
		class = "hash-length"
	case !isLowerHex(hash):
		class = "non-lowercase-hex"
	case c.Size < 0:
		class = "negative-size"
	}
	if err != nil {
		if class == "" {
			return &finding{"valid-rejected:NewDigestFromProto", fmt.Sprintf("NewDigestFromProto rejects fn %d hash %q size %d: %v", resolved, hash, c.Size, err)}, "reject"
		}
		return nil, "reject:" + class
	}
	if class == "nil-message" {
		// Not a class named by the property; only totality is demanded. A
		// digest coming out of it must still be non-degenerate.
		if _, f := observe(d); f != nil {
			return f, "accept-degenerate"
		}
		return nil, "accept:nil-message"
	}
	if class != "" {
		return &finding{"accepted-malformed:" + class + ":NewDigestFromProto", fmt.Sprintf("NewDigestFromProto accepts fn %d hash %q (len %d) size %d (class %s) as %q", resolved, hash, len(hash), c.Size, class, dstr(d))}, "accept"
	}
	got, f := observe(d)
	if f != nil {
		return f, "accept-degenerate"
	}
	if (got != rd{resolved, hash, c.Size, c.Inst}) {
		return &finding{"valid-misparsed:NewDigestFromProto", fmt.Sprintf("NewDigestFromProto(fn %d hash %q size %d instance %q) = %s", resolved, hash, c.Size, c.Inst, got)}, "accept"
	}
	var back *remoteexecution.Digest
	guard(func() { back = d.GetProto() })
	if back == nil || back.Hash != hash || back.SizeBytes != c.Size {
		return &finding{"roundtrip:proto:wrong-message", fmt.Sprintf("GetProto of %s = %v", got, back)}, "accept"
	}
	return nil, fmt.Sprintf("accept:fn=%d", resolved)
}

// allWrongLengths: hash strings (made of the characters of h) of every length
// near a supported length, other than len(h).
func allWrongLengths(h string) []string {
	long := h
	for len(long) < 300 {
		long += h
	}
	var out []string
	for _, l := range []int{0, 1, 2, 31, 32, 33, 39, 40, 41, 63, 64, 65, 95, 96, 97, 127, 128, 129, 130, 256} {
		if l != len(h) {
			out = append(out, long[:l])
		}
	}
	return out
}

// ---- compact binary --------------------------------------------------------

type compactRef struct {
	class    string // "" valid; "truncated", "unknown-function", "negative-size" must be rejected; "varint-overflow" is don't-care
	fn       int32
	hash     string
	size     int64
	consumed int
}

func refCompactDecode(b []byte) compactRef {
	if len(b) == 0 {
		return compactRef{class: "truncated"}
	}
	fn := int32(b[0])
	if !isSupported(fn) {
		return compactRef{class: "unknown-function"}
	}
	n := hashHexLen[fn] / 2
	if len(b) < 1+n {
		return compactRef{class: "truncated"}
	}
	r := compactRef{fn: fn, hash: hex.EncodeToString(b[1 : 1+n])}
	rest := b[1+n:]
	var ux uint64
	var shift uint
	done := false
	for i, c := range rest {
		if i == 10 {
			r.class = "varint-overflow"
			return r
		}
		if c < 0x80 {
			if i == 9 && c > 1 {
				r.class = "varint-overflow"
				return r
			}
			ux |= uint64(c) << shift
			done = true
			r.consumed = 1 + n + i + 1
			break
		}
		ux |= uint64(c&0x7f) << shift
		shift += 7
	}
	if !done {
		r.class = "truncated"
		return r
	}
	x := int64(ux >> 1)
	if ux&1 != 0 {
		x = ^x
	}
	r.size = x
	if x < 0 {
		r.class = "negative-size"
	}
	return r
}

func checkCompact(inst string, b []byte) (*finding, string) {
	in, err := digest.NewInstanceName(inst)
	if err != nil {
		return &finding{"valid-rejected:instance-name", fmt.Sprintf("NewInstanceName(%q): %v", inst, err)}, "reject"
	}
	ref := refCompactDecode(b)
	d, err, pan := parseCompact(in, append([]byte(nil), b...))
	if pan != "" {
		x := panicFinding("NewDigestFromCompactBinary", pan, fmt.Sprintf("%x", b))
		return &x, "panic"
	}
	if err != nil {
		if ref.class == "" {
			// Valid by the reference: must be accepted if it is what the
			// package itself emits for that digest.
			if rdg, f := buildReal(rd{ref.fn, ref.hash, ref.size, inst}); f == nil {
				var enc []byte
				guard(func() { enc = rdg.GetCompactBinary() })
				if bytes.Equal(enc, b[:ref.consumed]) {
					return &finding{"roundtrip:compact-binary:rejected", fmt.Sprintf("NewDigestFromCompactBinary rejects %x, the encoding of %q: %v", b, dstr(rdg), err)}, "reject"
				}
			}
			return nil, "reject:other"
		}
		return nil, "reject:" + ref.class
	}
	if ref.class == "truncated" || ref.class == "unknown-function" || ref.class == "negative-size" {
		return &finding{"accepted-malformed:" + ref.class + ":compact-binary", fmt.Sprintf("NewDigestFromCompactBinary accepts %x (class %s) as %q", b, ref.class, dstr(d))}, "accept"
	}
	got, f := observe(d)
	if f != nil {
		return &finding{f.sig, fmt.Sprintf("NewDigestFromCompactBinary(%x): %s", b, f.msg)}, "accept-degenerate"
	}
	if ref.class == "" && (got != rd{ref.fn, ref.hash, ref.size, inst}) {
		return &finding{"valid-misparsed:compact-binary", fmt.Sprintf("NewDigestFromCompactBinary(%x) = %s, the bytes say fn %d hash %s size %d", b, got, ref.fn, ref.hash, ref.size)}, "accept"
	}
	var enc []byte
	if pan := guard(func() { enc = d.GetCompactBinary() }); pan != "" {
		x := panicFinding("GetCompactBinary", pan, got.String())
		return &x, "panic"
	}
	d2, err2, pan := parseCompact(in, enc)
	if pan != "" {
		x := panicFinding("NewDigestFromCompactBinary", pan, fmt.Sprintf("%x", enc))
		return &x, "panic"
	}
	if err2 != nil || d2 != d {
		return &finding{"roundtrip:compact-binary:different-digest", fmt.Sprintf("%x accepted as %s; re-encoded %x parses as %q, %v", b, got, enc, dstr(d2), err2)}, "accept"
	}
	return nil, fmt.Sprintf("accept:fn=%d:%s", got.Fn, ref.class)
}

// zigzag varint encodings used for the structured compact-binary space.
func varintEncodings() [][]byte {
	enc := func(x int64) []byte {
		ux := uint64(x) << 1
		if x < 0 {
			ux = ^ux
		}
		var out []byte
		for ux >= 0x80 {
			out = append(out, byte(ux)|0x80)
			ux >>= 7
		}
		return append(out, byte(ux))
	}
	var out [][]byte
	for _, v := range []int64{0, 1, -1, 2, 63, 64, -64, -65, 127, 128, 8191, 8192, 1 << 32, 1<<63 - 1, -1 << 63, -(1 << 62)} {
		out = append(out, enc(v))
	}
	out = append(out,
		[]byte{0x80, 0x00},       // non-minimal zero
		[]byte{0x82, 0x80, 0x00}, // non-minimal one
		[]byte{0xff, 0xff, 0xff, 0xff, 0xff, 0xff, 0xff, 0xff, 0xff, 0x02},       // overflow in the 10th byte
		[]byte{0xff, 0xff, 0xff, 0xff, 0xff, 0xff, 0xff, 0xff, 0xff, 0xff, 0x01}, // 11 bytes
		[]byte{0x80, 0x80, 0x80, 0x80, 0x80, 0x80, 0x80, 0x80, 0x80, 0x80, 0x80, 0x80},
	)
	return out
}
