//go:build verif

// C17 — read caching, fallback, replicators and existence caches are transparent.
//
//	transparency/*  real NewReadCachingBlobAccess / NewReadFallbackBlobAccess over gated, fault-injecting
//	                model backends and each replicator strategy {noop, local, deduplicating, concurrency-
//	                limiting, queued}: every initial placement x every operation sequence of the stated
//	                depth, all schedules and every placement of an injected backend failure in the bound.
//	replicators/*   2-3 concurrent callers of ReplicateMultiple / ReplicateSingle with overlapping digest
//	                sets over a gated model source and sink; sink/source failures and context
//	                cancellation are choice points. Counting decorators give the number of concurrently
//	                active base copies per object / overall at every instant.
//	existence/*     real NewExistenceCachingBlobAccess with the real ExistenceCache (LRU/FIFO/RR sets,
//	                sizes 1 and 2, duration 10 s) on the virtual clock: every sequence of existence
//	                checks, backend content changes and clock advances of the stated depth.
package main

import (
	"bytes"
	"context"
	"fmt"
	"strings"
	"time"

	"github.com/buildbarn/bb-storage/pkg/blobstore"
	"github.com/buildbarn/bb-storage/pkg/blobstore/readcaching"
	"github.com/buildbarn/bb-storage/pkg/blobstore/readfallback"
	"github.com/buildbarn/bb-storage/pkg/blobstore/replication"
	"github.com/buildbarn/bb-storage/pkg/blobstore/slicing"
	"github.com/buildbarn/bb-storage/pkg/digest"
	"github.com/buildbarn/bb-storage/pkg/eviction"
	"github.com/buildbarn/bb-storage/pkg/verifshim/vsched"
	"github.com/buildbarn/bb-storage/pkg/verifshim/vsemaphore"
	"github.com/buildbarn/bb-storage/pkg/verifshim/vsync"
	"google.golang.org/grpc/codes"
	"google.golang.org/grpc/status"

	"verifh/ev"
	"verifh/lstore"
	"verifh/mc"
	"verifh/sim"
)

func failf(sig, format string, a ...any) { vsched.Fail(sig, format, a...) }

const cacheDuration = 10 * time.Second

// faulty wraps a BlobAccess: every call is a scheduling gate and may fail with an injected error.
type faulty struct {
	blobstore.BlobAccess
	name      string
	budget    *int
	seen      *[]codes.Code
	onPutDone func(d digest.Digest, err error)
	onFM      func(asked digest.Set, missing digest.Set, err error)
	puts      *putCounter
}

// putCounter counts the uploads into a backend that are in progress at the same time (an upload whose buffer is a
// stream clone stays in progress until the other clone's consumer has read the data).
type putCounter struct {
	active, maxActive int
	perKey            map[string]int
	maxPerKey         int
}

func (c *putCounter) enter(k string) {
	c.active++
	if c.active > c.maxActive {
		c.maxActive = c.active
	}
	if c.perKey == nil {
		c.perKey = map[string]int{}
	}
	c.perKey[k]++
	if c.perKey[k] > c.maxPerKey {
		c.maxPerKey = c.perKey[k]
	}
}

func (c *putCounter) leave(k string) { c.active--; c.perKey[k]-- }

func (f *faulty) inject(op string) error {
	vsched.Yield("backend." + op)
	if f.budget != nil && *f.budget > 0 {
		switch vsched.Choose("fault", 3) {
		case 1:
			*f.budget--
			*f.seen = append(*f.seen, codes.Internal)
			return status.Errorf(codes.Internal, "injected failure of %s during %s", f.name, op)
		case 2:
			*f.budget--
			*f.seen = append(*f.seen, codes.Unavailable)
			return status.Errorf(codes.Unavailable, "injected failure of %s during %s", f.name, op)
		}
	}
	return nil
}

func (f *faulty) Get(ctx context.Context, d digest.Digest) bufferT {
	if err := f.inject("Get"); err != nil {
		return newErr(err)
	}
	return f.BlobAccess.Get(ctx, d)
}

func (f *faulty) GetFromComposite(ctx context.Context, p, c digest.Digest, s slicing.BlobSlicer) bufferT {
	if err := f.inject("GetFromComposite"); err != nil {
		return newErr(err)
	}
	return f.BlobAccess.GetFromComposite(ctx, p, c, s)
}

func (f *faulty) Put(ctx context.Context, d digest.Digest, b bufferT) error {
	if err := f.inject("Put"); err != nil {
		b.Discard()
		if f.onPutDone != nil {
			f.onPutDone(d, err)
		}
		return err
	}
	if f.puts != nil {
		k := d.GetKey(digest.KeyWithoutInstance)
		f.puts.enter(k)
		defer f.puts.leave(k)
	}
	err := f.BlobAccess.Put(ctx, d, b)
	if f.onPutDone != nil {
		f.onPutDone(d, err)
	}
	return err
}

func (f *faulty) FindMissing(ctx context.Context, ds digest.Set) (digest.Set, error) {
	if err := f.inject("FindMissing"); err != nil {
		if f.onFM != nil {
			f.onFM(ds, digest.EmptySet, err)
		}
		return digest.EmptySet, err
	}
	m, err := f.BlobAccess.FindMissing(ctx, ds)
	if f.onFM != nil {
		f.onFM(ds, m, err)
	}
	return m, err
}

// ---- replicator construction ------------------------------------------------------------

type counting struct {
	base      replication.BlobReplicator
	active    int
	maxActive int
	perKey    map[string]int
	maxPerKey int
	calls     int
	onDone    func(ds digest.Set, err error)
	// slowCopies: every copy is either quick or (free choice) takes so long that every other caller gets as
	// far as it can before the copy proceeds
	slowCopies bool
}

func (c *counting) ReplicateSingle(ctx context.Context, d digest.Digest) bufferT {
	return c.base.ReplicateSingle(ctx, d)
}

func (c *counting) ReplicateComposite(ctx context.Context, p, ch digest.Digest, s slicing.BlobSlicer) bufferT {
	return c.base.ReplicateComposite(ctx, p, ch, s)
}

func (c *counting) ReplicateMultiple(ctx context.Context, ds digest.Set) error {
	c.calls++
	c.active++
	if c.active > c.maxActive {
		c.maxActive = c.active
	}
	for _, d := range ds.Items() {
		k := d.GetKey(digest.KeyWithoutInstance)
		c.perKey[k]++
		if c.perKey[k] > c.maxPerKey {
			c.maxPerKey = c.perKey[k]
		}
	}
	if c.slowCopies && vsched.ChooseFree("choice", 2) == 1 {
		vsched.YieldLow("slow-copy")
	}
	err := c.base.ReplicateMultiple(ctx, ds)
	for _, d := range ds.Items() {
		c.perKey[d.GetKey(digest.KeyWithoutInstance)]--
	}
	c.active--
	if c.onDone != nil {
		c.onDone(ds, err)
	}
	return err
}

func mkReplicator(kind string, source, sink blobstore.BlobAccess, cnt **counting) replication.BlobReplicator {
	var base replication.BlobReplicator = replication.NewLocalBlobReplicator(source, sink)
	c := &counting{base: base, perKey: map[string]int{}}
	if cnt != nil {
		*cnt = c
	}
	switch kind {
	case "noop":
		return replication.NewNoopBlobReplicator(source)
	case "dedup":
		return replication.NewDeduplicatingBlobReplicator(c, sink, digest.KeyWithoutInstance)
	case "limit":
		return replication.NewConcurrencyLimitingBlobReplicator(c, sink, vsemaphore.NewWeighted(1))
	case "limit2":
		return replication.NewConcurrencyLimitingBlobReplicator(c, sink, vsemaphore.NewWeighted(2))
	case "queued":
		ec := digest.NewExistenceCache(lstore.VClock{}, digest.KeyWithoutInstance, 2, cacheDuration, eviction.NewLRUSet[string]())
		return replication.NewQueuedBlobReplicator(source, c, ec)
	}
	return c
}

// ---- transparency ------------------------------------------------------------------------------

// Z is the empty object: it has a digest like any other, and "no data to copy" is not "nothing to do".
var objContents = [][]byte{[]byte("xxxyy"), {}}

type tworld struct {
	front, back *sim.ModelBlobAccess // front = fast / primary, back = slow / secondary
	ba          blobstore.BlobAccess
	objs        []lstore.Obj
	slicer      *lstore.FixedSlicer
	budget      int
	seen        []codes.Code
	fallback    bool
	repl        string
}

func newTWorld(fallback bool, repl string, placement int) *tworld {
	w := &tworld{fallback: fallback, repl: repl}
	frontName, backName := "fast", "slow"
	if fallback {
		frontName, backName = "primary", "secondary"
	}
	w.front = sim.NewModel(frontName, digest.KeyWithoutInstance)
	w.back = sim.NewModel(backName, digest.KeyWithoutInstance)
	parent := lstore.CASObj("X", "", objContents[0])
	w.slicer = lstore.NewFixedSlicer("", parent.Content, 3)
	w.objs = []lstore.Obj{parent, lstore.CASObj("Z", "", objContents[1])}
	for i, o := range w.objs {
		p := (placement >> (2 * i)) & 3
		if p&1 != 0 {
			w.front.Store(o.Digest, o.Content)
		}
		if p&2 != 0 {
			w.back.Store(o.Digest, o.Content)
		}
	}
	f := &faulty{BlobAccess: w.front, name: frontName, budget: &w.budget, seen: &w.seen}
	b := &faulty{BlobAccess: w.back, name: backName, budget: &w.budget, seen: &w.seen}
	// Both backends hand out byte-slice-backed or (free choice) reader-backed buffers (see rworld).
	if vsched.ChooseFree("backend buffers", 2) == 1 {
		w.front.Streaming, w.back.Streaming = true, true
	}
	if fallback {
		w.ba = readfallback.NewReadFallbackBlobAccess(f, b, mkReplicator(repl, b, f, nil))
	} else {
		w.ba = readcaching.NewReadCachingBlobAccess(b, f, mkReplicator(repl, b, f, nil))
	}
	return w
}

func (w *tworld) checkErr(op string, err error, fb int) {
	injected := w.seen[fb:]
	c := status.Code(err)
	if len(injected) == 0 {
		failf(op+":error-without-cause-"+c.String(), "%s failed with %v although no backend failure was injected during it", op, err)
	}
	ok := false
	for _, ic := range injected {
		if ic == c {
			ok = true
		}
	}
	if !ok {
		failf(op+":backend-failure-masked-as-"+c.String(), "%s failed with code %s; injected failures had codes %v (error %v)", op, c, injected, err)
	}
	if w.fallback && !(strings.Contains(err.Error(), "Primary") || strings.Contains(err.Error(), "Secondary") || strings.Contains(err.Error(), "primary") || strings.Contains(err.Error(), "secondary")) {
		failf(op+":error-does-not-name-backend", "%s: error %q does not name the backend", op, err.Error())
	}
}

func (w *tworld) get(i int, composite bool) {
	o := w.objs[i]
	hadF, hadB := w.front.Has(o.Digest), w.back.Has(o.Digest)
	fb := len(w.seen)
	want := o.Content
	var data []byte
	var err error
	if composite {
		child := w.slicer.Pieces[1]
		want = o.Content[child.OffsetBytes:]
		data, err = w.ba.GetFromComposite(context.Background(), o.Digest, child.Digest, w.slicer).ToByteSlice(100)
	} else {
		data, err = w.ba.Get(context.Background(), o.Digest).ToByteSlice(100)
	}
	vsched.Obs("Get%v(%s) had=%v/%v -> %s", composite, o.Name, hadF, hadB, status.Code(err))
	if err == nil {
		if !hadF && !hadB {
			failf("get:success-from-nowhere", "Get(%s) succeeded although neither backend held the object", o.Name)
		}
		if !bytes.Equal(data, want) {
			failf("get:wrong-bytes", "Get(%s) = %q want %q", o.Name, data, want)
		}
		if !hadF && w.repl != "noop" && !w.front.Has(o.Digest) {
			failf("get:read-through-did-not-copy", "Get(%s) was served from the %s backend with a copying replicator (%s) but the %s backend still lacks the object", o.Name, w.back.Name, w.repl, w.front.Name)
		}
		vsched.Mark()
		return
	}
	if len(w.seen) == fb {
		if hadF || hadB {
			failf("get:fails-although-a-backend-holds-it-"+status.Code(err).String(), "Get(%s) failed with %v although %s holds it: %v, %s holds it: %v and nothing was made to fail", o.Name, err, w.front.Name, hadF, w.back.Name, hadB)
		}
		if status.Code(err) != codes.NotFound {
			failf("get:absent-object-error-"+status.Code(err).String(), "Get(%s) of an absent object failed with %v", o.Name, err)
		}
		return
	}
	if status.Code(err) == codes.NotFound && !hadF && !hadB {
		return
	}
	w.checkErr("get", err, fb)
}

func (w *tworld) put(i int) {
	o := w.objs[i]
	hadF := w.front.Has(o.Digest)
	hadB := w.back.Has(o.Digest)
	fb := len(w.seen)
	putsBefore := map[string]int{"f": countPuts(w.front), "b": countPuts(w.back)}
	src := sim.NewSource(sim.Script{Chunks: [][]byte{o.Content}})
	err := w.ba.Put(context.Background(), o.Digest, newCASReaderBuffer(o.Digest, src))
	vsched.Obs("Put(%s) -> %s", o.Name, status.Code(err))
	if src.Closes != 1 {
		failf(fmt.Sprintf("put:source-closes=%d", src.Closes), "upload source closed %d times", src.Closes)
	}
	// uploads go only to slow (read caching) resp. primary (fallback)
	target, other, hadOther := w.back, w.front, hadF
	if w.fallback {
		target, other, hadOther = w.front, w.back, hadB
	}
	if other.Has(o.Digest) != hadOther {
		failf("put:reached-wrong-backend", "Put(%s) changed the %s backend; uploads must go only to the %s backend", o.Name, other.Name, target.Name)
	}
	otherKey := "f"
	if w.fallback {
		otherKey = "b"
	}
	if countPuts(other) != putsBefore[otherKey] {
		failf("put:reached-wrong-backend", "the %s backend received a Put during an upload; uploads must go only to the %s backend", other.Name, target.Name)
	}
	if err == nil {
		if !target.Has(o.Digest) {
			failf("put:not-stored", "Put(%s) returned nil but the %s backend does not hold the object", o.Name, target.Name)
		}
		vsched.Mark()
		return
	}
	if len(w.seen) == fb {
		failf("put:error-without-cause", "Put(%s) failed with %v", o.Name, err)
	}
}

func countPuts(m *sim.ModelBlobAccess) int {
	n := 0
	for _, c := range m.CallsCopy() {
		if c.Op == "Put" {
			n++
		}
	}
	return n
}

func (w *tworld) findMissing(mask int) {
	var ds []digest.Digest
	var asked []lstore.Obj
	for i, o := range w.objs {
		if mask&(1<<i) != 0 {
			ds = append(ds, o.Digest)
			asked = append(asked, o)
		}
	}
	absent := lstore.CASObj("Q", "", []byte("never-stored"))
	ds = append(ds, absent.Digest)
	type st struct{ f, b bool }
	before := map[string]st{}
	for _, o := range asked {
		before[o.Name] = st{w.front.Has(o.Digest), w.back.Has(o.Digest)}
	}
	fb := len(w.seen)
	miss, err := w.ba.FindMissing(context.Background(), sim.SetOf(ds...))
	vsched.Obs("FM(%d) -> %s", mask, status.Code(err))
	if err != nil {
		if len(w.seen) == fb {
			failf("findmissing:error-without-cause", "FindMissing failed with %v", err)
		}
		if w.fallback {
			w.checkErr("findmissing", err, fb)
		}
		return
	}
	got := map[string]bool{}
	for _, d := range miss.Items() {
		got[d.String()] = true
	}
	if !got[absent.Digest.String()] {
		failf("findmissing:absent-object-reported-present", "an object no backend holds was not reported missing")
	}
	for _, o := range asked {
		b := before[o.Name]
		if w.fallback {
			if got[o.Digest.String()] != (!b.f && !b.b) {
				failf("findmissing:wrong-answer", "fallback FindMissing reports %s missing=%v; primary held it: %v, secondary held it: %v", o.Name, got[o.Digest.String()], b.f, b.b)
			}
		} else {
			// read caching forwards existence checks to the slow backend, which holds the truth for uploads
			if got[o.Digest.String()] != !b.b {
				failf("findmissing:wrong-answer", "read-caching FindMissing reports %s missing=%v; slow held it: %v", o.Name, got[o.Digest.String()], b.b)
			}
		}
	}
	vsched.Mark()
}

func tbody(fallback bool, repl string, depth int) func() {
	return func() {
		placement := vsched.ChooseFree("choice", 16)
		w := newTWorld(fallback, repl, placement)
		for step := 0; step < depth; step++ {
			w.budget = 1 - len(w.seen)
			k := vsched.ChooseFree("choice", 8)
			switch {
			case k < 2:
				w.get(k, false)
			case k == 2:
				w.get(0, true)
			case k < 5:
				w.put(k - 3)
			default:
				w.findMissing(k - 4)
			}
		}
	}
}

// ---- replicator concurrency ----------------------------------------------------------------------

type event struct {
	t    int
	kind string // "present" (sink reported present), "copied" (copy into sink completed), "attempt-ok" (base attempt finished ok)
	key  string
}

type callRec struct {
	caller     int
	idxs       []int
	start, end int
	err        error
}

type rworld struct {
	calls        []*callRec
	source, sink *sim.ModelBlobAccess
	cnt          *counting
	puts         putCounter
	repl         replication.BlobReplicator
	clock        int
	events       []event
	budget       int
	seen         []codes.Code
	objs         []lstore.Obj
}

func newRWorld(kind string, sinkHas int, faults int) *rworld {
	w := &rworld{budget: faults}
	w.source = sim.NewModel("source", digest.KeyWithoutInstance)
	w.sink = sim.NewModel("sink", digest.KeyWithoutInstance)
	w.objs = []lstore.Obj{lstore.CASObj("X", "", []byte("xxxyy")), lstore.CASObj("Z", "", []byte("zzz"))}
	for i, o := range w.objs {
		w.source.Store(o.Digest, o.Content)
		if sinkHas&(1<<i) != 0 {
			w.sink.Store(o.Digest, o.Content)
		}
	}
	src := &faulty{BlobAccess: w.source, name: "source", budget: &w.budget, seen: &w.seen}
	snk := &faulty{BlobAccess: w.sink, name: "sink", budget: &w.budget, seen: &w.seen, puts: &w.puts}
	// The source hands out byte-slice-backed or (free choice) reader-backed buffers: with the latter a copy that
	// is attached to a returned buffer as a background task runs while the caller consumes the buffer.
	w.source.Streaming = vsched.ChooseFree("source buffers", 2) == 1
	snk.onPutDone = func(d digest.Digest, err error) {
		w.clock++
		if err == nil {
			w.events = append(w.events, event{w.clock, "copied", d.GetKey(digest.KeyWithoutInstance)})
		}
	}
	snk.onFM = func(asked, missing digest.Set, err error) {
		w.clock++
		if err != nil {
			return
		}
		present, _, _ := digest.GetDifferenceAndIntersection(asked, missing)
		for _, d := range present.Items() {
			w.events = append(w.events, event{w.clock, "present", d.GetKey(digest.KeyWithoutInstance)})
		}
	}
	w.repl = mkReplicator(kind, src, snk, &w.cnt)
	w.cnt.slowCopies = true
	return w
}

func (w *rworld) now() int { w.clock++; return w.clock }

func rbody(kind string, callers [][]int, sinkHas, faults int, cancelOne bool, single bool, composite bool) func() {
	return func() {
		w := newRWorld(kind, sinkHas, faults)
		var wg vsync.WaitGroup
		ctx0, cancel := context.WithCancel(context.Background())
		defer cancel()
		for ci, idxs := range callers {
			ci, idxs := ci, idxs
			wg.Add(1)
			vsched.GoNamed(fmt.Sprintf("caller%d", ci), false, func() {
				defer wg.Done()
				var ds []digest.Digest
				for _, i := range idxs {
					ds = append(ds, w.objs[i].Digest)
				}
				ctx := context.Background()
				if cancelOne && ci == 0 {
					ctx = ctx0
				}
				rec := &callRec{caller: ci, idxs: idxs, start: w.now(), err: status.Error(codes.Unknown, "pending")}
				w.calls = append(w.calls, rec)
				defer func() { rec.end = w.now() }()
				var err error
				if composite && len(ds) == 1 {
					// the read path of GetFromComposite: replicate the parent, then slice it from the sink
					o := w.objs[idxs[0]]
					sl := lstore.NewFixedSlicer("", o.Content, 2)
					var data []byte
					data, err = w.repl.ReplicateComposite(ctx, ds[0], sl.Pieces[1].Digest, sl).ToByteSlice(100)
					if err == nil && !bytes.Equal(data, o.Content[sl.Pieces[1].OffsetBytes:]) {
						failf("replicate-composite:wrong-bytes", "ReplicateComposite returned %q", data)
					}
				} else if single && len(ds) == 1 {
					var data []byte
					data, err = w.repl.ReplicateSingle(ctx, ds[0]).ToByteSlice(100)
					if err == nil && !bytes.Equal(data, w.objs[idxs[0]].Content) {
						failf("replicate-single:wrong-bytes", "ReplicateSingle returned %q", data)
					}
				} else {
					err = w.repl.ReplicateMultiple(ctx, sim.SetOf(ds...))
				}
				vsched.Obs("caller%d %v -> %s", ci, idxs, status.Code(err))
				if err != nil {
					c := status.Code(err)
					okc := c == codes.Canceled && cancelOne
					for _, ic := range w.seen {
						if ic == c {
							okc = true
						}
					}
					if !okc {
						failf("replicate:error-without-cause-"+c.String(), "caller %d failed with %v; injected failures: %v, cancellation: %v", ci, err, w.seen, cancelOne)
					}
					rec.err = err
					return
				}
				rec.err = nil
				for _, i := range idxs {
					if !w.sink.Has(w.objs[i].Digest) {
						failf("replicate:success-but-sink-lacks-object", "caller %d got nil but the sink does not hold %s", ci, w.objs[i].Name)
					}
				}
				vsched.Mark()
			})
		}
		if cancelOne {
			wg.Add(1)
			vsched.GoNamed("canceller", false, func() { defer wg.Done(); cancel() })
		}
		if kind == "dedup" {
			w.cnt.onDone = func(ds digest.Set, err error) {
				w.clock++
				if err == nil {
					for _, d := range ds.Items() {
						w.events = append(w.events, event{w.clock, "attempt-ok", d.GetKey(digest.KeyWithoutInstance)})
					}
				}
			}
		}
		wg.Wait()
		// Success must be justified: since the caller asked, the sink reported the object present or a copy
		// into it completed - either observed directly, or observed by another replication request that was
		// still in progress when this caller asked (the leader a deduplicating waiter joined). For the queued
		// replicator a completed copy within the existence-cache duration also counts.
		for _, c := range w.calls {
			if c.err != nil {
				continue
			}
			for _, i := range c.idxs {
				key := w.objs[i].Digest.GetKey(digest.KeyWithoutInstance)
				ok := false
				for _, e := range w.events {
					if e.key != key || e.kind == "attempt-ok" {
						continue
					}
					if e.t >= c.start {
						ok = true
					}
					if kind == "queued" && e.kind == "copied" {
						ok = true
					}
					if kind == "dedup" {
						for _, l := range w.calls {
							if l != c && l.start <= e.t && e.t <= l.end && l.end >= c.start {
								ok = true
							}
						}
					}
				}
				if !ok {
					failf("replicate:success-without-sink-evidence", "caller %d (asked at t=%d for %s) got nil, but neither since then nor during a replication request still in progress at that time did the sink report the object present or receive a completed copy; events: %v", c.caller, c.start, w.objs[i].Name, w.events)
				}
				vsched.Mark()
			}
		}
		switch kind {
		case "dedup":
			if w.cnt.maxPerKey > 1 {
				failf("dedup:concurrent-copies-of-one-object", "%d copies of the same object were in progress at the same time", w.cnt.maxPerKey)
			}
		case "limit", "queued":
			if w.cnt.maxActive > 1 {
				failf(kind+":more-concurrent-copies-than-configured", "%d base replications were in progress at the same time (limit 1)", w.cnt.maxActive)
			}
		case "limit2":
			if w.cnt.maxActive > 2 {
				failf("limit2:more-concurrent-copies-than-configured", "%d base replications in progress at the same time (limit 2)", w.cnt.maxActive)
			}
		}
		// The same limits, measured at the sink: uploads into the sink that are in progress at the same time.
		limitPuts := map[string]int{"limit": 1, "queued": 1, "limit2": 2}[kind]
		if limitPuts > 0 && w.puts.maxActive > limitPuts {
			failf(kind+":more-concurrent-copies-into-the-sink-than-configured", "%d uploads into the sink were in progress at the same time (limit %d)", w.puts.maxActive, limitPuts)
		}
		if kind == "dedup" && w.puts.maxPerKey > 1 {
			failf("dedup:concurrent-copies-of-one-object-into-the-sink", "%d uploads of the same object into the sink were in progress at the same time", w.puts.maxPerKey)
		}
		vsched.Obs("maxActive=%d maxPerKey=%d calls=%d puts=%d/%d", w.cnt.maxActive, w.cnt.maxPerKey, w.cnt.calls, w.puts.maxActive, w.puts.maxPerKey)
	}
}

// ---- existence cache ----------------------------------------------------------------------------------

func ebody(size int, set string, depth int, ndig int, instanced bool) func() {
	return func() {
		kf := digest.KeyWithoutInstance
		if instanced {
			kf = digest.KeyWithInstance // an instance-aware backend: the same hash under two instance names are two objects
		}
		backend := sim.NewModel("backend", kf)
		var es eviction.Set[string]
		switch set {
		case "lru":
			es = eviction.NewLRUSet[string]()
		case "fifo":
			es = eviction.NewFIFOSet[string]()
		default:
			es = eviction.NewRRSet[string]()
		}
		ec := digest.NewExistenceCache(lstore.VClock{}, kf, size, cacheDuration, es)
		objs := []lstore.Obj{lstore.CASObj("P", "", []byte("p")), lstore.CASObj("Q", "", []byte("qq")), lstore.CASObj("R", "", []byte("rrr"))}[:ndig]
		if instanced {
			objs = []lstore.Obj{lstore.CASObj("P@a", "a", []byte("p")), lstore.CASObj("P@b", "b", []byte("p")), lstore.CASObj("Q@a", "a", []byte("qq"))}[:ndig]
		}
		nsub := 1<<ndig - 1
		lastPresent := map[string]time.Time{} // last virtual time the BACKEND itself reported the object present
		fb := &faulty{BlobAccess: backend, name: "backend"}
		fb.onFM = func(asked, missing digest.Set, err error) {
			if err != nil {
				return
			}
			present, _, _ := digest.GetDifferenceAndIntersection(asked, missing)
			for _, d := range present.Items() {
				lastPresent[d.String()] = vsched.Now()
			}
		}
		ba := blobstore.NewExistenceCachingBlobAccess(fb, ec)
		for step := 0; step < depth; step++ {
			k := vsched.ChooseFree("choice", nsub+ndig+2)
			switch {
			case k < nsub:
				mask := k + 1
				var ds []digest.Digest
				for i, o := range objs {
					if mask&(1<<i) != 0 {
						ds = append(ds, o.Digest)
					}
				}
				miss, err := ba.FindMissing(context.Background(), sim.SetOf(ds...))
				if err != nil {
					failf("existence:error", "FindMissing failed: %v", err)
				}
				got := map[string]bool{}
				for _, d := range miss.Items() {
					got[d.String()] = true
				}
				now := vsched.Now()
				for i, o := range objs {
					if mask&(1<<i) == 0 {
						continue
					}
					if got[o.Digest.String()] {
						if backend.Has(o.Digest) {
							failf("existence:present-object-reported-missing", "%s is reported missing although the backend holds it", o.Name)
						}
						continue
					}
					lp, ok := lastPresent[o.Digest.String()]
					if !ok || now.Sub(lp) > cacheDuration {
						failf("existence:hidden-as-present-without-recent-backend-report", "%s is reported present at %v, but the backend last reported it present at %v (ever: %v); cache duration %v", o.Name, now.Sub(time.Unix(1_000_000_000, 0)), lp.Sub(time.Unix(1_000_000_000, 0)), ok, cacheDuration)
					}
					if !backend.Has(o.Digest) {
						vsched.Mark() // a stale-but-permitted hit: the interesting case
					}
				}
				vsched.Obs("FM(%d)=%v", mask, len(got))
			case k < nsub+ndig:
				o := objs[k-nsub]
				if backend.Has(o.Digest) {
					backend.Remove(o.Digest)
				} else {
					backend.Store(o.Digest, o.Content)
				}
				vsched.Obs("toggle %s", o.Name)
			case k == nsub+ndig:
				vsched.Advance(1 * time.Second)
				vsched.Obs("+1s")
			default:
				vsched.Advance(9 * time.Second)
				vsched.Obs("+9s")
			}
		}
	}
}

func main() {
	r := ev.Start("C17")
	r.Rule("vsched: every placement x operation sequence (free choices) with every schedule / injected failure within the deviation bound (transparency); every schedule of 2-3 concurrent replication callers with failures and cancellation as choice points (replicators); every sequence of existence checks, backend changes and clock advances (existence); non-trivial = executions in which a read-through / copy / cache hit was actually verified")
	r.Assume("a waiter of the deduplicating replicator is justified by the leader's attempt if that attempt completed successfully after the waiter asked (the attempt, not only its individual sink calls, must overlap the waiter's request)")
	r.Assume("queued replicator: a nil result justified by a completed copy within the existence-cache duration counts as found in the sink (DESIGN 5.4)")
	r.Assume("read caching forwards FindMissing to the slow backend; the property only states FindMissing for the fallback")
	var scs []mc.Scenario
	depth := ev.Pick(r, 2, 3)
	bound := ev.Pick(r, 1, 2)
	budget := time.Duration(ev.Pick(r, 40, 500)) * time.Second
	for _, fallback := range []bool{false, true} {
		for _, repl := range []string{"noop", "local", "dedup", "limit", "queued"} {
			kind := "readcaching"
			if fallback {
				kind = "readfallback"
			}
			scs = append(scs, mc.Scenario{Name: fmt.Sprintf("transparency/%s-%s", kind, repl), Space: fmt.Sprintf("%s with replicator %s: 16 placements x all sequences of %d operations over {Get X, Get Z, GetFromComposite X, Put X, Put Z, FindMissing of 3 subsets}, fault budget 1, deviation bound %d", kind, repl, depth, bound), Bound: bound, ShardDepth: 2, Body: tbody(fallback, repl, depth), Budget: budget, MaxSteps: 60000})
		}
	}
	rb := ev.Pick(r, 2, 3)
	type rs struct {
		name      string
		callers   [][]int
		sinkHas   int
		faults    int
		cancel    bool
		single    bool
		composite bool
	}
	for _, kind := range []string{"dedup", "limit", "limit2", "queued"} {
		for _, x := range []rs{
			{"two-same", [][]int{{0}, {0}}, 0, 0, false, false, false},
			{"two-overlap", [][]int{{0, 1}, {1}}, 0, 0, false, false, false},
			{"three-same", [][]int{{0}, {0}, {0}}, 0, 0, false, false, false},
			{"two-same-fault", [][]int{{0}, {0}}, 0, 1, false, false, false},
			{"three-same-fault", [][]int{{0}, {0}, {0}}, 0, 1, false, false, false}, // a failing leader with two waiters: both wake up, one must become the next leader
			{"three-same-cancel", [][]int{{0}, {0}, {0}}, 0, 0, true, false, false},
			{"two-overlap-fault", [][]int{{0, 1}, {0}}, 2, 1, false, false, false},
			{"two-same-cancel", [][]int{{0}, {0}}, 0, 0, true, false, false},
			{"three-cancel-fault", [][]int{{0}, {0, 1}, {1}}, 0, 1, true, false, false},
			{"single-and-multiple", [][]int{{0}, {0}}, 0, 1, false, true, false},
			{"two-single", [][]int{{0}, {1}}, 0, 0, false, true, false}, // read-through copies of two objects whose buffers are consumed by the callers
			{"two-composite", [][]int{{0}, {1}}, 0, 0, false, false, true}, // copies started by composite reads count against the limit too
			{"composite-and-multiple", [][]int{{0}, {1}, {0}}, 0, 1, false, false, true},
		} {
			scs = append(scs, mc.Scenario{Name: fmt.Sprintf("replicators/%s-%s", kind, x.name), Space: fmt.Sprintf("%s replicator: callers asking for objects %v, sink initially holds mask %d, fault budget %d, cancellation of caller 0: %v, ReplicateSingle: %v, ReplicateComposite (single-object callers): %v; deviation bound %d", kind, x.callers, x.sinkHas, x.faults, x.cancel, x.single, x.composite, rb), Bound: rb, Body: rbody(kind, x.callers, x.sinkHas, x.faults, x.cancel, x.single, x.composite), Budget: budget, MaxSteps: 60000})
		}
	}
	ed2, ed3 := ev.Pick(r, 7, 8), ev.Pick(r, 5, 6)
	mc.GroupSpace["existence"] = fmt.Sprintf("cache sizes {1,2} x eviction sets {lru,fifo}: all sequences of %d operations over {FindMissing of each non-empty subset of 2 digests, toggle each digest in the backend, advance the clock by 1 s, by 9 s} (plain, and instance-aware: the same hash under two instance names with a cache keyed by instance name) and all sequences of %d operations with 3 digests; duration 10 s", ed2, ed3)
	for _, size := range []int{1, 2} {
		for _, set := range []string{"lru", "fifo"} {
			scs = append(scs, mc.Scenario{Name: fmt.Sprintf("existence/size%d-%s-2digests", size, set), Group: "existence", Bound: 0, Body: ebody(size, set, ed2, 2, false)})
			scs = append(scs, mc.Scenario{Name: fmt.Sprintf("existence/size%d-%s-2digests-instance-aware", size, set), Group: "existence", Bound: 0, Body: ebody(size, set, ed2, 2, true)})
			scs = append(scs, mc.Scenario{Name: fmt.Sprintf("existence/size%d-%s-3digests", size, set), Group: "existence", Bound: 0, Body: ebody(size, set, ed3, 3, false)})
		}
	}
	mc.Run(r, scs)
	r.Finish()
}
