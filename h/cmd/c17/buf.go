//go:build verif

package main

import (
	"github.com/buildbarn/bb-storage/pkg/blobstore/buffer"
	"github.com/buildbarn/bb-storage/pkg/digest"

	"verifh/sim"
)

type bufferT = buffer.Buffer

func newErr(err error) buffer.Buffer { return buffer.NewBufferFromError(err) }

func newCASReaderBuffer(d digest.Digest, src *sim.Source) buffer.Buffer {
	return buffer.NewCASBufferFromReader(d, sim.ReaderView{S: src}, buffer.UserProvided)
}
