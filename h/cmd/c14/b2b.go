package main

import (
	"bytes"
	"context"
	"fmt"
	"io"
	"net"
	"reflect"
	"strings"
	"sync"

	remoteexecution "github.com/bazelbuild/remote-apis/build/bazel/remote/execution/v2"
	"github.com/buildbarn/bb-storage/pkg/blobstore"
	"github.com/buildbarn/bb-storage/pkg/blobstore/buffer"
	"github.com/buildbarn/bb-storage/pkg/blobstore/grpcclients"
	"github.com/buildbarn/bb-storage/pkg/blobstore/grpcservers"
	"github.com/buildbarn/bb-storage/pkg/blobstore/slicing"
	"github.com/buildbarn/bb-storage/pkg/capabilities"
	"github.com/buildbarn/bb-storage/pkg/digest"
	bb_zstd "github.com/buildbarn/bb-storage/pkg/zstd"
	"github.com/google/uuid"
	"google.golang.org/genproto/googleapis/bytestream"
	"google.golang.org/grpc"
	"google.golang.org/grpc/credentials/insecure"
	"google.golang.org/grpc/test/bufconn"
	"google.golang.org/protobuf/proto"

	"verifh/ev"
	"verifh/par"
	"verifh/sim"
)

// indirect lets one long-lived gRPC server front a fresh model per sequence.
type indirect struct {
	mu  sync.Mutex
	cur *sim.ModelBlobAccess
}

func (i *indirect) get() *sim.ModelBlobAccess { i.mu.Lock(); defer i.mu.Unlock(); return i.cur }
func (i *indirect) set(m *sim.ModelBlobAccess) { i.mu.Lock(); i.cur = m; i.mu.Unlock() }

func (i *indirect) Get(ctx context.Context, d digest.Digest) buffer.Buffer { return i.get().Get(ctx, d) }
func (i *indirect) GetFromComposite(ctx context.Context, p, c digest.Digest, s slicing.BlobSlicer) buffer.Buffer {
	return i.get().GetFromComposite(ctx, p, c, s)
}
func (i *indirect) Put(ctx context.Context, d digest.Digest, b buffer.Buffer) error {
	return i.get().Put(ctx, d, b)
}
func (i *indirect) FindMissing(ctx context.Context, s digest.Set) (digest.Set, error) {
	return i.get().FindMissing(ctx, s)
}
func (i *indirect) GetCapabilities(ctx context.Context, in digest.InstanceName) (*remoteexecution.ServerCapabilities, error) {
	return i.get().GetCapabilities(ctx, in)
}

var _ blobstore.BlobAccess = (*indirect)(nil)

// inflight counts running server handlers so that a step is compared only
// after the server side of the previous RPCs has finished.
type inflight struct {
	mu sync.Mutex
	c  *sync.Cond
	n  int
}

func newInflight() *inflight { f := &inflight{}; f.c = sync.NewCond(&f.mu); return f }
func (f *inflight) enter()   { f.mu.Lock(); f.n++; f.mu.Unlock() }
func (f *inflight) leave()   { f.mu.Lock(); f.n--; f.c.Broadcast(); f.mu.Unlock() }
func (f *inflight) quiesce() {
	f.mu.Lock()
	for f.n > 0 {
		f.c.Wait()
	}
	f.mu.Unlock()
}

type b2bMode struct {
	Client string `json:"client"` // identity, zstd
	Server string `json:"server"` // zstd advertised or not
	Chunk  int    `json:"chunk_size"`
	Buf    string `json:"upload_buffer"` // slice, reader
	Pool    string `json:"zstd_pool"` // bounded, unbounded (both sides)
	Faults  bool   `json:"with_backend_faults"`
	Primary bool   `json:"full_depth"`
}

type fixture struct {
	mode   b2bMode
	cas    *indirect
	ac     *indirect
	fl     *inflight
	server *grpc.Server
	conn   *grpc.ClientConn
	casCli blobstore.BlobAccess
	acCli  blobstore.BlobAccess
}

func newFixture(mode b2bMode) *fixture {
	f := &fixture{mode: mode, cas: &indirect{}, ac: &indirect{}, fl: newInflight()}
	f.cas.set(sim.NewModel("cas", keyFormat))
	f.ac.set(sim.NewModel("ac", keyFormat))
	lis := bufconn.Listen(1 << 16)
	f.server = grpc.NewServer(
		grpc.ChainUnaryInterceptor(func(ctx context.Context, req any, info *grpc.UnaryServerInfo, h grpc.UnaryHandler) (any, error) {
			f.fl.enter()
			defer f.fl.leave()
			return h(ctx, req)
		}),
		grpc.ChainStreamInterceptor(func(srv any, ss grpc.ServerStream, info *grpc.StreamServerInfo, h grpc.StreamHandler) error {
			f.fl.enter()
			defer f.fl.leave()
			return h(srv, ss)
		}),
	)
	mkPool := newBoundedPool
	if mode.Pool == "unbounded" {
		mkPool = newPool
	}
	serverPool := mkPool()
	bytestream.RegisterByteStreamServer(f.server, grpcservers.NewByteStreamServer(f.cas, mode.Chunk, serverPool))
	remoteexecution.RegisterContentAddressableStorageServer(f.server, grpcservers.NewContentAddressableStorageServer(f.cas, 1<<20))
	remoteexecution.RegisterActionCacheServer(f.server, grpcservers.NewActionCacheServer(f.ac, 1<<20))
	caps := &remoteexecution.CacheCapabilities{}
	if mode.Server == "zstd" {
		caps.SupportedCompressors = []remoteexecution.Compressor_Value{remoteexecution.Compressor_ZSTD}
	}
	remoteexecution.RegisterCapabilitiesServer(f.server, capabilities.NewServer(capabilities.NewStaticProvider(&remoteexecution.ServerCapabilities{CacheCapabilities: caps})))
	go f.server.Serve(lis)
	conn, err := grpc.NewClient("passthrough:///bufnet",
		grpc.WithContextDialer(func(ctx context.Context, _ string) (net.Conn, error) { return lis.DialContext(ctx) }),
		grpc.WithTransportCredentials(insecure.NewCredentials()))
	if err != nil {
		ev.HarnessError("cannot create in-memory gRPC client: %v", err)
	}
	f.conn = conn
	var clientPool bb_zstd.Pool
	if mode.Client == "zstd" {
		clientPool = mkPool()
	}
	gen := func() (uuid.UUID, error) { return uuid.Parse(fixedUUID) }
	f.casCli = grpcclients.NewCASBlobAccess(conn, gen, mode.Chunk, clientPool)
	f.acCli = grpcclients.NewACBlobAccess(conn, 1<<20)
	return f
}

func (f *fixture) close() {
	f.conn.Close()
	f.server.Stop()
}

// ---- CAS sequences ----------------------------------------------------------------

type b2bop struct {
	Op   string `json:"op"` // put, get, findmissing
	D    int    `json:"digest,omitempty"`
	Data string `json:"data,omitempty"` // put: valid, flipped, short, long
	Set  int    `json:"set_mask,omitempty"`
}

type b2bcase struct {
	Mode      b2bMode `json:"mode"`
	Ops       []b2bop `json:"ops"`
	FaultStep int     `json:"backend_fails_during_step"` // -1: never
}

// Three digests: "abc" and "" under i/j, and "abc" under i/../k (same hash, another instance name - one with a ".." component, which instance names admit and resource paths must carry unchanged).
func b2bDigests() ([]digest.Digest, [][]byte) {
	return []digest.Digest{digestOf(instanceName, []byte("abc")), digestOf(instanceName, nil), digestOf("i/../k", []byte("abc"))},
		[][]byte{[]byte("abc"), {}, []byte("abc")}
}

func b2bAlphabet() []b2bop {
	var a []b2bop
	for d := 0; d < 3; d++ {
		a = append(a, b2bop{Op: "put", D: d, Data: "valid"})
	}
	a = append(a, b2bop{Op: "put", D: 0, Data: "flipped"}, b2bop{Op: "put", D: 0, Data: "short"}, b2bop{Op: "put", D: 0, Data: "long"}, b2bop{Op: "put", D: 1, Data: "long"})
	for d := 0; d < 3; d++ {
		a = append(a, b2bop{Op: "get", D: d})
	}
	for m := 0; m < 8; m++ {
		a = append(a, b2bop{Op: "findmissing", Set: m})
	}
	return a
}

func uploadBuffer(kind string, d digest.Digest, data []byte) buffer.Buffer {
	if kind == "reader" {
		return buffer.NewCASBufferFromReader(d, io.NopCloser(bytes.NewReader(data)), buffer.UserProvided)
	}
	return buffer.NewCASBufferFromByteSlice(d, data, buffer.UserProvided)
}

type stepResult struct {
	Code string
	Data string
	Set  []string
}

func applyCAS(ba blobstore.BlobAccess, op b2bop, bufKind string) stepResult {
	ds, contents := b2bDigests()
	ctx := context.Background()
	switch op.Op {
	case "put":
		data := append([]byte(nil), contents[op.D]...)
		switch op.Data {
		case "flipped":
			data[0] ^= 1
		case "short":
			data = data[:len(data)-1]
		case "long":
			data = append(data, 'Z')
		}
		return stepResult{Code: sim.Code(ba.Put(ctx, ds[op.D], uploadBuffer(bufKind, ds[op.D], data)))}
	case "get":
		b, err := ba.Get(ctx, ds[op.D]).ToByteSlice(100)
		return stepResult{Code: sim.Code(err), Data: string(b)}
	default:
		var sel []digest.Digest
		for i, d := range ds {
			if op.Set&(1<<i) != 0 {
				sel = append(sel, d)
			}
		}
		s, err := ba.FindMissing(ctx, sim.SetOf(sel...))
		return stepResult{Code: sim.Code(err), Set: sim.SetStrings(s)}
	}
}

// extraValidOnly: a holds everything b holds plus objects whose bytes match their digest.
func extraValidOnly(a, b map[string]string) bool {
	_, contents := b2bDigests()
	for k, v := range b {
		if av, ok := a[k]; !ok || av != v {
			return false
		}
	}
	for k, v := range a {
		if len(k) != 2 || k[0] != 'd' || v != string(contents[int(k[1]-'0')]) {
			return false
		}
	}
	return true
}

func modelContent(m *sim.ModelBlobAccess) map[string]string {
	ds, _ := b2bDigests()
	known := map[string]digest.Digest{}
	for i, d := range ds {
		known[fmt.Sprintf("d%d", i)] = d
	}
	return snapshot(m, known)
}

func runB2B(f *fixture, c *b2bcase) (msg, sig, outcome string) {
	viaGRPC := sim.NewModel("cas", keyFormat)
	direct := sim.NewModel("cas", keyFormat)
	f.fl.quiesce()
	f.cas.set(viaGRPC)
	var oc []string
	for i, op := range c.Ops {
		var hook func(string, []digest.Digest) error
		if i == c.FaultStep {
			hook = func(string, []digest.Digest) error { return errInjected }
		}
		viaGRPC.Hook, direct.Hook = hook, hook
		got := applyCAS(f.casCli, op, c.Mode.Buf)
		f.fl.quiesce()
		want := applyCAS(direct, op, c.Mode.Buf)
		oc = append(oc, op.Op+"="+got.Code)
		if i == c.FaultStep {
			if op.Op == "findmissing" && op.Set == 0 {
				// Nobody has to ask the backend about the empty set.
				want = stepResult{Code: "OK", Set: []string{}}
				if len(got.Set) == 0 {
					got.Set = []string{}
				}
			}
			if op.Op == "put" && got.Code != "OK" && want.Code != "OK" {
				// Invalid data plus a failing backend are two independent
				// failures, and whether the client sees the server's early
				// status or a broken stream first depends on goroutine timing
				// (the timing-controlled variant is sub-check client-scripted):
				// only "both fail" is compared here.
				got.Code = want.Code
			}
		}
		if !reflect.DeepEqual(got, want) {
			what := "result"
			switch {
			case got.Code != want.Code:
				what = "code"
			case got.Data != want.Data:
				what = "bytes"
			}
			return fmt.Sprintf("step %d %+v: client+server answered %+v, the backend itself answers %+v", i, op, got, want),
				fmt.Sprintf("back-to-back-cas:%s-%s-differs:client=%s", op.Op, what, c.Mode.Client), ""
		}
		a, b := modelContent(viaGRPC), modelContent(direct)
		if !reflect.DeepEqual(a, b) && op.Op == "put" && op.Data != "valid" && got.Code != "OK" && extraValidOnly(a, b) {
			return fmt.Sprintf("step %d %+v failed with %s on both sides, but behind client+server the backend now holds %v, the directly driven backend %v: the client finished (finish_write) the upload it had to abandon, and what it had sent so far matches the digest", i, op, got.Code, a, b),
				"back-to-back-cas:failed-put-still-commits:client=" + c.Mode.Client, ""
		}
		if !reflect.DeepEqual(a, b) {
			return fmt.Sprintf("after step %d %+v: backend behind client+server holds %v, the directly driven backend %v", i, op, a, b),
				fmt.Sprintf("back-to-back-cas:%s-content-differs:client=%s", op.Op, c.Mode.Client), ""
		}
	}
	return "", "", strings.Join(oc, ",")
}

// fixturePool hands fixtures of one mode to workers.
type fixturePool struct {
	mu   sync.Mutex
	free map[b2bMode][]*fixture
	all  []*fixture
}

func (p *fixturePool) acquire(m b2bMode) *fixture {
	p.mu.Lock()
	if l := p.free[m]; len(l) > 0 {
		f := l[len(l)-1]
		p.free[m] = l[:len(l)-1]
		p.mu.Unlock()
		return f
	}
	p.mu.Unlock()
	f := newFixture(m)
	p.mu.Lock()
	p.all = append(p.all, f)
	p.mu.Unlock()
	return f
}

func (p *fixturePool) release(f *fixture) {
	p.mu.Lock()
	p.free[f.mode] = append(p.free[f.mode], f)
	p.mu.Unlock()
}

func (p *fixturePool) closeAll() {
	for _, f := range p.all {
		f.close()
	}
}

func b2bModes() []b2bMode {
	var ms []b2bMode
	for _, chunk := range []int{1, 100} {
		for _, buf := range []string{"slice", "reader"} {
			ms = append(ms, b2bMode{Client: "identity", Server: "identity", Chunk: chunk, Buf: buf, Pool: "bounded", Faults: chunk == 100 && buf == "slice", Primary: chunk == 1 && buf == "reader"})
			ms = append(ms, b2bMode{Client: "zstd", Server: "zstd", Chunk: chunk, Buf: buf, Pool: "bounded", Faults: chunk == 100 && buf == "reader", Primary: chunk == 1 && buf == "reader"})
		}
	}
	// The default pool allocates a fresh decoder (8 MiB window) per stream: one mode.
	ms = append(ms, b2bMode{Client: "zstd", Server: "zstd", Chunk: 100, Buf: "reader", Pool: "unbounded"})
	// A client that could compress talking to a server that does not advertise zstd.
	ms = append(ms, b2bMode{Client: "zstd", Server: "identity", Chunk: 100, Buf: "slice", Pool: "bounded", Faults: true, Primary: true})
	ms = append(ms, b2bMode{Client: "zstd", Server: "identity", Chunk: 100, Buf: "reader", Pool: "bounded"})
	return ms
}

func b2bSmallAlphabet() []b2bop {
	a := []b2bop{
		{Op: "put", D: 0, Data: "valid"}, {Op: "put", D: 1, Data: "valid"},
		{Op: "put", D: 0, Data: "flipped"}, {Op: "put", D: 1, Data: "long"},
		{Op: "get", D: 0}, {Op: "get", D: 1},
	}
	for m := 0; m < 4; m++ {
		a = append(a, b2bop{Op: "findmissing", Set: m})
	}
	return a
}

func b2bSeqs(alphabet []b2bop, minLen, maxLen int) [][]b2bop {
	var seqs [][]b2bop
	var rec func(cur []b2bop)
	rec = func(cur []b2bop) {
		if len(cur) >= minLen && len(cur) > 0 {
			seqs = append(seqs, append([]b2bop(nil), cur...))
		}
		if len(cur) == maxLen {
			return
		}
		for _, a := range alphabet {
			rec(append(cur, a))
		}
	}
	rec(nil)
	return seqs
}

func b2bSub(r *ev.Run, name string, depth int) {
	sub := r.NewSub(name, "venum", fmt.Sprintf(
		"grpcclients.NewCASBlobAccess <-bufconn-> ByteStream+CAS+Capabilities servers <-> model backend versus the model backend driven directly, results, codes, sets and backend content compared after every step. "+
			"Full alphabet (18): {Put valid x 3 digests, Put flipped/short/long data, Get x 3, FindMissing x 8 subsets}, digests \"abc\" and \"\" under i/j, \"abc\" under i; small alphabet (10): the same over the first two digests with 2 invalid Puts. "+
			"11 modes: {client identity | client zstd + server advertising zstd (bounded pools; once the default unbounded pool) | client zstd + server not advertising} x chunk size {1,100} x upload buffer {byte slice, reader}. "+
			"Every sequence of <=%d operations: full alphabet in the identity mode chunk 1/reader and the zstd-client-on-identity-server mode; small alphabet in the zstd mode chunk 1/reader (a zstd stream costs an 8 MiB window allocation on each side). "+
			"Every sequence of <=%d operations: full alphabet in all identity modes and the zstd chunk 1/reader mode, small alphabet in the other zstd modes; in 3 modes these also with the backend failing during each step", depth, depth-1))
	done := sub.Timer()
	type work struct {
		mode b2bMode
		seq  []b2bop
	}
	var items []work
	full, small := b2bAlphabet(), b2bSmallAlphabet()
	for _, m := range b2bModes() {
		zstdPath := m.Client == "zstd" && m.Server == "zstd"
		var seqs [][]b2bop
		switch {
		case zstdPath && m.Primary:
			seqs = append(b2bSeqs(full, 1, depth-1), b2bSeqs(small, depth, depth)...)
		case zstdPath:
			seqs = b2bSeqs(small, 1, depth-1)
		case m.Primary:
			seqs = b2bSeqs(full, 1, depth)
		default:
			seqs = b2bSeqs(full, 1, depth-1)
		}
		for _, s := range seqs {
			items = append(items, work{m, s})
		}
	}
	pool := &fixturePool{free: map[b2bMode][]*fixture{}}
	var outcomes ev.Set
	var st stats
	var ops int64
	var opsMu sync.Mutex
	par.For(len(items), func(ix int) {
		seq, mode := items[ix].seq, items[ix].mode
		f := pool.acquire(mode)
		defer pool.release(f)
		var evals, nontrivial, nops int64
		for fs := -1; fs < len(seq); fs++ {
			if fs >= 0 && (!mode.Faults || len(seq) == depth) {
				break
			}
			c := b2bcase{Mode: mode, Ops: seq, FaultStep: fs}
			msg, sig, oc := runB2B(f, &c)
			evals++
			nops += int64(len(seq))
			if len(seq) >= 2 && seq[0].Op == "put" {
				nontrivial++
			}
			outcomes.Add(oc)
			if msg != "" {
				r.Violate(ev.Violation{Signature: sig, Sub: name, Message: msg, Case: c})
			}
			if (ix*5+int(evals))%9973 == 5 {
				sample(r, name, map[string]any{"sub": name, "case": c, "outcome": oc})
			}
		}
		st.merge(evals, nontrivial, nil)
		opsMu.Lock()
		ops += nops
		opsMu.Unlock()
	})
	pool.closeAll()
	sub.Evaluations, sub.Nontrivial = st.evals, st.nontrivial
	sub.States, sub.Transitions = sub.Evaluations, ops
	sub.Outcomes = outcomes.Len()
	sub.Exhaustive = true
	sub.BoundCompleted = fmt.Sprintf("depth %d", depth)
	done()
}

// ---- AC sequences -----------------------------------------------------------------

type acb2bcase struct {
	Ops       []acop `json:"ops"`
	FaultStep int    `json:"backend_fails_during_step"`
}

func applyAC(ba blobstore.BlobAccess, op acop) (string, *remoteexecution.ActionResult) {
	h := hashOf([]byte("action"))
	ds := []digest.Digest{
		digest.MustNewDigest(instanceName, remoteexecution.DigestFunction_SHA256, h, 10),
		digest.MustNewDigest(instanceName, remoteexecution.DigestFunction_SHA256, h, 11),
		digest.MustNewDigest("i", remoteexecution.DigestFunction_SHA256, h, 10),
	}
	ctx := context.Background()
	if op.Op == "update" {
		return sim.Code(ba.Put(ctx, ds[op.Digest], buffer.NewProtoBufferFromProto(acResults()[op.Result], buffer.UserProvided))), nil
	}
	m, err := ba.Get(ctx, ds[op.Digest]).ToProto(&remoteexecution.ActionResult{}, 1<<20)
	if err != nil {
		return sim.Code(err), nil
	}
	return "OK", m.(*remoteexecution.ActionResult)
}

func runACB2B(f *fixture, c *acb2bcase) (msg, sig, outcome string) {
	viaGRPC := sim.NewModel("ac", keyFormat)
	direct := sim.NewModel("ac", keyFormat)
	viaGRPC.AC, direct.AC = true, true
	f.fl.quiesce()
	f.ac.set(viaGRPC)
	var oc []string
	for i, op := range c.Ops {
		var hook func(string, []digest.Digest) error
		if i == c.FaultStep {
			hook = func(string, []digest.Digest) error { return errInjected }
		}
		viaGRPC.Hook, direct.Hook = hook, hook
		gc, gm := applyAC(f.acCli, op)
		f.fl.quiesce()
		wc, wm := applyAC(direct, op)
		oc = append(oc, op.Op+"="+gc)
		if gc != wc {
			return fmt.Sprintf("step %d %+v: client+server returned %s, the backend itself %s", i, op, gc, wc), "back-to-back-ac:" + op.Op + "-code-differs", ""
		}
		if (gm == nil) != (wm == nil) || gm != nil && !proto.Equal(gm, wm) {
			return fmt.Sprintf("step %d %+v: client+server returned %v, the backend itself %v", i, op, gm, wm), "back-to-back-ac:get-result-differs", ""
		}
		if a, b := viaGRPC.Keys(), direct.Keys(); !reflect.DeepEqual(a, b) {
			return fmt.Sprintf("after step %d %+v: keys %v versus %v", i, op, a, b), "back-to-back-ac:content-differs", ""
		}
	}
	return "", "", strings.Join(oc, ",")
}

func acB2BSub(r *ev.Run, name string, depth int) {
	sub := r.NewSub(name, "venum", fmt.Sprintf("grpcclients.NewACBlobAccess <-bufconn-> ActionCache server <-> model versus the model directly: every sequence of <=%d operations over {Put x 3 digests (two share hash, two share size) x 3 results, Get x 3} x backend failing during step {never, each}; FindMissing excluded (the AC client answers UNIMPLEMENTED by design)", depth))
	done := sub.Timer()
	var alphabet []acop
	for d := 0; d < 3; d++ {
		for res := 0; res < 3; res++ {
			alphabet = append(alphabet, acop{"update", d, res})
		}
		alphabet = append(alphabet, acop{"get", d, 0})
	}
	var seqs [][]acop
	var rec func(cur []acop)
	rec = func(cur []acop) {
		if len(cur) > 0 {
			seqs = append(seqs, append([]acop(nil), cur...))
		}
		if len(cur) == depth {
			return
		}
		for _, a := range alphabet {
			rec(append(cur, a))
		}
	}
	rec(nil)
	mode := b2bMode{Client: "identity", Server: "identity", Chunk: 100, Buf: "slice"}
	pool := &fixturePool{free: map[b2bMode][]*fixture{}}
	var outcomes ev.Set
	var st stats
	par.For(len(seqs), func(ix int) {
		f := pool.acquire(mode)
		defer pool.release(f)
		var evals, nontrivial int64
		for fs := -1; fs < len(seqs[ix]); fs++ {
			c := acb2bcase{Ops: seqs[ix], FaultStep: fs}
			msg, sig, oc := runACB2B(f, &c)
			evals++
			if len(c.Ops) >= 2 {
				nontrivial++
			}
			outcomes.Add(oc)
			if msg != "" {
				r.Violate(ev.Violation{Signature: sig, Sub: name, Message: msg, Case: c})
			}
			if (ix*4+int(evals))%2003 == 5 {
				sample(r, name, map[string]any{"sub": name, "case": c, "outcome": oc})
			}
		}
		st.merge(evals, nontrivial, nil)
	})
	pool.closeAll()
	sub.Evaluations, sub.Nontrivial = st.evals, st.nontrivial
	sub.States, sub.Transitions = sub.Evaluations, sub.Evaluations
	sub.Outcomes = outcomes.Len()
	sub.Exhaustive = true
	sub.BoundCompleted = fmt.Sprintf("depth %d", depth)
	done()
}
