package main

import (
	"bytes"
	"context"
	"crypto/sha256"
	"encoding/hex"
	"errors"
	"fmt"
	"io"
	"sync"

	remoteexecution "github.com/bazelbuild/remote-apis/build/bazel/remote/execution/v2"
	"github.com/buildbarn/bb-storage/pkg/blobstore/buffer"
	"github.com/buildbarn/bb-storage/pkg/digest"
	bb_zstd "github.com/buildbarn/bb-storage/pkg/zstd"
	"github.com/klauspost/compress/zstd"
	"google.golang.org/genproto/googleapis/bytestream"
	"google.golang.org/grpc/codes"
	"google.golang.org/grpc/metadata"
	"google.golang.org/grpc/status"

	"verifh/ev"
	"verifh/sim"
)

// ---- objects ----------------------------------------------------------------

// The instance name has two components so that a parser that loses a
// component is noticed; the backend key format includes the instance name.
const instanceName = "i/j"

const fixedUUID = "7a9c2f31-5f6e-4b3a-9d54-0c1b2a3d4e5f"

var keyFormat = digest.KeyWithInstance

func hashOf(content []byte) string {
	h := sha256.Sum256(content)
	return hex.EncodeToString(h[:])
}

func digestOf(instance string, content []byte) digest.Digest {
	return sim.SHA256Digest(instance, content)
}

func join(instance, rest string) string {
	if instance == "" {
		return rest
	}
	return instance + "/" + rest
}

// writeName builds a ByteStream write resource name by hand from the REv2
// text (not with the repository's own formatter).
func writeName(instance, comp, hash string, size int64) string {
	if comp == "zstd" {
		return join(instance, fmt.Sprintf("uploads/%s/compressed-blobs/zstd/%s/%d", fixedUUID, hash, size))
	}
	return join(instance, fmt.Sprintf("uploads/%s/blobs/%s/%d", fixedUUID, hash, size))
}

func readName(instance, comp, hash string, size int64) string {
	if comp == "zstd" {
		return join(instance, fmt.Sprintf("compressed-blobs/zstd/%s/%d", hash, size))
	}
	return join(instance, fmt.Sprintf("blobs/%s/%d", hash, size))
}

// ---- zstd -------------------------------------------------------------------

// newPool returns the pool bb_storage builds when no pool configuration is
// given (pkg/zstd/configuration.go), without the Prometheus wrapper.
func newPool() bb_zstd.Pool {
	return bb_zstd.NewUnboundedPool(
		[]zstd.EOption{zstd.WithEncoderConcurrency(1)},
		[]zstd.DOption{zstd.WithDecoderConcurrency(1)},
	)
}

func newBoundedPool() bb_zstd.Pool {
	return bb_zstd.NewBoundedPool(1<<30, 1<<30,
		[]zstd.EOption{zstd.WithEncoderConcurrency(1)},
		[]zstd.DOption{zstd.WithDecoderConcurrency(1)},
	)
}

// compress encodes content with the repository's pool encoder.
func compress(content []byte) []byte {
	var out bytes.Buffer
	enc, err := newPool().NewEncoder(context.Background(), &out)
	if err != nil {
		ev.HarnessError("cannot create zstd encoder: %v", err)
	}
	if _, err := enc.Write(content); err != nil {
		ev.HarnessError("zstd encode: %v", err)
	}
	if err := enc.Close(); err != nil {
		ev.HarnessError("zstd encode close: %v", err)
	}
	return append([]byte(nil), out.Bytes()...)
}

// compressZeroFrames encodes with explicit frames also for empty input (what
// the reference zstd tool produces).
func compressZeroFrames(content []byte) []byte {
	var out bytes.Buffer
	enc, err := zstd.NewWriter(&out, zstd.WithEncoderConcurrency(1), zstd.WithZeroFrames(true))
	if err != nil {
		ev.HarnessError("cannot create zstd encoder: %v", err)
	}
	enc.Write(content)
	if err := enc.Close(); err != nil {
		ev.HarnessError("zstd encode close: %v", err)
	}
	return append([]byte(nil), out.Bytes()...)
}

type decoded struct {
	out []byte
	err error
}

var decodeCache sync.Map // string -> decoded

// refDecode is the harness-side reference decoder: it returns everything a
// streaming decoder produces before it reports the end or an error.
func refDecode(b []byte) ([]byte, error) {
	if v, ok := decodeCache.Load(string(b)); ok {
		d := v.(decoded)
		return d.out, d.err
	}
	dec, err := zstd.NewReader(bytes.NewReader(b), zstd.WithDecoderConcurrency(1))
	if err != nil {
		ev.HarnessError("cannot create reference zstd decoder: %v", err)
	}
	out, derr := io.ReadAll(dec)
	dec.Close()
	decodeCache.Store(string(b), decoded{out, derr})
	return out, derr
}

// ---- backend with post-read fault --------------------------------------------

var errInjected = status.Error(codes.Unavailable, "injected backend fault")

// faultBackend is the model backend plus one extra fault kind that the model's
// hook cannot express: the backend consumes the upload completely and then
// fails without storing.
type faultBackend struct {
	*sim.ModelBlobAccess
	mode string // "", "before", "after"
}

func newBackend(mode string) *faultBackend {
	m := sim.NewModel("backend", keyFormat)
	if mode == "before" {
		m.Hook = func(op string, ds []digest.Digest) error {
			if op == "Put" {
				return errInjected
			}
			return nil
		}
	}
	return &faultBackend{ModelBlobAccess: m, mode: mode}
}

func (f *faultBackend) Put(ctx context.Context, d digest.Digest, b buffer.Buffer) error {
	if f.mode == "after" {
		if _, err := b.ToByteSlice(1 << 20); err != nil {
			return err
		}
		return errInjected
	}
	return f.ModelBlobAccess.Put(ctx, d, b)
}

// snapshot renders the backend content canonically.
func snapshot(m *sim.ModelBlobAccess, ds map[string]digest.Digest) map[string]string {
	out := map[string]string{}
	known := map[string]bool{}
	for name, d := range ds {
		known[d.GetKey(keyFormat)] = true
		if b, ok := m.Peek(d); ok {
			out[name] = string(b)
		}
	}
	for _, k := range m.Keys() {
		if !known[k] {
			out["UNKNOWN:"+k] = "?"
		}
	}
	return out
}

// ---- fake streams -----------------------------------------------------------

var errStream = status.Error(codes.Canceled, "scripted stream error")

type fakeServerStream struct{}

func (fakeServerStream) SetHeader(metadata.MD) error  { return nil }
func (fakeServerStream) SendHeader(metadata.MD) error { return nil }
func (fakeServerStream) SetTrailer(metadata.MD)       {}
func (fakeServerStream) Context() context.Context     { return context.Background() }
func (fakeServerStream) SendMsg(m any) error          { return errors.New("fake stream: SendMsg is not scripted") }
func (fakeServerStream) RecvMsg(m any) error          { return errors.New("fake stream: RecvMsg is not scripted") }

// fakeWriteStream scripts the client side of ByteStream.Write.
type fakeWriteStream struct {
	fakeServerStream
	mu        sync.Mutex
	msgs      []*bytestream.WriteRequest
	term      error
	pos       int
	recvs     int
	responses []*bytestream.WriteResponse
}

func (s *fakeWriteStream) Recv() (*bytestream.WriteRequest, error) {
	s.mu.Lock()
	defer s.mu.Unlock()
	s.recvs++
	if s.pos < len(s.msgs) {
		m := s.msgs[s.pos]
		s.pos++
		// A fresh message per Recv, as the real stream would decode one.
		return &bytestream.WriteRequest{
			ResourceName: m.ResourceName,
			WriteOffset:  m.WriteOffset,
			FinishWrite:  m.FinishWrite,
			Data:         append([]byte(nil), m.Data...),
		}, nil
	}
	return nil, s.term
}

func (s *fakeWriteStream) SendAndClose(r *bytestream.WriteResponse) error {
	s.mu.Lock()
	defer s.mu.Unlock()
	s.responses = append(s.responses, &bytestream.WriteResponse{CommittedSize: r.CommittedSize})
	return nil
}

// fakeReadStream records what ByteStream.Read sends; Send number failAt
// (0-based) and all later ones fail.
type fakeReadStream struct {
	fakeServerStream
	mu     sync.Mutex
	failAt int // -1: never
	sent   [][]byte
	sends  int
}

func (s *fakeReadStream) Send(r *bytestream.ReadResponse) error {
	s.mu.Lock()
	defer s.mu.Unlock()
	i := s.sends
	s.sends++
	if s.failAt >= 0 && i >= s.failAt {
		return errStream
	}
	// The real stream serialises before Send returns; the caller may reuse
	// its buffer afterwards.
	s.sent = append(s.sent, append([]byte(nil), r.Data...))
	return nil
}

func (s *fakeReadStream) all() []byte {
	var b []byte
	for _, c := range s.sent {
		b = append(b, c...)
	}
	return b
}

var _ bytestream.ByteStream_WriteServer = (*fakeWriteStream)(nil)
var _ bytestream.ByteStream_ReadServer = (*fakeReadStream)(nil)

func protoDigest(hash string, size int64) *remoteexecution.Digest {
	return &remoteexecution.Digest{Hash: hash, SizeBytes: size}
}

// stats is a per-sub-check accumulator that workers merge into.
type stats struct {
	mu         sync.Mutex
	evals      int64
	nontrivial int64
	outcomes   ev.Set
	verdicts   map[string]int64
}

func (s *stats) merge(evals, nontrivial int64, verdicts map[string]int64) {
	s.mu.Lock()
	s.evals += evals
	s.nontrivial += nontrivial
	if s.verdicts == nil {
		s.verdicts = map[string]int64{}
	}
	for k, v := range verdicts {
		s.verdicts[k] += v
	}
	s.mu.Unlock()
}

// sample keeps the 12 sample slots of the evidence file spread over the
// sub-checks (two for the large Write enumeration, one for each other).
var (
	sampleMu    sync.Mutex
	sampleCount = map[string]int{}
)

func sample(r *ev.Run, sub string, x any) {
	max := 1
	if sub == "bs-write-seq" {
		max = 2
	}
	sampleMu.Lock()
	defer sampleMu.Unlock()
	if sampleCount[sub] >= max {
		return
	}
	sampleCount[sub]++
	r.Sample(x)
}
