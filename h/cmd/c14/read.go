package main

import (
	"bytes"
	"context"
	"fmt"
	"io"

	"github.com/buildbarn/bb-storage/pkg/blobstore"
	"github.com/buildbarn/bb-storage/pkg/blobstore/buffer"

	"github.com/buildbarn/bb-storage/pkg/blobstore/grpcservers"
	"github.com/buildbarn/bb-storage/pkg/digest"
	bb_zstd "github.com/buildbarn/bb-storage/pkg/zstd"
	"google.golang.org/genproto/googleapis/bytestream"

	"verifh/ev"
	"verifh/sim"
)

type rcase struct {
	Content  []byte `json:"content"`
	Comp     string `json:"compressor"`
	Presence string `json:"presence"` // present, absent, other-instance, corrupt, backend-error
	NameOK   bool   `json:"name_valid"`
	Name     string `json:"resource_name"`
	Offset   int64  `json:"read_offset"`
	Limit    int64  `json:"read_limit"`
	Chunk    int    `json:"read_chunk_size"`
	FailAt   int    `json:"send_fails_from"` // -1: never
	Pool     string `json:"pool,omitempty"`
}

type rresult struct{ msg, sig, outcome string }

// streamBackend serves one object as a stream of one-byte chunks (as a remote or block-device backend
// would): a content mismatch is only noticed at the end, an I/O error can strike after data was produced.
type streamBackend struct {
	blobstore.BlobAccess
	d         digest.Digest
	data      []byte
	failAfter int // -1: never; n: the chunk reader fails after n chunks
}

type byteChunks struct {
	data      []byte
	pos       int
	failAfter int
}

func (r *byteChunks) Read() ([]byte, error) {
	if r.failAfter >= 0 && r.pos >= r.failAfter {
		return nil, errInjected
	}
	if r.pos >= len(r.data) {
		return nil, io.EOF
	}
	r.pos++
	return r.data[r.pos-1 : r.pos], nil
}
func (r *byteChunks) Close() {}

func (b streamBackend) Get(ctx context.Context, d digest.Digest) buffer.Buffer {
	if d != b.d {
		return b.BlobAccess.Get(ctx, d)
	}
	return buffer.NewCASBufferFromChunkReader(d, &byteChunks{data: b.data, failAfter: b.failAfter}, buffer.BackendProvided(buffer.Irreparable(d)))
}

func runRead(c *rcase) rresult {
	d := digestOf(instanceName, c.Content)
	backend := sim.NewModel("backend", keyFormat)
	// A neighbour that shares a prefix with the object and one under another
	// instance name: "bytes from elsewhere" would come from these.
	backend.Store(digestOf(instanceName, []byte("abcdefgh")), []byte("abcdefgh"))
	switch c.Presence {
	case "present":
		backend.Store(d, c.Content)
	case "other-instance":
		backend.Store(digestOf("i", c.Content), c.Content)
	case "corrupt":
		bad := append([]byte(nil), c.Content...)
		if len(bad) > 0 {
			bad[len(bad)-1] ^= 1
		} else {
			bad = []byte("x")
		}
		backend.Store(d, bad)
	case "backend-error":
		backend.Store(d, c.Content)
		backend.Hook = func(op string, ds []digest.Digest) error { return errInjected }
	}
	var ba blobstore.BlobAccess = backend
	switch c.Presence {
	case "corrupt-stream":
		// wrong last byte, delivered as a stream: the mismatch shows only after all data was produced
		bad := append([]byte(nil), c.Content...)
		bad[len(bad)-1] ^= 1
		ba = streamBackend{BlobAccess: backend, d: d, data: bad, failAfter: -1}
	case "midstream-error":
		// the backend's stream breaks after its first chunk
		ba = streamBackend{BlobAccess: backend, d: d, data: c.Content, failAfter: 1}
	}
	var pool bb_zstd.Pool = sharedPool
	if c.Pool == "bounded" {
		pool = sharedBounded
	}
	server := grpcservers.NewByteStreamServer(ba, c.Chunk, pool)
	stream := &fakeReadStream{failAt: c.FailAt}

	err := server.Read(&bytestream.ReadRequest{ResourceName: c.Name, ReadOffset: c.Offset, ReadLimit: c.Limit}, stream)

	raw := stream.all()
	got := raw
	var decErr error
	if c.Comp == "zstd" {
		got, decErr = refDecode(raw)
	}
	sendFailed := c.FailAt >= 0 && stream.sends > c.FailAt
	size := int64(len(c.Content))
	k := c.Offset
	inside := c.NameOK && c.Presence == "present" && k >= 0 && k <= size
	res := rresult{outcome: fmt.Sprintf("%s:%s:%s:inside=%v:limit=%v:sendfailed=%v:got=%d", c.Comp, c.Presence, sim.Code(err), inside, c.Limit != 0, sendFailed, len(got))}
	fail := func(sig, format string, a ...any) rresult {
		res.sig = "bytestream-read-" + c.Comp + ":" + sig
		res.msg = fmt.Sprintf(format, a...) + fmt.Sprintf(" [rpc result %v; %d messages sent, raw %q, decoded %q (decode error %v)]", err, len(stream.sent), raw, got, decErr)
		return res
	}
	// A failed Send means the stream is already dead, so the status the handler
	// returns afterwards cannot reach anybody; it is recorded, not judged
	// (the zstd path returns OK when the failing Send happens in the deferred
	// encoder.Close()).
	if c.Presence == "corrupt" || c.Presence == "corrupt-stream" {
		if err == nil && (c.Limit == 0 || c.Presence == "corrupt") && !sendFailed && k >= 0 && k <= size {
			return fail("corrupt-object-read-ok", "the backend's object does not match its digest but Read completed OK")
		}
		return res
	}
	if c.Presence == "midstream-error" {
		// the stream yields content[:1] and then fails: whatever was sent must be a prefix of content[k:], and a
		// read that needs more than the backend could deliver must not complete OK
		if k >= 0 && k <= size && !bytes.HasPrefix(c.Content[k:], got) {
			return fail("bytes-from-elsewhere", "read_offset %d of %q (stream breaking after 1 byte): streamed %q", k, c.Content, got)
		}
		if err == nil && !sendFailed && k >= 0 && k < size && (c.Limit == 0 || k+c.Limit > 1) {
			return fail("backend-error-read-ok", "the backend's stream failed after its first byte, the request needed bytes beyond it, but Read completed OK with %q", got)
		}
		return res
	}
	var want []byte
	if inside {
		want = c.Content[k:]
	}
	// Whatever happens, no bytes from elsewhere.
	if !bytes.HasPrefix(want, got) {
		if c.Comp == "zstd" && k != 0 && c.Presence == "present" && c.NameOK && bytes.Equal(got, c.Content) {
			return fail("read-offset-ignored", "read_offset %d of a %d byte object: the whole object was streamed; want exactly %q (offset inside) or an error / no data (offset outside)", k, size, want)
		}
		return fail("bytes-from-elsewhere", "read_offset %d of %q (%s): streamed %q, want a prefix of %q", k, c.Content, c.Presence, got, want)
	}
	if !c.NameOK || c.Presence != "present" {
		if err == nil {
			return fail("missing-object-read-ok", "Read of %s object / invalid name returned OK", c.Presence)
		}
		return res
	}
	if sendFailed || c.Limit != 0 && err != nil {
		return res
	}
	if c.Limit != 0 {
		// OK with a limit: exactly the limited range.
		end := k + c.Limit
		if !inside {
			end = 0
		} else if end > size {
			end = size
		}
		if inside && !bytes.Equal(got, c.Content[k:end]) {
			return fail("read-limit-wrong-range", "read_limit %d at offset %d returned %q", c.Limit, k, got)
		}
		return res
	}
	if inside && k < size {
		if err != nil {
			return fail("inside-offset-failed", "read_offset %d inside a %d byte object failed: %v", k, size, err)
		}
		if c.Comp == "zstd" && decErr != nil {
			return fail("undecodable-stream", "the streamed zstd data does not decode: %v", decErr)
		}
		if !bytes.Equal(got, want) {
			return fail("short-read-ok", "read_offset %d: streamed %q and returned OK, want %q", k, got, want)
		}
	}
	return res
}

func readSub(r *ev.Run, name string) {
	sub := r.NewSub(name, "venum",
		"ByteStream.Read: objects \"\",\"a\",\"abc\",\"abcde\" x {identity,zstd} x backend {present, absent, present under another instance name, content not matching digest, Get error, streamed in 1-byte chunks with the last byte wrong, stream breaking after the first byte} "+
			"x read_offset in [-1,size+1] x readChunkSize {1,2,size+1} x read_limit {0,1,size} x Send failing from message {never,0,1,2}; plus 9 malformed resource names; zstd also with the bounded pool")
	done := sub.Timer()
	var outcomes ev.Set
	eval := func(c rcase) {
		res := runRead(&c)
		sub.Evaluations++
		if c.Offset != 0 || c.Presence != "present" || c.Limit != 0 || c.FailAt >= 0 {
			sub.Nontrivial++
		}
		outcomes.Add(res.outcome)
		if res.msg != "" {
			r.Violate(ev.Violation{Signature: res.sig, Sub: name, Message: res.msg, Case: c})
		}
		if sub.Evaluations%3001 == 17 {
			sample(r, name, map[string]any{"sub": name, "case": c, "outcome": res.outcome})
		}
	}
	for _, content := range [][]byte{{}, []byte("a"), []byte("abc"), []byte("abcde")} {
		size := int64(len(content))
		h := hashOf(content)
		for _, comp := range []string{"identity", "zstd"} {
			pools := []string{""}
			if comp == "zstd" {
				pools = []string{"", "bounded"}
			}
			valid := readName(instanceName, comp, h, size)
			for _, pool := range pools {
				for _, presence := range []string{"present", "absent", "other-instance", "corrupt", "backend-error", "corrupt-stream", "midstream-error"} {
					if size < 2 && (presence == "corrupt-stream" || presence == "midstream-error") {
						continue
					}
					for off := int64(-1); off <= size+1; off++ {
						for _, chunk := range dedupInts([]int{1, 2, int(size) + 1}) {
							for _, limit := range dedupInt64s([]int64{0, 1, size}) {
								for _, failAt := range []int{-1, 0, 1, 2} {
									eval(rcase{Content: content, Comp: comp, Presence: presence, NameOK: true, Name: valid, Offset: off, Limit: limit, Chunk: chunk, FailAt: failAt, Pool: pool})
								}
							}
						}
					}
				}
			}
			mid := "blobs"
			if comp == "zstd" {
				mid = "compressed-blobs/zstd"
			}
			for _, bad := range []string{
				"",
				instanceName,
				writeName(instanceName, comp, h, size), // an upload path
				join(instanceName, fmt.Sprintf("%s/%s/%d", mid, h[:63], size)),
				join(instanceName, fmt.Sprintf("%s/%s/%d", mid, "g"+h[1:], size)),
				join(instanceName, fmt.Sprintf("%s/%s/%d", mid, h, -1-size)),
				join(instanceName, fmt.Sprintf("%s/%s/x", mid, h)),
				join(instanceName, fmt.Sprintf("%s/%s", mid, h)),
				join(instanceName, fmt.Sprintf("compressed-blobs/lzma/%s/%d", h, size)),
			} {
				for off := int64(0); off <= 1; off++ {
					eval(rcase{Content: content, Comp: comp, Presence: "present", NameOK: false, Name: bad, Offset: off, Chunk: 2, FailAt: -1})
				}
			}
		}
	}
	sub.States, sub.Transitions = sub.Evaluations, sub.Evaluations
	sub.Outcomes = outcomes.Len()
	sub.Exhaustive = true
	done()
}

func dedupInts(in []int) []int {
	var out []int
	for _, v := range in {
		dup := false
		for _, o := range out {
			dup = dup || o == v
		}
		if !dup {
			out = append(out, v)
		}
	}
	return out
}

func dedupInt64s(in []int64) []int64 {
	var out []int64
	for _, v := range in {
		dup := false
		for _, o := range out {
			dup = dup || o == v
		}
		if !dup {
			out = append(out, v)
		}
	}
	return out
}
