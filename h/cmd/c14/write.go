package main

import (
	"bytes"
	"fmt"
	"io"
	"sort"
	"strings"
	"sync"

	"github.com/buildbarn/bb-storage/pkg/blobstore/grpcservers"
	"github.com/buildbarn/bb-storage/pkg/digest"
	bb_zstd "github.com/buildbarn/bb-storage/pkg/zstd"
	"google.golang.org/genproto/googleapis/bytestream"

	"verifh/ev"
	"verifh/par"
	"verifh/sim"
)

// ---- case -------------------------------------------------------------------

type wmsg struct {
	// Kind is the class of the resource name: first message "valid" or
	// "invalid"; later messages "same", "different", "empty".
	Kind   string `json:"kind"`
	Name   string `json:"resource_name"`
	Off    int64  `json:"write_offset"`
	Data   []byte `json:"data"`
	Finish bool   `json:"finish_write"`
}

type wcase struct {
	Content []byte `json:"content"` // the object named by the first resource name
	Comp    string `json:"compressor"`
	Msgs    []wmsg `json:"messages"`
	Term    string `json:"terminator"` // "eof" (client half-close) or "error"
	Fault   string `json:"backend_put_fault"`
	Pool    string `json:"pool,omitempty"` // "", "bounded"
}

var (
	preexisting  = []byte("zzz") // in the backend before every Write
	otherContent = []byte("qq")  // named by "different" resource names; never in the backend
)

const (
	mustAccept = iota
	mustReject
	dontCare
)

// expectWrite is the reference: verdict, reason (for rejects) and the
// committed_size the code defines for an accepted upload.
func expectWrite(c *wcase) (verdict int, reason string, committed int64) {
	n := len(c.Msgs)
	if n == 0 {
		return mustReject, "no-messages", 0
	}
	if c.Msgs[0].Kind != "valid" {
		return mustReject, "invalid-resource-name", 0
	}
	f := -1
	for i, m := range c.Msgs {
		if m.Finish {
			f = i
			break
		}
	}
	end := f
	if f < 0 {
		end = n - 1
	}
	var cat []byte
	exp := int64(0)
	for i := 0; i <= end; i++ {
		m := c.Msgs[i]
		if m.Off != exp && reason == "" {
			if i == 0 {
				reason = "first-offset-nonzero"
			} else {
				reason = "offset-not-contiguous"
			}
		}
		exp += int64(len(m.Data))
		cat = append(cat, m.Data...)
	}
	if f < 0 && reason == "" {
		reason = "no-finish-write"
	}
	lenient := false
	match := false
	if c.Comp == "zstd" {
		out, err := refDecode(cat)
		match = err == nil && bytes.Equal(out, c.Content)
		// The compressed stream is damaged only after the point where a
		// streaming decoder has already produced the complete, matching
		// content (truncated checksum, partial next frame header).
		lenient = err != nil && bytes.Equal(out, c.Content)
		committed = exp
	} else {
		match = bytes.Equal(cat, c.Content)
		committed = int64(len(c.Content))
	}
	if reason == "" && !match && !lenient {
		reason = "data-mismatch"
	}
	if reason == "" && c.Fault != "" {
		reason = "backend-put-fault"
	}
	if reason != "" {
		return mustReject, reason, committed
	}
	if lenient {
		return dontCare, "damaged-after-complete-content", committed
	}
	if f == n-1 && c.Term == "eof" {
		return mustAccept, "", committed
	}
	return dontCare, "messages-or-stream-error-after-finish", committed
}

type wresult struct {
	msg, sig string
	outcome  woutcome
	verdict  int
}

var sharedPool = newPool()
var sharedBounded = newBoundedPool()

type wdigests struct {
	target, pre, other digest.Digest
	known              map[string]digest.Digest
}

var wdigestCache sync.Map // string(content) -> *wdigests

func digestsFor(content []byte) *wdigests {
	if v, ok := wdigestCache.Load(string(content)); ok {
		return v.(*wdigests)
	}
	w := &wdigests{target: digestOf(instanceName, content), pre: digestOf(instanceName, preexisting), other: digestOf(instanceName, otherContent)}
	// The same hashes under other instance names must never appear.
	w.known = map[string]digest.Digest{
		"target": w.target, "pre": w.pre, "other": w.other,
		"target@empty": digestOf("", content), "target@i": digestOf("i", content),
	}
	wdigestCache.Store(string(content), w)
	return w
}

// woutcome is the observed behaviour class of one Write.
type woutcome struct {
	comp      string
	code      string
	stored    bool
	responses int
	allRead   bool
}

func (o woutcome) String() string {
	return fmt.Sprintf("%s:%s:stored=%v:responses=%d:allread=%v", o.comp, o.code, o.stored, o.responses, o.allRead)
}

// runWrite runs the real ByteStream.Write handler on one scripted stream.
func runWrite(c *wcase) wresult {
	wd := digestsFor(c.Content)
	backend := newBackend(c.Fault)
	backend.Store(wd.pre, preexisting)
	var pool bb_zstd.Pool = sharedPool
	if c.Pool == "bounded" {
		pool = sharedBounded
	}
	server := grpcservers.NewByteStreamServer(backend, 2, pool)
	stream := &fakeWriteStream{term: io.EOF}
	if c.Term == "error" {
		stream.term = errStream
	}
	stream.msgs = make([]*bytestream.WriteRequest, len(c.Msgs))
	for i, m := range c.Msgs {
		stream.msgs[i] = &bytestream.WriteRequest{ResourceName: m.Name, WriteOffset: m.Off, Data: m.Data, FinishWrite: m.Finish}
	}

	err := server.Write(stream)

	verdict, reason, committed := expectWrite(c)
	storedBytes, isStored := backend.Peek(wd.target)
	stored := string(storedBytes)
	res := wresult{verdict: verdict}
	res.outcome = woutcome{c.Comp, sim.Code(err), isStored, len(stream.responses), stream.pos == len(stream.msgs)}
	sigp := "bytestream-write-" + c.Comp + ":"
	fail := func(sig, format string, a ...any) wresult {
		res.sig = sigp + sig
		res.msg = fmt.Sprintf(format, a...) + fmt.Sprintf(" [rpc result %v; reference verdict %s %s; backend %v]", err, verdictName(verdict), reason, snapshot(backend.ModelBlobAccess, wd.known))
		return res
	}
	// Nothing but the target may change, whatever the verdict.
	wantKeys := 1
	if isStored {
		wantKeys = 2
	}
	if preBytes, ok := backend.Peek(wd.pre); !ok || string(preBytes) != string(preexisting) || len(backend.Keys()) != wantKeys {
		for name, v := range snapshot(backend.ModelBlobAccess, wd.known) {
			switch name {
			case "target":
			case "pre":
				if v != string(preexisting) {
					return fail("other-object-modified", "the pre-existing object changed to %q", v)
				}
			default:
				return fail("foreign-key-visible", "key %s became visible in the backend", name)
			}
		}
		return fail("other-object-modified", "the pre-existing object disappeared")
	}
	if isStored && stored != string(c.Content) {
		return fail("wrong-bytes-visible", "backend holds %q under the digest of %q", stored, c.Content)
	}
	if err == nil {
		if verdict == mustReject {
			return fail(reason+"-accepted", "Write returned OK and the object became visible=%v although the upload must be refused (%s)", isStored, reason)
		}
		if !isStored {
			return fail("ok-but-not-stored", "Write returned OK but the object is not in the backend")
		}
		if len(stream.responses) != 1 {
			return fail("ok-response-count", "Write returned OK with %d responses", len(stream.responses))
		}
		if got := stream.responses[0].CommittedSize; got != committed {
			return fail("wrong-committed-size", "committed_size %d, want %d", got, committed)
		}
		return res
	}
	if isStored {
		return fail("error-but-stored", "Write failed with %v but the object became visible", err)
	}
	if len(stream.responses) != 0 {
		return fail("response-on-error", "Write failed with %v after sending a response", err)
	}
	if verdict == mustAccept {
		return fail("valid-upload-rejected", "a complete, contiguous, matching upload was refused: %v", err)
	}
	return res
}

func verdictName(v int) string {
	return [...]string{"must-accept", "must-reject", "dont-care"}[v]
}

// ---- enumeration ------------------------------------------------------------

type wspace struct {
	content  []byte
	comp     string
	stream   []byte // what a correct client sends (content or its zstd form)
	alt      []byte // same-length-class stream of a corrupted content, or nil
	valid    string
	invalid  string
	diffName string
}

func newWSpace(content []byte, comp string) *wspace {
	s := &wspace{content: content, comp: comp}
	var flipped []byte
	if len(content) > 0 {
		flipped = append([]byte(nil), content...)
		flipped[len(flipped)-1] ^= 1
	}
	if comp == "zstd" {
		s.stream = compress(content)
		if flipped != nil {
			s.alt = compress(flipped)
		}
	} else {
		s.stream = content
		s.alt = flipped
	}
	h := hashOf(content)
	s.valid = writeName(instanceName, comp, h, int64(len(content)))
	s.invalid = writeName(instanceName, comp, "g"+h[1:], int64(len(content))) // non-hexadecimal hash
	s.diffName = writeName(instanceName, comp, hashOf(otherContent), int64(len(otherContent)))
	return s
}

func (s *wspace) dataOptions(cur int) [][]byte {
	var opts [][]byte
	seen := map[string]bool{}
	add := func(b []byte) {
		if !seen[string(b)] {
			seen[string(b)] = true
			opts = append(opts, b)
		}
	}
	add(nil)
	if cur < len(s.stream) {
		add(s.stream[cur : cur+1])
		add(s.stream[cur:])
	} else {
		add([]byte("Z"))
	}
	if s.alt != nil && cur < len(s.alt) {
		add(s.alt[cur:])
	}
	return opts
}

func offsetOptions(cur int64) []int64 {
	var out []int64
	for _, o := range []int64{cur, cur - 1, cur + 1, 0} {
		dup := false
		for _, p := range out {
			if p == o {
				dup = true
			}
		}
		if !dup {
			out = append(out, o)
		}
	}
	return out
}

// options lists the alphabet for message number i.
func (s *wspace) options(i int, cur int, deviated bool) []wmsg {
	type nm struct{ kind, name string }
	var names []nm
	if i == 0 {
		names = []nm{{"valid", s.valid}, {"invalid", s.invalid}}
	} else {
		names = []nm{{"same", s.valid}}
		if !deviated {
			names = append(names, nm{"different", s.diffName}, nm{"empty", ""})
		}
	}
	var out []wmsg
	for _, n := range names {
		for _, o := range offsetOptions(int64(cur)) {
			for _, d := range s.dataOptions(cur) {
				for _, f := range []bool{false, true} {
					out = append(out, wmsg{Kind: n.kind, Name: n.name, Off: o, Data: d, Finish: f})
				}
			}
		}
	}
	return out
}

type wlocal struct {
	evals, nontrivial int64
	vcount            [3]int64
	outcomes          map[woutcome]bool
}

func (l *wlocal) verdicts() map[string]int64 {
	m := map[string]int64{}
	for i, n := range l.vcount {
		m[verdictName(i)] = n
	}
	return m
}

func cloneCase(c *wcase) wcase {
	d := *c
	d.Msgs = append([]wmsg(nil), c.Msgs...)
	return d
}

// writeSeq enumerates every message sequence of length <= maxLen.
func writeSeq(r *ev.Run, name string, maxLen, faultLen, invalidLen int) {
	sub := r.NewSub(name, "venum", fmt.Sprintf(
		"ByteStream.Write: objects of size 0,1,3 x {identity,zstd} x all message sequences of length 0..%d over "+
			"{first resource name valid|non-hex hash; later names same|different object|empty, at most one later message deviating} x "+
			"{write_offset = running total, -1, +1, 0} x {data empty | next byte of the (compressed) stream, or an excess byte at its end | rest of the stream | rest of the stream of the object with its last byte flipped} x {finish_write} "+
			"x terminator {half-close, stream error} x backend Put fault {none; before reading and after reading, for length <= %d}; sequences whose first name is invalid only to length %d",
		maxLen, faultLen, invalidLen))
	done := sub.Timer()
	var st stats
	sampleEvery := int64(400009)
	for _, content := range [][]byte{{}, []byte("a"), []byte("abc")} {
		for _, comp := range []string{"identity", "zstd"} {
			sp := newWSpace(content, comp)
			// Work items: the empty stream, every single message (emit only)
			// and every two-message prefix (with all its extensions).
			type item struct {
				msgs     []wmsg
				cur      int
				deviated bool
				emitOnly bool
			}
			limitOf := func(m0 wmsg) int {
				if m0.Kind == "invalid" {
					return invalidLen
				}
				return maxLen
			}
			var items []item
			items = append(items, item{emitOnly: true})
			for _, m0 := range sp.options(0, 0, false) {
				items = append(items, item{msgs: []wmsg{m0}, emitOnly: true})
				if limitOf(m0) < 2 {
					continue
				}
				for _, m1 := range sp.options(1, len(m0.Data), false) {
					items = append(items, item{msgs: []wmsg{m0, m1}, cur: len(m0.Data) + len(m1.Data), deviated: m1.Kind != "same"})
				}
			}
			par.For(len(items), func(ix int) {
				it := items[ix]
				loc := wlocal{outcomes: map[woutcome]bool{}}
				c := wcase{Content: content, Comp: comp, Pool: "bounded"} // decoder reuse: a fresh klauspost decoder per call costs ~1 ms here
				emit := func(msgs []wmsg) {
					c.Msgs = msgs
					for _, term := range []string{"eof", "error"} {
						faults := []string{""}
						if len(msgs) <= faultLen {
							faults = []string{"", "before", "after"}
						}
						for _, fault := range faults {
							c.Term, c.Fault = term, fault
							res := runWrite(&c)
							loc.evals++
							if len(msgs) >= 2 {
								loc.nontrivial++
							}
							loc.vcount[res.verdict]++
							loc.outcomes[res.outcome] = true
							if res.msg != "" {
								r.Violate(ev.Violation{Signature: res.sig, Sub: name, Message: res.msg, Case: cloneCase(&c)})
							}
							if (loc.evals+int64(ix)*7919)%sampleEvery == 0 {
								sample(r, name, map[string]any{"sub": name, "case": cloneCase(&c), "outcome": res.outcome.String(), "reference": verdictName(res.verdict)})
							}
						}
					}
				}
				var rec func(msgs []wmsg, cur int, deviated bool)
				rec = func(msgs []wmsg, cur int, deviated bool) {
					emit(msgs)
					limit := maxLen
					if len(msgs) > 0 && msgs[0].Kind == "invalid" {
						limit = invalidLen
					}
					if len(msgs) >= limit {
						return
					}
					for _, m := range sp.options(len(msgs), cur, deviated) {
						next := append(append(make([]wmsg, 0, len(msgs)+1), msgs...), m)
						rec(next, cur+len(m.Data), deviated || m.Kind == "different" || m.Kind == "empty")
					}
				}
				if it.emitOnly {
					emit(it.msgs)
				} else {
					rec(it.msgs, it.cur, it.deviated)
				}
				st.merge(loc.evals, loc.nontrivial, loc.verdicts())
				for o := range loc.outcomes {
					st.outcomes.Add(o.String())
				}
			})
		}
	}
	sub.Evaluations, sub.Nontrivial = st.evals, st.nontrivial
	sub.States, sub.Transitions = st.evals, st.evals
	sub.Outcomes = st.outcomes.Len()
	sub.Exhaustive = true
	sub.BoundCompleted = fmt.Sprintf("length %d", maxLen)
	sub.Extra = map[string]any{"reference_verdicts": st.verdicts}
	done()
}

// ---- cuts -------------------------------------------------------------------

// writeCuts cuts complete streams at every position.
func writeCuts(r *ev.Run, name string, maxParts int) {
	sub := r.NewSub(name, "venum", fmt.Sprintf(
		"ByteStream.Write: for objects \"\", \"a\", \"abc\", 40 x 'a' and two concatenated zstd frames, identity and zstd (klauspost default framing and explicit zero-length frames; bounded pool; the default unbounded pool for \"abc\" with one part fewer): "+
			"every cut of the complete (compressed) stream into <= %d non-empty messages with exact offsets, finish_write on the last data message or on a separate empty message; "+
			"each also with one message's offset moved by -1/+1/+7/to 0, with finish_write dropped, with the stream broken after every message, with the last byte of the stream dropped / altered / followed by an extra byte", maxParts))
	done := sub.Timer()
	var st stats
	type variant struct {
		content []byte
		comp    string
		stream  []byte
		pool    string
	}
	var vs []variant
	big := bytes.Repeat([]byte("a"), 40)
	for _, content := range [][]byte{{}, []byte("a"), []byte("abc"), big} {
		vs = append(vs, variant{content, "identity", content, ""})
		vs = append(vs, variant{content, "zstd", compress(content), "bounded"})
		if len(content) == 3 {
			// A fresh klauspost decoder per call (the default, unbounded pool)
			// zeroes an 8 MiB window: one object, one part fewer.
			vs = append(vs, variant{content, "zstd", compress(content), ""})
		}
		vs = append(vs, variant{content, "zstd", compressZeroFrames(content), "bounded"})
	}
	// Two frames: "ab" and "c" compressed separately, concatenated (a valid zstd stream for "abc").
	vs = append(vs, variant{[]byte("abc"), "zstd", append(compress([]byte("ab")), compress([]byte("c"))...), "bounded"})
	var notes []string
	for _, v := range vs {
		v := v
		if v.comp == "zstd" {
			notes = append(notes, fmt.Sprintf("%q->%d bytes", v.content, len(v.stream)))
			if out, err := refDecode(v.stream); err != nil || !bytes.Equal(out, v.content) {
				ev.HarnessError("reference decoder does not reproduce %q from its own encoding: %q %v", v.content, out, err)
			}
		}
		parts := maxParts
		if len(v.stream) > 24 {
			parts = 3 // 40-byte identity stream: C(39,<=2) cuts
		}
		if v.comp == "zstd" && v.pool == "" {
			parts = maxParts - 1
		}
		comps := sim.Compositions(v.stream, parts, false)
		var seenMu sync.Mutex
		seen := map[string]bool{}
		valid := writeName(instanceName, v.comp, hashOf(v.content), int64(len(v.content)))
		par.For(len(comps), func(ix int) {
			loc := wlocal{outcomes: map[woutcome]bool{}}
			run := func(c wcase) {
				key := ev.Hash(c)
				seenMu.Lock()
				dup := seen[key]
				seen[key] = true
				seenMu.Unlock()
				if dup {
					return
				}
				res := runWrite(&c)
				loc.evals++
				if len(c.Msgs) >= 2 {
					loc.nontrivial++
				}
				loc.vcount[res.verdict]++
				loc.outcomes[res.outcome] = true
				if res.msg != "" {
					r.Violate(ev.Violation{Signature: res.sig, Sub: name, Message: res.msg, Case: c})
				}
				if (loc.evals*31+int64(ix))%50021 == 0 {
					sample(r, name, map[string]any{"sub": name, "case": c, "outcome": res.outcome.String(), "reference": verdictName(res.verdict)})
				}
			}
			for _, separateFinish := range []bool{false, true} {
				var base []wmsg
				off := int64(0)
				for i, p := range comps[ix] {
					if len(p) == 0 && len(v.stream) > 0 {
						continue
					}
					kind, nm := "same", ""
					if i == 0 {
						kind, nm = "valid", valid
					} else if i%2 == 1 {
						kind, nm = "same", valid
					} else {
						kind, nm = "empty", ""
					}
					base = append(base, wmsg{Kind: kind, Name: nm, Off: off, Data: p})
					off += int64(len(p))
				}
				if len(base) == 0 {
					base = append(base, wmsg{Kind: "valid", Name: valid})
				}
				if separateFinish {
					base = append(base, wmsg{Kind: "empty", Off: off, Finish: true})
				} else {
					base[len(base)-1].Finish = true
				}
				mk := func(msgs []wmsg, term string) wcase {
					return wcase{Content: v.content, Comp: v.comp, Msgs: msgs, Term: term, Pool: v.pool}
				}
				cp := func() []wmsg {
					out := make([]wmsg, len(base))
					copy(out, base)
					return out
				}
				run(mk(cp(), "eof"))
				// One offset moved.
				for j := range base {
					for _, delta := range []int64{-1, 1, 7} {
						m := cp()
						m[j].Off += delta
						run(mk(m, "eof"))
					}
					if base[j].Off != 0 {
						m := cp()
						m[j].Off = 0
						run(mk(m, "eof"))
					}
				}
				// finish_write dropped.
				m := cp()
				m[len(m)-1].Finish = false
				run(mk(m, "eof"))
				// Stream broken / closed early after every message.
				for j := 0; j < len(base); j++ {
					run(mk(cp()[:j], "error"))
					run(mk(cp()[:j], "eof"))
				}
				run(mk(cp(), "error"))
				// Damaged stream end.
				last := len(base) - 1
				if separateFinish {
					last--
				}
				if last >= 0 && len(base[last].Data) > 0 {
					d := base[last].Data
					for _, nd := range [][]byte{d[:len(d)-1], append(append([]byte(nil), d[:len(d)-1]...), d[len(d)-1]^0x40), append(append([]byte(nil), d...), 'Z')} {
						m := cp()
						delta := int64(len(nd) - len(d))
						m[last].Data = nd
						for k := last + 1; k < len(m); k++ {
							m[k].Off += delta
						}
						run(mk(m, "eof"))
					}
				}
			}
			st.merge(loc.evals, loc.nontrivial, loc.verdicts())
			for o := range loc.outcomes {
				st.outcomes.Add(o.String())
			}
		})
	}
	sort.Strings(notes)
	r.Note("zstd stream lengths: " + strings.Join(notes, "; "))
	sub.Evaluations, sub.Nontrivial = st.evals, st.nontrivial
	sub.States, sub.Transitions = st.evals, st.evals
	sub.Outcomes = st.outcomes.Len()
	sub.Exhaustive = true
	sub.Extra = map[string]any{"reference_verdicts": st.verdicts}
	done()
}

// ---- resource names -----------------------------------------------------------

// writeNames: malformed and alternative first resource names with an otherwise perfect upload.
func writeNames(r *ev.Run, name string) {
	sub := r.NewSub(name, "venum", "ByteStream.Write: 3 objects x {identity,zstd} x 15 first resource names (well-formed variants and malformed ones) x {single message, two messages}")
	done := sub.Timer()
	var outcomes ev.Set
	for _, content := range [][]byte{{}, []byte("a"), []byte("abc")} {
		h := hashOf(content)
		size := int64(len(content))
		for _, comp := range []string{"identity", "zstd"} {
			mid := "blobs"
			if comp == "zstd" {
				mid = "compressed-blobs/zstd"
			}
			type nm struct {
				name string
				ok   bool
			}
			up := "uploads/" + fixedUUID + "/"
			names := []nm{
				{writeName(instanceName, comp, h, size), true},
				{writeName(instanceName, comp, h, size) + "/some/file.txt", true}, // optional metadata
				{"", false},
				{instanceName, false},
				{join(instanceName, fmt.Sprintf("%s/%s/%d", mid, h, size)), false},                // read path: no uploads/uuid
				{join(instanceName, fmt.Sprintf("%s%s/%s/%d", up, mid, h[:63], size)), false},     // short hash
				{join(instanceName, fmt.Sprintf("%s%s/%s/%d", up, mid, "G"+h[1:], size)), false},  // upper case non-hex
				{join(instanceName, fmt.Sprintf("%s%s/%s/%d", up, mid, h, -1-size)), false},       // negative size
				{join(instanceName, fmt.Sprintf("%s%s/%s/x%d", up, mid, h, size)), false},         // non-numeric size
				{join(instanceName, fmt.Sprintf("%s%s/%s", up, mid, h)), false},                   // size missing
				{join(instanceName, fmt.Sprintf("%scompressed-blobs/lzma/%s/%d", up, h, size)), false},
				{join(instanceName, fmt.Sprintf("%scompressed-blobs/brotli/%s/%d", up, h, size)), false},
				{join("blobs", fmt.Sprintf("%s%s/%s/%d", up, mid, h, size)), false},               // reserved keyword as instance name
				{join(instanceName, fmt.Sprintf("%s%s/%s/%d", up, mid, h, size+1)), false},        // wrong size
				{join(instanceName, fmt.Sprintf("%s%s/%s/%d", up, mid, hashOf([]byte("other")), size)), false}, // wrong hash
			}
			stream := content
			if comp == "zstd" {
				stream = compress(content)
			}
			for _, n := range names {
				for _, two := range []bool{false, true} {
					kind := "invalid"
					if n.ok {
						kind = "valid"
					}
					c := wcase{Content: content, Comp: comp, Term: "eof"}
					if two {
						c.Msgs = []wmsg{{Kind: kind, Name: n.name, Data: stream}, {Kind: "empty", Off: int64(len(stream)), Finish: true}}
					} else {
						c.Msgs = []wmsg{{Kind: kind, Name: n.name, Data: stream, Finish: true}}
					}
					res := runWrite(&c)
					sub.Evaluations++
					if two {
						sub.Nontrivial++
					}
					outcomes.Add(res.outcome.String())
					if res.msg != "" {
						r.Violate(ev.Violation{Signature: res.sig, Sub: name, Message: res.msg, Case: c})
					}
				}
			}
		}
	}
	sub.States, sub.Transitions = sub.Evaluations, sub.Evaluations
	sub.Outcomes = outcomes.Len()
	sub.Exhaustive = true
	done()
}
