// C14 — ByteStream / ContentAddressableStorage / ActionCache services: uploads
// are atomic and verified, reads return the exact suffix, batch calls report a
// per-object status, FindMissingBlobs is exact, and client+server back to back
// behave like the backend they front.
//
// Exhaustive small-scope enumeration (venum) against the real handlers of
// pkg/blobstore/grpcservers, driven in-process with scripted stream objects,
// and against pkg/blobstore/grpcclients connected to them over an in-memory
// gRPC connection. The reference is a model backend (sim.ModelBlobAccess) and
// a few lines of arithmetic per RPC (see expectWrite, runRead, runBatch*).
package main

import (
	"fmt"
	"io"
	"log"
	"os"
	"runtime"
	"runtime/debug"
	"runtime/pprof"

	"verifh/ev"
)

func main() {
	r := ev.Start("C14")
	log.SetOutput(io.Discard) // the buffer layer logs every (intended) corrupted backend object
	r.Rule("venum: every element of the spaces described per sub-check is executed against the real handlers. Non-trivial = Write: the stream carries >= 2 messages; Read: offset != 0, object not plainly present, read_limit set or a Send fails; batch calls: >= 2 entries (BatchUpdateBlobs: >= 2 distinct entry kinds); FindMissingBlobs: non-empty request against a backend that is neither empty nor full; sequences: >= 2 operations (back-to-back CAS: starting with a Put). All enumerated cases are distinct by construction (cuts are de-duplicated before running).")
	r.Assume("Write: messages after the first finish_write, and a stream error after it, are don't-care for acceptance (DESIGN 5.3): either OK with exactly the right bytes stored, or an error with nothing stored.")
	r.Assume("Write: resource names of later messages are not part of the property; they are enumerated (same / different object / empty) only to show they never make anything else visible.")
	r.Assume("Write zstd: write_offset counts compressed bytes from 0 (the property demands offsets starting at zero; the server does not implement resumable uploads). committed_size is compared with what the code defines: the digest size for identity, the number of compressed bytes up to finish_write for zstd.")
	r.Assume("Write zstd: a compressed stream that is damaged only after a streaming decoder has already produced the complete matching content (truncated or wrong frame checksum, partial next frame header) is don't-care: stored data matches the digest either way.")
	r.Assume("Write enumeration, stated prunings: (1) offsets/data options that coincide for the current running total are enumerated once; (2) at most one later message carries a deviating resource name (the handler never reads it); (3) sequences whose FIRST resource name is malformed are enumerated only to a shorter length (the handler returns before reading message 2); (4) the backend Put fault (before reading / after reading the upload) is combined with all sequences up to one message shorter than the maximum; (5) the zstd enumeration uses the repository's bounded pool (decoder reuse), the default unbounded pool is exercised in bs-write-cuts, bs-write-names, bs-read and one back-to-back mode. Data alphabet per message: empty | next byte of the correct (compressed) stream, or an excess byte 'Z' once it is exhausted | rest of the correct stream | rest of the stream of the object with its last byte flipped.")
	r.Assume("Write: error codes are recorded, not demanded; the property only says the RPC fails.")
	r.Assume("Read: offset k with 0 <= k < size must stream exactly content[k:] and return OK; k == size may return OK without data or an error; any other offset, a missing object and a malformed name must not deliver a single byte that is not a prefix of the demanded suffix. read_limit != 0 is not covered by the property: an error is accepted (the server answers UNIMPLEMENTED), an OK answer must carry exactly the limited range. Chunk sizes of the responses are not demanded.")
	r.Assume("Read of a backend object whose content does not match its digest must not complete with OK; bytes streamed before the mismatch is detected are not judged.")
	r.Assume("Batch calls: the whole RPC may fail only if some digest in it is malformed (or, BatchReadBlobs, the requested total exceeds the maximum); otherwise a per-entry status is demanded. BatchReadBlobs must serve a well-formed request whose requested total is <= the configured maximum and never deliver more than the maximum.")
	r.Assume("Back to back: real goroutines of gRPC are outside any scheduler control; this part is a sequential differential check (one RPC at a time, server handlers awaited before comparing) and claims no schedule coverage.")

	if r.Replay != "" {
		replay(r, ev.LoadReplay(r.Replay))
		r.Finish()
	}
	if p := os.Getenv("C14_CPUPROFILE"); p != "" { // development aid only
		f, _ := os.Create(p)
		pprof.StartCPUProfile(f)
		defer pprof.StopCPUProfile()
	}

	if r.Want("bs-write-seq") {
		withBallast(func() { writeSeq(r, "bs-write-seq", ev.Pick(r, 4, 5), ev.Pick(r, 3, 4), ev.Pick(r, 2, 3)) })
	}
	if r.Want("bs-write-cuts") {
		withBallast(func() { writeCuts(r, "bs-write-cuts", ev.Pick(r, 3, 4)) })
	}
	if r.Want("bs-write-names") {
		writeNames(r, "bs-write-names")
	}
	if r.Want("bs-read") {
		readSub(r, "bs-read")
	}
	if r.Want("batch-update") {
		batchUpdateSub(r, "batch-update")
	}
	if r.Want("batch-read") {
		batchReadSub(r, "batch-read")
	}
	if r.Want("find-missing") {
		findMissingSub(r, "find-missing")
	}
	if r.Want("action-cache") {
		actionCacheSub(r, "action-cache", ev.Pick(r, 3, 4))
	}
	if r.Want("client-scripted") {
		clientSub(r, "client-scripted")
	}
	if r.Want("b2b-cas") {
		b2bSub(r, "b2b-cas", ev.Pick(r, 3, 4))
	}
	if r.Want("b2b-ac") {
		acB2BSub(r, "b2b-ac", ev.Pick(r, 3, 4))
	}
	pprof.StopCPUProfile()
	r.Finish()
}

// withBallast keeps an untouched allocation alive while f runs so that the
// collector does not run every few megabytes: the bounded zstd pool keeps its
// decoders in a sync.Pool, which every collection empties, and a new decoder
// zeroes an 8 MiB window. Performance only; the gRPC sub-checks are faster
// without it.
func withBallast(f func()) {
	mib := 512
	if v := os.Getenv("C14_BALLAST_MIB"); v != "" {
		fmt.Sscan(v, &mib)
	}
	ballast := make([]byte, mib<<20)
	f()
	runtime.KeepAlive(ballast)
	ballast = nil
	debug.FreeOSMemory()
}

func replay(r *ev.Run, rf ev.ReplayFile) {
	report := func(msg, sig, outcome string, c any) {
		fmt.Printf("replay %s case=%+v\n  outcome=%s\n  message=%q\n", rf.Sub, c, outcome, msg)
		if msg != "" {
			r.Violate(ev.Violation{Signature: sig, Sub: rf.Sub, Message: msg, Case: c})
		}
	}
	switch rf.Sub {
	case "bs-write-seq", "bs-write-cuts", "bs-write-names":
		var c wcase
		ev.MustJSON(rf.Case, &c)
		res := runWrite(&c)
		report(res.msg, res.sig, res.outcome.String(), c)
	case "bs-read":
		var c rcase
		ev.MustJSON(rf.Case, &c)
		res := runRead(&c)
		report(res.msg, res.sig, res.outcome, c)
	case "batch-update":
		var c bucase
		ev.MustJSON(rf.Case, &c)
		msg, sig, oc := runBatchUpdate(&c)
		report(msg, sig, oc, c)
	case "batch-read":
		var c brcase
		ev.MustJSON(rf.Case, &c)
		msg, sig, oc := runBatchRead(&c)
		report(msg, sig, oc, c)
	case "find-missing":
		var c fmcase
		ev.MustJSON(rf.Case, &c)
		msg, sig, oc := runFindMissing(&c)
		report(msg, sig, oc, c)
	case "action-cache":
		var c accase
		ev.MustJSON(rf.Case, &c)
		msg, sig, oc := runAC(&c)
		report(msg, sig, oc, c)
	case "client-scripted":
		var c ccase
		ev.MustJSON(rf.Case, &c)
		msg, sig, oc := runClient(&c)
		report(msg, sig, oc, c)
	case "b2b-cas":
		var c b2bcase
		ev.MustJSON(rf.Case, &c)
		f := newFixture(c.Mode)
		msg, sig, oc := runB2B(f, &c)
		f.close()
		report(msg, sig, oc, c)
	case "b2b-ac":
		var c acb2bcase
		ev.MustJSON(rf.Case, &c)
		f := newFixture(b2bMode{Client: "identity", Server: "identity", Chunk: 100, Buf: "slice"})
		msg, sig, oc := runACB2B(f, &c)
		f.close()
		report(msg, sig, oc, c)
	default:
		ev.HarnessError("unknown sub-check %q in replay file", rf.Sub)
	}
}
