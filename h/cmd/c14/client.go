package main

import (
	"bytes"
	"context"
	"errors"
	"fmt"
	"io"
	"strings"
	"sync"

	remoteexecution "github.com/bazelbuild/remote-apis/build/bazel/remote/execution/v2"
	"github.com/buildbarn/bb-storage/pkg/blobstore/grpcclients"
	bb_zstd "github.com/buildbarn/bb-storage/pkg/zstd"
	"github.com/google/uuid"
	"google.golang.org/genproto/googleapis/bytestream"
	"google.golang.org/grpc"
	"google.golang.org/grpc/codes"
	"google.golang.org/grpc/metadata"
	"google.golang.org/grpc/status"
	"google.golang.org/protobuf/proto"

	"verifh/ev"
	"verifh/sim"
)

// The back-to-back runs cannot control when a server-side failure reaches the
// client. This sub-check drives grpcclients.NewCASBlobAccess against a scripted
// grpc.ClientConnInterface instead: the "server" accepts a fixed number of
// WriteRequests and then ends the stream with a fixed status (gRPC then makes
// SendMsg return io.EOF and RecvMsg return the status), or delivers a fixed
// list of ReadResponses followed by a fixed status.

type ccase struct {
	Client  string `json:"client"` // identity, zstd
	Content []byte `json:"content"`
	Data    string `json:"upload_data"` // valid, flipped, long
	Buf     string `json:"upload_buffer"`
	Chunk   int    `json:"chunk_size"`
	// Put: the server ends the stream with Status after accepting Accept
	// messages (Accept < 0: it reads everything and answers).
	Accept int    `json:"server_accepts_messages"`
	Status string `json:"server_status"`
	// Get: responses and final status ("OK" = clean end of stream).
	Op     string   `json:"op"` // put, get
	Chunks [][]byte `json:"read_responses,omitempty"`
}

var statusCodes = map[string]codes.Code{"OK": codes.OK, "Unavailable": codes.Unavailable, "InvalidArgument": codes.InvalidArgument, "ResourceExhausted": codes.ResourceExhausted}

type scriptedConn struct {
	c    *ccase
	mu   sync.Mutex
	sent []*bytestream.WriteRequest
}

func (s *scriptedConn) Invoke(ctx context.Context, method string, args, reply any, opts ...grpc.CallOption) error {
	if strings.HasSuffix(method, "/GetCapabilities") {
		proto.Merge(reply.(proto.Message), &remoteexecution.ServerCapabilities{CacheCapabilities: &remoteexecution.CacheCapabilities{
			SupportedCompressors: []remoteexecution.Compressor_Value{remoteexecution.Compressor_ZSTD},
		}})
		return nil
	}
	return status.Error(codes.Unimplemented, "scripted connection: "+method)
}

func (s *scriptedConn) NewStream(ctx context.Context, desc *grpc.StreamDesc, method string, opts ...grpc.CallOption) (grpc.ClientStream, error) {
	switch {
	case strings.HasSuffix(method, "/Write"):
		return &scriptedWrite{conn: s, ctx: ctx}, nil
	case strings.HasSuffix(method, "/Read"):
		return &scriptedRead{conn: s, ctx: ctx}, nil
	}
	return nil, status.Error(codes.Unimplemented, "scripted connection: "+method)
}

type scriptedWrite struct {
	conn *scriptedConn
	ctx  context.Context
}

func (w *scriptedWrite) Header() (metadata.MD, error) { return nil, nil }
func (w *scriptedWrite) Trailer() metadata.MD         { return nil }
func (w *scriptedWrite) CloseSend() error             { return nil }
func (w *scriptedWrite) Context() context.Context     { return w.ctx }

func (w *scriptedWrite) ended() bool {
	c := w.conn.c
	return c.Accept >= 0 && len(w.conn.sent) >= c.Accept
}

func (w *scriptedWrite) SendMsg(m any) error {
	w.conn.mu.Lock()
	defer w.conn.mu.Unlock()
	if w.ended() {
		// The server has ended the RPC: gRPC reports io.EOF and keeps the
		// status for RecvMsg.
		return io.EOF
	}
	w.conn.sent = append(w.conn.sent, proto.Clone(m.(proto.Message)).(*bytestream.WriteRequest))
	return nil
}

func (w *scriptedWrite) RecvMsg(m any) error {
	w.conn.mu.Lock()
	defer w.conn.mu.Unlock()
	c := w.conn.c
	if c.Accept >= 0 {
		return status.Error(statusCodes[c.Status], "scripted server status")
	}
	// The scripted server applies the reference acceptance rule itself.
	wc := sentAsCase(c, w.conn.sent)
	if v, reason, committed := expectWrite(&wc); v != mustReject {
		proto.Merge(m.(proto.Message), &bytestream.WriteResponse{CommittedSize: committed})
		return nil
	} else {
		return status.Error(codes.InvalidArgument, "scripted server refuses: "+reason)
	}
}

func sentAsCase(c *ccase, sent []*bytestream.WriteRequest) wcase {
	comp := "identity"
	if c.Client == "zstd" {
		comp = "zstd"
	}
	wc := wcase{Content: c.Content, Comp: comp, Term: "eof"}
	want := writeName(instanceName, comp, hashOf(c.Content), int64(len(c.Content)))
	for i, m := range sent {
		kind := "same"
		if i == 0 {
			kind = "invalid"
			if m.ResourceName == want {
				kind = "valid"
			}
		}
		wc.Msgs = append(wc.Msgs, wmsg{Kind: kind, Name: m.ResourceName, Off: m.WriteOffset, Data: m.Data, Finish: m.FinishWrite})
	}
	return wc
}

type scriptedRead struct {
	conn *scriptedConn
	ctx  context.Context
	pos  int
}

func (r *scriptedRead) Header() (metadata.MD, error) { return nil, nil }
func (r *scriptedRead) Trailer() metadata.MD         { return nil }
func (r *scriptedRead) CloseSend() error             { return nil }
func (r *scriptedRead) Context() context.Context     { return r.ctx }
func (r *scriptedRead) SendMsg(m any) error          { return nil }
func (r *scriptedRead) RecvMsg(m any) error {
	r.conn.mu.Lock()
	defer r.conn.mu.Unlock()
	c := r.conn.c
	if r.pos < len(c.Chunks) {
		proto.Merge(m.(proto.Message), &bytestream.ReadResponse{Data: c.Chunks[r.pos]})
		r.pos++
		return nil
	}
	if c.Status == "OK" {
		return io.EOF
	}
	return status.Error(statusCodes[c.Status], "scripted server status")
}

func runClient(c *ccase) (msg, sig, outcome string) {
	conn := &scriptedConn{c: c}
	var pool bb_zstd.Pool
	if c.Client == "zstd" {
		pool = sharedBounded
	}
	gen := func() (uuid.UUID, error) { return uuid.Parse(fixedUUID) }
	ba := grpcclients.NewCASBlobAccess(conn, gen, c.Chunk, pool)
	d := digestOf(instanceName, c.Content)
	fail := func(s, format string, a ...any) (string, string, string) {
		return fmt.Sprintf(format, a...), "cas-client-" + c.Client + ":" + s, ""
	}
	if c.Op == "get" {
		data, err := ba.Get(context.Background(), d).ToByteSlice(1000)
		var delivered []byte
		for _, ch := range c.Chunks {
			delivered = append(delivered, ch...)
		}
		good := bytes.Equal(delivered, c.Content)
		if c.Client == "zstd" {
			out, derr := refDecode(delivered)
			good = derr == nil && bytes.Equal(out, c.Content)
		}
		outcome = fmt.Sprintf("get:%s:good=%v:status=%s", sim.Code(err), good, c.Status)
		if err == nil && !bytes.Equal(data, c.Content) {
			return fail("get-delivers-mismatching-data", "Get returned %q for the digest of %q", data, c.Content)
		}
		if err != nil && good && c.Status == "OK" {
			return fail("get-refuses-correct-stream", "the server delivered the exact object and a clean end of stream, Get failed: %v", err)
		}
		// A failing stream status after complete, verified data may or may not
		// surface; it is recorded only.
		return "", "", outcome
	}

	data := append([]byte(nil), c.Content...)
	switch c.Data {
	case "flipped":
		data[0] ^= 1
	case "long":
		data = append(data, 'Z')
	}
	err := ba.Put(context.Background(), d, uploadBuffer(c.Buf, d, data))
	wc := sentAsCase(c, conn.sent)
	verdict, reason, _ := expectWrite(&wc)
	outcome = fmt.Sprintf("put:%s:data=%s:accept=%d:status=%s:sent=%d:upload=%s", sim.Code(err), c.Data, c.Accept, c.Status, len(conn.sent), verdictName(verdict))
	if errors.Is(err, io.EOF) {
		return fail("put-returns-io-eof", "the server ended the stream with %s after %d messages; Put returned the bare io.EOF of SendMsg (gRPC code %s) instead of the stream's status", c.Status, c.Accept, status.Code(err))
	}
	if c.Data != "valid" {
		if err == nil {
			return fail("put-of-mismatching-data-ok", "Put of data not matching the digest returned OK")
		}
		if c.Accept < 0 && verdict != mustReject {
			return fail("failed-put-still-commits", "Put failed (%v) but the %d messages it sent form a complete, finished, matching upload that a correct server stores", err, len(conn.sent))
		}
		return "", "", outcome
	}
	if c.Accept < 0 {
		if verdict != mustAccept {
			return fail("valid-put-sends-unacceptable-stream", "messages sent for a valid Put are not an acceptable upload: %s", reason)
		}
		if err != nil {
			return fail("valid-put-fails", "the server accepted the upload, Put returned %v", err)
		}
		return "", "", outcome
	}
	if err == nil {
		return fail("put-swallows-stream-status", "the server ended the stream with %s, Put returned OK", c.Status)
	}
	if status.Code(err) != statusCodes[c.Status] {
		return fail("put-loses-stream-status", "the server ended the stream with %s, Put reports %s (%v)", c.Status, status.Code(err), err)
	}
	return "", "", outcome
}

func clientSub(r *ev.Run, name string) {
	sub := r.NewSub(name, "venum",
		"grpcclients.NewCASBlobAccess on a scripted connection: Put: client {identity,zstd} x objects \"\",\"abc\",\"abcde\" x data {valid, first byte flipped, one byte too long} x upload buffer {slice,reader} x chunk size {1,2,100} x "+
			"server {reads everything and applies the reference acceptance rule; ends the stream after 0..4 messages} x status {UNAVAILABLE, INVALID_ARGUMENT, RESOURCE_EXHAUSTED}; "+
			"Get: every cut of the exact (compressed) object / of the object with a flipped byte / truncated by one byte into <=3 responses x final status {clean end, UNAVAILABLE, INVALID_ARGUMENT}")
	done := sub.Timer()
	var outcomes ev.Set
	eval := func(c ccase) {
		msg, sig, oc := runClient(&c)
		sub.Evaluations++
		if c.Op == "get" && len(c.Chunks) >= 2 || c.Op == "put" && (c.Accept >= 0 || c.Data != "valid") {
			sub.Nontrivial++
		}
		outcomes.Add(oc)
		if msg != "" {
			r.Violate(ev.Violation{Signature: sig, Sub: name, Message: msg, Case: c})
		}
		if sub.Evaluations%1009 == 5 {
			sample(r, name, map[string]any{"sub": name, "case": c, "outcome": oc})
		}
	}
	for _, client := range []string{"identity", "zstd"} {
		for _, content := range [][]byte{{}, []byte("abc"), []byte("abcde")} {
			for _, chunk := range []int{1, 2, 100} {
				for _, buf := range []string{"slice", "reader"} {
					for _, data := range []string{"valid", "flipped", "long"} {
						if data == "flipped" && len(content) == 0 {
							continue
						}
						eval(ccase{Op: "put", Client: client, Content: content, Data: data, Buf: buf, Chunk: chunk, Accept: -1, Status: "OK"})
						for accept := 0; accept <= 4; accept++ {
							for _, st := range []string{"Unavailable", "InvalidArgument", "ResourceExhausted"} {
								eval(ccase{Op: "put", Client: client, Content: content, Data: data, Buf: buf, Chunk: chunk, Accept: accept, Status: st})
							}
						}
					}
				}
				// Get.
				exact := content
				if client == "zstd" {
					exact = compress(content)
				}
				streams := [][]byte{exact}
				if len(exact) > 0 {
					fl := append([]byte(nil), exact...)
					fl[len(fl)-1] ^= 1
					streams = append(streams, fl, exact[:len(exact)-1])
				}
				streams = append(streams, append(append([]byte(nil), exact...), 'Z'))
				for _, s := range streams {
					for _, parts := range sim.Compositions(s, 3, false) {
						var chunks [][]byte
						for _, p := range parts {
							if len(p) > 0 {
								chunks = append(chunks, p)
							}
						}
						for _, st := range []string{"OK", "Unavailable", "InvalidArgument"} {
							eval(ccase{Op: "get", Client: client, Content: content, Chunk: chunk, Chunks: chunks, Status: st})
						}
					}
				}
			}
		}
	}
	sub.States, sub.Transitions = sub.Evaluations, sub.Evaluations
	sub.Outcomes = outcomes.Len()
	sub.Exhaustive = true
	done()
}
