package main

import (
	"context"
	"fmt"
	"sort"
	"strings"

	remoteexecution "github.com/bazelbuild/remote-apis/build/bazel/remote/execution/v2"
	"github.com/buildbarn/bb-storage/pkg/blobstore/grpcservers"
	"github.com/buildbarn/bb-storage/pkg/digest"
	"google.golang.org/grpc/codes"
	"google.golang.org/grpc/status"
	"google.golang.org/protobuf/proto"

	"verifh/ev"
	"verifh/par"
	"verifh/sim"
)

var batchObjects = [][]byte{{}, []byte("a"), []byte("abc")}

type bentry struct {
	Obj  int    `json:"object"`
	Kind string `json:"kind"`
}

// entryDigest builds the request digest of an entry (nil for kind "nil").
func entryDigest(e bentry) *remoteexecution.Digest {
	content := batchObjects[e.Obj]
	h := hashOf(content)
	switch e.Kind {
	case "wrong-size":
		return protoDigest(h, int64(len(content))+1)
	case "wrong-hash":
		// a well-formed digest of the right size whose hash is that of other content (for the empty object:
		// <some hash>/0 with no data at all - nothing to read does not mean nothing to verify)
		return protoDigest(hashOf(append(append([]byte(nil), content...), '!')), int64(len(content)))
	case "nonhex":
		return protoDigest("g"+h[1:], int64(len(content)))
	case "shorthash":
		return protoDigest(h[:63], int64(len(content)))
	case "nil":
		return nil
	}
	return protoDigest(h, int64(len(content)))
}

func malformed(kind string) bool { return kind == "nonhex" || kind == "shorthash" || kind == "nil" }

// ---- BatchUpdateBlobs ---------------------------------------------------------

type bucase struct {
	Instance string   `json:"instance_name"`
	Func     int32    `json:"digest_function"`
	Entries  []bentry `json:"entries"`
	FaultAt  int      `json:"put_call_failing"` // -1: none
}

var updateKinds = []string{"valid", "wrong-data", "wrong-hash", "wrong-size", "short-data", "nonhex", "shorthash", "nil"}

func entryData(e bentry) []byte {
	content := batchObjects[e.Obj]
	switch e.Kind {
	case "wrong-data":
		if len(content) == 0 {
			return []byte("x")
		}
		d := append([]byte(nil), content...)
		d[0] ^= 1
		return d
	case "short-data":
		if len(content) == 0 {
			return []byte("yy")
		}
		return content[:len(content)-1]
	}
	return content
}

func runBatchUpdate(c *bucase) (msg, sig, outcome string) {
	backend := sim.NewModel("backend", keyFormat)
	pre := digestOf(c.Instance, preexisting)
	backend.Store(pre, preexisting)
	puts := 0
	backend.Hook = func(op string, ds []digest.Digest) error {
		if op == "Put" {
			puts++
			if puts-1 == c.FaultAt {
				return errInjected
			}
		}
		return nil
	}
	server := grpcservers.NewContentAddressableStorageServer(backend, 1000)
	req := &remoteexecution.BatchUpdateBlobsRequest{InstanceName: c.Instance, DigestFunction: remoteexecution.DigestFunction_Value(c.Func)}
	for _, e := range c.Entries {
		req.Requests = append(req.Requests, &remoteexecution.BatchUpdateBlobsRequest_Request{Digest: entryDigest(e), Data: entryData(e)})
	}
	resp, err := server.BatchUpdateBlobs(context.Background(), req)

	// Reference.
	anyMalformed := false
	wantOK := make([]bool, len(c.Entries))
	wantStored := map[int]bool{}
	call := 0
	for i, e := range c.Entries {
		if malformed(e.Kind) {
			anyMalformed = true
			continue
		}
		faulted := call == c.FaultAt
		call++
		if e.Kind == "valid" && !faulted {
			wantOK[i] = true
			wantStored[e.Obj] = true
		}
	}
	known := map[string]digest.Digest{"pre": pre}
	for o, content := range batchObjects {
		known[fmt.Sprintf("obj%d", o)] = digestOf(c.Instance, content)
	}
	snap := snapshot(backend, known)
	var oc []string
	fail := func(s, format string, a ...any) (string, string, string) {
		return fmt.Sprintf(format, a...) + fmt.Sprintf(" [rpc error %v; backend %v]", err, snap), "batch-update:" + s, ""
	}
	// Safety, whatever the RPC says: only matching data under expected keys.
	for name, v := range snap {
		switch {
		case name == "pre":
			if v != string(preexisting) {
				return fail("other-object-modified", "pre-existing object changed to %q", v)
			}
		case strings.HasPrefix(name, "obj"):
			o := int(name[3] - '0')
			if v != string(batchObjects[o]) {
				return fail("mismatching-data-stored", "backend holds %q under the digest of %q", v, batchObjects[o])
			}
		default:
			return fail("foreign-key-stored", "key %s became visible", name)
		}
	}
	if err != nil {
		if !anyMalformed {
			return fail("wellformed-request-failed", "all digests are well-formed but the RPC failed")
		}
		return "", "", "rpc-error:" + sim.Code(err)
	}
	if len(resp.Responses) != len(c.Entries) {
		return fail("response-count", "%d responses for %d requests", len(resp.Responses), len(c.Entries))
	}
	for i, e := range c.Entries {
		rs := resp.Responses[i]
		if !proto.Equal(rs.Digest, entryDigest(e)) {
			return fail("response-digest", "response %d carries digest %v, request had %v", i, rs.Digest, entryDigest(e))
		}
		code := codes.Code(rs.Status.GetCode())
		oc = append(oc, e.Kind+"="+code.String())
		if wantOK[i] && code != codes.OK {
			return fail("valid-entry-refused", "entry %d (%s) is valid but got status %s", i, e.Kind, code)
		}
		if !wantOK[i] && code == codes.OK {
			return fail(e.Kind+"-entry-accepted", "entry %d (%s, put fault at call %d) got status OK", i, e.Kind, c.FaultAt)
		}
	}
	for o := range batchObjects {
		_, stored := snap[fmt.Sprintf("obj%d", o)]
		if stored != wantStored[o] {
			return fail("stored-set", "object %d stored=%v, want %v", o, stored, wantStored[o])
		}
	}
	return "", "", strings.Join(oc, ",")
}

func batchUpdateSub(r *ev.Run, name string) {
	sub := r.NewSub(name, "venum", "BatchUpdateBlobs: every request list of <=3 entries over 3 objects x {valid, wrong data, hash of other content, digest size+1, data too short, non-hex hash, short hash, nil digest} x digest_function {UNKNOWN,SHA256} x instance {\"i/j\",\"\"} x failing backend Put call {none,0,1}")
	done := sub.Timer()
	var alphabet []bentry
	for o := range batchObjects {
		for _, k := range updateKinds {
			alphabet = append(alphabet, bentry{o, k})
		}
	}
	lists := entryLists(alphabet, 3)
	var outcomes ev.Set
	var st stats
	par.For(len(lists), func(ix int) {
		var evals, nontrivial int64
		for _, inst := range []string{instanceName, ""} {
			for _, fn := range []int32{0, int32(remoteexecution.DigestFunction_SHA256)} {
				for _, faultAt := range []int{-1, 0, 1} {
					c := bucase{Instance: inst, Func: fn, Entries: lists[ix], FaultAt: faultAt}
					msg, sig, oc := runBatchUpdate(&c)
					evals++
					if distinctKinds(c.Entries) >= 2 {
						nontrivial++
					}
					outcomes.Add(oc)
					if msg != "" {
						r.Violate(ev.Violation{Signature: sig, Sub: name, Message: msg, Case: c})
					}
					if (ix*12+int(evals))%20011 == 5 {
						sample(r, name, map[string]any{"sub": name, "case": c, "outcome": oc})
					}
				}
			}
		}
		st.merge(evals, nontrivial, nil)
	})
	sub.Evaluations, sub.Nontrivial = st.evals, st.nontrivial
	sub.States, sub.Transitions = sub.Evaluations, sub.Evaluations
	sub.Outcomes = outcomes.Len()
	sub.Exhaustive = true
	done()
}

func entryLists(alphabet []bentry, max int) [][]bentry {
	out := [][]bentry{nil}
	var rec func(cur []bentry)
	rec = func(cur []bentry) {
		if len(cur) == max {
			return
		}
		for _, a := range alphabet {
			next := append(append([]bentry(nil), cur...), a)
			out = append(out, next)
			rec(next)
		}
	}
	rec(nil)
	return out
}

func distinctKinds(es []bentry) int {
	m := map[string]bool{}
	for _, e := range es {
		m[e.Kind] = true
	}
	return len(m)
}

// ---- BatchReadBlobs -----------------------------------------------------------

type brcase struct {
	Func     int32    `json:"digest_function"`
	Entries  []bentry `json:"entries"`
	Presence []string `json:"backend"` // per object: present, absent, corrupt
	MaxDelta int64    `json:"max_minus_requested_total"`
}

var readKinds = []string{"valid", "wrong-size", "nonhex", "shorthash", "nil"}

func runBatchRead(c *brcase) (msg, sig, outcome string) {
	backend := sim.NewModel("backend", keyFormat)
	for o, content := range batchObjects {
		d := digestOf(instanceName, content)
		switch c.Presence[o] {
		case "present":
			backend.Store(d, content)
		case "corrupt":
			bad := []byte("x")
			if len(content) > 0 {
				bad = append([]byte(nil), content...)
				bad[len(bad)-1] ^= 1
			}
			backend.Store(d, bad)
		}
	}
	total := int64(0)
	anyMalformed := false
	req := &remoteexecution.BatchReadBlobsRequest{InstanceName: instanceName, DigestFunction: remoteexecution.DigestFunction_Value(c.Func)}
	for _, e := range c.Entries {
		d := entryDigest(e)
		req.Digests = append(req.Digests, d)
		if malformed(e.Kind) {
			anyMalformed = true
		} else {
			total += d.SizeBytes
		}
	}
	max := total + c.MaxDelta
	server := grpcservers.NewContentAddressableStorageServer(backend, max)
	resp, err := server.BatchReadBlobs(context.Background(), req)
	fail := func(s, format string, a ...any) (string, string, string) {
		return fmt.Sprintf(format, a...) + fmt.Sprintf(" [rpc error %v; requested total %d, maximum %d]", err, total, max), "batch-read:" + s, ""
	}
	if err != nil {
		if !anyMalformed && total <= max {
			return fail("request-within-limit-failed", "well-formed request within the size limit failed")
		}
		return "", "", "rpc-error:" + sim.Code(err)
	}
	if len(resp.Responses) != len(c.Entries) {
		return fail("response-count", "%d responses for %d digests", len(resp.Responses), len(c.Entries))
	}
	delivered := int64(0)
	var oc []string
	for i, e := range c.Entries {
		rs := resp.Responses[i]
		if !proto.Equal(rs.Digest, entryDigest(e)) {
			return fail("response-digest", "response %d carries digest %v, request had %v", i, rs.Digest, entryDigest(e))
		}
		code := codes.Code(rs.Status.GetCode())
		oc = append(oc, e.Kind+"/"+c.Presence[e.Obj]+"="+code.String())
		delivered += int64(len(rs.Data))
		good := e.Kind == "valid" && c.Presence[e.Obj] == "present"
		if code == codes.OK {
			if !good {
				return fail("unavailable-entry-ok", "entry %d (%s, backend %s) got status OK with data %q", i, e.Kind, c.Presence[e.Obj], rs.Data)
			}
			if string(rs.Data) != string(batchObjects[e.Obj]) {
				return fail("mismatching-data-delivered", "entry %d delivered %q for the digest of %q", i, rs.Data, batchObjects[e.Obj])
			}
		} else {
			if good {
				return fail("available-entry-failed", "entry %d is in the backend but got status %s", i, code)
			}
			if len(rs.Data) != 0 {
				return fail("data-with-error-status", "entry %d has status %s and data %q", i, code, rs.Data)
			}
		}
	}
	if delivered > max && delivered > 0 {
		return fail("limit-exceeded", "delivered %d bytes", delivered)
	}
	return "", "", strings.Join(oc, ",")
}

func batchReadSub(r *ev.Run, name string) {
	sub := r.NewSub(name, "venum", "BatchReadBlobs: every digest list of <=3 entries over 3 objects x {exact digest, size+1, non-hex hash, short hash, nil} x backend state per object {present, absent, content not matching} (27) x digest_function {UNKNOWN,SHA256} x maximum total size = requested total + {-1,0,+1,+100}")
	done := sub.Timer()
	var alphabet []bentry
	for o := range batchObjects {
		for _, k := range readKinds {
			alphabet = append(alphabet, bentry{o, k})
		}
	}
	lists := entryLists(alphabet, 3)
	pres := []string{"present", "absent", "corrupt"}
	var outcomes ev.Set
	var st stats
	par.For(len(lists), func(ix int) {
		var evals, nontrivial int64
		for p := 0; p < 27; p++ {
			presence := []string{pres[p%3], pres[p/3%3], pres[p/9]}
			for _, fn := range []int32{0, int32(remoteexecution.DigestFunction_SHA256)} {
				for _, delta := range []int64{-1, 0, 1, 100} {
					c := brcase{Func: fn, Entries: lists[ix], Presence: presence, MaxDelta: delta}
					msg, sig, oc := runBatchRead(&c)
					evals++
					if len(c.Entries) >= 2 {
						nontrivial++
					}
					outcomes.Add(oc)
					if msg != "" {
						r.Violate(ev.Violation{Signature: sig, Sub: name, Message: msg, Case: c})
					}
					if (ix*216+int(evals))%150001 == 5 {
						sample(r, name, map[string]any{"sub": name, "case": c, "outcome": oc})
					}
				}
			}
		}
		st.merge(evals, nontrivial, nil)
	})
	sub.Evaluations, sub.Nontrivial = st.evals, st.nontrivial
	sub.States, sub.Transitions = sub.Evaluations, sub.Evaluations
	sub.Outcomes = outcomes.Len()
	sub.Exhaustive = true
	done()
}

// ---- FindMissingBlobs -----------------------------------------------------------

type fmcase struct {
	Instance string `json:"instance_name"`
	Func     int32  `json:"digest_function"`
	Request  []int  `json:"request"` // indices into the universe, in request order
	Present  int    `json:"present_mask"`
	Fault    bool   `json:"backend_error"`
	Bad      string `json:"malformed_extra,omitempty"`
}

// The universe: three objects and a digest with the hash of "abc" but size 1.
func fmUniverse() []*remoteexecution.Digest {
	return []*remoteexecution.Digest{
		protoDigest(hashOf(nil), 0),
		protoDigest(hashOf([]byte("a")), 1),
		protoDigest(hashOf([]byte("abc")), 3),
		protoDigest(hashOf([]byte("abc")), 1),
	}
}

func runFindMissing(c *fmcase) (msg, sig, outcome string) {
	u := fmUniverse()
	backend := sim.NewModel("backend", keyFormat)
	// Everything lives under instance "i/j"; a request for another instance
	// name must find nothing.
	for i, d := range u {
		if c.Present&(1<<i) != 0 {
			backend.Store(digest.MustNewDigest(instanceName, remoteexecution.DigestFunction_SHA256, d.Hash, d.SizeBytes), []byte("?"))
		}
	}
	if c.Fault {
		backend.Hook = func(op string, ds []digest.Digest) error { return errInjected }
	}
	server := grpcservers.NewContentAddressableStorageServer(backend, 1000)
	req := &remoteexecution.FindMissingBlobsRequest{InstanceName: c.Instance, DigestFunction: remoteexecution.DigestFunction_Value(c.Func)}
	want := map[string]bool{}
	for _, i := range c.Request {
		req.BlobDigests = append(req.BlobDigests, u[i])
		if c.Instance != instanceName || c.Present&(1<<i) == 0 {
			want[fmt.Sprintf("%s/%d", u[i].Hash, u[i].SizeBytes)] = true
		}
	}
	switch c.Bad {
	case "nonhex":
		req.BlobDigests = append(req.BlobDigests, protoDigest("g"+u[0].Hash[1:], 0))
	case "nil":
		req.BlobDigests = append(req.BlobDigests, nil)
	case "negative":
		req.BlobDigests = append(req.BlobDigests, protoDigest(u[0].Hash, -1))
	}
	resp, err := server.FindMissingBlobs(context.Background(), req)
	fail := func(s, format string, a ...any) (string, string, string) {
		return fmt.Sprintf(format, a...) + fmt.Sprintf(" [rpc error %v; backend calls %v]", err, backend.CallsCopy()), "find-missing:" + s, ""
	}
	if c.Bad != "" {
		if err == nil {
			return fail("malformed-digest-accepted", "request with a %s digest succeeded", c.Bad)
		}
		return "", "", "malformed:" + sim.Code(err)
	}
	if c.Fault && len(c.Request) > 0 {
		if err == nil {
			return fail("backend-error-swallowed", "backend failed but the RPC returned OK")
		}
		if status.Code(err) != codes.Unavailable {
			return fail("backend-error-code", "backend failed with UNAVAILABLE, RPC returned %s", status.Code(err))
		}
		return "", "", "backend-error"
	}
	if err != nil {
		return fail("failed", "well-formed request failed")
	}
	got := map[string]bool{}
	var gl []string
	for _, d := range resp.MissingBlobDigests {
		k := fmt.Sprintf("%s/%d", d.GetHash(), d.GetSizeBytes())
		if got[k] {
			return fail("duplicate-in-answer", "digest %s reported twice", k)
		}
		got[k] = true
		gl = append(gl, k[:4]+k[64:])
	}
	sort.Strings(gl)
	for k := range want {
		if !got[k] {
			return fail("missing-not-reported", "%s is missing in the backend but not reported", k)
		}
	}
	for k := range got {
		if !want[k] {
			return fail("present-reported-missing", "%s reported missing but the backend has it (or it was not asked)", k)
		}
	}
	return "", "", strings.Join(gl, ",")
}

func findMissingSub(r *ev.Run, name string) {
	sub := r.NewSub(name, "venum", "FindMissingBlobs: every ordered list without repetition of a 4-digest universe (two digests share a hash) plus every list with one repetition of length 2, x every backend subset (16) x instance {\"i/j\" (populated), \"\", \"i\"} x digest_function {UNKNOWN,SHA256} x backend error {no,yes}; plus malformed digests")
	done := sub.Timer()
	var reqs [][]int
	var rec func(cur []int)
	rec = func(cur []int) {
		reqs = append(reqs, append([]int(nil), cur...))
		for i := 0; i < 4; i++ {
			used := false
			for _, c := range cur {
				used = used || c == i
			}
			if !used {
				rec(append(cur, i))
			}
		}
	}
	rec(nil)
	for i := 0; i < 4; i++ {
		reqs = append(reqs, []int{i, i})
	}
	var outcomes ev.Set
	for _, req := range reqs {
		for present := 0; present < 16; present++ {
			for _, inst := range []string{instanceName, "", "i"} {
				for _, fn := range []int32{0, int32(remoteexecution.DigestFunction_SHA256)} {
					for _, fault := range []bool{false, true} {
						bads := []string{""}
						if present == 5 && !fault {
							bads = []string{"", "nonhex", "nil", "negative"}
						}
						for _, bad := range bads {
							c := fmcase{Instance: inst, Func: fn, Request: req, Present: present, Fault: fault, Bad: bad}
							msg, sig, oc := runFindMissing(&c)
							sub.Evaluations++
							if len(req) > 0 && present != 0 && present != 15 {
								sub.Nontrivial++
							}
							outcomes.Add(oc)
							if msg != "" {
								r.Violate(ev.Violation{Signature: sig, Sub: name, Message: msg, Case: c})
							}
							if sub.Evaluations%4001 == 9 {
								sample(r, name, map[string]any{"sub": name, "case": c, "outcome": oc})
							}
						}
					}
				}
			}
		}
	}
	sub.States, sub.Transitions = sub.Evaluations, sub.Evaluations
	sub.Outcomes = outcomes.Len()
	sub.Exhaustive = true
	done()
}

// ---- ActionCache ----------------------------------------------------------------

type acop struct {
	Op     string `json:"op"` // update, get
	Digest int    `json:"digest"`
	Result int    `json:"result"`
}

type accase struct {
	Ops     []acop `json:"ops"`
	FaultAt int    `json:"backend_call_failing"` // -1: none
}

func acResults() []*remoteexecution.ActionResult {
	return []*remoteexecution.ActionResult{
		{},
		{ExitCode: 7, StdoutRaw: []byte("out")},
		{ExitCode: 1, StderrDigest: protoDigest(hashOf([]byte("abc")), 3)},
	}
}

// Action digests: two well-formed ones (same hash, different size) and a malformed one.
func acDigests() []*remoteexecution.Digest {
	h := hashOf([]byte("action"))
	return []*remoteexecution.Digest{protoDigest(h, 10), protoDigest(h, 11), protoDigest(h[:62], 10)}
}

func runAC(c *accase) (msg, sig, outcome string) {
	backend := sim.NewModel("ac", keyFormat)
	backend.AC = true
	calls := 0
	backend.Hook = func(op string, ds []digest.Digest) error {
		calls++
		if calls-1 == c.FaultAt {
			return errInjected
		}
		return nil
	}
	server := grpcservers.NewActionCacheServer(backend, 1000)
	ref := map[int]*remoteexecution.ActionResult{}
	refCalls := 0
	var oc []string
	fail := func(i int, s, format string, a ...any) (string, string, string) {
		return fmt.Sprintf("op %d: ", i) + fmt.Sprintf(format, a...), "action-cache:" + s, ""
	}
	for i, op := range c.Ops {
		d := acDigests()[op.Digest]
		bad := op.Digest == 2
		faulted := false
		if !bad {
			faulted = refCalls == c.FaultAt
			refCalls++
		}
		if op.Op == "update" {
			in := acResults()[op.Result]
			out, err := server.UpdateActionResult(context.Background(), &remoteexecution.UpdateActionResultRequest{InstanceName: instanceName, ActionDigest: d, ActionResult: in})
			oc = append(oc, "update="+sim.Code(err))
			if bad || faulted {
				if err == nil {
					return fail(i, "update-must-fail", "UpdateActionResult with malformed digest=%v / backend fault=%v returned OK", bad, faulted)
				}
				continue
			}
			if err != nil {
				return fail(i, "update-failed", "UpdateActionResult failed: %v", err)
			}
			if !proto.Equal(out, in) {
				return fail(i, "update-echo", "UpdateActionResult returned %v, want %v", out, in)
			}
			ref[op.Digest] = in
		} else {
			out, err := server.GetActionResult(context.Background(), &remoteexecution.GetActionResultRequest{InstanceName: instanceName, ActionDigest: d})
			oc = append(oc, "get="+sim.Code(err))
			want, ok := ref[op.Digest]
			if bad || faulted || !ok {
				if err == nil {
					return fail(i, "get-must-fail", "GetActionResult (malformed=%v, fault=%v, stored=%v) returned %v", bad, faulted, ok, out)
				}
				if !bad && !faulted && status.Code(err) != codes.NotFound {
					return fail(i, "get-absent-code", "GetActionResult of an absent entry returned %s, the backend says NOT_FOUND", status.Code(err))
				}
				continue
			}
			if err != nil {
				return fail(i, "get-failed", "GetActionResult of a stored entry failed: %v", err)
			}
			if !proto.Equal(out, want) {
				return fail(i, "get-wrong-result", "GetActionResult returned %v, want %v", out, want)
			}
		}
	}
	// Another instance name must see nothing.
	if len(ref) > 0 {
		for k := range ref {
			if _, err := server.GetActionResult(context.Background(), &remoteexecution.GetActionResultRequest{InstanceName: "i", ActionDigest: acDigests()[k]}); err == nil {
				return fail(len(c.Ops), "instance-name-ignored", "entry stored under %q is visible under instance name \"i\"", instanceName)
			}
		}
	}
	return "", "", strings.Join(oc, ",")
}

func actionCacheSub(r *ev.Run, name string, depth int) {
	sub := r.NewSub(name, "venum", fmt.Sprintf("ActionCache: every sequence of <=%d operations over {UpdateActionResult x 3 digests (one malformed, two sharing a hash) x 3 results, GetActionResult x 3 digests} x failing backend call {none,0,1,2}, compared with a reference map", depth))
	done := sub.Timer()
	var alphabet []acop
	for d := 0; d < 3; d++ {
		for res := 0; res < 3; res++ {
			alphabet = append(alphabet, acop{"update", d, res})
		}
		alphabet = append(alphabet, acop{"get", d, 0})
	}
	var seqs [][]acop
	var rec func(cur []acop)
	rec = func(cur []acop) {
		if len(cur) > 0 {
			seqs = append(seqs, append([]acop(nil), cur...))
		}
		if len(cur) == depth {
			return
		}
		for _, a := range alphabet {
			rec(append(cur, a))
		}
	}
	rec(nil)
	var outcomes ev.Set
	var st stats
	par.For(len(seqs), func(ix int) {
		var evals, nontrivial int64
		for _, faultAt := range []int{-1, 0, 1, 2} {
			c := accase{Ops: seqs[ix], FaultAt: faultAt}
			msg, sig, oc := runAC(&c)
			evals++
			if len(c.Ops) >= 2 {
				nontrivial++
			}
			outcomes.Add(oc)
			if msg != "" {
				r.Violate(ev.Violation{Signature: sig, Sub: name, Message: msg, Case: c})
			}
			if (ix*4+int(evals))%3001 == 5 {
				sample(r, name, map[string]any{"sub": name, "case": c, "outcome": oc})
			}
		}
		st.merge(evals, nontrivial, nil)
	})
	sub.Evaluations, sub.Nontrivial = st.evals, st.nontrivial
	sub.States, sub.Transitions = sub.Evaluations, sub.Evaluations
	sub.Outcomes = outcomes.Len()
	sub.Exhaustive = true
	sub.BoundCompleted = fmt.Sprintf("depth %d", depth)
	done()
}
