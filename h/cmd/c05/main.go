//go:build verif

// C05 — an object just read or reported present survives old_blocks more rotations.
//
//	seq/*   every operation sequence of the stated depth over {upload of a fresh block-sized
//	        filler, upload of a fresh small object, upload of T, Get(T), FindMissing(T)} for every
//	        (old,current,new) in {0,1,2}x{1,2}x{1,2,3}, both growth policies, flat and hierarchical.
//	        Oracle: after a successful Get / a FindMissing that omits T, T stays present in the
//	        index (non-touching probe: the real KeyLocationMap.Get under the store lock) until
//	        old+1 further NewBlock calls have been made; and at the end a real Get succeeds.
//	        Repeat clause: immediately repeating the Get / FindMissing writes nothing and allocates nothing.
//	conc/*  two concurrent touches of the same old object plus an upload, all schedules within the bound.
package main

import (
	"bytes"
	"context"
	"fmt"
	"time"

	"github.com/buildbarn/bb-storage/pkg/blobstore/buffer"
	"github.com/buildbarn/bb-storage/pkg/blobstore/local"
	"github.com/buildbarn/bb-storage/pkg/digest"
	"github.com/buildbarn/bb-storage/pkg/verifshim/vsched"
	"github.com/buildbarn/bb-storage/pkg/verifshim/vsync"
	"google.golang.org/grpc/codes"
	"google.golang.org/grpc/status"

	"verifh/ev"
	"verifh/lstore"
	"verifh/mc"
)

func failf(sig, format string, a ...any) { vsched.Fail(sig, format, a...) }

func inst(g lstore.Geometry) string {
	if g.Hierarchical {
		return "a/b"
	}
	return ""
}

// present is the non-touching probe: is any lookup key of d resolvable in the index right now?
func present(s *lstore.Store, d digest.Digest) bool {
	s.Lock.RLock()
	defer s.Lock.RUnlock()
	if s.Geo.Hierarchical {
		for _, pd := range d.GetDigestsWithParentInstanceNames() {
			if _, err := s.KLM.Get(local.NewKeyFromString(pd.GetKey(digest.KeyWithInstance))); err == nil {
				return true
			}
		}
		return false
	}
	kf := digest.KeyWithoutInstance
	if s.Geo.AC {
		kf = digest.KeyWithInstance
	}
	_, err := s.KLM.Get(local.NewKeyFromString(d.GetKey(kf)))
	return err == nil
}

// mk builds the n-th distinct object of a given size: a CAS blob, or for the AC-style (mutable
// growth policy) store an action key with a marshalled ActionResult of that size (sizes 2 or >= 4).
func mk(g lstore.Geometry, name string, n int, size int) lstore.Obj {
	if g.AC {
		pad := size - 4
		val := lstore.ACValue(int32(1+n%100), pad)
		if size <= 2 {
			val = lstore.ACValue(int32(1+n%100), -1)
		}
		// make the padding distinct per object
		if pad > 0 {
			copy(val[len(val)-pad:], []byte(fmt.Sprintf("%0*d", pad, n)))
		}
		return lstore.Obj{Name: name, Digest: lstore.ACKey(inst(g), n), Content: val}
	}
	return lstore.CASObj(name, inst(g), []byte(fmt.Sprintf("%s%0*d", name[:1], size-1, n))[:size])
}

type tracker struct {
	touched  bool
	at       int // NewBlock counter at the completion of the last touch
	excluded bool
}

func (t *tracker) check(s *lstore.Store, T lstore.Obj, where string) {
	if !t.touched {
		return
	}
	if s.Alloc.NewBlocks < t.at+s.Geo.Old+1 {
		if !present(s, T.Digest) {
			if s.IndexDiscards() > 0 {
				t.excluded = true
				return
			}
			failf("touched-object-lost-early", "%s: T was touched when %d blocks had been allocated; now %d have been (old_blocks=%d, so it must survive until %d), but it is no longer present in the index", where, t.at, s.Alloc.NewBlocks, s.Geo.Old, t.at+s.Geo.Old+1)
		}
		vsched.Mark()
	}
}

func seqBody(g lstore.Geometry, depth int) func() { return seqBodyF(g, depth, false) }

// seqBodyF: with allocFail the partial upload of the alphabet is replaced by a block-sized upload during which the
// allocator refuses to hand out a block (a resource condition: the upload may fail, nothing else may change).
func seqBodyF(g lstore.Geometry, depth int, allocFail bool) func() {
	return func() {
		med := lstore.NewMedia(g)
		s := lstore.Open(g, med)
		T := mk(g, "T", 0, 3)
		tr := &tracker{}
		var lastUpload *lstore.Obj
		fill, small := 0, 0
		nops := 5
		if g.Persistent {
			nops = 6 // plus: one step of each syncer loop that has work (data sync + state write, release)
		}
		for i := 0; i < depth; i++ {
			k := vsched.ChooseFree("choice", nops)
			switch k {
			case 5:
				n := s.StepSyncers(context.Background(), 1)
				vsched.Obs("sync=%d", n)
			case 0:
				fill++
				o := mk(g, "F", 1000+fill, 8)
				err := s.PutOK(o.Digest, o.Content)
				vsched.Obs("F=%s", status.Code(err))
				if err == nil {
					lastUpload = &o
				}
			case 1:
				small++
				o := mk(g, "S", 2000+small, 3+small%2*2)
				if allocFail {
					o = mk(g, "X", 3000+small, 8)
					s.Alloc.FailNext = true
				}
				err := s.PutOK(o.Digest, o.Content)
				s.Alloc.FailNext = false
				vsched.Obs("S=%s", status.Code(err))
				if allocFail && err != nil && status.Code(err) != codes.Unavailable {
					failf("upload-error-"+status.Code(err).String(), "upload during which the allocator refused a block failed with %v", err)
				}
				if err == nil {
					lastUpload = &o
				}
			case 2:
				err := s.PutOK(T.Digest, T.Content)
				vsched.Obs("PT=%s", status.Code(err))
			case 3:
				d, err := s.Get(T.Digest)
				vsched.Obs("G=%s", status.Code(err))
				if err == nil {
					if !bytes.Equal(d, T.Content) {
						failf("wrong-bytes", "Get(T) = %q", d)
					}
					tr.touched, tr.at = true, s.Alloc.NewBlocks
					repeat(s, T, "Get")
				} else if g.Persistent && status.Code(err) == codes.Unavailable {
					// persistent: released blocks return to the allocator only after the state file was rewritten,
					// which these histories do only when they pick the syncer step: no free block for the refresh
				} else if status.Code(err) != codes.NotFound {
					failf("get-error-"+status.Code(err).String(), "Get(T) failed: %v", err)
				}
			case 4:
				// a batch, as clients send them: T together with the most recent upload (fresh) and digests the
				// store has never seen (their hashes sort before and after T's)
				batch := []digest.Digest{T.Digest}
				if lastUpload != nil {
					batch = append(batch, lastUpload.Digest)
				}
				for j := 0; j < 4; j++ {
					batch = append(batch, mk(g, "N", 9000+j, 5).Digest)
				}
				miss, err := s.FindMissing(batch...)
				vsched.Obs("FM=%s:%v", status.Code(err), miss[T.Digest.String()])
				if err != nil && g.Persistent && status.Code(err) == codes.Unavailable {
					break
				}
				if err == nil {
					for j := 0; j < 4; j++ {
						if !miss[mk(g, "N", 9000+j, 5).Digest.String()] {
							failf("never-stored-object-reported-present", "FindMissing reports an object present that was never uploaded")
						}
					}
				}
				if err != nil {
					failf("findmissing-error-"+status.Code(err).String(), "FindMissing(T) failed: %v", err)
				}
				if !miss[T.Digest.String()] {
					tr.touched, tr.at = true, s.Alloc.NewBlocks
					repeat(s, T, "FindMissing")
				}
			}
			tr.check(s, T, fmt.Sprintf("after operation %d", i))
		}
		if tr.touched && !tr.excluded && s.Alloc.NewBlocks < tr.at+s.Geo.Old+1 {
			d, err := s.Get(T.Digest)
			if g.Persistent && status.Code(err) == codes.Unavailable && present(s, T.Digest) {
				// no free block for the refresh (see above); the object itself is still there
			} else if err != nil || !bytes.Equal(d, T.Content) {
				failf("touched-object-unreadable", "final Get(T) = %q, %v although only %d blocks were allocated since the touch (old_blocks=%d)", d, err, s.Alloc.NewBlocks-tr.at, s.Geo.Old)
			}
		}
		if tr.excluded {
			vsched.Obs("excluded: index reported discards")
		}
	}
}

// twoNamesBody: hierarchical store, the same blob T uploaded under two sibling instance names x and y
// (two copies, one canonical entry, two lookup entries), pushed into an old block with room left in the
// newest block; then every sequence over {block-sized upload, touch via x, touch via y, partial upload}.
// A touch through one name refreshes the canonical copy and that name's entry only, so the other name's
// entry lags behind; the survival bound is tracked per name.
func twoNamesBody(g lstore.Geometry, depth int, getX, getY bool) func() {
	return func() {
		med := lstore.NewMedia(g)
		s := lstore.Open(g, med)
		content := []byte("T-0")
		T := map[string]lstore.Obj{"x": lstore.CASObj("T@x", "x", content), "y": lstore.CASObj("T@y", "y", content)}
		fill := 0
		put := func(size int) {
			fill++
			o := lstore.CASObj("F", "f", []byte(fmt.Sprintf("F%07d", fill))[:size])
			err := s.PutOK(o.Digest, o.Content)
			vsched.Obs("F%d=%s", size, status.Code(err))
		}
		for _, n := range []string{"x", "y"} {
			if err := s.PutOK(T[n].Digest, T[n].Content); err != nil {
				vsched.HarnessFail("prefill Put(T@%s): %v", n, err)
			}
		}
		put(8)
		put(5)
		tr := map[string]*tracker{"x": {}, "y": {}}
		touch := func(n string, get bool) {
			if get {
				d, err := s.Get(T[n].Digest)
				vsched.Obs("G%s=%s", n, status.Code(err))
				if err == nil {
					if !bytes.Equal(d, content) {
						failf("wrong-bytes", "Get(T@%s) = %q", n, d)
					}
					tr[n].touched, tr[n].at = true, s.Alloc.NewBlocks
					repeat(s, T[n], "Get")
				} else if status.Code(err) != codes.NotFound {
					failf("get-error-"+status.Code(err).String(), "Get(T@%s) failed: %v", n, err)
				}
				return
			}
			miss, err := s.FindMissing(T[n].Digest)
			vsched.Obs("FM%s=%s:%v", n, status.Code(err), miss[T[n].Digest.String()])
			if err != nil {
				failf("findmissing-error-"+status.Code(err).String(), "FindMissing(T@%s) failed: %v", n, err)
			}
			if !miss[T[n].Digest.String()] {
				tr[n].touched, tr[n].at = true, s.Alloc.NewBlocks
				repeat(s, T[n], "FindMissing")
			}
		}
		for i := 0; i < depth; i++ {
			switch vsched.ChooseFree("choice", 4) {
			case 0:
				put(8)
			case 1:
				touch("x", getX)
			case 2:
				touch("y", getY)
			case 3:
				put(5)
			}
			for _, n := range []string{"x", "y"} {
				tr[n].check(s, T[n], fmt.Sprintf("after operation %d, instance name %s", i, n))
			}
		}
		for _, n := range []string{"x", "y"} {
			t := tr[n]
			if t.touched && !t.excluded && s.Alloc.NewBlocks < t.at+s.Geo.Old+1 {
				d, err := s.Get(T[n].Digest)
				if err != nil || !bytes.Equal(d, content) {
					failf("touched-object-unreadable", "final Get(T@%s) = %q, %v although only %d blocks were allocated since the touch through that name (old_blocks=%d)", n, d, err, s.Alloc.NewBlocks-t.at, s.Geo.Old)
				}
				break // this Get may itself refresh and allocate
			}
		}
	}
}

// repeat checks that immediately repeating the touch writes nothing.
func repeat(s *lstore.Store, T lstore.Obj, what string) {
	w0 := s.Media.Data.Writes
	i0 := 0
	if s.Media.Index != nil {
		i0 = s.Media.Index.Writes
	}
	n0 := s.Alloc.NewBlocks
	if what == "Get" {
		if _, err := s.Get(T.Digest); err != nil {
			failf("repeat-get-fails", "repeating a successful Get(T) failed: %v", err)
		}
	} else {
		miss, err := s.FindMissing(T.Digest)
		if err != nil || miss[T.Digest.String()] {
			failf("repeat-findmissing-differs", "repeating FindMissing(T) gave missing=%v err=%v", miss[T.Digest.String()], err)
		}
	}
	i1 := 0
	if s.Media.Index != nil {
		i1 = s.Media.Index.Writes
	}
	if s.Media.Data.Writes != w0 || i1 != i0 || s.Alloc.NewBlocks != n0 {
		failf("repeat-"+what+"-writes", "immediately repeating %s(T) caused %d data-device writes, %d index-device writes and %d block allocations (want none)", what, s.Media.Data.Writes-w0, i1-i0, s.Alloc.NewBlocks-n0)
	}
}

func concBody(g lstore.Geometry) func() {
	return func() {
		med := lstore.NewMedia(g)
		s := lstore.Open(g, med)
		in := inst(g)
		T := mk(g, "T", 0, 3)
		if err := s.PutOK(T.Digest, T.Content); err != nil {
			vsched.HarnessFail("prefill: %v", err)
		}
		// Demote T's block to "old" without evicting it.
		i := 0
		for !needsRefresh(s, T) {
			i++
			o := lstore.CASObj("F", in, []byte(fmt.Sprintf("fill%04d", i)))
			if err := s.PutOK(o.Digest, o.Content); err != nil {
				vsched.HarnessFail("prefill filler: %v", err)
			}
			if i > 12 || !present(s, T.Digest) {
				vsched.HarnessFail("could not place T in an old block (geometry %s)", g)
			}
		}
		var wg vsync.WaitGroup
		completions := make([]int, 0, 2)
		okc := 0
		touch := func(kind int) {
			defer wg.Done()
			if kind == 0 {
				d, err := s.Get(T.Digest)
				vsched.Obs("G=%s", status.Code(err))
				if err == nil {
					if !bytes.Equal(d, T.Content) {
						failf("wrong-bytes", "Get(T) = %q", d)
					}
					completions = append(completions, s.Alloc.NewBlocks)
					okc++
				}
			} else {
				miss, err := s.FindMissing(T.Digest)
				vsched.Obs("FM=%s", status.Code(err))
				if err == nil && !miss[T.Digest.String()] {
					completions = append(completions, s.Alloc.NewBlocks)
					okc++
				}
			}
		}
		wg.Add(3)
		vsched.GoNamed("touch1", false, func() { touch(0) })
		vsched.GoNamed("touch2", false, func() { touch(vsched.ChooseFree("choice", 2)) })
		vsched.GoNamed("upload", false, func() {
			defer wg.Done()
			o := lstore.CASObj("U", in, []byte("uploadXY"))
			err, _ := s.Put(o.Digest, lstore.PutSpec{Chunks: [][]byte{o.Content[:4], o.Content[4:]}, Gate: true})
			vsched.Obs("U=%s", status.Code(err))
		})
		wg.Wait()
		if okc > 0 {
			at := completions[len(completions)-1]
			if s.Alloc.NewBlocks < at+g.Old+1 && !present(s, T.Digest) && s.IndexDiscards() == 0 {
				failf("touched-object-lost-early", "after concurrent touches (last completed at %d allocations, now %d, old_blocks=%d) T is gone", at, s.Alloc.NewBlocks, g.Old)
			}
			// keep allocating: T must survive until old+1 further allocations counted from the LAST completion
			for j := 0; s.Alloc.NewBlocks < at+g.Old+1 && j < 12; j++ {
				if !present(s, T.Digest) && s.IndexDiscards() == 0 {
					failf("touched-object-lost-early", "T vanished after %d allocations since the last touch (old_blocks=%d)", s.Alloc.NewBlocks-at, g.Old)
				}
				o := lstore.CASObj("F", in, []byte(fmt.Sprintf("late%04d", j)))
				s.PutOK(o.Digest, o.Content)
			}
		}
		if s.RBF.Opened != s.RBF.Closed {
			failf("reader-leak", "%d readers opened, %d closed", s.RBF.Opened, s.RBF.Closed)
		}
	}
}

// heldBody: T aged into an old block; every sequence over {block-sized upload, obtain the buffer of Get(T)
// without consuming it, consume a held buffer, Get(T), FindMissing(T)}. A Get whose buffer is consumed late
// publishes its refresh copy late: two overlapping refreshes of the same object, and rotations between
// obtaining and consuming, are reached without any concurrency. A Get counts as completed when its buffer
// has been consumed successfully.
func heldBody(g lstore.Geometry, depth int, nops int) func() {
	return func() {
		med := lstore.NewMedia(g)
		s := lstore.Open(g, med)
		in := inst(g)
		T := mk(g, "T", 0, 3)
		if err := s.PutOK(T.Digest, T.Content); err != nil {
			vsched.HarnessFail("prefill: %v", err)
		}
		fill := 0
		filler := func() error {
			fill++
			o := mk(g, "F", 1000+fill, 8)
			return s.PutOK(o.Digest, o.Content)
		}
		_ = in
		for !needsRefresh(s, T) {
			if err := filler(); err != nil || fill > 12 || !present(s, T.Digest) {
				vsched.HarnessFail("could not place T in an old block (geometry %s): %v", g, err)
			}
		}
		// leave room in the newest block, so that the first refresh copy does not itself rotate
		if g.Old >= 2 {
			half := mk(g, "S", 3000, 4)
			if err := s.PutOK(half.Digest, half.Content); err != nil || !present(s, T.Digest) {
				vsched.HarnessFail("prefill half-block filler: %v", err)
			}
		}
		tr := &tracker{}
		type heldGet struct {
			b       buffer.Buffer
			issued  int  // blocks allocated when Get returned the buffer
			refresh bool // T lay in an old block then: this Get refreshes
		}
		var held []heldGet
		touch := func(at int) {
			// a guarantee runs from the moment the operation was issued (for a promptly consumed Get that is
			// also its completion): a buffer consumed late cannot extend it, see DESIGN 5.18
			if !tr.touched || at > tr.at {
				tr.touched, tr.at = true, at
			}
		}
		for i := 0; i < depth; i++ {
			switch vsched.ChooseFree("choice", nops) {
			case 0:
				err := filler()
				vsched.Obs("F=%s", status.Code(err))
			case 1:
				if len(held) < 2 {
					nr := needsRefresh(s, T)
					held = append(held, heldGet{s.BA.Get(context.Background(), T.Digest), s.Alloc.NewBlocks, nr})
					vsched.Obs("hold")
				}
			case 2:
				if len(held) > 0 {
					h := held[0]
					held = held[1:]
					d, err := h.b.ToByteSlice(100)
					vsched.Obs("consume=%s", status.Code(err))
					if err == nil {
						if !bytes.Equal(d, T.Content) {
							failf("wrong-bytes", "held Get(T) = %q", d)
						}
						if h.refresh && !present(s, T.Digest) && s.IndexDiscards() == 0 {
							failf("get-completed-without-refresh", "Get(T) was issued while T lay in an old block (so it had to refresh T) and completed successfully after %d further allocations, yet T is not resolvable right after it completed: the refresh was not published and the failure was not reported", s.Alloc.NewBlocks-h.issued)
						}
						touch(h.issued)
					}
				}
			case 3:
				d, err := s.Get(T.Digest)
				vsched.Obs("G=%s", status.Code(err))
				if err == nil {
					if !bytes.Equal(d, T.Content) {
						failf("wrong-bytes", "Get(T) = %q", d)
					}
					touch(s.Alloc.NewBlocks)
				}
			case 4:
				miss, err := s.FindMissing(T.Digest)
				vsched.Obs("FM=%s:%v", status.Code(err), miss[T.Digest.String()])
				if err == nil && !miss[T.Digest.String()] {
					touch(s.Alloc.NewBlocks)
				}
			}
			tr.check(s, T, fmt.Sprintf("after operation %d", i))
		}
		for _, h := range held {
			h.b.Discard()
		}
		if s.RBF.Opened != s.RBF.Closed {
			failf("reader-leak", "%d readers opened, %d closed", s.RBF.Opened, s.RBF.Closed)
		}
	}
}

// concTwoBody: two different objects X and Y, both aged into old blocks, touched concurrently by two callers
// (the refresh of one is in progress while the other caller arrives); each must then survive old+1 further
// allocations counted from the completion of its own touch.
func concTwoBody(g lstore.Geometry) func() {
	return func() {
		med := lstore.NewMedia(g)
		s := lstore.Open(g, med)
		in := inst(g)
		objs := []lstore.Obj{mk(g, "X", 1, 3), mk(g, "Y", 2, 3)}
		for _, o := range objs {
			if err := s.PutOK(o.Digest, o.Content); err != nil {
				vsched.HarnessFail("prefill: %v", err)
			}
		}
		i := 0
		for !needsRefresh(s, objs[0]) || !needsRefresh(s, objs[1]) {
			i++
			o := lstore.CASObj("F", in, []byte(fmt.Sprintf("fill%04d", i)))
			if err := s.PutOK(o.Digest, o.Content); err != nil {
				vsched.HarnessFail("prefill filler: %v", err)
			}
			if i > 12 || !present(s, objs[0].Digest) || !present(s, objs[1].Digest) {
				vsched.HarnessFail("could not place X and Y in old blocks (geometry %s)", g)
			}
		}
		var wg vsync.WaitGroup
		at := []int{-1, -1}
		touch := func(k, kind int) {
			defer wg.Done()
			T := objs[k]
			if kind == 0 {
				d, err := s.Get(T.Digest)
				vsched.Obs("G%s=%s", T.Name, status.Code(err))
				if err == nil {
					if !bytes.Equal(d, T.Content) {
						failf("wrong-bytes", "Get(%s) = %q", T.Name, d)
					}
					at[k] = s.Alloc.NewBlocks
				}
			} else {
				miss, err := s.FindMissing(T.Digest)
				vsched.Obs("FM%s=%s", T.Name, status.Code(err))
				if err == nil && !miss[T.Digest.String()] {
					at[k] = s.Alloc.NewBlocks
				}
			}
		}
		wg.Add(2)
		kinds := vsched.ChooseFree("choice", 4)
		vsched.GoNamed("touchX", false, func() { touch(0, kinds&1) })
		vsched.GoNamed("touchY", false, func() { touch(1, kinds>>1) })
		wg.Wait()
		for j := 0; j < 12; j++ {
			pending := false
			for k, T := range objs {
				if at[k] >= 0 && s.Alloc.NewBlocks < at[k]+g.Old+1 {
					pending = true
					if !present(s, T.Digest) && s.IndexDiscards() == 0 {
						failf("touched-object-lost-early", "%s was reported present / returned when %d blocks had been allocated; now %d have been (old_blocks=%d) and it is gone", T.Name, at[k], s.Alloc.NewBlocks, g.Old)
					}
					vsched.Mark()
				}
			}
			if !pending {
				break
			}
			o := lstore.CASObj("F", in, []byte(fmt.Sprintf("late%04d", j)))
			s.PutOK(o.Digest, o.Content)
		}
		if s.RBF.Opened != s.RBF.Closed {
			failf("reader-leak", "%d readers opened, %d closed", s.RBF.Opened, s.RBF.Closed)
		}
	}
}

// needsRefresh reports whether T currently lies in an old block (its Get would refresh): observed
// without touching, by asking the real block map.
func needsRefresh(s *lstore.Store, T lstore.Obj) bool {
	s.Lock.RLock()
	defer s.Lock.RUnlock()
	var loc local.Location
	var err error
	if s.Geo.Hierarchical {
		found := false
		for _, pd := range T.Digest.GetDigestsWithParentInstanceNames() {
			if loc, err = s.KLM.Get(local.NewKeyFromString(pd.GetKey(digest.KeyWithInstance))); err == nil {
				found = true
				break
			}
		}
		if !found {
			return false
		}
	} else {
		if loc, err = s.KLM.Get(local.NewKeyFromString(T.Digest.GetKey(digest.KeyWithoutInstance))); err != nil {
			return false
		}
	}
	_, nr := s.LBM.Get(loc)
	return nr
}

func main() {
	r := ev.Start("C05")
	r.Rule("vsched/vstate: every operation sequence of the stated depth per geometry (one execution each; the explorer replays the shared prefix on a fresh store); non-trivial = executions in which the survival bound was actually exercised (T touched and probed while fewer than old+1 blocks had been allocated since)")
	r.Assume("index sized generously (127 slots, 16/64 attempts); executions in which the index reports a discard are excluded from the claim, as the property states")
	depth := ev.Pick(r, 6, 8)
	base := lstore.Geometry{SectorSize: 4, SectorsPerBlock: 2, Spare: 2, IndexSlots: 127, GetAttempts: 16, PutAttempts: 64, MinEpochInterval: 10 * time.Second, ErrorRetry: 3 * time.Second}
	var scs []mc.Scenario
	mc.GroupSpace["seq"] = fmt.Sprintf("per geometry (old,current,new) in {0,1,2}x{1,2}x{1,2,3} x {immutable,mutable policy} x {flat,hierarchical} x {block device, in-memory blocks for a subset}: all 5^%d operation sequences", depth)
	for _, hier := range []bool{false, true} {
		for _, mut := range []bool{false, true} {
			for o := 0; o <= 2; o++ {
				for c := 1; c <= 2; c++ {
					for n := 1; n <= 3; n++ {
						g := base
						g.Old, g.Current, g.New, g.Mutable, g.Hierarchical = o, c, n, mut, hier
						g.AC = mut && !hier && n == 1 // the AC store is what has the mutable policy in a real configuration; hierarchical+mutable is kept as a harness-wired variant
						if (o+c+n)%3 == 0 {
							g.InMemoryBlocks = true
						}
						if (o+c+n)%3 == 1 {
							g.IndexOnDevice = true
						}
						scs = append(scs, mc.Scenario{Name: fmt.Sprintf("seq/h%v-m%v-o%dc%dn%d", hier, mut, o, c, n), Group: "seq", Bound: 0, Body: seqBody(g, depth)})
					}
				}
			}
		}
	}
	mc.GroupSpace["seq-allocfail"] = fmt.Sprintf("per geometry (old,current,new) in {1,2}x{1,2}x{1} x {immutable,mutable policy} x {flat,hierarchical}, block-device blocks: all 5^%d sequences over {block-sized upload, block-sized upload during which the allocator refuses a block, upload of T, Get T, FindMissing batch}: a failed allocation is not an allocation - T survives until old_blocks+1 blocks were really allocated", depth)
	for _, hier := range []bool{false, true} {
		for _, mut := range []bool{false, true} {
			for o := 1; o <= 2; o++ {
				for c := 1; c <= 2; c++ {
					g := base
					g.Old, g.Current, g.New, g.Mutable, g.Hierarchical = o, c, 1, mut, hier
					g.AC = mut && !hier
					scs = append(scs, mc.Scenario{Name: fmt.Sprintf("seq-allocfail/h%v-m%v-o%dc%dn1", hier, mut, o, c), Group: "seq-allocfail", Bound: 0, Body: seqBodyF(g, depth, true)})
				}
			}
		}
	}
	d2 := ev.Pick(r, 7, 9)
	mc.GroupSpace["two-names"] = fmt.Sprintf("hierarchical store, blob T uploaded under sibling instance names x and y, then one block-sized and one partial upload (T old, room in the newest block); per geometry (old,current,new) in {2,3,4}x{1,2}x{1,2} x touch kinds {FindMissing,Get}^2: all 4^%d sequences over {block-sized upload, touch via x, touch via y, partial upload}; survival bound tracked per instance name", d2)
	for o := 2; o <= 4; o++ {
		for c := 1; c <= 2; c++ {
			for n := 1; n <= 2; n++ {
				for k := 0; k < 4; k++ {
					g := base
					g.Old, g.Current, g.New, g.Hierarchical = o, c, n, true
					scs = append(scs, mc.Scenario{Name: fmt.Sprintf("two-names/o%dc%dn%d-k%d", o, c, n, k), Group: "two-names", Bound: 0, Body: twoNamesBody(g, d2, k&1 != 0, k&2 != 0)})
				}
			}
		}
	}
	mc.GroupBudget["two-names"] = time.Duration(ev.Pick(r, 150, 1200)) * time.Second
	dh := ev.Pick(r, 7, 8)
	mc.GroupSpace["seq-held"] = fmt.Sprintf("T aged into the newest old block, half a block of room in the newest block; (old,current,new) in {1,2,3}x{1}x{1,2}, flat and hierarchical: all %d^%d sequences over {block-sized upload, obtain Get(T)'s buffer without consuming it (at most two held), consume the oldest held buffer, Get(T)%s}; a guarantee runs from the moment the operation was issued; a Get issued while T lay in an old block that completes successfully must leave T resolvable", ev.Pick(r, 4, 5), dh, ev.Pick(r, "", ", FindMissing(T)"))
	for _, hier := range []bool{false, true} {
		for o := 1; o <= 3; o++ {
			for n := 1; n <= 2; n++ {
				g := base
				g.Old, g.Current, g.New, g.Hierarchical, g.Spare = o, 1, n, hier, 3
				scs = append(scs, mc.Scenario{Name: fmt.Sprintf("seq-held/h%v-o%dc1n%d", hier, o, n), Group: "seq-held", Bound: 0, Body: heldBody(g, dh, ev.Pick(r, 4, 5))})
			}
		}
	}
	mc.GroupBudget["seq-held"] = time.Duration(ev.Pick(r, 150, 1200)) * time.Second
	mc.GroupSpace["seq-persistent"] = fmt.Sprintf("persistent block list (epochs, deferred release until the state file is rewritten), immutable policy: (old,current,new) in {1,2}x{1,2}x{2,3} x {flat,hierarchical}: all 6^%d sequences over the five operations plus one step of the syncer loops", depth)
	for _, hier := range []bool{false, true} {
		for o := 1; o <= 2; o++ {
			for c := 1; c <= 2; c++ {
				for n := 2; n <= 3; n++ {
					g := base
					g.Old, g.Current, g.New, g.Hierarchical, g.Persistent, g.Spare = o, c, n, hier, true, 3
					g.IndexOnDevice = (o+c+n)%2 == 0
					scs = append(scs, mc.Scenario{Name: fmt.Sprintf("seq-persistent/h%v-o%dc%dn%d", hier, o, c, n), Group: "seq-persistent", Bound: 0, Body: seqBody(g, depth)})
				}
			}
		}
	}
	mc.GroupBudget["seq-persistent"] = time.Duration(ev.Pick(r, 150, 1200)) * time.Second
	mc.GroupBudget["seq"] = time.Duration(ev.Pick(r, 150, 1200)) * time.Second
	for _, hier := range []bool{false, true} {
		for _, o := range []int{1, 2} {
			g := base
			g.Old, g.Current, g.New, g.Hierarchical, g.DataGates = o, 1, 1, hier, true
			if hier {
				g.New = 2
			}
			if o == 1 || r.Thorough() {
				scs = append(scs, mc.Scenario{Name: fmt.Sprintf("conc-two/h%v-o%d", hier, o), Space: "X and Y both in old blocks: {Get,FindMissing}(X) || {Get,FindMissing}(Y), then rotations until each bound; geometry " + g.String(), Bound: ev.Pick(r, 2, 3), Body: concTwoBody(g), Budget: time.Duration(ev.Pick(r, 40, 300)) * time.Second})
			}
			scs = append(scs, mc.Scenario{Name: fmt.Sprintf("conc/h%v-o%d", hier, o), Space: "T in an old block: Get(T) || {Get(T) or FindMissing(T)} || Put(U), then rotations until the bound; geometry " + g.String(), Bound: ev.Pick(r, 2, 3), Body: concBody(g), Budget: time.Duration(ev.Pick(r, 40, 300)) * time.Second})
		}
	}
	mc.Run(r, scs)
	r.Finish()
}
