//go:build verif

package main

import (
	"bytes"
	"context"
	"fmt"
	"time"

	"github.com/buildbarn/bb-storage/pkg/blobstore/buffer"
	"github.com/buildbarn/bb-storage/pkg/blobstore/slicing"
	"github.com/buildbarn/bb-storage/pkg/digest"

	"github.com/buildbarn/bb-storage/pkg/verifshim/vsched"
	"google.golang.org/grpc/status"

	"verifh/ev"
	"verifh/lstore"
	"verifh/mc"
)

func putT(o lstore.Obj, chunks [][]byte) concOp {
	return func(s *lstore.Store, m *model) {
		err, src := s.Put(o.Digest, lstore.PutSpec{Chunks: chunks, Gate: true})
		vsched.Obs("Put:%s=%s", o.Name, status.Code(err))
		if src.Closes != 1 {
			failf(fmt.Sprintf("upload-source-closes=%d", src.Closes), "upload source of %s closed %d times", o.Name, src.Closes)
		}
		if err == nil {
			m.add(o.Name, o.Content)
		}
	}
}

func getT(o lstore.Obj, chunked int) concOp {
	return func(s *lstore.Store, m *model) {
		var d []byte
		var err error
		if chunked > 0 {
			d, err = s.GetChunked(o.Digest, chunked)
		} else {
			d, err = s.Get(o.Digest)
		}
		vsched.Obs("Get:%s=%s", o.Name, status.Code(err))
		// Under concurrency an object may legitimately be uploaded while we read: the
		// successful-upload set is sampled after the read (uploads only add to it).
		checkRead("Get", o.Name, o.Content, d, err, m, false, false)
	}
}

func fmT(objs ...lstore.Obj) concOp {
	return func(s *lstore.Store, m *model) {
		miss, err := s.FindMissing(digestsOf(objs)...)
		if err != nil {
			vsched.Obs("FM=%s", status.Code(err))
			return
		}
		for _, o := range objs {
			if !miss[o.Digest.String()] && len(m.ok[o.Name]) == 0 {
				// may be present because an upload completed between FindMissing and now? No: ok[] is
				// appended right after Put returns, so "present" before Put returned is possible only
				// once the finalizer ran. Sample again after all threads finished (final check).
				vsched.Obs("FM early-present:%s", o.Name)
			}
		}
	}
}

func finalSweep(objs ...lstore.Obj) func(s *lstore.Store, m *model) {
	return func(s *lstore.Store, m *model) {
		for _, o := range objs {
			d, err := s.Get(o.Digest)
			vsched.Obs("final Get:%s=%s", o.Name, status.Code(err))
			checkRead("Get", o.Name, o.Content, d, err, m, false, false)
			if err == nil && !bytes.Equal(d, o.Content) {
				failf("wrong-bytes", "final Get(%s) = %q", o.Name, d)
			}
		}
		miss, err := s.FindMissing(digestsOf(objs)...)
		if err == nil {
			for _, o := range objs {
				if !miss[o.Digest.String()] && len(m.ok[o.Name]) == 0 {
					failf("reported-present-without-successful-upload", "FindMissing reports %s present although no upload for it succeeded", o.Name)
				}
			}
		}
	}
}

func concScenarios(r *ev.Run, base lstore.Geometry) []mc.Scenario {
	u := casUniverse("")
	A, B, C := u.objs[0], u.objs[1], u.objs[2]
	D := lstore.CASObj("D4", "", []byte("dW9z"))
	F := lstore.CASObj("F8", "", []byte("f1928374"))
	bound := ev.Pick(r, 2, 3)
	budget := ev.Pick(r, 60, 600)
	var scs []mc.Scenario
	add := func(name, space string, g lstore.Geometry, prefill func(*lstore.Store, *model), threads []concOp, final func(*lstore.Store, *model)) {
		g.DataGates = true
		scs = append(scs, mc.Scenario{Name: "conc/" + name, Space: space + " on " + g.String(), Bound: bound, Body: concBody(g, prefill, threads, final), Budget: budgetDur(budget), MinOutcomes: 2})
	}
	for _, raw := range []bool{false, true} {
		g := base
		g.RawReads = raw
		suffix := ""
		if raw {
			suffix = "-raw"
		}
		// (a) two uploads sharing a sector, and a reader of the first.
		add("shared-sector"+suffix, "Put(A3 in chunks a|aa) || Put(B5 in chunks bb|bbb) || Get(A3): neighbours share a sector", g, nil,
			[]concOp{putT(A, [][]byte{A.Content[:1], A.Content[1:]}), putT(B, [][]byte{B.Content[:2], B.Content[2:]}), getT(A, 2)}, finalSweep(A, B))
		// (b) upload in flight while another uploader rotates blocks away.
		add("rotation-during-write"+suffix, "Put(A3 slow, 3 chunks) || Put(C8);Put(F8) (block-sized uploads forcing rotations)", g, nil,
			[]concOp{putT(A, [][]byte{A.Content[:1], A.Content[1:2], A.Content[2:]}), func(s *lstore.Store, m *model) {
				putT(C, [][]byte{C.Content})(s, m)
				putT(F, [][]byte{F.Content})(s, m)
			}, getT(A, 0)}, finalSweep(A, C, F))
		// (c) Get of an object in an old block (refresh while returning) || upload || second Get.
		prefillOld := func(s *lstore.Store, m *model) {
			// A3 lands in the first block; two block-sized uploads demote that block to "old".
			for _, o := range []lstore.Obj{A, C, F} {
				if err := s.PutOK(o.Digest, o.Content); err != nil {
					vsched.HarnessFail("prefill Put(%s): %v", o.Name, err)
				}
				m.add(o.Name, o.Content)
			}
		}
		add("refresh-get-get"+suffix, "A3 sits in an old block: Get(A3) || Get(A3) || Put(D4)", g, prefillOld,
			[]concOp{getT(A, 2), getT(A, 0), putT(D, [][]byte{D.Content[:2], D.Content[2:]})}, finalSweep(A, D))
		// (d) FindMissing refresh || Get.
		add("refresh-fm-get"+suffix, "A3 in an old block: FindMissing(A3,B5) || Get(A3) || Put(B5)", g, prefillOld,
			[]concOp{fmT(A, B), getT(A, 0), putT(B, [][]byte{B.Content})}, finalSweep(A, B))
	}
	// (a2) three neighbours in a 16-byte block: the middle one starts mid-sector, crosses a sector boundary
	// and ends mid-sector, so it shares its first sector with A and its last one with D.
	for _, raw := range []bool{false, true} {
		g := base
		g.SectorsPerBlock, g.RawReads = 4, raw
		B6 := lstore.CASObj("B6", "", []byte("bKLMNO"))
		suffix := ""
		if raw {
			suffix = "-raw"
		}
		steady := func(s *lstore.Store, m *model) {
			// leave the initial phase (several "new" blocks, allocations spread over them): afterwards all
			// allocations go to the single new block, back to back
			for i := 0; i < 2; i++ {
				f := lstore.CASObj("fill", "", []byte(fmt.Sprintf("0123456789abcd%02d", i)))
				if err := s.PutOK(f.Digest, f.Content); err != nil {
					vsched.HarnessFail("prefill: %v", err)
				}
			}
		}
		add("shared-sector-chain"+suffix, "steady state (one new block), then Put(A3 a|aa) || Put(B6 bb|bbbb: first and last sector shared) || Put(D4 dd|dd) back to back in one 16-byte block", g, steady,
			[]concOp{putT(A, [][]byte{A.Content[:1], A.Content[1:]}), putT(B6, [][]byte{B6.Content[:2], B6.Content[2:]}), putT(D, [][]byte{D.Content[:2], D.Content[2:]})}, finalSweep(A, B6, D))
	}
	// (b2) in-memory blocks: a buffer obtained by Get and consumed later, and an upload stalled in its copy phase,
	// while block-sized uploads rotate their block out and cause further blocks to be allocated. In-memory
	// blocks carry no use count: what keeps a held buffer / a stalled writer harmless is that the memory of a
	// released block is never handed out again.
	{
		g := base
		g.InMemoryBlocks = true
		G := lstore.CASObj("G8", "", []byte("g5647382"))
		H := lstore.CASObj("H8", "", []byte("h0a9b8c7"))
		prefillA := func(s *lstore.Store, m *model) {
			if err := s.PutOK(A.Digest, A.Content); err != nil {
				vsched.HarnessFail("prefill Put(A3): %v", err)
			}
			m.add(A.Name, A.Content)
		}
		heldGet := func(s *lstore.Store, m *model) {
			b := s.BA.Get(context.Background(), A.Digest)
			vsched.Yield("reader.hold")
			d, err := b.ToByteSlice(100)
			vsched.Obs("HeldGet:A3=%s", status.Code(err))
			checkRead("Get", A.Name, A.Content, d, err, m, false, false)
		}
		rotate := func(s *lstore.Store, m *model) {
			for _, o := range []lstore.Obj{C, F, G, H} {
				putT(o, [][]byte{o.Content})(s, m)
			}
		}
		{
			// the same on block-device blocks, with one more upload so that the released region is handed out
			// again and written to before the stalled upload resumes (readers and writers pin their block)
			gd := base
			I := lstore.CASObj("I8", "", []byte("i9z8y7x6"))
			rotate5 := func(s *lstore.Store, m *model) {
				for _, o := range []lstore.Obj{C, F, G, H, I} {
					putT(o, [][]byte{o.Content})(s, m)
				}
			}
			add("held-buffer-rotation-dev", "A3 stored; buffer of Get(A3) obtained and consumed later || Put(B5 slow, 3 chunks) into A3's block || five block-sized uploads (A3's block is released and its region handed out again)", gd, prefillA,
				[]concOp{heldGet, putT(B, [][]byte{B.Content[:1], B.Content[1:3], B.Content[3:]}), rotate5}, finalSweep(A, B, C, F, G, H, I))
		}
		add("held-buffer-rotation-mem", "A3 stored; buffer of Get(A3) obtained and consumed later || Put(B5 slow, 3 chunks) into A3's block || four block-sized uploads (A3's block is released and further blocks are allocated)", g, prefillA,
			[]concOp{heldGet, putT(B, [][]byte{B.Content[:1], B.Content[1:3], B.Content[3:]}), rotate}, finalSweep(A, B, C, F, G, H))
	}
	// (h) an upload whose source delivers more bytes than its digest states, next to a neighbour's upload.
	for _, mem := range []bool{true, false} {
		g := base
		name := "oversized-neighbour-dev"
		if mem {
			g.InMemoryBlocks, g.SectorSize, g.SectorsPerBlock = true, 1, 1024
			name = "oversized-neighbour-mem"
		}
		over := func(s *lstore.Store, m *model) {
			err, _ := s.Put(A.Digest, lstore.PutSpec{Chunks: [][]byte{append(append([]byte{}, A.Content...), []byte("XXXXX")...)}, Gate: true})
			vsched.Obs("PutOversized=%s", status.Code(err))
			if err == nil {
				failf("bad-upload-acknowledged", "upload delivering more bytes than the digest states was acknowledged")
			}
		}
		add(name, "Put(A3 whose source delivers 8 bytes) || Put(B5) || Put(D4): neighbours allocated right behind the oversized upload", g, nil,
			[]concOp{over, putT(B, [][]byte{B.Content}), putT(D, [][]byte{D.Content})}, finalSweep(A, B, D))
	}
	// (e) composite refresh+slice || Get(child)
	{
		g := base
		parent := u.parent
		child := u.slicer.Pieces[1]
		want := parent.Content[child.OffsetBytes:]
		prefill := func(s *lstore.Store, m *model) {
			for _, o := range []lstore.Obj{parent, C, F} {
				if err := s.PutOK(o.Digest, o.Content); err != nil {
					vsched.HarnessFail("prefill: %v", err)
				}
				m.add(o.Name, o.Content)
			}
		}
		gfc := func(s *lstore.Store, m *model) {
			d, err := s.GetFromComposite(parent.Digest, child.Digest, u.slicer)
			vsched.Obs("GFC=%s", status.Code(err))
			if err == nil && !bytes.Equal(d, want) {
				failf("composite-wrong-bytes", "GetFromComposite returned %q want %q", d, want)
			}
			if err != nil {
				checkRead("GetFromComposite", "P8[1]", want, d, err, m, false, false)
			}
		}
		getChild := func(s *lstore.Store, m *model) {
			d, err := s.Get(child.Digest)
			vsched.Obs("GetChild=%s", status.Code(err))
			if err == nil && !bytes.Equal(d, want) {
				failf("child-wrong-bytes", "Get(child) returned %q want %q", d, want)
			}
			if err != nil {
				checkRead("Get", "P8[1]", want, d, err, m, false, false)
			}
		}
		add("composite-refresh", "parent in an old block: GetFromComposite(parent,child) || Get(child) || GetFromComposite(parent,child)", g, prefill,
			[]concOp{gfc, getChild, gfc}, func(s *lstore.Store, m *model) { getChild(s, m); gfc(s, m) })
	}
	// (e2) composite read of a parent that only needs slicing (not refreshing) racing rotations
	for _, raw := range []bool{false, true} {
		g := base
		g.RawReads = raw
		parent := u.parent
		child := u.slicer.Pieces[1]
		want := parent.Content[child.OffsetBytes:]
		prefill := func(s *lstore.Store, m *model) {
			for i := 0; i < 2; i++ {
				f := lstore.CASObj("fill", "", []byte(fmt.Sprintf("fill%04d", i)))
				if err := s.PutOK(f.Digest, f.Content); err != nil {
					vsched.HarnessFail("prefill: %v", err)
				}
			}
			if err := s.PutOK(parent.Digest, parent.Content); err != nil {
				vsched.HarnessFail("prefill: %v", err)
			}
			m.add(parent.Name, parent.Content)
		}
		gated := &gatedSlicer{inner: u.slicer}
		gfc := func(s *lstore.Store, m *model) {
			d, err := s.GetFromComposite(parent.Digest, child.Digest, gated)
			vsched.Obs("GFC=%s", status.Code(err))
			if err == nil && !bytes.Equal(d, want) {
				failf("composite-wrong-bytes", "GetFromComposite returned %q want %q", d, want)
			}
			if err != nil {
				checkRead("GetFromComposite", "P8[1]", want, d, err, m, false, false)
			}
		}
		rot := func(s *lstore.Store, m *model) {
			for _, o := range []lstore.Obj{C, F} {
				putT(o, [][]byte{o.Content})(s, m)
			}
		}
		getChild := func(s *lstore.Store, m *model) {
			d, err := s.Get(child.Digest)
			vsched.Obs("GetChild=%s", status.Code(err))
			if err == nil && !bytes.Equal(d, want) {
				failf("child-wrong-bytes", "Get(child) returned %q, the designated slice of the parent is %q", d, want)
			}
			if err != nil {
				checkRead("Get", "P8[1]", want, d, err, m, false, false)
			}
		}
		sfx := ""
		if raw {
			sfx = "-raw"
		}
		add("composite-slice-rotation"+sfx, "steady state, fresh parent: GetFromComposite(parent, child) (slicing is a scheduling point) || Put(C8);Put(F8) rotating blocks, then Get(child)", g, prefill,
			[]concOp{gfc, rot}, func(s *lstore.Store, m *model) { getChild(s, m) })
	}
	// (f) hierarchical: same digest uploaded under two names while read under a third.
	{
		g := base
		g.Hierarchical, g.New = true, 2
		a1 := lstore.CASObj("A3@a", "a", []byte("aXy"))
		a2 := lstore.CASObj("A3@a/b", "a/b", []byte("aXy"))
		add("hier-two-uploads", "hierarchical: Put(A3@a) || Put(A3@a/b) || Get(A3@a/b)", g, nil,
			[]concOp{putT(a1, [][]byte{A.Content[:1], A.Content[1:]}), putT(a2, [][]byte{a2.Content[:2], a2.Content[2:]}), func(s *lstore.Store, m *model) {
				d, err := s.Get(a2.Digest)
				vsched.Obs("Get=%s", status.Code(err))
				if err == nil && !bytes.Equal(d, a2.Content) {
					failf("wrong-bytes", "Get returned %q", d)
				}
			}}, nil)
	}
	// (g) AC-style: concurrent overwrites of one key with values of different sizes, and a reader.
	{
		g := base
		g.AC, g.Mutable = true, true
		au := acUniverse()
		k := au.acKeys[0]
		putV := func(vi int) concOp {
			return func(s *lstore.Store, m *model) {
				err, _ := s.Put(k, lstore.PutSpec{Chunks: [][]byte{au.acVals[vi]}, Gate: true})
				vsched.Obs("Put v%d=%s", vi, status.Code(err))
				if err == nil {
					m.add("K0", au.acVals[vi])
				}
			}
		}
		reader := func(s *lstore.Store, m *model) {
			d, err := s.Get(k)
			vsched.Obs("Get=%s:%d", status.Code(err), len(d))
			if err == nil {
				// values uploaded concurrently may not be in the model yet: accept any universe value here,
				// the final sweep (after all uploads returned) is exact.
				okAny := false
				for _, v := range au.acVals {
					if bytes.Equal(v, d) {
						okAny = true
					}
				}
				if !okAny {
					failf("bytes-not-of-any-upload", "Get returned %q which is none of the uploaded values", d)
				}
			} else {
				checkRead("Get", "K0", nil, d, err, m, false, true)
			}
		}
		add("ac-overwrite", "AC policy: Put(K,v0) || Put(K,v2) || Get(K)", g, func(s *lstore.Store, m *model) {
			if err := s.PutOK(k, au.acVals[1]); err != nil {
				vsched.HarnessFail("prefill: %v", err)
			}
			m.add("K0", au.acVals[1])
		}, []concOp{putV(0), putV(2), reader}, func(s *lstore.Store, m *model) {
			d, err := s.Get(k)
			checkRead("Get", "K0", nil, d, err, m, false, true)
		})
	}
	return scs
}

func budgetDur(sec int) time.Duration { return time.Duration(sec) * time.Second }

func digestsOf(objs []lstore.Obj) []digest.Digest {
	out := make([]digest.Digest, len(objs))
	for i, o := range objs {
		out[i] = o.Digest
	}
	return out
}

// gatedSlicer makes the (unlocked) slicing step of a composite read a scheduling point.
type gatedSlicer struct{ inner *lstore.FixedSlicer }

func (g *gatedSlicer) Slice(b buffer.Buffer, child digest.Digest) (buffer.Buffer, []slicing.BlobSlice) {
	vsched.Yield("slicer.Slice")
	return g.inner.Slice(b, child)
}
