//go:build verif

// C01 — the local store returns exactly what was uploaded, or nothing.
//
//	seq/*   every operation sequence up to a depth bound over a small alphabet
//	        (good uploads in several chunkings, failing uploads, reads, composite
//	        reads, existence checks) on tiny geometries: flat/hierarchical,
//	        CAS/AC policy, block-device/in-memory blocks, both index backends,
//	        validating and raw (non-validating) read paths, tiny and large index
//	conc/*  2-3 concurrent operations forced to collide (shared sectors, rotation
//	        during an in-flight write, refresh while reading), all schedules within
//	        the deviation bound
package main

import (
	"bytes"
	"context"
	"fmt"
	"time"

	"github.com/buildbarn/bb-storage/pkg/digest"
	"github.com/buildbarn/bb-storage/pkg/verifshim/vsched"
	"github.com/buildbarn/bb-storage/pkg/verifshim/vsync"
	"google.golang.org/grpc/codes"
	"google.golang.org/grpc/status"

	"verifh/ev"
	"verifh/lstore"
	"verifh/mc"
)

type universe struct {
	objs   []lstore.Obj
	parent lstore.Obj
	slicer *lstore.FixedSlicer
	acKeys []digest.Digest
	acVals [][]byte
}

func casUniverse(inst string) universe {
	u := universe{}
	u.objs = []lstore.Obj{
		lstore.CASObj("A3", inst, []byte("aXy")),
		lstore.CASObj("B5", inst, []byte("b1234")),
		lstore.CASObj("C8", inst, []byte("c7654321")),
		lstore.CASObj("E0", inst, []byte("")),
	}
	u.parent = lstore.CASObj("P8", inst, []byte("pqrstuvw"))
	u.slicer = lstore.NewFixedSlicer(inst, u.parent.Content, 3)
	return u
}

func acUniverse() universe {
	u := universe{}
	u.acKeys = []digest.Digest{lstore.ACKey("i", 1), lstore.ACKey("i", 2)}
	u.acVals = [][]byte{lstore.ACValue(1, 0), lstore.ACValue(2, 2), lstore.ACValue(3, 4)}
	return u
}

// model is the reference: which values were successfully uploaded per key.
type model struct {
	ok map[string][][]byte
}

func (m *model) add(key string, v []byte) { m.ok[key] = append(m.ok[key], append([]byte(nil), v...)) }
func (m *model) has(key string, v []byte) bool {
	for _, x := range m.ok[key] {
		if bytes.Equal(x, v) {
			return true
		}
	}
	return false
}

type op struct {
	name string
	run  func(s *lstore.Store, m *model, strict bool)
}

func failf(sig, format string, a ...any) { vsched.Fail(sig, format, a...) }

// checkRead applies the C01 read oracle.
func checkRead(what, key string, want []byte, data []byte, err error, m *model, strict bool, ac bool) {
	if err != nil {
		c := status.Code(err)
		if c == codes.NotFound {
			return
		}
		if !strict && (c == codes.Unavailable || c == codes.Internal) && (containsRefresh(err) || c == codes.Unavailable) {
			// refresh could not allocate / store shutting down / target rotated away: resource conditions
			if isIntegrity(err) {
				failf("integrity-error-on-clean-medium", "%s(%s) reported a data integrity error on an uncorrupted medium: %v", what, key, err)
			}
			vsched.Obs("tolerated:%s", c)
			return
		}
		if isIntegrity(err) {
			failf("integrity-error-on-clean-medium", "%s(%s) reported a data integrity error on an uncorrupted medium: %v", what, key, err)
		}
		failf("read-fails-with-"+c.String(), "%s(%s) failed with %v; only NOT_FOUND is a legitimate failure here", what, key, err)
	}
	if ac {
		if !m.has(key, data) {
			failf("bytes-not-of-a-successful-upload", "%s(%s) returned %q which is not the value of any successful upload for that key (%d successful uploads)", what, key, data, len(m.ok[key]))
		}
		return
	}
	vsched.Mark()
	if len(m.ok[key]) == 0 {
		failf("visible-without-successful-upload", "%s(%s) returned %q although no upload for that key ever succeeded", what, key, data)
	}
	if !bytes.Equal(data, want) {
		failf("wrong-bytes", "%s(%s) returned %q, the uploaded content is %q", what, key, data, want)
	}
}

func containsRefresh(err error) bool {
	return bytes.Contains([]byte(err.Error()), []byte("Failed to refresh blob")) || bytes.Contains([]byte(err.Error()), []byte("has already been released"))
}

func isIntegrity(err error) bool {
	e := err.Error()
	for _, s := range []string{"checksum", "bytes in size, while", "Failed to unmarshal"} {
		if bytes.Contains([]byte(e), []byte(s)) {
			return true
		}
	}
	return false
}

func casOps(u universe, hier bool) []op {
	var ops []op
	put := func(o lstore.Obj, label string, spec lstore.PutSpec, good bool) {
		ops = append(ops, op{"Put" + label + ":" + o.Name, func(s *lstore.Store, m *model, strict bool) {
			err, src := s.Put(o.Digest, spec)
			vsched.Obs("Put%s:%s=%s", label, o.Name, status.Code(err))
			if src.Closes != 1 {
				failf(fmt.Sprintf("upload-source-closes=%d", src.Closes), "Put%s(%s): upload source closed %d times", label, o.Name, src.Closes)
			}
			if err == nil {
				if !good {
					failf("bad-upload-acknowledged", "Put%s(%s) with mismatching/failing data was acknowledged", label, o.Name)
				}
				m.add(o.Name, o.Content)
			} else if good && strict {
				failf("good-upload-rejected-"+status.Code(err).String(), "Put(%s) failed: %v", o.Name, err)
			}
		}})
	}
	for _, o := range append(append([]lstore.Obj{}, u.objs...), u.parent) {
		put(o, "", lstore.PutSpec{Chunks: [][]byte{o.Content}}, true)
	}
	b5 := u.objs[1]
	put(b5, "Split", lstore.PutSpec{Chunks: [][]byte{b5.Content[:2], {}, b5.Content[2:]}}, true)
	a3 := u.objs[0]
	put(a3, "Short", lstore.PutSpec{Chunks: [][]byte{a3.Content[:2]}}, false)
	put(a3, "WrongHash", lstore.PutSpec{Chunks: [][]byte{[]byte("aXa")}}, false)
	put(b5, "SrcErr", lstore.PutSpec{Chunks: [][]byte{b5.Content[:4]}, FinalErr: lstore.ErrSource}, false)
	put(u.objs[2], "Long", lstore.PutSpec{Chunks: [][]byte{u.objs[2].Content, []byte("c")}}, false)
	if hier {
		// the same content under an unrelated instance name: a failing upload there must not become visible there
		other := lstore.CASObj("A3@other", "other", a3.Content)
		put(other, "", lstore.PutSpec{Chunks: [][]byte{other.Content}}, true)
		put(other, "WrongHash", lstore.PutSpec{Chunks: [][]byte{[]byte("aXa")}}, false)
		put(other, "SrcErr", lstore.PutSpec{Chunks: [][]byte{other.Content[:2]}, FinalErr: lstore.ErrSource}, false)
		ops = append(ops, op{"Get:" + other.Name, func(s *lstore.Store, m *model, strict bool) {
			d, err := s.Get(other.Digest)
			vsched.Obs("Get:%s=%s", other.Name, status.Code(err))
			checkRead("Get", other.Name, other.Content, d, err, m, strict, false)
		}})
		ops = append(ops, op{"FindMissing:" + other.Name, func(s *lstore.Store, m *model, strict bool) {
			miss, err := s.FindMissing(other.Digest)
			if err == nil && !miss[other.Digest.String()] && len(m.ok[other.Name]) == 0 {
				failf("reported-present-without-successful-upload", "FindMissing reports %s present although no upload under that instance name ever succeeded", other.Name)
			}
		}})
	}
	for _, o := range append(append([]lstore.Obj{}, u.objs...), u.parent) {
		o := o
		ops = append(ops, op{"Get:" + o.Name, func(s *lstore.Store, m *model, strict bool) {
			d, err := s.Get(o.Digest)
			vsched.Obs("Get:%s=%s", o.Name, status.Code(err))
			checkRead("Get", o.Name, o.Content, d, err, m, strict, false)
		}})
	}
	all := []digest.Digest{}
	names := map[string]string{}
	for _, o := range append(append([]lstore.Obj{}, u.objs...), u.parent) {
		all = append(all, o.Digest)
		names[o.Digest.String()] = o.Name
	}
	ops = append(ops, op{"FindMissing", func(s *lstore.Store, m *model, strict bool) {
		miss, err := s.FindMissing(all...)
		if err != nil {
			if strict || (status.Code(err) != codes.Unavailable && !containsRefresh(err)) {
				failf("findmissing-fails-"+status.Code(err).String(), "FindMissing failed: %v", err)
			}
			return
		}
		pres := ""
		for _, d := range all {
			if !miss[d.String()] {
				pres += names[d.String()] + ","
				if len(m.ok[names[d.String()]]) == 0 {
					failf("reported-present-without-successful-upload", "FindMissing reports %s present although no upload for it ever succeeded", names[d.String()])
				}
			}
		}
		vsched.Obs("FM present=%s", pres)
	}})
	for i, piece := range u.slicer.Pieces {
		i, piece := i, piece
		childName := fmt.Sprintf("P8[%d]", i)
		want := u.parent.Content[piece.OffsetBytes : piece.OffsetBytes+piece.SizeBytes]
		ops = append(ops, op{"GetFromComposite:" + childName, func(s *lstore.Store, m *model, strict bool) {
			d, err := s.GetFromComposite(u.parent.Digest, piece.Digest, u.slicer)
			vsched.Obs("GFC:%s=%s", childName, status.Code(err))
			if err == nil {
				if len(m.ok[u.parent.Name]) == 0 {
					failf("composite-visible-without-parent-upload", "GetFromComposite(%s) returned %q although the parent was never successfully uploaded", childName, d)
				}
				if !bytes.Equal(d, want) {
					failf("composite-wrong-bytes", "GetFromComposite(%s) returned %q, designated slice is %q", childName, d, want)
				}
				return
			}
			checkRead("GetFromComposite", childName, want, d, err, m, strict, false)
		}})
		ops = append(ops, op{"GetChild:" + childName, func(s *lstore.Store, m *model, strict bool) {
			d, err := s.Get(piece.Digest)
			vsched.Obs("GetChild:%s=%s", childName, status.Code(err))
			if err == nil {
				if len(m.ok[u.parent.Name]) == 0 {
					failf("child-visible-without-parent-upload", "Get(%s) returned %q although the parent was never successfully uploaded", childName, d)
				}
				if !bytes.Equal(d, want) {
					failf("child-wrong-bytes", "Get(%s) returned %q, slice is %q", childName, d, want)
				}
				return
			}
			checkRead("Get", childName, want, d, err, m, strict, false)
		}})
	}
	return ops
}

func acOps(u universe) []op {
	var ops []op
	for ki, k := range u.acKeys {
		ki, k := ki, k
		key := fmt.Sprintf("K%d", ki)
		for vi, v := range u.acVals {
			vi, v := vi, v
			ops = append(ops, op{fmt.Sprintf("Put:%s=v%d", key, vi), func(s *lstore.Store, m *model, strict bool) {
				err, src := s.Put(k, lstore.PutSpec{Chunks: [][]byte{v}})
				vsched.Obs("Put:%s=v%d:%s", key, vi, status.Code(err))
				if src.Closes != 1 {
					failf(fmt.Sprintf("upload-source-closes=%d", src.Closes), "source closed %d times", src.Closes)
				}
				if err == nil {
					m.add(key, v)
				} else if strict {
					failf("good-upload-rejected-"+status.Code(err).String(), "Put(%s) failed: %v", key, err)
				}
			}})
		}
		ops = append(ops, op{"PutGarbage:" + key, func(s *lstore.Store, m *model, strict bool) {
			err, _ := s.Put(k, lstore.PutSpec{Chunks: [][]byte{{0xff, 0xff, 0xff}}})
			vsched.Obs("PutGarbage:%s:%s", key, status.Code(err))
			if err == nil {
				failf("bad-upload-acknowledged", "upload of an unparsable ActionResult was acknowledged")
			}
		}})
		ops = append(ops, op{"PutSrcErr:" + key, func(s *lstore.Store, m *model, strict bool) {
			err, _ := s.Put(k, lstore.PutSpec{Chunks: [][]byte{u.acVals[2][:3]}, FinalErr: lstore.ErrSource})
			if err == nil {
				failf("bad-upload-acknowledged", "upload whose source failed was acknowledged")
			}
		}})
		ops = append(ops, op{"Get:" + key, func(s *lstore.Store, m *model, strict bool) {
			d, err := s.Get(k)
			vsched.Obs("Get:%s=%s:%d", key, status.Code(err), len(d))
			checkRead("Get", key, nil, d, err, m, strict, true)
		}})
	}
	ops = append(ops, op{"FindMissing", func(s *lstore.Store, m *model, strict bool) {
		miss, err := s.FindMissing(u.acKeys...)
		if err != nil {
			if strict {
				failf("findmissing-fails-"+status.Code(err).String(), "FindMissing failed: %v", err)
			}
			return
		}
		for ki, k := range u.acKeys {
			if !miss[k.String()] && len(m.ok[fmt.Sprintf("K%d", ki)]) == 0 {
				failf("reported-present-without-successful-upload", "FindMissing reports K%d present although no upload for it ever succeeded", ki)
			}
		}
	}})
	return ops
}

func monitors(s *lstore.Store) {
	if v := s.CheckMonitors(); len(v) > 0 {
		failf("monitor:"+firstWords(v[0]), "%s", v[0])
	}
	if s.RBF.Invalid > 0 {
		failf("integrity-callback-false-on-clean-medium", "the data integrity callback received dataIsValid=false %d times on an uncorrupted medium", s.RBF.Invalid)
	}
}

func firstWords(s string) string {
	// stable signature: digits replaced, first sentence, bounded length
	var b []byte
	prevHash := false
	for i := 0; i < len(s) && len(b) < 110; i++ {
		c := s[i]
		if c == '\n' || c == '(' {
			break
		}
		if c >= '0' && c <= '9' {
			if !prevHash {
				b = append(b, '#')
			}
			prevHash = true
			continue
		}
		prevHash = false
		b = append(b, c)
	}
	return string(b)
}

func seqBody(g lstore.Geometry, depth int) func() { return seqBodyFrom(g, depth, "") }

// seqBodyFrom starts the enumeration from a non-initial state: "steady" = the initial phase with
// several new blocks is over; "aged" = additionally the parent P8, A3 and B5 have been uploaded and
// pushed into an old block (so that reads refresh them).
func seqBodyFrom(g lstore.Geometry, depth int, start string) func() {
	return func() {
		med := lstore.NewMedia(g)
		s := lstore.Open(g, med)
		m := &model{ok: map[string][][]byte{}}
		if start != "" {
			inst := ""
			if g.Hierarchical {
				inst = "a"
			}
			u := casUniverse(inst)
			fill := func(i int) {
				f := lstore.CASObj("fill", inst, []byte(fmt.Sprintf("fill%04d", i))[:g.BlockSize()])
				if err := s.PutOK(f.Digest, f.Content); err != nil {
					vsched.HarnessFail("prefill: %v", err)
				}
			}
			fill(0)
			fill(1)
			if start == "aged" {
				for _, o := range []lstore.Obj{u.parent, u.objs[0], u.objs[1]} {
					if err := s.PutOK(o.Digest, o.Content); err != nil {
						vsched.HarnessFail("prefill: %v", err)
					}
					m.add(o.Name, o.Content)
				}
				for i := 2; !s.NeedsRefresh(u.parent.Digest) || !s.NeedsRefresh(u.objs[1].Digest); i++ {
					if i > 8 || !s.Held(u.parent.Digest) {
						vsched.HarnessFail("could not age the prefilled objects")
					}
					fill(i)
				}
			}
		}
		var ops []op
		if g.AC {
			ops = acOps(acUniverse())
		} else {
			inst := ""
			if g.Hierarchical {
				inst = "a"
			}
			ops = casOps(casUniverse(inst), g.Hierarchical)
		}
		strict := g.Spare >= 1
		for i := 0; i < depth; i++ {
			k := vsched.ChooseFree("choice", len(ops))
			ops[k].run(s, m, strict)
			monitors(s)
		}
		if s.RBF.Opened != s.RBF.Closed {
			failf("reader-leak", "at the end of a sequential history %d readers were opened and %d closed (open: %s)", s.RBF.Opened, s.RBF.Closed, s.OpenReaders())
		}
	}
}

// ---- concurrent scenarios ------------------------------------------------------------------------

type concOp func(s *lstore.Store, m *model)

// restartBody: persistent store; every sequence over {uploads sharing a block, block-sized upload, reads, one
// step of the syncer loops, clean restart (every issued I/O operation survives)}. Uploads that were not yet
// committed may be gone after a restart (NOT_FOUND); whatever is returned must be the uploaded bytes, and no
// read may report an integrity error, also for objects uploaded after the restart next to restored ones.
func restartBody(g lstore.Geometry, depth int) func() {
	return func() {
		s := lstore.Open(g, lstore.NewMedia(g))
		m := &model{ok: map[string][][]byte{}}
		objs := []lstore.Obj{lstore.CASObj("A3", "", []byte("aXy")), lstore.CASObj("B5", "", []byte("bKLMN")), lstore.CASObj("D4", "", []byte("dW9z")), lstore.CASObj("E2", "", []byte("e7")), lstore.CASObj("C8", "", []byte("c1029384"))}
		for i := 0; i < depth; i++ {
			k := vsched.ChooseFree("choice", 2*len(objs)+2)
			switch {
			case k < len(objs):
				o := objs[k]
				err := s.PutOK(o.Digest, o.Content)
				vsched.Obs("P%s=%s", o.Name, status.Code(err))
				if err == nil {
					m.add(o.Name, o.Content)
				}
			case k < 2*len(objs):
				o := objs[k-len(objs)]
				d, err := s.Get(o.Digest)
				vsched.Obs("G%s=%s", o.Name, status.Code(err))
				// not strict: on the persistent store a released block returns to the allocator only after the state
				// file was rewritten, so a refresh can legitimately find no free block (UNAVAILABLE)
				checkRead("Get", o.Name, o.Content, d, err, m, false, false)
			case k == 2*len(objs):
				n := s.StepSyncers(context.Background(), 1)
				vsched.Obs("sync=%d", n)
			default:
				s = s.Restart(g)
				vsched.Obs("restart blocks=%d", s.InitialBlocks)
			}
		}
		for _, o := range objs {
			d, err := s.Get(o.Digest)
			checkRead("final Get", o.Name, o.Content, d, err, m, false, false)
		}
		monitors(s)
	}
}

func concBody(g lstore.Geometry, prefill func(s *lstore.Store, m *model), threads []concOp, final func(s *lstore.Store, m *model)) func() {
	return func() {
		med := lstore.NewMedia(g)
		s := lstore.Open(g, med)
		m := &model{ok: map[string][][]byte{}}
		if prefill != nil {
			prefill(s, m)
		}
		var wg vsync.WaitGroup
		for i, t := range threads {
			t := t
			wg.Add(1)
			vsched.GoNamed(fmt.Sprintf("t%d", i), false, func() {
				defer wg.Done()
				t(s, m)
			})
		}
		wg.Wait()
		monitors(s)
		if final != nil {
			final(s, m)
		}
		monitors(s)
		if s.RBF.Opened != s.RBF.Closed {
			failf("reader-leak", "%d readers opened, %d closed (open: %s)", s.RBF.Opened, s.RBF.Closed, s.OpenReaders())
		}
	}
}

func main() {
	r := ev.Start("C01")
	r.Rule("vsched: (seq) every operation sequence of the stated depth over the stated alphabet, one execution each, reference-map oracle after every operation; (conc) every schedule within the deviation bound of 2-3 colliding operations; non-trivial = executions in which at least one thread waited for another (conc) / sequences containing at least one successful upload followed by a read (seq, measured as executions with >=2 distinct observation kinds)")
	r.Assume("media are not corrupted; the deterministic random generator never repeats a seed")
	r.Assume("failing reads other than NOT_FOUND are tolerated only under concurrency / without spare blocks and only with a refresh/resource cause (DESIGN section 5.11)")

	base := lstore.Geometry{SectorSize: 4, SectorsPerBlock: 2, Old: 1, Current: 1, New: 1, Spare: 1, IndexSlots: 127, GetAttempts: 16, PutAttempts: 64}
	geos := map[string]lstore.Geometry{}
	g := base
	geos["flat-cas-dev"] = g
	g = base
	g.RawReads = true
	geos["flat-cas-dev-raw"] = g
	g = base
	g.InMemoryBlocks, g.SectorSize, g.SectorsPerBlock, g.New, g.Old = true, 1, 8, 2, 0
	geos["flat-cas-mem-o0n2"] = g
	g = base
	g.AC, g.Mutable, g.IndexOnDevice = true, true, true
	geos["flat-ac-dev-idxdev"] = g
	g = base
	g.Hierarchical, g.New = true, 2
	geos["hier-cas-dev"] = g
	g = base
	g.IndexSlots, g.GetAttempts, g.PutAttempts = 5, 2, 4
	geos["flat-cas-dev-tinyindex"] = g
	g = base
	g.SectorSize, g.SectorsPerBlock, g.Old, g.Current, g.New, g.Spare, g.IndexOnDevice = 1, 8, 2, 2, 3, 2, true
	geos["flat-cas-dev-s1-o2c2n3"] = g
	g = base
	g.Spare = 0
	geos["flat-cas-dev-nospare"] = g

	depth := ev.Pick(r, 4, 5)
	var scs []mc.Scenario
	order := []string{"flat-cas-dev", "flat-cas-dev-raw", "flat-cas-mem-o0n2", "flat-ac-dev-idxdev", "hier-cas-dev", "flat-cas-dev-tinyindex", "flat-cas-dev-s1-o2c2n3", "flat-cas-dev-nospare"}
	for _, name := range order {
		d := depth
		if geos[name].AC {
			d = depth + 1
		}
		scs = append(scs, mc.Scenario{Name: "seq/" + name, Space: fmt.Sprintf("all operation sequences of length %d over the alphabet (good uploads in 2 chunkings, 4 kinds of failing uploads, Get of every key, GetFromComposite/Get of both slices, FindMissing) on geometry %s", d, geos[name]), Bound: 0, ShardDepth: 2, Body: seqBody(geos[name], d), Budget: budgetDur(ev.Pick(r, 100, 900))})
	}
	for _, st := range []string{"steady", "aged"} {
		for _, name := range []string{"flat-cas-dev", "flat-cas-dev-raw", "hier-cas-dev"} {
			gg := geos[name]
			if st == "aged" {
				gg.Old, gg.Spare = 2, 2 // room for the aged objects to sit in old blocks without being evicted at once
			}
			scs = append(scs, mc.Scenario{Name: "seq-" + st + "/" + name, Space: fmt.Sprintf("as seq/%s but starting from a non-initial state (%s), depth %d", name, st, depth), Bound: 0, ShardDepth: 2, Body: seqBodyFrom(gg, depth, st), Budget: budgetDur(ev.Pick(r, 100, 900))})
		}
	}
	{
		g := base
		g.Persistent, g.IndexOnDevice, g.Spare = true, true, 2
		g.MinEpochInterval, g.ErrorRetry = 10*time.Second, 3*time.Second
		d := ev.Pick(r, 5, 6)
		scs = append(scs, mc.Scenario{Name: "seq-restart/flat-cas-dev", Space: fmt.Sprintf("persistent store: all sequences of %d operations over {Put A3/B5/D4/E2/C8, Get of each, one step of the syncer loops, clean restart} on %s", d, g), Bound: 0, ShardDepth: 2, Body: restartBody(g, d), Budget: budgetDur(ev.Pick(r, 150, 1200))})
	}
	scs = append(scs, concScenarios(r, base)...)
	mc.Run(r, scs)
	r.Finish()
}
