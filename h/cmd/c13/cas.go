package main

// Fake CAS: answers FindMissing from a presence predicate, serves Tree blobs
// through a selectable kind of buffer (validating / non-validating, eager /
// streaming), can fail the k-th call, can make reads of a blob fail, and logs
// what was asked and what it answered.

import (
	"context"
	"fmt"
	"io"
	"strconv"
	"strings"

	remoteexecution "github.com/bazelbuild/remote-apis/build/bazel/remote/execution/v2"
	"github.com/buildbarn/bb-storage/pkg/blobstore"
	"github.com/buildbarn/bb-storage/pkg/blobstore/buffer"
	"github.com/buildbarn/bb-storage/pkg/blobstore/slicing"
	"github.com/buildbarn/bb-storage/pkg/digest"
	"google.golang.org/grpc/codes"
	"google.golang.org/grpc/status"
)

// Buffer kinds.
const (
	modeCASSlice    = 0 // buffer.NewCASBufferFromByteSlice: validates size+hash eagerly
	modeCASReader   = 1 // buffer.NewCASBufferFromReader: validates while streaming
	modeRawSlice    = 2 // buffer.NewValidatedBufferFromByteSlice: no validation
	modeRawReaderAt = 3 // buffer.NewValidatedBufferFromReaderAt: no validation, streaming
)

var modeNames = []string{"cas-slice(validating)", "cas-reader(validating)", "raw-slice(non-validating)", "raw-readerat(non-validating)"}

func modeValidating(m int) bool { return m == modeCASSlice || m == modeCASReader }

type fakeCAS struct {
	present     func(key string) bool
	blobs       map[string][]byte
	mode        int
	chunk       int // modeCASReader: bytes per Read (0 = as much as fits)
	failAt      int // call index that fails (-1: none)
	failCode    codes.Code
	serveAbsent bool            // Get serves blobs although FindMissing reports them missing
	readErrAt   map[string]int  // key -> offset at which reads of that blob fail
	integrityCB map[string]bool // keys for which the data integrity callback fired with false

	calls           int
	injected        bool
	reportedPresent map[string]bool
	reportedMissing map[string]bool
	getOK           map[string]int
	maxBatch        int
	findMissing     int
	gets            int
	foreign         []string
	openReaders     int
	log             []logEntry
}

type logEntry struct {
	op   string
	key  string
	n    int
	res  string
	code codes.Code
}

func (e logEntry) String() string {
	switch e.op {
	case "FindMissing":
		if e.res == "err" {
			return fmt.Sprintf("FindMissing(%d digests)->%s", e.n, e.code)
		}
		return fmt.Sprintf("FindMissing(%d digests)->%s missing", e.n, e.res)
	case "Get":
		if e.res == "err" {
			return fmt.Sprintf("Get(%s)->%s", e.key, e.code)
		}
		return fmt.Sprintf("Get(%s)->%d bytes via %s", e.key, e.n, e.res)
	}
	return e.op
}

func (c *fakeCAS) logString() string {
	var parts []string
	for _, e := range c.log {
		parts = append(parts, e.String())
	}
	return strings.Join(parts, "; ")
}

func newFakeCAS() *fakeCAS {
	return &fakeCAS{failAt: -1, reportedPresent: map[string]bool{}, reportedMissing: map[string]bool{}, getOK: map[string]int{}, integrityCB: map[string]bool{}}
}

var _ blobstore.BlobAccess = (*fakeCAS)(nil)

func (c *fakeCAS) keyOf(d digest.Digest) string {
	if d.GetInstanceName().String() != instance || d.GetDigestFunction().GetEnumValue() != remoteexecution.DigestFunction_SHA256 {
		k := "FOREIGN:" + d.String()
		c.foreign = append(c.foreign, k)
		return k
	}
	return d.GetHashString() + "-" + strconv.FormatInt(d.GetSizeBytes(), 10)
}

func (c *fakeCAS) GetCapabilities(ctx context.Context, instanceName digest.InstanceName) (*remoteexecution.ServerCapabilities, error) {
	return &remoteexecution.ServerCapabilities{}, nil
}

func (c *fakeCAS) inject() error {
	idx := c.calls
	c.calls++
	if idx == c.failAt {
		c.injected = true
		return status.Errorf(c.failCode, "injected CAS failure at call %d", idx)
	}
	return nil
}

func (c *fakeCAS) FindMissing(ctx context.Context, digests digest.Set) (digest.Set, error) {
	items := digests.Items()
	c.findMissing++
	if len(items) > c.maxBatch {
		c.maxBatch = len(items)
	}
	if err := c.inject(); err != nil {
		c.log = append(c.log, logEntry{op: "FindMissing", n: len(items), res: "err", code: status.Code(err)})
		return digest.EmptySet, err
	}
	sb := digest.NewSetBuilder(0)
	nMissing := 0
	for _, d := range items {
		k := c.keyOf(d)
		if c.present(k) {
			c.reportedPresent[k] = true
		} else {
			c.reportedMissing[k] = true
			sb.Add(d)
			nMissing++
		}
	}
	c.log = append(c.log, logEntry{op: "FindMissing", n: len(items), res: strconv.Itoa(nMissing)})
	return sb.Build(), nil
}

type chunkedReader struct {
	c     *fakeCAS
	key   string
	data  []byte
	off   int
	chunk int
	errAt int
	done  bool
}

func (r *chunkedReader) Read(p []byte) (int, error) {
	if len(p) == 0 {
		return 0, nil
	}
	if r.errAt >= 0 && r.off >= r.errAt {
		return 0, status.Error(codes.Internal, "injected read failure")
	}
	n := len(r.data) - r.off
	if r.errAt >= 0 && r.errAt-r.off < n {
		n = r.errAt - r.off
	}
	if n == 0 {
		if !r.done {
			r.done = true
			r.c.getOK[r.key]++
		}
		return 0, io.EOF
	}
	if r.chunk > 0 && n > r.chunk {
		n = r.chunk
	}
	if n > len(p) {
		n = len(p)
	}
	copy(p, r.data[r.off:r.off+n])
	r.off += n
	return n, nil
}

func (r *chunkedReader) Close() error {
	r.c.openReaders--
	return nil
}

type failingReaderAt struct {
	c     *fakeCAS
	key   string
	data  []byte
	errAt int
	done  bool
}

func (r *failingReaderAt) ReadAt(p []byte, off int64) (int, error) {
	if off < 0 || off > int64(len(r.data)) {
		return 0, io.EOF
	}
	end := int(off) + len(p)
	if end > len(r.data) {
		end = len(r.data)
	}
	if r.errAt >= 0 && end > r.errAt {
		n := 0
		if int(off) < r.errAt {
			n = copy(p, r.data[off:r.errAt])
		}
		return n, status.Error(codes.Internal, "injected read failure")
	}
	n := copy(p, r.data[off:end])
	if end == len(r.data) && !r.done {
		r.done = true
		r.c.getOK[r.key]++
	}
	if n < len(p) {
		return n, io.EOF
	}
	return n, nil
}

func (r *failingReaderAt) Close() error {
	r.c.openReaders--
	return nil
}

func (c *fakeCAS) Get(ctx context.Context, d digest.Digest) buffer.Buffer {
	k := c.keyOf(d)
	c.gets++
	if err := c.inject(); err != nil {
		c.log = append(c.log, logEntry{op: "Get", key: k, res: "err", code: status.Code(err)})
		return buffer.NewBufferFromError(err)
	}
	data, isTree := c.blobs[k]
	if !isTree || (!c.present(k) && !c.serveAbsent) {
		c.log = append(c.log, logEntry{op: "Get", key: k, res: "err", code: codes.NotFound})
		return buffer.NewBufferFromError(status.Errorf(codes.NotFound, "Object %s not found", k))
	}
	c.log = append(c.log, logEntry{op: "Get", key: k, n: len(data), res: modeNames[c.mode]})
	data = append([]byte(nil), data...)
	errAt := -1
	if v, ok := c.readErrAt[k]; ok {
		errAt = v
	}
	src := buffer.BackendProvided(func(dataIsValid bool) {
		if !dataIsValid {
			c.integrityCB[k] = true
		}
	})
	switch c.mode {
	case modeCASSlice:
		if errAt >= 0 {
			return buffer.NewBufferFromError(status.Error(codes.Internal, "injected read failure"))
		}
		c.getOK[k]++
		return buffer.NewCASBufferFromByteSlice(d, data, src)
	case modeCASReader:
		c.openReaders++
		return buffer.NewCASBufferFromReader(d, &chunkedReader{c: c, key: k, data: data, chunk: c.chunk, errAt: errAt}, src)
	case modeRawSlice:
		if errAt >= 0 {
			return buffer.NewBufferFromError(status.Error(codes.Internal, "injected read failure"))
		}
		c.getOK[k]++
		return buffer.NewValidatedBufferFromByteSlice(data)
	default:
		c.openReaders++
		if len(data) == 0 {
			c.getOK[k]++
		}
		return buffer.NewValidatedBufferFromReaderAt(&failingReaderAt{c: c, key: k, data: data, errAt: errAt}, int64(len(data)))
	}
}

func (c *fakeCAS) GetFromComposite(ctx context.Context, parent, child digest.Digest, slicer slicing.BlobSlicer) buffer.Buffer {
	c.calls++
	c.log = append(c.log, logEntry{op: "GetFromComposite"})
	return buffer.NewBufferFromError(status.Error(codes.Unimplemented, "fake CAS: GetFromComposite"))
}

func (c *fakeCAS) Put(ctx context.Context, d digest.Digest, b buffer.Buffer) error {
	c.calls++
	b.Discard()
	c.log = append(c.log, logEntry{op: "Put"})
	return status.Error(codes.Unimplemented, "fake CAS: Put")
}
