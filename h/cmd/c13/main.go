// C13 — completeness checking: an ActionResult is returned only if everything
// it references exists in the CAS.
//
// Exhaustive bounded enumeration (venum) against the real
// completenesschecking.NewCompletenessCheckingBlobAccess (and through it
// util.VisitProtoBytesFields): a grammar of ActionResults x every subset of the
// referenced objects missing x batch sizes x CAS faults x every truncation /
// byte mutation of every Tree x Tree size limits x four kinds of CAS read
// buffers. The oracle derives the referenced set independently by fully
// unmarshalling the stored messages (oracle.go).
package main

import (
	"fmt"
	"sort"

	"verifh/ev"
	"verifh/par"
)

var batchSizes = []int{1, 2, 3, 1000}

// batchesFor: batch sizes used for a missing-subset s of n objects. 64 and 1000
// both exceed the largest number of references (20); 1000 makes the decorator
// allocate a 1000-slot set per call, which dominates CPU time, so the quick
// tier pairs it with {nothing, one object, everything} missing only.
func batchesFor(thorough bool, s []int, n int) []int {
	if thorough || len(s) <= 1 || len(s) == n {
		return []int{1, 2, 3, 64, 1000}
	}
	return []int{1, 2, 3, 64}
}

// dirCombos: no directory, every single directory (21 shapes x root digest
// yes/no), every ordered pair over pairShapes x root digest yes/no.
func dirCombos(pairShapes []int) [][]DirSpec {
	out := [][]DirSpec{nil}
	for s := 0; s < numShapes; s++ {
		for _, root := range []bool{false, true} {
			out = append(out, []DirSpec{{Shape: s, Root: root}})
		}
	}
	for _, s0 := range pairShapes {
		for _, r0 := range []bool{false, true} {
			for _, s1 := range pairShapes {
				for _, r1 := range []bool{false, true} {
					out = append(out, []DirSpec{{Shape: s0, Root: r0}, {Shape: s1, Root: r1}})
				}
			}
		}
	}
	return out
}

func allShapes() []int {
	var s []int
	for i := 0; i < numShapes; i++ {
		s = append(s, i)
	}
	return s
}

// tally is the per-fixture result merged in index order (deterministic).
type tally struct {
	evals, nontrivial, soft int64
	outcomes                map[string]int64
	viols                   []ev.Violation
	sample                  any
	maxCalls, maxBatch      int
	maxRef                  int
	softCases               []string
}

type driver struct {
	r    *ev.Run
	sub  *ev.Sub
	name string

	softNoted int
	seenNote  map[string]bool
}

// drive runs gen for every spec in parallel and merges the tallies.
func (d *driver) drive(specs []ARSpec, gen func(fx *fixture, emit func(Case))) {
	// Each fixture's cases are dealt round-robin over K shards so that a few
	// large fixtures still occupy all cores; results are merged in
	// (fixture, shard) order, independent of scheduling.
	K := 1
	if len(specs) < 512 {
		K = (512 + len(specs) - 1) / len(specs)
	}
	tallies := make([]tally, len(specs)*K)
	par.For(len(specs)*K, func(u int) {
		t := &tallies[u]
		t.outcomes = map[string]int64{}
		fx := build(specs[u/K])
		shard, counter := u%K, 0
		gen(fx, func(c Case) {
			counter++
			if (counter-1)%K != shard {
				return
			}
			v := runCase(fx, c)
			t.evals++
			if v.nRef >= 2 {
				t.nontrivial++
			}
			if v.softNoRet {
				t.soft++
				if len(t.softCases) < 2 {
					t.softCases = append(t.softCases, fmt.Sprintf("%s shape=%v corrupt=%+v mode=%s", v.outcome, c.AR.Dirs, *c.Corrupt, modeNames[c.Mode]))
				}
			}
			t.outcomes[v.outcome]++
			if v.calls > t.maxCalls {
				t.maxCalls = v.calls
			}
			if v.maxBatch > t.maxBatch {
				t.maxBatch = v.maxBatch
			}
			if v.nRef > t.maxRef {
				t.maxRef = v.nRef
			}
			if v.msg != "" && len(t.viols) < 3 {
				t.viols = append(t.viols, ev.Violation{Signature: v.sig, Sub: d.name, Message: v.msg, Case: c})
			}
			if t.evals <= 12 {
				t.sample = map[string]any{"sub": d.name, "case": c, "outcome": v.outcome, "cas_calls": v.calls, "referenced_objects": v.nRef}
			}
		})
	})
	outcomes := map[string]int64{}
	var soft int64
	maxCalls, maxBatch, maxRef := 0, 0, 0
	sampled := 0
	pick := map[int]bool{}
	for _, want := range []int{len(tallies) / 3, len(tallies) - 1} {
		for i := want; i >= 0; i-- {
			if tallies[i].sample != nil {
				pick[i] = true
				break
			}
		}
	}
	for i := range tallies {
		t := &tallies[i]
		d.sub.Evaluations += t.evals
		d.sub.Nontrivial += t.nontrivial
		soft += t.soft
		for k, n := range t.outcomes {
			outcomes[k] += n
		}
		if t.maxCalls > maxCalls {
			maxCalls = t.maxCalls
		}
		if t.maxBatch > maxBatch {
			maxBatch = t.maxBatch
		}
		if t.maxRef > maxRef {
			maxRef = t.maxRef
		}
		for _, v := range t.viols {
			d.r.Violate(v)
		}
		for _, sc := range t.softCases {
			if d.softNoted < 6 && !d.seenNote[sc] {
				if d.seenNote == nil {
					d.seenNote = map[string]bool{}
				}
				d.seenNote[sc] = true
				d.softNoted++
				d.r.Note(d.name + ": decorator stricter than proto.Unmarshal on an altered Tree served without validation: " + sc)
			}
		}
		// two samples per sub-check: a small and a large fixture
		if pick[i] && sampled < 2 {
			d.r.Sample(t.sample)
			sampled++
		}
	}
	if d.sub.Extra == nil {
		d.sub.Extra = map[string]any{}
	}
	prev, _ := d.sub.Extra["outcome_counts"].(map[string]int64)
	if prev == nil {
		prev = map[string]int64{}
	}
	for k, n := range outcomes {
		prev[k] += n
	}
	d.sub.Extra["outcome_counts"] = prev
	d.sub.Extra["fixtures"] = addInt(d.sub.Extra["fixtures"], len(specs))
	d.sub.Extra["complete_by_reference_but_rejected_tree_altered"] = addInt(d.sub.Extra["complete_by_reference_but_rejected_tree_altered"], int(soft))
	d.sub.Extra["max_cas_calls_in_one_get"] = maxInt(d.sub.Extra["max_cas_calls_in_one_get"], maxCalls)
	d.sub.Extra["max_findmissing_batch"] = maxInt(d.sub.Extra["max_findmissing_batch"], maxBatch)
	d.sub.Extra["max_referenced_objects"] = maxInt(d.sub.Extra["max_referenced_objects"], maxRef)
	d.sub.Outcomes = int64(len(prev))
	d.sub.States, d.sub.Transitions = d.sub.Evaluations, d.sub.Evaluations
}

func addInt(a any, b int) int {
	x, _ := a.(int)
	return x + b
}

func maxInt(a any, b int) int {
	x, _ := a.(int)
	if x > b {
		return x
	}
	return b
}

// subsets of [0,n): all for n<=8, otherwise none + singletons + all.
func subsets(n int) [][]int {
	var out [][]int
	if n <= 8 {
		for m := 0; m < 1<<n; m++ {
			var s []int
			for i := 0; i < n; i++ {
				if m&(1<<i) != 0 {
					s = append(s, i)
				}
			}
			out = append(out, s)
		}
		return out
	}
	out = append(out, nil)
	all := make([]int, n)
	for i := 0; i < n; i++ {
		out = append(out, []int{i})
		all[i] = i
	}
	return append(out, all)
}

func fewSubsets(n int) [][]int {
	out := [][]int{nil}
	all := make([]int, n)
	for i := 0; i < n; i++ {
		out = append(out, []int{i})
		all[i] = i
	}
	if n > 1 {
		out = append(out, all)
	}
	return out
}

func containsTree(fx *fixture, s []int) bool {
	for _, i := range s {
		if _, ok := fx.trees[fx.r0[i]]; ok {
			return true
		}
	}
	return false
}

// mutations of a blob of length n.
func mutations(n int, bits []int) []Corrupt {
	var out []Corrupt
	for l := 0; l < n; l++ {
		out = append(out, Corrupt{Kind: "trunc", Pos: l})
	}
	for p := 0; p < n; p++ {
		for _, b := range bits {
			out = append(out, Corrupt{Kind: "xor", Pos: p, Val: 1 << b})
		}
		out = append(out, Corrupt{Kind: "xor", Pos: p, Val: 0xff})
		out = append(out, Corrupt{Kind: "add", Pos: p, Val: 1})
	}
	out = append(out, Corrupt{Kind: "append", Val: 0}, Corrupt{Kind: "append", Val: 0x0a})
	return out
}

func main() {
	r := ev.Start("C13")
	r.Rule("venum: every (ActionResult of the grammar x CAS state/fault x decorator configuration) listed per sub-check is executed against the real decorator; a case is non-trivial when the ActionResult references at least 2 distinct CAS objects in that case (so the decision depends on which of several objects is absent/corrupt and on batching)")
	r.Assume("referenced set = digests of output files, tree_digest, root_directory_digest, stdout_digest, stderr_digest, and inside each served Tree every FileNode digest and, iff the output directory has a root_directory_digest, every DirectoryNode digest; computed by proto.Unmarshal of the stored bytes")
	r.Assume("NOT_FOUND is demanded exactly only when objects are missing and nothing else is wrong (no malformed digest, no corrupt/unreadable Tree, no limit excess, no CAS fault) and all Trees are pristine; in every other bad case any error is accepted, a result never")
	r.Assume("a Tree that was read successfully counts as reported present even if it never appeared in a FindMissing request; all other referenced objects must appear in a successful FindMissing request of the same call and not in its answer")
	r.Assume("don't-care (error or result both accepted, but a returned result is still checked for complete presence): output directory without tree_digest; malformed DirectoryNode digest inside a Tree whose output directory has no root_directory_digest; total Tree size above the limit only when the same Tree referenced twice is counted twice")
	r.Assume("non-validating CAS buffers: the Tree is whatever bytes the CAS serves; a mutated Tree that still unmarshals defines the referenced set; the decorator may be stricter than proto.Unmarshal there (counted as complete_by_reference_but_rejected_tree_altered), it may never be laxer")
	r.Assume("a transient CAS fault (k-th call fails) need not produce an error if the decorator still obtains a presence report for everything (it does not retry, so in practice it always errors); a result returned without such reports is a violation")
	r.Assume("maximumMessageSizeBytes is fixed at 65536 (not part of the property); digest function SHA-256; one instance name")

	if r.Replay != "" {
		rf := ev.LoadReplay(r.Replay)
		var c Case
		ev.MustJSON(rf.Case, &c)
		v := runCase(nil, c)
		fmt.Printf("replay sub=%s outcome=%s calls=%d message=%q\n", rf.Sub, v.outcome, v.calls, v.msg)
		if v.msg != "" {
			r.Violate(ev.Violation{Signature: v.sig, Sub: rf.Sub, Message: v.msg, Case: c})
		}
		r.Finish()
	}

	thorough := r.Thorough()
	pairShapesMain := ev.Pick(r, []int{0, 2, 9, 20}, allShapes())
	pairShapesSmall := ev.Pick(r, []int{0, 20}, []int{0, 2, 9, 13, 20})

	// ---- missing-subsets ----
	if r.Want("missing-subsets") {
		combos := dirCombos(pairShapesMain)
		var specs []ARSpec
		for files := 0; files <= 2; files++ {
			for so := 0; so <= 2; so++ {
				for se := 0; se <= 2; se++ {
					for _, dc := range combos {
						// with two output directories (quick tier: with any) only 4
						// of the 9 stdout/stderr combinations (absent+absent,
						// digest+digest, inline+digest, digest+inline)
						if (len(dc) == 2 || (!thorough && len(dc) == 1)) && !((so == 0 && se == 0) || (so == 1 && se == 1) || (so == 2 && se == 1) || (so == 1 && se == 2)) {
							continue
						}
						for _, col := range []bool{false, true} {
							specs = append(specs, ARSpec{Files: files, Stdout: so, Stderr: se, Dirs: dc, Collide: col})
						}
					}
				}
			}
		}
		sub := r.NewSub("missing-subsets", "venum", fmt.Sprintf("{0,1,2 output files} x {stdout absent/digest/inline} x {stderr likewise}"+ev.Pick(r, " (with output directories: only absent+absent, digest+digest, inline+digest, digest+inline)", " (with two output directories: only absent+absent, digest+digest, inline+digest, digest+inline)")+" x {no dir, 42 single dirs (21 Tree shapes x root digest y/n), ordered pairs over %d shapes x root y/n} x {distinct, colliding blob digests} = %d ActionResults; x every subset of the referenced objects missing (2^n for n<=8, else none+singletons+all) x batch sizes %s x (when a Tree is in the subset) Get refuses / still serves it; validating CAS buffer", len(pairShapesMain), len(specs), ev.Pick(r, "{1,2,3,64} plus 1000 when nothing / one object / everything is missing", "{1,2,3,64,1000}")))
		done := sub.Timer()
		d := &driver{r: r, sub: sub, name: "missing-subsets"}
		d.drive(specs, func(fx *fixture, emit func(Case)) {
			for _, s := range subsets(len(fx.r0)) {
				for _, b := range batchesFor(thorough, s, len(fx.r0)) {
					c := baseCase(fx.spec)
					c.Missing, c.Batch = s, b
					emit(c)
					if containsTree(fx, s) {
						c.ServeAbsent = true
						emit(c)
					}
				}
			}
		})
		// AC entry absent.
		d.drive([]ARSpec{{}}, func(fx *fixture, emit func(Case)) {
			for _, b := range batchSizes {
				c := baseCase(fx.spec)
				c.Batch, c.ACMissing = b, true
				emit(c)
			}
		})
		sub.Exhaustive = true
		if !thorough {
			sub.BoundCompleted = fmt.Sprintf("quick: pairs of output directories over Tree shapes %v only; 4 of 9 stdout/stderr combinations when directories are present; batch 1000 only with <=1 or all objects missing", pairShapesMain)
		}
		done()
	}

	// ---- malformed / absent digests ----
	if r.Want("malformed-digests") {
		combos := dirCombos(pairShapesMain)
		var specs []ARSpec
		for _, dc := range combos {
			for _, col := range []bool{false, true} {
				base := ARSpec{Files: 2, Stdout: 1, Stderr: 1, Dirs: dc, Collide: col}
				for _, pos := range base.positions() {
					for kind := malAbsent; kind <= malNeg; kind++ {
						if kind == malAbsent && (pos == "stdout" || pos == "stderr" || pos[:3] == "roo") {
							continue // already a grammar dimension
						}
						s := base
						s.Mal = &Mal{Pos: pos, Kind: kind}
						specs = append(specs, s)
					}
				}
			}
		}
		sub := r.NewSub("malformed-digests", "venum", fmt.Sprintf("ActionResults with 2 output files, stdout+stderr digests, every directory combination (as in missing-subsets) x {distinct, colliding}; EVERY digest position (output file, tree, root directory, stdout, stderr, each FileNode and DirectoryNode of each Tree level) x {absent, hash of 63 chars, uppercase hex, negative size} = %d ActionResults x batch sizes {1,2,3,1000} x {nothing missing, each single object missing}", len(specs)))
		done := sub.Timer()
		d := &driver{r: r, sub: sub, name: "malformed-digests"}
		d.drive(specs, func(fx *fixture, emit func(Case)) {
			for _, s := range fewSubsets(len(fx.r0)) {
				if len(s) > 1 {
					continue
				}
				for _, b := range batchSizes {
					c := baseCase(fx.spec)
					c.Missing, c.Batch = s, b
					emit(c)
				}
			}
		})
		sub.Exhaustive = true
		done()
	}

	// ---- CAS errors at each call index ----
	if r.Want("cas-errors") {
		combos := dirCombos(pairShapesMain)
		var specs []ARSpec
		for _, files := range []int{0, 2} {
			for _, so := range []int{0, 1} {
				for _, dc := range combos {
					for _, col := range []bool{false, true} {
						specs = append(specs, ARSpec{Files: files, Stdout: so, Stderr: 2 - so, Dirs: dc, Collide: col})
					}
				}
			}
		}
		modes := []struct{ mode, chunk int }{{modeCASSlice, 0}, {modeCASReader, 1}}
		sub := r.NewSub("cas-errors", "venum", fmt.Sprintf("%d ActionResults ({0,2} files x {stdout digest+stderr inline, stdout absent+stderr... } x every directory combination x {distinct, colliding}) x batch sizes {1,2,3,1000} x CAS buffer {validating slice, validating 1-byte-chunk reader} x EVERY call index k (FindMissing or Get of a Tree) failing x {INTERNAL, UNAVAILABLE, NOT_FOUND (a CAS whose Get and FindMissing disagree)} x {nothing missing, last referenced object missing}", len(specs)))
		done := sub.Timer()
		d := &driver{r: r, sub: sub, name: "cas-errors"}
		d.drive(specs, func(fx *fixture, emit func(Case)) {
			miss := [][]int{nil}
			if n := len(fx.r0); n > 0 {
				miss = append(miss, []int{n - 1})
			}
			for _, ms := range miss {
				for _, b := range batchSizes {
					for _, m := range modes {
						c := baseCase(fx.spec)
						c.Batch, c.Mode, c.Chunk, c.Missing = b, m.mode, m.chunk, ms
						n := runCase(fx, c).calls // dry run: number of CAS calls without fault
						for k := 0; k < n; k++ {
							for _, code := range []string{"Internal", "Unavailable", "NotFound"} {
								c.FailAt, c.FailCode = k, code
								emit(c)
							}
						}
					}
				}
			}
		})
		sub.Exhaustive = true
		done()
	}

	// ---- Tree corruption ----
	if r.Want("tree-corruption") {
		var specs []ARSpec
		for s := 0; s < numShapes; s++ {
			for _, root := range []bool{false, true} {
				specs = append(specs, ARSpec{Files: 1, Stdout: 1, Dirs: []DirSpec{{Shape: s, Root: root}}})
			}
		}
		for _, s0 := range pairShapesSmall {
			for _, s1 := range pairShapesSmall {
				for _, col := range []bool{false, true} {
					specs = append(specs, ARSpec{Files: 1, Stdout: 1, Dirs: []DirSpec{{Shape: s0, Root: true}, {Shape: s1, Root: false}}, Collide: col})
				}
			}
		}
		type bm struct{ mode, chunk int }
		bms := []bm{{modeCASSlice, 0}, {modeCASReader, 1}, {modeRawSlice, 0}, {modeRawReaderAt, 0}}
		if thorough {
			bms = append(bms, bm{modeCASReader, 0}, bm{modeCASReader, 7}, bm{modeCASReader, 33})
		}
		cbatches := ev.Pick(r, []int{1, 64}, batchSizes)
		bits := ev.Pick(r, []int{0, 1, 5, 7}, []int{0, 1, 2, 3, 4, 5, 6, 7})
		sub := r.NewSub("tree-corruption", "venum", fmt.Sprintf("%d ActionResults (1 file, stdout, each of the 21 Tree shapes x root digest y/n; pairs of directories over shapes %v, distinct/colliding) x each Tree of it x {truncation at EVERY length, EVERY byte x (single-bit flips of bits %v, all bits flipped, +1), one byte appended (2 values)} x %d CAS buffer kinds (validating eager / validating streaming with chunk sizes / non-validating slice / non-validating ReaderAt) x CAS {holds exactly the pristine objects; for non-validating kinds also: holds every digest} x batch sizes %v; plus reads of each Tree failing with INTERNAL at EVERY offset (streaming kinds)", len(specs), pairShapesSmall, bits, len(bms), cbatches))
		done := sub.Timer()
		d := &driver{r: r, sub: sub, name: "tree-corruption"}
		d.drive(specs, func(fx *fixture, emit func(Case)) {
			seen := map[string]bool{}
			for dir, key := range fx.treeKeyOfDir {
				if seen[key] {
					continue
				}
				seen[key] = true
				n := len(fx.trees[key])
				for _, mu := range mutations(n, bits) {
					mu := mu
					mu.Dir = dir
					for _, m := range bms {
						for _, uni := range []bool{false, true} {
							if uni && modeValidating(m.mode) {
								continue // a validating buffer rejects every altered Tree whatever the CAS holds
							}
							for _, b := range cbatches {
								c := baseCase(fx.spec)
								c.Corrupt, c.Mode, c.Chunk, c.Universal, c.Batch = &mu, m.mode, m.chunk, uni, b
								emit(c)
							}
						}
					}
				}
				for _, m := range bms {
					if m.mode != modeCASReader && m.mode != modeRawReaderAt {
						continue
					}
					for at := 0; at <= n; at++ {
						if m.mode == modeRawReaderAt && at == n {
							continue // a ReaderAt is never asked beyond the end
						}
						for _, b := range cbatches {
							c := baseCase(fx.spec)
							c.Mode, c.Chunk, c.Batch, c.ReadErrDir, c.ReadErrAt = m.mode, m.chunk, b, dir, at
							emit(c)
						}
					}
				}
			}
		})
		sub.Exhaustive = true
		done()
	}

	// ---- Tree size limit ----
	if r.Want("tree-size-limit") {
		combos := dirCombos(allShapes())
		var specs []ARSpec
		for _, dc := range combos {
			if len(dc) == 0 {
				continue
			}
			for _, col := range []bool{false, true} {
				specs = append(specs, ARSpec{Files: 1, Dirs: dc, Collide: col})
			}
		}
		sub := r.NewSub("tree-size-limit", "venum", fmt.Sprintf("%d ActionResults (every single directory and EVERY ordered pair of the 21 Tree shapes x root digest y/n x distinct/colliding) x maximumTotalTreeSizeBytes in %s x batch sizes {1,1000}; everything present", len(specs), ev.Pick(r, "{0, each Tree size -1/+0/+1, distinct total -1/+0/+1, total -1/+0/+1, 2^40}", "every value 0..total+2, and 2^40")))
		done := sub.Timer()
		d := &driver{r: r, sub: sub, name: "tree-size-limit"}
		d.drive(specs, func(fx *fixture, emit func(Case)) {
			var total, distinct int64
			seen := map[string]bool{}
			var sizes []int64
			for _, k := range fx.treeKeyOfDir {
				n := int64(len(fx.trees[k]))
				sizes = append(sizes, n)
				total += n
				if !seen[k] {
					seen[k] = true
					distinct += n
				}
			}
			lim := map[int64]bool{0: true, bigTree: true}
			if thorough {
				for v := int64(0); v <= total+2; v++ {
					lim[v] = true
				}
			} else {
				for _, base := range append(sizes, total, distinct) {
					for dlt := int64(-1); dlt <= 1; dlt++ {
						if base+dlt >= 0 {
							lim[base+dlt] = true
						}
					}
				}
			}
			var lims []int64
			for v := range lim {
				lims = append(lims, v)
			}
			sort.Slice(lims, func(i, j int) bool { return lims[i] < lims[j] })
			for _, v := range lims {
				for _, b := range []int{1, 1000} {
					c := baseCase(fx.spec)
					c.MaxTree, c.Batch = v, b
					emit(c)
				}
			}
		})
		sub.Exhaustive = true
		done()
	}

	// ---- message size limit ----
	if r.Want("message-size-limit") {
		var specs []ARSpec
		for _, dc := range dirCombos(allShapes()) {
			if len(dc) == 1 {
				specs = append(specs, ARSpec{Files: 0, Dirs: dc})
			}
		}
		sub := r.NewSub("message-size-limit", "venum", fmt.Sprintf("%d ActionResults (no files, one output directory: each of the 21 Tree shapes x root digest y/n) x maximumMessageSizeBytes = EVERY value from the size of the ActionResult to the size of the Tree + 2 (every position at which a too large Directory message can be cut) x {nothing, each single referenced object} missing; only returned results are judged (a refusal for size is legitimate)", len(specs)))
		done := sub.Timer()
		d := &driver{r: r, sub: sub, name: "message-size-limit"}
		d.drive(specs, func(fx *fixture, emit func(Case)) {
			hi := 0
			for _, k := range fx.treeKeyOfDir {
				if n := len(fx.trees[k]); n > hi {
					hi = n
				}
			}
			for v := len(fx.arBytes); v <= hi+2; v++ {
				for m := -1; m < len(fx.r0); m++ {
					c := baseCase(fx.spec)
					c.MaxMsg = v
					if m >= 0 {
						c.Missing = []int{m}
					}
					emit(c)
				}
			}
		})
		sub.Exhaustive = true
		done()
	}

	// ---- buffer kinds x missing ----
	if r.Want("buffer-kinds") {
		combos := dirCombos(pairShapesMain)
		var specs []ARSpec
		for _, dc := range combos {
			if len(dc) == 0 {
				continue
			}
			for _, col := range []bool{false, true} {
				specs = append(specs, ARSpec{Files: 1, Stdout: 1, Stderr: 2, Dirs: dc, Collide: col})
			}
		}
		type bm struct{ mode, chunk int }
		bms := []bm{{modeCASReader, 1}, {modeCASReader, 7}, {modeCASReader, 0}, {modeRawSlice, 0}, {modeRawReaderAt, 0}}
		sub := r.NewSub("buffer-kinds", "venum", fmt.Sprintf("%d ActionResults with >=1 output directory x {nothing, each single referenced object, everything} missing x CAS buffer kinds {validating streaming with 1-byte / 7-byte / unlimited chunks, non-validating slice, non-validating ReaderAt} x batch sizes {1,2,3,1000} x (Tree in the subset) Get refuses / still serves it", len(specs)))
		done := sub.Timer()
		d := &driver{r: r, sub: sub, name: "buffer-kinds"}
		d.drive(specs, func(fx *fixture, emit func(Case)) {
			for _, s := range fewSubsets(len(fx.r0)) {
				for _, m := range bms {
					for _, b := range batchSizes {
						c := baseCase(fx.spec)
						c.Missing, c.Batch, c.Mode, c.Chunk = s, b, m.mode, m.chunk
						emit(c)
						if containsTree(fx, s) {
							c.ServeAbsent = true
							emit(c)
						}
					}
				}
			}
		})
		sub.Exhaustive = true
		done()
	}

	r.Finish()
}
