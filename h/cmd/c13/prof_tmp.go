package main

import (
	"os"
	"runtime/pprof"
)

func init() {
	if pf := os.Getenv("C13_PROF"); pf != "" {
		f, _ := os.Create(pf)
		pprof.StartCPUProfile(f)
		stopProf = pprof.StopCPUProfile
	}
}

var stopProf = func() {}
