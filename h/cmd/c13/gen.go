package main

// Grammar of ActionResults and builder of the corresponding AC/CAS fixture.
// The builder is NOT used by the oracle: the oracle (oracle.go) only sees the
// marshalled bytes stored in the AC and the bytes the CAS serves.

import (
	"crypto/sha256"
	"encoding/hex"
	"fmt"
	"sort"
	"strings"

	remoteexecution "github.com/bazelbuild/remote-apis/build/bazel/remote/execution/v2"
	"google.golang.org/protobuf/proto"

	"verifh/ev"
)

const instance = "inst"

// Malformation kinds of one digest position.
const (
	malAbsent = 1
	malShort  = 2
	malUpper  = 3
	malNeg    = 4
)

var malNames = map[int]string{malAbsent: "absent", malShort: "hash-63-chars", malUpper: "uppercase-hex", malNeg: "negative-size"}

// Mal makes the digest at one named position absent or malformed.
// Positions: of<i>, tree<j>, root<j>, stdout, stderr, d<j>.rf0, d<j>.rf1,
// d<j>.cf, d<j>.gf (files of root / child / grandchild), d<j>.cd, d<j>.gd
// (directory nodes root->child, child->grandchild).
type Mal struct {
	Pos  string `json:"pos"`
	Kind int    `json:"kind"`
}

// DirSpec is one output directory. Shape = rootFiles*7 + chain with
// rootFiles in 0..2 and chain: 0 no child; 1 child{}; 2 child{file};
// 3 child{}->grandchild{}; 4 child{}->grandchild{file};
// 5 child{file}->grandchild{}; 6 child{file}->grandchild{file}.
type DirSpec struct {
	Shape int  `json:"shape"`
	Root  bool `json:"root_directory_digest"`
}

// ARSpec is one word of the ActionResult grammar.
type ARSpec struct {
	Files   int       `json:"output_files"`
	Stdout  int       `json:"stdout"` // 0 absent, 1 digest, 2 inline
	Stderr  int       `json:"stderr"`
	Dirs    []DirSpec `json:"output_directories"`
	Collide bool      `json:"collide"` // reuse the same few blob digests in all positions
	Mal     *Mal      `json:"mal,omitempty"`
}

const numShapes = 21

func shapeString(s int) string {
	chains := []string{"", "c{}", "c{f}", "c{g{}}", "c{g{f}}", "c{f,g{}}", "c{f,g{f}}"}
	return fmt.Sprintf("root{%dfiles %s}", s/7, chains[s%7])
}

func sha(b []byte) string {
	h := sha256.Sum256(b)
	return hex.EncodeToString(h[:])
}

func digestOf(b []byte) *remoteexecution.Digest {
	return &remoteexecution.Digest{Hash: sha(b), SizeBytes: int64(len(b))}
}

var pool = func() []*remoteexecution.Digest {
	var p []*remoteexecution.Digest
	for i := 0; i < 16; i++ {
		// contents of different lengths so that sizes differ too
		p = append(p, digestOf([]byte(strings.Repeat("x", i)+fmt.Sprintf("file-%d", i))))
	}
	return p
}()

func (s *ARSpec) poolIndex(pos string) int {
	if s.Collide {
		switch {
		case pos == "of0", pos == "stdout", strings.HasSuffix(pos, ".rf0"):
			return 0
		case pos == "of1", pos == "stderr", strings.HasSuffix(pos, ".cf"):
			return 1
		default: // rf1, gf
			return 2
		}
	}
	switch pos {
	case "of0":
		return 0
	case "of1":
		return 1
	case "stdout":
		return 2
	case "stderr":
		return 3
	}
	j := int(pos[1] - '0')
	switch pos[3:] {
	case "rf0":
		return 4 + 4*j
	case "rf1":
		return 5 + 4*j
	case "cf":
		return 6 + 4*j
	case "gf":
		return 7 + 4*j
	}
	ev.HarnessError("unknown position %q", pos)
	return 0
}

// dig applies the malformation (if it targets pos) to a copy of base.
func (s *ARSpec) dig(pos string, base *remoteexecution.Digest) *remoteexecution.Digest {
	d := proto.Clone(base).(*remoteexecution.Digest)
	if s.Mal != nil && s.Mal.Pos == pos {
		switch s.Mal.Kind {
		case malAbsent:
			return nil
		case malShort:
			d.Hash = d.Hash[:63]
		case malUpper:
			d.Hash = "A" + strings.ToUpper(d.Hash[1:])
		case malNeg:
			d.SizeBytes = -1
		default:
			ev.HarnessError("unknown malformation kind %d", s.Mal.Kind)
		}
	}
	return d
}

func (s *ARSpec) file(pos string) *remoteexecution.Digest {
	return s.dig(pos, pool[s.poolIndex(pos)])
}

func mustMarshal(m proto.Message) []byte {
	b, err := proto.MarshalOptions{Deterministic: true}.Marshal(m)
	if err != nil {
		ev.HarnessError("marshal: %v", err)
	}
	return b
}

// positions lists every digest position of the spec (for the malformation sub-check).
func (s *ARSpec) positions() []string {
	var p []string
	for i := 0; i < s.Files; i++ {
		p = append(p, fmt.Sprintf("of%d", i))
	}
	if s.Stdout == 1 {
		p = append(p, "stdout")
	}
	if s.Stderr == 1 {
		p = append(p, "stderr")
	}
	for j, d := range s.Dirs {
		p = append(p, fmt.Sprintf("tree%d", j))
		if d.Root {
			p = append(p, fmt.Sprintf("root%d", j))
		}
		rf, chain := d.Shape/7, d.Shape%7
		for i := 0; i < rf; i++ {
			p = append(p, fmt.Sprintf("d%d.rf%d", j, i))
		}
		if chain >= 1 {
			p = append(p, fmt.Sprintf("d%d.cd", j))
		}
		if chain == 2 || chain >= 5 {
			p = append(p, fmt.Sprintf("d%d.cf", j))
		}
		if chain >= 3 {
			p = append(p, fmt.Sprintf("d%d.gd", j))
		}
		if chain == 4 || chain == 6 {
			p = append(p, fmt.Sprintf("d%d.gf", j))
		}
	}
	return p
}

// fixture is what is placed in the AC and the CAS for one spec.
type fixture struct {
	spec    ARSpec
	arBytes []byte
	// trees: key ("hash-size") -> pristine Tree bytes, for every output
	// directory whose tree digest is well-formed.
	trees map[string][]byte
	// treeKeyOfDir[j]: key under which the Tree of output directory j is stored.
	treeKeyOfDir []string
	// r0: sorted distinct keys referenced when everything is present and
	// pristine (computed by the ORACLE's reference functions, see build()).
	r0    []string
	r0set map[string]bool
	kinds map[string]string
	memo  map[string]*reference
}

func build(s ARSpec) *fixture {
	fx := &fixture{spec: s, trees: map[string][]byte{}, memo: map[string]*reference{}}
	ar := &remoteexecution.ActionResult{ExitCode: 3}
	for i := 0; i < s.Files; i++ {
		pos := fmt.Sprintf("of%d", i)
		of := &remoteexecution.OutputFile{Path: "out/" + pos, Digest: s.file(pos), IsExecutable: i == 1}
		if i == 1 {
			// the second output file also carries its contents inline: the digest still references a CAS object
			of.Contents = []byte("inlined contents of " + pos)
		}
		ar.OutputFiles = append(ar.OutputFiles, of)
	}
	switch s.Stdout {
	case 1:
		ar.StdoutDigest = s.file("stdout")
	case 2:
		ar.StdoutRaw = []byte("inline stdout")
	}
	switch s.Stderr {
	case 1:
		// stderr by digest AND inline (stdout: digest only)
		ar.StderrDigest = s.file("stderr")
		ar.StderrRaw = []byte("inline stderr next to its digest")
	case 2:
		ar.StderrRaw = []byte("inline stderr")
	}
	for j, d := range s.Dirs {
		rf, chain := d.Shape/7, d.Shape%7
		p := func(x string) string { return fmt.Sprintf("d%d.%s", j, x) }
		var g, c *remoteexecution.Directory
		if chain >= 3 {
			g = &remoteexecution.Directory{}
			if chain == 4 || chain == 6 {
				g.Files = append(g.Files, &remoteexecution.FileNode{Name: "gfile", Digest: s.file(p("gf"))})
			}
		}
		if chain >= 1 {
			c = &remoteexecution.Directory{}
			if chain == 2 || chain >= 5 {
				c.Files = append(c.Files, &remoteexecution.FileNode{Name: "cfile", Digest: s.file(p("cf")), IsExecutable: true})
			}
			if g != nil {
				c.Directories = append(c.Directories, &remoteexecution.DirectoryNode{Name: "g", Digest: s.dig(p("gd"), digestOf(mustMarshal(g)))})
			}
		}
		root := &remoteexecution.Directory{}
		for i := 0; i < rf; i++ {
			root.Files = append(root.Files, &remoteexecution.FileNode{Name: fmt.Sprintf("rfile%d", i), Digest: s.file(p(fmt.Sprintf("rf%d", i)))})
		}
		if c != nil {
			root.Directories = append(root.Directories, &remoteexecution.DirectoryNode{Name: "c", Digest: s.dig(p("cd"), digestOf(mustMarshal(c)))})
		}
		tree := &remoteexecution.Tree{Root: root}
		if c != nil {
			tree.Children = append(tree.Children, c)
		}
		if g != nil {
			tree.Children = append(tree.Children, g)
		}
		tb := mustMarshal(tree)
		td := digestOf(tb)
		fx.trees[keyOfProto(td)] = tb
		fx.treeKeyOfDir = append(fx.treeKeyOfDir, keyOfProto(td))
		od := &remoteexecution.OutputDirectory{Path: fmt.Sprintf("out/d%d", j), TreeDigest: s.dig(fmt.Sprintf("tree%d", j), td)}
		if d.Root {
			od.RootDirectoryDigest = s.dig(fmt.Sprintf("root%d", j), digestOf(mustMarshal(root)))
		}
		ar.OutputDirectories = append(ar.OutputDirectories, od)
	}
	fx.arBytes = mustMarshal(ar)

	// Universe of referenced objects in the pristine, all-present state,
	// computed with the oracle's reference (full unmarshal), not from the
	// builder's knowledge.
	ref := computeReference(fx.arBytes, func(key string) ([]byte, bool) {
		b, ok := fx.trees[key]
		return b, ok
	}, func(string) bool { return false }, false)
	fx.kinds = ref.kinds
	fx.r0set = map[string]bool{}
	for k := range ref.referenced {
		fx.r0 = append(fx.r0, k)
		fx.r0set[k] = true
	}
	sort.Strings(fx.r0)
	return fx
}
