package main

// Independent reference: which CAS objects does a stored ActionResult
// reference? Computed by FULLY unmarshalling the ActionResult and the Tree
// bytes the CAS serves (proto.Unmarshal), never through the streaming visitor
// of the code under test, and with its own digest well-formedness test.

import (
	"strconv"

	remoteexecution "github.com/bazelbuild/remote-apis/build/bazel/remote/execution/v2"
	"google.golang.org/protobuf/proto"

	"verifh/ev"
)

func keyOfProto(d *remoteexecution.Digest) string {
	return d.GetHash() + "-" + strconv.FormatInt(d.GetSizeBytes(), 10)
}

// wellFormed: SHA-256 digests are 64 lowercase hexadecimal characters with a
// non-negative size.
func wellFormed(d *remoteexecution.Digest) bool {
	if len(d.Hash) != 64 || d.SizeBytes < 0 {
		return false
	}
	for i := 0; i < len(d.Hash); i++ {
		c := d.Hash[i]
		if !((c >= '0' && c <= '9') || (c >= 'a' && c <= 'f')) {
			return false
		}
	}
	return true
}

type reference struct {
	referenced map[string]bool   // keys of all well-formed referenced digests
	kinds      map[string]string // key -> kind of (first) referencing position
	treeKeys   []string          // per output directory: key of its well-formed tree digest, "" otherwise
	treeSizes  []int64           // per output directory with well-formed tree digest: declared size
	malformed  []string          // kinds of referenced positions holding a malformed digest
	treeAbsent bool              // an output directory without tree digest
	unrefMal   bool              // a malformed directory digest inside a Tree whose output directory has no root digest (not referenced)
	corrupt    []string          // served trees that are corrupt (validating CAS) / do not parse (non-validating CAS)
	unreadable []string          // served trees whose reads fail
	parsed     []string          // served trees that were intact and contributed their references
}

func (r *reference) add(kind string, d *remoteexecution.Digest) {
	if d == nil {
		return
	}
	if !wellFormed(d) {
		r.malformed = append(r.malformed, kind)
		return
	}
	k := keyOfProto(d)
	r.referenced[k] = true
	if _, ok := r.kinds[k]; !ok {
		r.kinds[k] = kind
	}
}

// computeReference: serve(key) gives the bytes the CAS delivers for a Tree
// (false: not delivered because absent); unreadable(key) says reads of that
// Tree fail; validating says whether the CAS buffer verifies size and hash.
func computeReference(arBytes []byte, serve func(key string) ([]byte, bool), unreadable func(key string) bool, validating bool) *reference {
	r := &reference{referenced: map[string]bool{}, kinds: map[string]string{}}
	var ar remoteexecution.ActionResult
	if err := proto.Unmarshal(arBytes, &ar); err != nil {
		ev.HarnessError("stored ActionResult does not parse: %v", err)
	}
	for _, f := range ar.OutputFiles {
		r.add("output-file", f.Digest)
	}
	for _, od := range ar.OutputDirectories {
		r.add("tree", od.TreeDigest)
		r.add("root-directory", od.RootDirectoryDigest)
	}
	r.add("stdout", ar.StdoutDigest)
	r.add("stderr", ar.StderrDigest)

	for _, od := range ar.OutputDirectories {
		if od.TreeDigest == nil {
			r.treeAbsent = true
			r.treeKeys = append(r.treeKeys, "")
			continue
		}
		if !wellFormed(od.TreeDigest) {
			r.treeKeys = append(r.treeKeys, "")
			continue
		}
		key := keyOfProto(od.TreeDigest)
		r.treeKeys = append(r.treeKeys, key)
		r.treeSizes = append(r.treeSizes, od.TreeDigest.SizeBytes)
		data, ok := serve(key)
		if !ok {
			continue
		}
		if unreadable(key) {
			r.unreadable = append(r.unreadable, key)
			continue
		}
		if validating && (int64(len(data)) != od.TreeDigest.SizeBytes || sha(data) != od.TreeDigest.Hash) {
			r.corrupt = append(r.corrupt, key)
			continue
		}
		var tree remoteexecution.Tree
		if err := proto.Unmarshal(data, &tree); err != nil {
			r.corrupt = append(r.corrupt, key)
			continue
		}
		r.parsed = append(r.parsed, key)
		dirs := append([]*remoteexecution.Directory{}, tree.Children...)
		if tree.Root != nil {
			dirs = append(dirs, tree.Root)
		}
		for _, d := range dirs {
			for _, f := range d.Files {
				r.add("file-in-tree", f.Digest)
			}
			for _, c := range d.Directories {
				if od.RootDirectoryDigest != nil {
					r.add("directory-in-tree", c.Digest)
				} else if c.Digest != nil && !wellFormed(c.Digest) {
					r.unrefMal = true
				}
			}
		}
	}
	return r
}
