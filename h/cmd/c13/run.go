package main

// One case = one ActionResult + one CAS configuration + one decorator
// configuration; runCase executes the real decorator and judges the outcome.

import (
	"context"
	"fmt"
	"sort"
	"strings"

	remoteexecution "github.com/bazelbuild/remote-apis/build/bazel/remote/execution/v2"
	"github.com/buildbarn/bb-storage/pkg/blobstore/completenesschecking"
	"github.com/buildbarn/bb-storage/pkg/digest"
	"google.golang.org/grpc/codes"
	"google.golang.org/grpc/status"
	"google.golang.org/protobuf/proto"

	"verifh/ev"
	"verifh/sim"
)

// Corrupt describes a modification of the stored Tree of one output directory.
type Corrupt struct {
	Dir  int    `json:"dir"`
	Kind string `json:"kind"` // trunc (keep Pos bytes), xor (byte Pos ^= Val), add (byte Pos += Val), append (append byte Val)
	Pos  int    `json:"pos"`
	Val  int    `json:"val"`
}

// Case is replayable.
type Case struct {
	AR          ARSpec   `json:"action_result"`
	Missing     []int    `json:"missing"` // indexes into the sorted list of objects referenced in the pristine state
	Batch       int      `json:"batch_size"`
	MaxTree     int64    `json:"maximum_total_tree_size_bytes"`
	Mode        int      `json:"cas_buffer_kind"`
	Chunk       int      `json:"chunk"`
	FailAt      int      `json:"fail_at_call"` // -1 none
	FailCode    string   `json:"fail_code,omitempty"`
	ServeAbsent bool     `json:"get_serves_objects_reported_missing"`
	Universal   bool     `json:"cas_holds_every_digest"`
	Corrupt     *Corrupt `json:"corrupt,omitempty"`
	ReadErrDir  int      `json:"read_error_dir"` // -1 none
	ReadErrAt   int      `json:"read_error_at"`
	ACMissing   bool     `json:"ac_entry_missing,omitempty"`
	// MaxMsg, when non-zero, is the decorator's maximumMessageSizeBytes (default 65536). With a small limit a
	// complete result may legitimately be refused (a message is too large): only returned results are judged.
	MaxMsg int `json:"maximum_message_size_bytes,omitempty"`
}

const bigTree = int64(1) << 40
const maxMessage = 1 << 16

func baseCase(s ARSpec) Case {
	return Case{AR: s, Batch: 1000, MaxTree: bigTree, FailAt: -1, ReadErrDir: -1}
}

type verdict struct {
	msg, sig  string
	outcome   string
	calls     int
	nRef      int
	maxBatch  int
	softNoRet bool // complete by the reference, not returned, allowed (non-pristine Tree)
}

func applyCorrupt(data []byte, c *Corrupt) []byte {
	out := append([]byte(nil), data...)
	switch c.Kind {
	case "trunc":
		if c.Pos > len(out) {
			ev.HarnessError("truncation beyond length")
		}
		return out[:c.Pos]
	case "xor":
		out[c.Pos] ^= byte(c.Val)
	case "add":
		out[c.Pos] += byte(c.Val)
	case "append":
		out = append(out, byte(c.Val))
	default:
		ev.HarnessError("unknown corruption %q", c.Kind)
	}
	return out
}

func codeByName(n string) codes.Code {
	switch n {
	case "Internal":
		return codes.Internal
	case "Unavailable":
		return codes.Unavailable
	case "NotFound":
		return codes.NotFound
	}
	ev.HarnessError("unknown code %q", n)
	return codes.OK
}

var acDigest = sim.SHA256Digest(instance, []byte("the action"))

func runCase(fx *fixture, c Case) (v verdict) {
	defer func() {
		if p := recover(); p != nil {
			v.msg = fmt.Sprintf("panic: %v", p)
			v.sig = "panic"
			v.outcome = "panic"
		}
	}()
	if fx == nil {
		fx = build(c.AR)
	}
	missing := map[string]bool{}
	for _, i := range c.Missing {
		if i < 0 || i >= len(fx.r0) {
			ev.HarnessError("missing index %d out of range (%d objects)", i, len(fx.r0))
		}
		missing[fx.r0[i]] = true
	}
	present := func(k string) bool {
		if missing[k] {
			return false
		}
		return c.Universal || fx.r0set[k]
	}

	// What the CAS holds for Trees.
	served := map[string][]byte{}
	for k, b := range fx.trees {
		served[k] = b
	}
	if c.Corrupt != nil {
		k := fx.treeKeyOfDir[c.Corrupt.Dir]
		served[k] = applyCorrupt(fx.trees[k], c.Corrupt)
	}
	readErr := map[string]int{}
	if c.ReadErrDir >= 0 {
		readErr[fx.treeKeyOfDir[c.ReadErrDir]] = c.ReadErrAt
	}

	cas := newFakeCAS()
	cas.present = present
	cas.blobs = served
	cas.mode = c.Mode
	cas.chunk = c.Chunk
	cas.serveAbsent = c.ServeAbsent
	cas.readErrAt = readErr
	if c.FailAt >= 0 {
		cas.failAt = c.FailAt
		cas.failCode = codeByName(c.FailCode)
	}

	ac := sim.NewModel("ac", digest.KeyWithInstance)
	ac.AC = true
	if !c.ACMissing {
		ac.Store(acDigest, fx.arBytes)
	}

	maxMsg := maxMessage
	if c.MaxMsg > 0 {
		maxMsg = c.MaxMsg
	}
	ba := completenesschecking.NewCompletenessCheckingBlobAccess(ac, cas, c.Batch, maxMsg, c.MaxTree)
	got, err := ba.Get(context.Background(), acDigest).ToProto(&remoteexecution.ActionResult{}, maxMessage)

	v.calls = cas.calls
	v.maxBatch = cas.maxBatch

	if c.ACMissing {
		v.outcome = "ac-missing:" + sim.Code(err)
		if err == nil {
			v.msg, v.sig = "a result was returned although the AC holds no entry", "result-without-ac-entry"
		} else if status.Code(err) != codes.NotFound {
			v.msg, v.sig = fmt.Sprintf("AC entry absent: got %v, want NOT_FOUND", err), "ac-missing-wrong-code"
		}
		return
	}

	// ---- reference ----
	// The reference of an unaltered CAS only depends on which Trees are
	// delivered; it is memoised per fixture under that key (a fixture is
	// used by one goroutine only).
	memoKey := ""
	if c.Corrupt == nil && c.ReadErrDir < 0 {
		memoKey = "v"
		if !modeValidating(c.Mode) {
			memoKey = "n"
		}
		for _, k := range fx.treeKeyOfDir {
			if present(k) || c.ServeAbsent {
				memoKey += "1"
			} else {
				memoKey += "0"
			}
		}
	}
	ref := fx.memo[memoKey]
	if ref == nil {
		ref = computeReference(fx.arBytes,
			func(key string) ([]byte, bool) {
				b, ok := served[key]
				if !ok {
					// A well-formed tree digest the fixture has no blob for
					// cannot occur: malformed tree digests never reach here.
					ev.HarnessError("no Tree blob for %s", key)
				}
				if !present(key) && !c.ServeAbsent {
					return nil, false
				}
				return b, true
			},
			func(key string) bool { _, ok := readErr[key]; return ok },
			modeValidating(c.Mode))
		if memoKey != "" {
			fx.memo[memoKey] = ref
		}
	}
	v.nRef = len(ref.referenced)

	allPristine := true
	for k, b := range served {
		if string(b) != string(fx.trees[k]) {
			allPristine = false
		}
	}
	var missKinds []string
	for k := range ref.referenced {
		if !present(k) {
			missKinds = append(missKinds, ref.kinds[k])
		}
	}
	sort.Strings(missKinds)
	M := len(missKinds) > 0
	F := len(ref.malformed) > 0
	C := len(ref.corrupt) > 0
	U := len(ref.unreadable) > 0
	var withMult, distinct int64
	seenTree := map[string]bool{}
	for i, k := range ref.treeKeysWellFormed() {
		withMult += ref.treeSizes[i]
		if !seenTree[k] {
			seenTree[k] = true
			distinct += ref.treeSizes[i]
		}
	}
	B := distinct > c.MaxTree            // certainly over the limit
	Bmaybe := withMult > c.MaxTree && !B // over the limit only if the same Tree counts twice: don't care
	X := ref.treeAbsent || Bmaybe || ref.unrefMal
	injected := cas.injected

	var conds []string
	for _, p := range []struct {
		on bool
		n  string
	}{{M, "missing"}, {F, "malformed"}, {C, "corrupt"}, {U, "unreadable"}, {B, "overlimit"}, {injected, "caserror"}, {X, "dontcare"}, {!allPristine && !C, "altered-but-parses"}} {
		if p.on {
			conds = append(conds, p.n)
		}
	}
	if len(conds) == 0 {
		conds = []string{"complete"}
	}
	v.outcome = strings.Join(conds, "+") + "=>" + sim.Code(err)

	describe := func() string {
		return fmt.Sprintf("missing=%v malformed=%v corrupt=%v unreadable=%v tree-sizes=%v limit=%d; CAS log: %s", missKinds, ref.malformed, ref.corrupt, ref.unreadable, ref.treeSizes, c.MaxTree, cas.logString())
	}

	if len(cas.foreign) > 0 {
		v.msg = fmt.Sprintf("the CAS was asked about digests outside instance %q / SHA256: %v", instance, cas.foreign)
		v.sig = "cas-asked-under-foreign-instance-or-function"
		return
	}

	if err == nil {
		// The result was returned: it must be THE result and everything it
		// references must have been reported present during this call.
		var want remoteexecution.ActionResult
		if e := proto.Unmarshal(fx.arBytes, &want); e != nil {
			ev.HarnessError("%v", e)
		}
		if !proto.Equal(got, &want) {
			v.msg, v.sig = "the returned message differs from the stored ActionResult", "returned-different-message"
			return
		}
		switch {
		case M:
			v.msg = fmt.Sprintf("ActionResult returned although referenced objects are missing from the CAS (%s)", describe())
			v.sig = "result-despite-missing:" + missKinds[0]
		case F:
			v.msg = fmt.Sprintf("ActionResult returned although it references a malformed digest (%s)", describe())
			v.sig = "result-despite-malformed-digest:" + ref.malformed[0]
		case C:
			v.msg = fmt.Sprintf("ActionResult returned although a Tree is corrupt [%s] (%s)", modeNames[c.Mode], describe())
			v.sig = "result-despite-corrupt-tree:" + modeNames[c.Mode]
		case U:
			v.msg = fmt.Sprintf("ActionResult returned although a Tree could not be read (%s)", describe())
			v.sig = "result-despite-unreadable-tree"
		case B:
			v.msg = fmt.Sprintf("ActionResult returned although the Trees total %d bytes > limit %d (%s)", distinct, c.MaxTree, describe())
			v.sig = "result-despite-tree-size-over-limit"
		}
		if v.msg != "" {
			return
		}
		var notReported []string
		for k := range ref.referenced {
			if cas.reportedPresent[k] && !cas.reportedMissing[k] {
				continue
			}
			if seenTree[k] && cas.getOK[k] > 0 && !cas.reportedMissing[k] {
				continue // a Tree that was read successfully was thereby reported present
			}
			notReported = append(notReported, ref.kinds[k])
		}
		sort.Strings(notReported)
		if len(notReported) > 0 {
			v.msg = fmt.Sprintf("ActionResult returned although the CAS never reported these referenced objects present during the call: kinds %v (%s)", notReported, describe())
			v.sig = "result-but-not-reported-present:" + notReported[0]
			return
		}
		for k := range seenTree {
			if cas.getOK[k] == 0 {
				v.msg = fmt.Sprintf("ActionResult returned although Tree %s was never completely read (%s)", k, describe())
				v.sig = "result-but-tree-never-read"
				return
			}
		}
		return
	}

	// An error was returned.
	if c.MaxMsg > 0 {
		return
	}
	if !M && !F && !C && !U && !B && !injected && !X {
		if allPristine {
			v.msg = fmt.Sprintf("everything referenced is present, well-formed, intact and within the size limit, but the decorator returned %v (%s)", err, describe())
			v.sig = "no-result-although-complete:" + status.Code(err).String()
			return
		}
		v.softNoRet = true
		return
	}
	if M && !F && !C && !U && !B && !injected && !X && allPristine && status.Code(err) != codes.NotFound {
		v.msg = fmt.Sprintf("referenced objects are missing (and nothing else is wrong) but the error is %v, want NOT_FOUND (%s)", err, describe())
		v.sig = "missing-but-not-NOT_FOUND:" + status.Code(err).String()
	}
	return
}

func (r *reference) treeKeysWellFormed() []string {
	var out []string
	for _, k := range r.treeKeys {
		if k != "" {
			out = append(out, k)
		}
	}
	return out
}
