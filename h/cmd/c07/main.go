//go:build verif

// C07 — persistence never stalls: every upload and block release gets committed.
//
// Real PersistentBlockList + PeriodicSyncer + directory-backed state store inside the assembled
// local store, virtual clock (minimum epoch interval 10 s, error retry interval as wired: 10 s in new_blob_access.go), both syncer loops as
// daemon threads, uploaders (one upload sized to force PopFront), optional shutdown thread.
// Choice points in addition to the schedule: data sync fails, state-file operations fail, a timer
// fires while other threads are still runnable.
//
// Oracles at the terminal state of EVERY explored execution:
//
//	liveness   both loops are parked, nothing is pending (put / release wake-ups not armed), every
//	           acknowledged upload that the live store still holds is served by a store restarted
//	           from the media, and released blocks are allocatable again (exact free-region count)
//	latency    the first state file that covers an upload was written no later than
//	           ack + minimum epoch interval + injected failures x retry interval (virtual time)
//	release    after a block release the allocator gets the region back without any timer having
//	           to fire (fault-free executions), and within failures x retry otherwise
//	rate       two data syncs that are neither retries nor the shutdown pair start >= 10 s apart
//	retry      after an injected failure the same operation is re-invoked one retry interval later
//	engine     no panic (double close of a wake-up channel), no deadlock, no livelock
package main

import (
	"context"
	"fmt"
	"github.com/buildbarn/bb-storage/pkg/blobstore/local"
	"github.com/buildbarn/bb-storage/pkg/digest"
	"strings"
	"time"

	"github.com/buildbarn/bb-storage/pkg/verifshim/vsched"
	"github.com/buildbarn/bb-storage/pkg/verifshim/vsync"
	"google.golang.org/grpc/codes"
	"google.golang.org/grpc/status"

	"verifh/ev"
	"verifh/lstore"
	"verifh/mc"
)

const minEpoch = 10 * time.Second

func failf(sig, format string, a ...any) { vsched.Fail(sig, format, a...) }

type scenario struct {
	name       string
	uploads    [][]string // per uploader thread: object names
	shutdown   bool
	syncFaults int
	dirFaults  int
	early      bool
	spare      int
	dataGates  bool
	pre        []string // uploads of an earlier run (each committed), after which the store is restarted
}

var contents = map[string]string{
	"A3": "aaa", "B5": "bbbbb", "C8": "cccccccc", "D4": "dddd", "F8": "ffffffff", "G8": "gggggggg", "H8": "hhhhhhhh", "I8": "iiiiiiii", "E1": "e", "P1": "p", "Q1": "q", "D3": "ddd",
}

func body(sc scenario) func() {
	return func() {
		g := lstore.Geometry{SectorSize: 4, SectorsPerBlock: 2, Old: 1, Current: 1, New: 1, Spare: sc.spare, Persistent: true,
			IndexSlots: 127, GetAttempts: 16, PutAttempts: 64, MinEpochInterval: minEpoch, ErrorRetry: 3 * time.Second, IndexOnDevice: true, DataGates: sc.dataGates}
		med := lstore.NewMedia(g)
		ctx, cancel := context.WithCancel(context.Background())
		defer cancel()
		putLoopExited := false
		var putLoopExitTime time.Time
		if len(sc.pre) > 0 {
			// An earlier run: each upload committed on its own (one epoch each, several epochs per block), then the
			// process is gone (every issued I/O operation survived) and the store is started again on the media.
			s0 := lstore.OpenWith(g, med, lstore.OpenOptions{Ctx: context.Background()})
			for _, n := range sc.pre {
				o := lstore.CASObj(n, "", []byte(contents[n]))
				if err := s0.PutOK(o.Digest, o.Content); err != nil {
					vsched.HarnessFail("earlier run: Put(%s): %v", n, err)
				}
				vsched.WaitQuiescent()
			}
			med = s0.Media.Clone()
			med.Data.Gates = sc.dataGates
		}
		s := lstore.OpenWith(g, med, lstore.OpenOptions{Ctx: ctx, OnPutLoopExit: func() { putLoopExited = true; putLoopExitTime = vsched.Now() }})
		retry := s.Geo.ErrorRetry
		med.Data.SyncFaults = sc.syncFaults
		med.Dir.Faults = sc.dirFaults
		var acks []lstore.Ack
		var ackJournal []int // length of the I/O journal when the upload was acknowledged
		var wg vsync.WaitGroup
		shutdownRequested := false
		var lastUpload time.Time
		for ti, names := range sc.uploads {
			names := names
			wg.Add(1)
			vsched.GoNamed(fmt.Sprintf("uploader%d", ti), false, func() {
				defer wg.Done()
				for _, n := range names {
					if n == "@sync" {
						// wait until a data sync has been issued and not yet returned (the device's sync is a gate)
						before := med.Data.Syncs
						vsched.Block("await-sync-in-flight", false, func() bool { return med.Data.Syncs > before })
						continue
					}
					if strings.HasSuffix(n, "!") {
						// a client that disconnects after half of the data: the upload fails, nothing is acknowledged
						o := lstore.CASObj(n, "", []byte(contents[n[:2]]))
						err, _ := s.Put(o.Digest, lstore.PutSpec{Chunks: [][]byte{o.Content[:len(o.Content)/2]}, FinalErr: status.Error(codes.Aborted, "client went away")})
						vsched.Obs("Put %s=%s", n, status.Code(err))
						if err == nil {
							failf("failed-upload-acknowledged", "Put(%s) whose source failed was acknowledged", n)
						}
						lastUpload = vsched.Now()
						continue
					}
					o := lstore.CASObj(n, "", []byte(contents[n]))
					exitedBefore := putLoopExited
					err := s.PutOK(o.Digest, o.Content)
					vsched.Obs("Put %s=%s", n, status.Code(err))
					if err == nil {
						if exitedBefore {
							failf("ack-after-final-sync", "Put(%s) was acknowledged although the final synchronisation had already completed", n)
						}
						acks = append(acks, lstore.Ack{Obj: o, At: vsched.Now(), Seq: len(acks)})
						ackJournal = append(ackJournal, len(med.Journal))
					} else if c := status.Code(err); c != codes.Unavailable {
						failf("upload-error-"+c.String(), "Put(%s) failed with %v", n, err)
					} else if !shutdownRequested && sc.spare > 0 && sc.syncFaults == 0 && sc.dirFaults == 0 {
						failf("upload-unavailable-without-cause", "Put(%s) failed with %v although no shutdown was requested, a spare block exists and nothing was made to fail", n, err)
					}
					lastUpload = vsched.Now()
				}
			})
		}
		if sc.shutdown {
			wg.Add(1)
			vsched.GoNamed("shutdown", false, func() {
				defer wg.Done()
				shutdownRequested = true
				cancel()
			})
		}
		wg.Wait()
		vsched.WaitQuiescent()
		faults := (sc.syncFaults - med.Data.SyncFaults) + (sc.dirFaults - med.Dir.Faults)
		vsched.Obs("quiescent at %v faults=%d syncs=%d states=%d", vsched.Now().Sub(time.Unix(1_000_000_000, 0)), faults, len(med.Data.SyncCalls), len(s.StateStore.Written))

		// ---- liveness ----
		if sc.shutdown && !putLoopExited {
			failf("shutdown-did-not-complete", "the context was cancelled but ProcessBlockPut never returned false")
		}
		if !sc.shutdown {
			if s.PutWakeupReady() {
				failf("stalled-with-unsynchronised-data", "both syncer loops are idle, no timer is pending, yet the block list still signals unsynchronised data")
			}
		}
		if s.ReleaseWakeupReady() {
			failf("stalled-with-unreleased-blocks", "both syncer loops are idle, no timer is pending, yet released blocks still await a state-file write")
		}
		// released blocks allocatable again
		want := g.BlockCount() - s.Alloc.LiveInList()
		got := 0
		for got <= g.BlockCount() {
			if _, _, err := s.Alloc.Base.NewBlock(); err != nil {
				break
			}
			got++
		}
		if got != want {
			failf("released-blocks-not-allocatable", "at quiescence the allocator can hand out %d regions, expected %d (= %d - %d owned by the block list)\n%s", got, want, g.BlockCount(), s.Alloc.LiveInList(), s.Alloc.Describe())
		}
		if v := s.CheckMonitors(); len(v) > 0 {
			failf("monitor", "%s", v[0])
		}
		// a popped block must have been handed back (judged from the allocation order, not from the list's bookkeeping)
		if n := len(s.StateStore.Written); n > 0 && !s.ReleaseWakeupReady() {
			if v := s.Alloc.PoppedNotReleased(s.StateStore.Written[n-1]); len(v) > 0 {
				failf("popped-block-never-released", "at quiescence (no release pending): %s\n%s", v[0], s.Alloc.Describe())
			}
		}
		// every acknowledged upload still held live is committed
		for _, a := range acks {
			if !s.Held(a.Obj.Digest) {
				continue // evicted by rotation
			}
			final := s.Restart(g) // fresh restart per object: a read may refresh and rotate others out
			ok, err := final.Served(a.Obj.Digest, a.Obj.Content)
			if err != nil || !ok {
				failf("acknowledged-upload-not-committed", "upload %s was acknowledged at %v and is still held by the live store, but a store restarted from the media after quiescence does not serve it (%v)", a.Obj.Name, a.At.Sub(time.Unix(1_000_000_000, 0)), err)
			}
			vsched.Mark()
		}

		// ---- every acknowledged upload still held got a data sync issued after its data, then a state write ----
		for i, a := range acks {
			if !s.Held(a.Obj.Digest) {
				continue
			}
			j := med.Journal[:ackJournal[i]]
			lastW := -1
			for k, e := range j {
				if e.Dev == 'D' && med.Data.Log[e.Idx].Kind == 'W' {
					lastW = k
				}
			}
			synced, committed := -1, false
			for k := lastW + 1; k < len(med.Journal); k++ {
				e := med.Journal[k]
				if e.Dev == 'D' && synced < 0 && med.Data.Log[e.Idx].Kind == 'S' {
					// the matching completion is the next 's' / 'f' entry of the device
					for m := k + 1; m < len(med.Journal); m++ {
						if f := med.Journal[m]; f.Dev == 'D' && (med.Data.Log[f.Idx].Kind == 's' || med.Data.Log[f.Idx].Kind == 'f') {
							if med.Data.Log[f.Idx].Kind == 's' {
								synced = m
							}
							break
						}
					}
				}
				if synced >= 0 && k > synced && e.Dev == 'F' && med.Dir.Log[e.Idx].Kind == "rename" {
					committed = true
					break
				}
			}
			if synced < 0 {
				failf("acknowledged-upload-never-synced", "upload %s was acknowledged and is still held, but no successful data synchronisation was started after its data had been written (%d data syncs in total)", a.Obj.Name, len(med.Data.SyncCalls))
			}
			if !committed {
				failf("acknowledged-upload-sync-not-followed-by-state-write", "upload %s: the data synchronisation covering it was never followed by a state-file write", a.Obj.Name)
			}
		}

		// ---- the last state file's write offsets cover every acknowledged upload still held (flat CAS keys) ----
		if n := len(s.StateStore.Written); n > 0 && !sc.shutdown {
			last := s.StateStore.Written[n-1]
			for _, a := range acks {
				s.Lock.RLock()
				loc, err := s.KLM.Get(local.NewKeyFromString(a.Obj.Digest.GetKey(digest.KeyWithoutInstance)))
				s.Lock.RUnlock()
				if err != nil || loc.BlockIndex >= len(last.Blocks) {
					continue
				}
				if end := loc.OffsetBytes + loc.SizeBytes; last.Blocks[loc.BlockIndex].WriteOffsetBytes < end {
					failf("acknowledged-upload-beyond-persisted-write-offset", "at quiescence the last state file records write offset %d for the block that holds upload %s at [%d,%d): after a restart that space would be handed out again", last.Blocks[loc.BlockIndex].WriteOffsetBytes, a.Obj.Name, loc.OffsetBytes, end)
				}
			}
		}

		// ---- latency: first covering state file ----
		if !sc.early {
			for _, a := range acks {
				if !s.Held(a.Obj.Digest) {
					continue
				}
				covered := -1
				for k, st := range s.StateStore.Written {
					rs := s.RestartWithState(g, lstore.StateBytes(st))
					if ok, err := rs.Served(a.Obj.Digest, a.Obj.Content); err == nil && ok {
						covered = k
						break
					}
				}
				if covered < 0 {
					failf("acknowledged-upload-not-committed", "no written state file covers upload %s", a.Obj.Name)
				}
				limit := a.At.Add(minEpoch + time.Duration(faults)*retry)
				if end := s.StateStore.Ends[covered]; end.After(limit) && !(sc.shutdown) {
					failf("commit-too-late", "upload %s acknowledged at %v was first covered by the state file written at %v; limit is ack + %v + %d failures x %v", a.Obj.Name, rel(a.At), rel(end), minEpoch, faults, retry)
				}
			}
		}

		// ---- release is not delayed by the epoch interval ----
		if !sc.early {
			for _, rt := range s.Alloc.ReleaseTimes {
				if limit := lastUpload.Add(time.Duration(faults) * retry); rt.After(limit) {
					failf("block-release-delayed", "a released block was handed back to the allocator at %v; the last upload (which caused the release) returned at %v and %d failures were injected: the state file must be rewritten without waiting for a timer", rel(rt), rel(lastUpload), faults)
				}
			}
		}

		// ---- rate and retry ----
		calls := med.Data.SyncCalls
		for i := 1; i < len(calls); i++ {
			prev, cur := calls[i-1], calls[i]
			gap := cur.Start.Sub(prev.Start)
			if prev.Failed {
				if gap < retry {
					failf("retry-too-early", "data sync retried %v after a failed attempt (retry interval %v)", gap, retry)
				}
				if !sc.early && cur.Start.Sub(prev.End) != retry {
					failf("retry-not-after-one-interval", "data sync retried %v after the failure, want exactly %v", cur.Start.Sub(prev.End), retry)
				}
				continue
			}
			if putLoopExited && !cur.Start.Before(putLoopExitTime) {
				continue
			}
			if sc.shutdown && i >= len(calls)-2 {
				continue // the two syncs performed on shutdown
			}
			if gap < minEpoch {
				failf("syncs-closer-than-min-epoch-interval", "two data syncs started %v apart (at %v and %v) while the store was running; minimum epoch interval is %v", gap, rel(prev.Start), rel(cur.Start), minEpoch)
			}
		}
	}
}

func rel(t time.Time) time.Duration { return t.Sub(time.Unix(1_000_000_000, 0)) }

func main() {
	r := ev.Start("C07")
	r.Rule("vsched: every schedule of uploaders / syncer loops / shutdown within the deviation bound, where sync failures, state-file failures and early timer expiries are choice points (one deviation each); oracles at the terminal state of every execution; non-trivial = executions in which at least one acknowledged upload was verified as committed by restarting from the media")
	r.Assume("virtual time: I/O takes no time; time advances only when no thread can run, or by an explicit early-timer deviation")
	r.Assume("'covering' is decided semantically: a state file covers an upload iff a store restarted with that state file (and the final device contents) serves the object")
	var scs []mc.Scenario
	bound := ev.Pick(r, 2, 3)
	budget := time.Duration(ev.Pick(r, 45, 500)) * time.Second
	list := []scenario{
		{name: "one-upload", uploads: [][]string{{"A3"}}, spare: 1},
		{name: "two-uploaders", uploads: [][]string{{"A3", "B5"}, {"D4"}}, spare: 1},
		{name: "rotation", uploads: [][]string{{"C8", "F8", "G8", "H8"}}, spare: 1},
		{name: "rotation-two-uploaders", uploads: [][]string{{"C8", "F8"}, {"G8", "H8"}}, spare: 1},
		{name: "rotation-twice", uploads: [][]string{{"C8", "F8", "G8", "H8", "I8"}}, spare: 2},                        // a second release while the state write for the first is in flight
		{name: "after-restart", pre: []string{"P1", "E1", "Q1"}, uploads: [][]string{{"D3"}}, spare: 1},                // three committed epochs on two restored blocks (more epochs than blocks); the upload lands in a restored block
		{name: "upload-during-sync", uploads: [][]string{{"A3", "@sync", "D4"}}, spare: 1, dataGates: true},            // D4 lands in A3's block and is finalized while the sync covering A3 is in flight
		{name: "rotation-failed-uploads", uploads: [][]string{{"C8", "F8!", "G8", "A3!", "H8", "I8", "C8"}}, spare: 4}, // aborted uploads into blocks that are later released
		{name: "rotation-nospare", uploads: [][]string{{"C8", "F8", "G8", "H8", "I8"}}, spare: 0},
		{name: "sync-failures", uploads: [][]string{{"A3", "C8"}}, spare: 1, syncFaults: 2},
		{name: "state-failures", uploads: [][]string{{"A3", "C8"}}, spare: 1, dirFaults: 2},
		{name: "rotation-failures", uploads: [][]string{{"C8", "F8", "G8", "H8"}}, spare: 1, syncFaults: 1, dirFaults: 1},
		{name: "early-timers", uploads: [][]string{{"A3", "C8"}, {"D4"}}, spare: 1, early: true},
		{name: "shutdown", uploads: [][]string{{"A3", "C8"}}, spare: 1, shutdown: true},
		{name: "shutdown-rotation", uploads: [][]string{{"C8", "F8", "G8"}}, spare: 1, shutdown: true},
		{name: "shutdown-failures", uploads: [][]string{{"A3", "C8"}}, spare: 1, shutdown: true, syncFaults: 1, dirFaults: 1},
	}
	for _, sc := range list {
		scs = append(scs, mc.Scenario{Name: sc.name, Space: fmt.Sprintf("uploaders %v, shutdown=%v, sync fault budget %d, state-file fault budget %d, early timers %v, spare blocks %d; 8-byte blocks o1c1n1", sc.uploads, sc.shutdown, sc.syncFaults, sc.dirFaults, sc.early, sc.spare), Bound: bound, EarlyTimers: sc.early, Body: body(sc), Budget: budget, MaxSteps: 60000})
	}
	mc.Run(r, scs)
	r.Finish()
}
