package main

import (
	"bytes"
	"encoding/hex"
	"errors"
	"fmt"
	"io"
	"strings"
	"sync"
	"time"

	"github.com/buildbarn/bb-storage/pkg/blobstore/buffer"
	"github.com/buildbarn/bb-storage/pkg/digest"
	"google.golang.org/grpc/codes"
	"google.golang.org/grpc/status"
	"google.golang.org/protobuf/proto"
	"google.golang.org/protobuf/types/known/wrapperspb"

	"verifh/ev"
	"verifh/sim"
)

// Cons is one way of consuming a buffer.
//
//	ToByteSlice   A = maximumSizeBytes
//	ToReader      A = size of the buffer passed to Read, N = Close after N Read calls (-1: read until EOF/error, then 2 more Reads, then Close)
//	ToChunkReader A = offset, B = maximumChunkSizeBytes, N as for ToReader
//	ReadAt        A = offset, B = len(p)
//	IntoWriter
//	ToProto       A = maximumSizeBytes
//	CloneCopy     A = maximumSizeBytes, then C1 on the first and C2 on the second buffer, sequentially
//	CloneStream   C1 on the first and C2 on the second buffer, in two goroutines
//	Discard
type Cons struct {
	Kind string `json:"kind"`
	A    int    `json:"a"`
	B    int    `json:"b"`
	N    int    `json:"n"`
	C1   *Cons  `json:"c1,omitempty"`
	C2   *Cons  `json:"c2,omitempty"`
	key  string // cached outcome label
}

func (c Cons) String() string {
	switch c.Kind {
	case "ToByteSlice", "ToProto":
		return fmt.Sprintf("%s(%d)", c.Kind, c.A)
	case "ToReader":
		return fmt.Sprintf("ToReader[buf=%d,closeAfter=%d]", c.A, c.N)
	case "ToChunkReader":
		return fmt.Sprintf("ToChunkReader(%d,%d)[closeAfter=%d]", c.A, c.B, c.N)
	case "ReadAt":
		return fmt.Sprintf("ReadAt(len=%d,off=%d)", c.B, c.A)
	case "CloneCopy":
		return fmt.Sprintf("CloneCopy(%d){%s;%s}", c.A, c.C1, c.C2)
	case "CloneStream":
		return fmt.Sprintf("CloneStream{%s||%s}", c.C1, c.C2)
	}
	return c.Kind
}

// Case is one fully determined experiment (also the replay format).
type Case struct {
	Base      string     `json:"base_content"` // content the digest was derived from
	Digest    digestSpec `json:"digest"`
	Ctor      string     `json:"constructor"` // slice | reader | chunk
	Chunks    []string   `json:"chunks"`      // what the source delivers, piece by piece (slice: one piece)
	Final     string     `json:"final"`       // EOF | EIO | EUNEXP: how the source ends
	EOFWithIt bool       `json:"final_with_last_chunk"`
	Backend   bool       `json:"backend_provided"`
	Cons      Cons       `json:"consumer"`
}

var (
	errIO = status.Error(codes.Unavailable, "disk on fire")
)

func finalErr(kind string) error {
	switch kind {
	case "EOF":
		return nil
	case "EIO":
		return errIO
	case "EUNEXP":
		return io.ErrUnexpectedEOF
	}
	ev.HarnessError("unknown final kind %q", kind)
	return nil
}

func isSourceErr(kind string, err error) bool {
	switch kind {
	case "EIO":
		return err == errIO || (status.Code(err) == codes.Unavailable && strings.Contains(err.Error(), "disk on fire"))
	case "EUNEXP":
		return errors.Is(err, io.ErrUnexpectedEOF)
	}
	return false
}

// truth is what the reference knows about the delivered data.
type truth struct {
	data    []byte // everything the source delivers before it ends
	size    int    // digest size
	valid   bool   // len(data)==size && H(data)==digest hash
	sizeRel int    // -1: shorter than digest size, 0 equal, 1 longer
	// withheldFrom: for chunk-reader sources, number of bytes in the source
	// chunks strictly before the chunk that reaches (or exceeds) the digest
	// size; everything from that chunk on must be withheld when the content
	// mismatches. For other constructors max(size-1,0).
	withheldFrom int
	dig          *digest.Digest // built lazily from the digest spec
}

type recWriter struct{ data []byte }

func (w *recWriter) Write(p []byte) (int, error) {
	w.data = append(w.data, p...)
	return len(p), nil
}

type verdicts struct {
	mu sync.Mutex
	v  []bool
}

func (v *verdicts) cb(ok bool) {
	v.mu.Lock()
	v.v = append(v.v, ok)
	v.mu.Unlock()
}

// res is what one leaf consumer observed.
type res struct {
	path         string // e.g. "CloneStream/ToReader"
	kind         string
	off, plen    int
	paramInvalid bool // the consumer's own arguments justify INVALID_ARGUMENT
	finished     bool // a terminal result (success or error) was observed
	success      bool
	lateEOF      bool // io.EOF observed after an error had been returned
	err          error
	delivered    []byte
	msg          proto.Message
	panicMsg     string
}

const maxIter = 4096

func runLeaf(b buffer.Buffer, c *Cons, path string, size int, limitInvalid bool) (r res) {
	r.path = path + c.Kind
	r.kind = c.Kind
	r.paramInvalid = limitInvalid
	defer func() {
		if p := recover(); p != nil {
			r.panicMsg = fmt.Sprint(p)
		}
	}()
	switch c.Kind {
	case "ToByteSlice":
		if c.A < size {
			r.paramInvalid = true
		}
		data, err := b.ToByteSlice(c.A)
		r.finished, r.err, r.success, r.delivered = true, err, err == nil, data
	case "ToProto":
		if c.A < size {
			r.paramInvalid = true
		}
		m, err := b.ToProto(&wrapperspb.Int64Value{}, c.A)
		r.finished, r.err, r.success, r.msg = true, err, err == nil, m
	case "IntoWriter":
		w := &recWriter{}
		err := b.IntoWriter(w)
		r.finished, r.err, r.success, r.delivered = true, err, err == nil, w.data
	case "ReadAt":
		r.off, r.plen = c.A, c.B
		if c.A < 0 || c.A > size {
			r.paramInvalid = true
		}
		p := make([]byte, c.B)
		n, err := b.ReadAt(p, int64(c.A))
		r.finished = true
		if n < 0 || n > len(p) {
			r.panicMsg = fmt.Sprintf("ReadAt returned n=%d for len(p)=%d", n, len(p))
			return
		}
		r.delivered = p[:n]
		if err == nil || err == io.EOF {
			r.success = true
		} else {
			r.err = err
		}
	case "ToReader":
		rd := b.ToReader()
		buf := make([]byte, c.A)
		for i := 0; c.N < 0 || i < c.N; i++ {
			if i > maxIter {
				r.panicMsg = "no termination: more than 4096 Read calls"
				break
			}
			n, err := rd.Read(buf)
			r.delivered = append(r.delivered, buf[:n]...)
			if err == io.EOF {
				r.finished, r.success = true, true
				break
			} else if err != nil {
				r.finished, r.err = true, err
				break
			}
		}
		if r.finished && c.N < 0 {
			for k := 0; k < 2; k++ {
				n, err := rd.Read(buf)
				r.delivered = append(r.delivered, buf[:n]...)
				if err == io.EOF && !r.success {
					r.lateEOF = true
				}
			}
		}
		rd.Close()
	case "ToChunkReader":
		r.off = c.A
		if c.A < 0 || c.A > size {
			r.paramInvalid = true
		}
		cr := b.ToChunkReader(int64(c.A), c.B)
		for i := 0; c.N < 0 || i < c.N; i++ {
			if i > maxIter {
				r.panicMsg = "no termination: more than 4096 Read calls"
				break
			}
			chunk, err := cr.Read()
			r.delivered = append(r.delivered, chunk...)
			if err == io.EOF {
				r.finished, r.success = true, true
				break
			} else if err != nil {
				r.finished, r.err = true, err
				break
			}
		}
		if r.finished && c.N < 0 {
			for k := 0; k < 2; k++ {
				chunk, err := cr.Read()
				r.delivered = append(r.delivered, chunk...)
				if err == io.EOF && !r.success {
					r.lateEOF = true
				}
			}
		}
		cr.Close()
	case "Discard":
		b.Discard()
	default:
		ev.HarnessError("unknown leaf consumer %q", c.Kind)
	}
	return
}

// consume runs the consumer tree. hung is set when a CloneStream pair did
// not terminate.
func consume(b buffer.Buffer, c *Cons, size int) (out []res, hung bool) {
	switch c.Kind {
	case "CloneCopy":
		var b1, b2 buffer.Buffer
		if p := func() (p any) {
			defer func() { p = recover() }()
			b1, b2 = b.CloneCopy(c.A)
			return nil
		}(); p != nil {
			return []res{{path: "CloneCopy", kind: "CloneCopy", panicMsg: fmt.Sprint(p)}}, false
		}
		inv := c.A < size
		r1 := runLeaf(b1, c.C1, "CloneCopy/", size, inv)
		r2 := runLeaf(b2, c.C2, "CloneCopy/", size, inv)
		return []res{r1, r2}, false
	case "CloneStream":
		var b1, b2 buffer.Buffer
		if p := func() (p any) {
			defer func() { p = recover() }()
			b1, b2 = b.CloneStream()
			return nil
		}(); p != nil {
			return []res{{path: "CloneStream", kind: "CloneStream", panicMsg: fmt.Sprint(p)}}, false
		}
		ch := make(chan int, 2)
		var rs [2]res
		go func() { rs[0] = runLeaf(b1, c.C1, "CloneStream/", size, false); ch <- 0 }()
		go func() { rs[1] = runLeaf(b2, c.C2, "CloneStream/", size, false); ch <- 1 }()
		// Liveness guard only (never part of the oracle): the two
		// consumers run in lock-step and normally finish in microseconds.
		t := time.NewTimer(120 * time.Second)
		defer t.Stop()
		doneSet := [2]bool{}
		for k := 0; k < 2; k++ {
			select {
			case i := <-ch:
				doneSet[i] = true
			case <-t.C:
				for i := range doneSet {
					if doneSet[i] {
						out = append(out, rs[i])
					}
				}
				return out, true
			}
		}
		return rs[:], false
	}
	return []res{runLeaf(b, c, "", size, false)}, false
}

type viol struct{ sig, msg string }

// outcome is the observable result class of a case (for counting distinct outcomes).
type outcome struct {
	ctor, cons         string
	valid              bool
	sizeRel            int8
	final              string
	r1, r2             string // result classes of the leaves
	nTrue, nFalse      int8
	backend            bool
	delivered1, closes int8
}

func (o outcome) String() string {
	return fmt.Sprintf("%s|%s|valid=%v|sz=%d|%s|%s|%s|t=%d|f=%d|be=%v|d=%d|c=%d", o.ctor, o.cons, o.valid, o.sizeRel, o.final, o.r1, o.r2, o.nTrue, o.nFalse, o.backend, o.delivered1, o.closes)
}

func resClass(r res) string {
	switch {
	case r.panicMsg != "":
		return "panic"
	case r.success:
		return "ok"
	case r.finished:
		return status.Code(r.err).String()
	}
	return "-"
}

func clamp(x, lo, hi int) int {
	if x < lo {
		return lo
	}
	if x > hi {
		return hi
	}
	return x
}

func mkTruth(c *Case) truth {
	t := truth{size: int(c.Digest.Size)}
	for _, ch := range c.Chunks {
		t.data = append(t.data, ch...)
	}
	switch {
	case len(t.data) < t.size:
		t.sizeRel = -1
	case len(t.data) > t.size:
		t.sizeRel = 1
	}
	if t.sizeRel == 0 {
		h := fnByName(c.Digest.Fn).Sum(t.data)
		t.valid = hex.EncodeToString(h) == c.Digest.Hash
	}
	t.withheldFrom = t.size - 1
	if t.withheldFrom < 0 {
		t.withheldFrom = 0
	}
	if c.Ctor == "chunk" {
		cum := 0
		for _, ch := range c.Chunks {
			if cum+len(ch) >= t.size {
				break
			}
			cum += len(ch)
		}
		t.withheldFrom = cum
	}
	return t
}

// runCase executes one case against the real buffer package and judges it.
func runCase(c *Case, t *truth) (vs []viol, oc outcome) {
	if t.dig == nil {
		d := c.Digest.build()
		t.dig = &d
	}
	d := *t.dig
	var vd verdicts
	source := buffer.UserProvided
	mismatchCode := codes.InvalidArgument
	if c.Backend {
		source = buffer.BackendProvided(vd.cb)
		mismatchCode = codes.Internal
	}
	var src *sim.Source
	var b buffer.Buffer
	ctorPanic := func() (p any) {
		defer func() { p = recover() }()
		switch c.Ctor {
		case "slice":
			b = buffer.NewCASBufferFromByteSlice(d, append([]byte(nil), t.data...), source)
		case "reader", "chunk":
			chunks := make([][]byte, len(c.Chunks))
			for i, s := range c.Chunks {
				chunks[i] = []byte(s)
			}
			src = sim.NewSource(sim.Script{Chunks: chunks, FinalErr: finalErr(c.Final), EOFWithIt: c.EOFWithIt})
			if c.Ctor == "reader" {
				b = buffer.NewCASBufferFromReader(d, sim.ReaderView{S: src}, source)
			} else {
				b = buffer.NewCASBufferFromChunkReader(d, sim.ChunkView{S: src}, source)
			}
		default:
			ev.HarnessError("unknown constructor %q", c.Ctor)
		}
		return nil
	}()
	sigp := c.Ctor + ":"
	suffix := ""
	if c.Final == "EUNEXP" {
		suffix = ":source-ends-with-io.ErrUnexpectedEOF"
	}
	add := func(sig, format string, a ...any) {
		vs = append(vs, viol{sig + suffix, fmt.Sprintf(format, a...)})
	}
	oc = outcome{ctor: c.Ctor, cons: c.Cons.Kind, valid: t.valid, sizeRel: int8(t.sizeRel), final: c.Final, backend: c.Backend, closes: -1}
	if c.Cons.C1 != nil {
		if c.Cons.key == "" {
			c.Cons.key = c.Cons.Kind + "/" + c.Cons.C1.Kind + "+" + c.Cons.C2.Kind
		}
		oc.cons = c.Cons.key
	}
	if ctorPanic != nil {
		add(sigp+"constructor:panic", "constructor panicked: %v", ctorPanic)
		return
	}
	results, hung := consume(b, &c.Cons, t.size)
	if hung {
		for _, r := range results {
			if r.panicMsg != "" {
				add(sigp+r.path+":panic", "consumer panicked (%s) and its CloneStream sibling never finished", r.panicMsg)
				return
			}
		}
		ev.HarnessError("CloneStream consumers did not finish within 120 s: %s", describe(c))
	}

	for i, r := range results {
		if i == 0 {
			oc.r1 = resClass(r)
			oc.delivered1 = int8(len(r.delivered))
		} else {
			oc.r2 = resClass(r)
		}
		sig := sigp + r.path
		if r.panicMsg != "" {
			add(sig+":panic", "%s panicked: %s", r.path, r.panicMsg)
			continue
		}
		off := clamp(r.off, 0, len(t.data))
		if r.success || r.lateEOF {
			// Successful completion observed.
			if !t.valid {
				why := "hash differs"
				if t.sizeRel != 0 {
					why = fmt.Sprintf("source delivered %d bytes, digest says %d", len(t.data), t.size)
				}
				if c.Final == "EUNEXP" {
					vs = append(vs, viol{sigp + c.Cons.Kind + ":unexpected-eof-reported-as-success", fmt.Sprintf("%s completed successfully (delivered %q) although the source delivered only %q and then failed with io.ErrUnexpectedEOF; digest %s/%s/%d (%s)", r.path, r.delivered, t.data, c.Digest.Fn, c.Digest.Hash, c.Digest.Size, why)})
				} else if r.lateEOF {
					add(sig+":eof-after-error", "%s returned error %v and afterwards io.EOF although the content mismatches the digest (%s)", r.path, r.err, why)
				} else {
					add(sig+":success-on-mismatch", "%s completed successfully (delivered %q) although the content %q mismatches the digest %s/%s/%d (%s)", r.path, r.delivered, t.data, c.Digest.Fn, c.Digest.Hash, c.Digest.Size, why)
				}
			} else if r.success {
				var want []byte
				switch r.kind {
				case "ToChunkReader":
					want = t.data[off:]
				case "ReadAt":
					want = t.data[off:]
					if len(want) > r.plen {
						want = want[:r.plen]
					}
				case "ToProto":
					ref := &wrapperspb.Int64Value{}
					if err := proto.Unmarshal(t.data, ref); err != nil {
						add(sig+":proto-accepted-invalid", "ToProto succeeded on %q, which proto.Unmarshal rejects: %v", t.data, err)
					} else if !proto.Equal(ref, r.msg) {
						add(sig+":proto-wrong-message", "ToProto returned %v, reference %v", r.msg, ref)
					}
					want = nil
				default:
					want = t.data
				}
				if r.kind != "ToProto" && !bytes.Equal(want, r.delivered) && c.Final == "EUNEXP" && bytes.HasPrefix(want, r.delivered) {
					vs = append(vs, viol{sigp + c.Cons.Kind + ":unexpected-eof-reported-as-success", fmt.Sprintf("%s completed successfully but delivered only %q of %q: the bytes that arrived together with io.ErrUnexpectedEOF were dropped and the error was reported as end of data (offset %d)", r.path, r.delivered, want, r.off)})
				} else if r.kind != "ToProto" && !bytes.Equal(want, r.delivered) {
					add(sig+":wrong-bytes", "%s succeeded but delivered %q, want %q (content %q, offset %d)", r.path, r.delivered, want, t.data, r.off)
				}
			}
		} else if r.finished {
			// An error was returned. Which errors are admissible?
			code := status.Code(r.err)
			ok := false
			var admissible []string
			if r.paramInvalid {
				admissible = append(admissible, "INVALID_ARGUMENT (consumer arguments)")
				ok = ok || code == codes.InvalidArgument
			}
			if c.Final != "EOF" {
				admissible = append(admissible, "the source's error")
				ok = ok || isSourceErr(c.Final, r.err)
				if t.sizeRel > 0 || (t.sizeRel == 0 && !t.valid) {
					admissible = append(admissible, mismatchCode.String()+" (mismatch already evident)")
					ok = ok || code == mismatchCode
				}
			} else if !t.valid {
				admissible = append(admissible, mismatchCode.String())
				ok = ok || code == mismatchCode
			} else {
				// Valid content, clean EOF: the property does not say
				// which errors (e.g. unparsable Protobuf, size limit) may occur.
				ok = true
			}
			if t.valid && r.kind == "ToProto" {
				// Complete valid content followed by an I/O error instead
				// of io.EOF may be treated as complete; the Protobuf
				// parse error that follows is not judged.
				ok = true
			}
			if !ok {
				what := "wrong-error-code"
				if c.Final != "EOF" {
					what = "io-error-not-passed-through"
				}
				add(sig+":"+what, "%s returned %v (code %s); admissible: %s; content %q, digest size %d, source ends with %s", r.path, r.err, code, strings.Join(admissible, " | "), t.data, t.size, c.Final)
			}
		}
		if !t.valid && !r.success && !r.lateEOF {
			// Final portion withheld (a success on mismatching content has
			// already been reported above).
			boundOff := r.off
			if boundOff < 0 {
				boundOff = 0
			}
			bound := t.withheldFrom - boundOff
			if bound < 0 {
				bound = 0
			}
			if len(r.delivered) > bound {
				add(sig+":final-portion-delivered", "%s handed out %q (%d bytes from offset %d) although the content %q mismatches the digest (size %d); at most %d bytes may be handed out before the error (source chunks %q)", r.path, r.delivered, len(r.delivered), r.off, t.data, t.size, bound, c.Chunks)
			}
			if !bytes.HasPrefix(t.data[off:], r.delivered) && r.kind != "ToProto" {
				add(sig+":partial-data-not-from-source", "%s handed out %q which is not a prefix of the source data %q at offset %d", r.path, r.delivered, t.data, r.off)
			}
		}
	}

	// Integrity callback.
	if c.Backend {
		for _, v := range vd.v {
			if v {
				oc.nTrue++
			} else {
				oc.nFalse++
			}
		}
		if oc.nTrue > 0 && !t.valid {
			add(sigp+c.Cons.Kind+":callback-true-on-mismatch", "integrity callback received true although content %q mismatches digest %s/%s/%d", t.data, c.Digest.Fn, c.Digest.Hash, c.Digest.Size)
		}
		if oc.nFalse > 0 && t.valid {
			add(sigp+c.Cons.Kind+":callback-false-on-match", "integrity callback received false although content %q matches the digest (source ends with %s)", t.data, c.Final)
		}
		if oc.nTrue > 1 || oc.nFalse > 1 {
			add(sigp+c.Cons.Kind+":callback-duplicate-verdict", "integrity callback verdicts %v: more than one of a kind", vd.v)
		}
	}
	// Source closed exactly once.
	if src != nil {
		oc.closes = int8(src.Closes)
		panicked := false
		for _, r := range results {
			if r.panicMsg != "" {
				panicked = true
			}
		}
		if src.Closes != 1 && !panicked {
			add(fmt.Sprintf("%s%s:source-closes=%d", sigp, c.Cons.Kind, src.Closes), "source closed %d times after %s, want exactly 1", src.Closes, c.Cons)
		}
	}
	return
}
