// C09 — CAS buffers never complete a read of content that mismatches its digest.
//
// Exhaustive bounded enumeration (venum) against the real constructors
// buffer.NewCASBufferFromByteSlice / NewCASBufferFromReader /
// NewCASBufferFromChunkReader and every consuming method of buffer.Buffer.
//
// One case = (base content c, digest D derived from c, constructor, the byte
// string the source really delivers and how it is split into reads/chunks, how
// the source ends, Source kind, consumer). The reference (run.go) knows the
// delivered bytes and computes the digest functions independently
// (hashes.go). See the Space texts of the sub-checks for the exact product.
package main

import (
	"fmt"
	"os"
	"sort"
	"strings"
	"sync"

	"verifh/ev"
	"verifh/par"
	"verifh/sim"
)

// ---- enumeration of the dimensions -----------------------------------------

func allStrings(alphabet string, minLen, maxLen int) []string {
	var out []string
	var rec func(cur string, l int)
	rec = func(cur string, l int) {
		if len(cur) == l {
			out = append(out, cur)
			return
		}
		for i := 0; i < len(alphabet); i++ {
			rec(cur+alphabet[i:i+1], l)
		}
	}
	for l := minLen; l <= maxLen; l++ {
		rec("", l)
	}
	return out
}

// delivered lists the byte strings a source delivers for base content c:
// c itself, every proper prefix (early EOF / source shorter than the digest
// says), c with its last byte replaced by the other letter (same size, other
// content) and c followed by each of the trailing strings.
func delivered(c, alphabet string, trailing []string) []string {
	out := []string{c}
	for i := 0; i < len(c); i++ {
		out = append(out, c[:i])
	}
	if len(c) > 0 {
		last := c[len(c)-1]
		other := alphabet[0]
		if last == other {
			other = alphabet[1]
		}
		out = append(out, c[:len(c)-1]+string(other))
	}
	for _, t := range trailing {
		out = append(out, c+t)
	}
	return out
}

var (
	compMu    sync.Mutex
	compCache = map[string][][]string{}
)

// scriptsFor returns every split of s into at most maxPieces consecutive
// pieces, empty pieces allowed anywhere, plus (for the empty string) the
// source with no piece at all.
func scriptsFor(s string, maxPieces int) [][]string {
	key := fmt.Sprintf("%d|%s", maxPieces, s)
	compMu.Lock()
	defer compMu.Unlock()
	if v, ok := compCache[key]; ok {
		return v
	}
	var out [][]string
	if s == "" {
		out = append(out, []string{})
	}
	for _, comp := range sim.Compositions([]byte(s), maxPieces, true) {
		p := make([]string, len(comp))
		for i, c := range comp {
			p[i] = string(c)
		}
		out = append(out, p)
	}
	compCache[key] = out
	return out
}

func dedupInts(xs ...int) []int {
	var out []int
	for _, x := range xs {
		dup := false
		for _, y := range out {
			if x == y {
				dup = true
			}
		}
		if !dup {
			out = append(out, x)
		}
	}
	return out
}

// streamLeaves are the consumers used on the two halves of CloneStream.
func streamLeaves(n int) []Cons {
	return []Cons{
		{Kind: "ToByteSlice", A: n + 1},
		{Kind: "ToReader", A: 1, N: -1},
		{Kind: "ToChunkReader", A: 0, B: 1, N: -1},
		{Kind: "ToChunkReader", A: 1, B: 2, N: -1},
		{Kind: "ReadAt", A: 0, B: n},
		{Kind: "IntoWriter"},
		{Kind: "ToReader", A: 1, N: 1},
		{Kind: "Discard"},
	}
}

// consumersFor lists every consumer for digest size n.
//
//	mode "all":    every consumer, CloneStream with all 36 unordered pairs
//	mode "main":   every consumer, CloneStream with the 10 pairs ToChunkReader(0,1) x 8 leaves, ToByteSlice||ToByteSlice, Discard||Discard
//	mode "stream": only CloneStream, all 36 unordered pairs
//	mode "proto":  only ToProto(n-1|n|n+1)
func consumersFor(n int, mode string) []Cons {
	var out []Cons
	if mode == "proto" {
		for _, l := range dedupInts(n-1, n, n+1) {
			out = append(out, Cons{Kind: "ToProto", A: l})
		}
		return out
	}
	if mode != "stream" {
		for _, l := range dedupInts(n-1, n, n+1) {
			out = append(out, Cons{Kind: "ToByteSlice", A: l})
		}
		for _, bs := range []int{1, 2, 64} {
			out = append(out, Cons{Kind: "ToReader", A: bs, N: -1})
		}
		for _, k := range []int{0, 1, 2} {
			out = append(out, Cons{Kind: "ToReader", A: 1, N: k})
		}
		for off := -1; off <= n+1; off++ {
			for _, max := range dedupInts(1, 2, n+1) {
				out = append(out, Cons{Kind: "ToChunkReader", A: off, B: max, N: -1})
			}
		}
		for _, k := range []int{0, 1} {
			out = append(out, Cons{Kind: "ToChunkReader", A: 0, B: 1, N: k})
		}
		for off := -1; off <= n+1; off++ {
			for _, l := range dedupInts(0, 1, n) {
				out = append(out, Cons{Kind: "ReadAt", A: off, B: l})
			}
		}
		out = append(out, Cons{Kind: "IntoWriter"})
		for _, l := range dedupInts(n-1, n+1) {
			out = append(out, Cons{Kind: "ToProto", A: l})
		}
		// CloneCopy: limit n+1 with every ordered pair of three leaves;
		// limit n-1 with ToByteSlice on both.
		cc := []Cons{{Kind: "ToByteSlice", A: n + 1}, {Kind: "ToChunkReader", A: 1, B: 1, N: -1}, {Kind: "Discard"}}
		for i := range cc {
			for j := range cc {
				out = append(out, Cons{Kind: "CloneCopy", A: n + 1, C1: &cc[i], C2: &cc[j]})
			}
		}
		out = append(out, Cons{Kind: "CloneCopy", A: n - 1, C1: &cc[0], C2: &cc[0]})
		out = append(out, Cons{Kind: "Discard"})
	}
	// CloneStream: both halves are the same object, so unordered pairs.
	sl := streamLeaves(n)
	for i := range sl {
		for j := i; j < len(sl); j++ {
			// sl[2] is ToChunkReader(0,1): it caps the shared chunk size
			// at 1 byte, which avoids the 64 KiB allocation per Read that
			// the default chunk size costs on reader-backed buffers.
			if mode == "main" && i != 2 && j != 2 && !(i == j && (i == 0 || sl[i].Kind == "Discard")) {
				continue
			}
			out = append(out, Cons{Kind: "CloneStream", C1: &sl[i], C2: &sl[j]})
		}
	}
	for k := range out {
		if c := &out[k]; c.C1 != nil {
			c.key = c.Kind + "/" + c.C1.Kind + "+" + c.C2.Kind
		}
	}
	return out
}

const consTextBase = "ToByteSlice(n-1|n|n+1); ToReader with Read buffers 1|2|64 until EOF/error plus 2 further Reads, then Close; ToReader buffer 1 closed after 0|1|2 Reads; ToChunkReader(off,max) for off in [-1,n+1] x max in {1,2,n+1} until EOF/error plus 2 further Reads, then Close; ToChunkReader(0,1) closed after 0|1 Reads; ReadAt(off in [-1,n+1], len in {0,1,n}); IntoWriter; ToProto(n-1|n+1); CloneCopy(n+1) then each ordered pair of {ToByteSlice(n+1), ToChunkReader(1,1), Discard}; CloneCopy(n-1) then ToByteSlice twice; Discard"
const streamLeavesText = "L = {ToByteSlice(n+1), ToReader(buf 1), ToChunkReader(0,1), ToChunkReader(1,2), ReadAt(0,len n), IntoWriter, ToReader closed after 1 Read, Discard}"

var consText = map[string]string{
	"all":    "consumers for digest size n: " + consTextBase + "; CloneStream then every unordered pair (36) of " + streamLeavesText + " in two goroutines",
	"main":   "consumers for digest size n: " + consTextBase + "; CloneStream then ToChunkReader(0,1) || each of " + streamLeavesText + ", ToByteSlice(n+1) || ToByteSlice(n+1) and Discard || Discard (10 pairs, two goroutines; all 36 pairs are in sub-check clonestream)",
	"stream": "consumers for digest size n: CloneStream then every unordered pair (36) of " + streamLeavesText + ", the two halves consumed in two goroutines",
	"proto":  "consumers for digest size n: ToProto(google.protobuf.Int64Value, limit n-1|n|n+1)",
}

// ---- driver --------------------------------------------------------------

// lenCfg says what is enumerated for base contents of one length.
type lenCfg struct {
	fns      []string
	trailing []string
	kinds    []string // digest kinds; nil = all (see digestsFor)
}

var coreKinds = []string{"true", "size-1", "size+1", "last-nibble"}

func (c lenCfg) wantKind(k string) bool {
	if c.kinds == nil {
		return true
	}
	for _, x := range c.kinds {
		if x == k {
			return true
		}
	}
	return false
}

func (c lenCfg) key() string {
	return strings.Join(c.fns, ",") + "|" + strings.Join(c.trailing, ",") + "|" + strings.Join(c.kinds, ",")
}

// plan describes one sub-check.
type plan struct {
	name      string
	what      string
	alphabet  string
	ctors     []string
	finals    []string
	consMode  string
	maxPieces int
	perLen    []lenCfg // index = base content length
}

func (p plan) space() string {
	var b strings.Builder
	b.WriteString(p.what)
	fmt.Fprintf(&b, " Base contents c: all strings over the alphabet %q of length 0..%d. ", p.alphabet, len(p.perLen)-1)
	for l := 0; l < len(p.perLen); {
		m := l
		for m+1 < len(p.perLen) && p.perLen[m+1].key() == p.perLen[l].key() {
			m++
		}
		kinds := "all digest kinds"
		if p.perLen[l].kinds != nil {
			kinds = "digest kinds {" + strings.Join(p.perLen[l].kinds, ",") + "} only"
		}
		fmt.Fprintf(&b, "Length %d..%d: digest functions {%s}, trailing strings %q, %s. ", l, m, strings.Join(p.perLen[l].fns, ","), p.perLen[l].trailing, kinds)
		l = m + 1
	}
	b.WriteString("Digest kinds per (c, function): true; size-1 (if size>0); size+1; first-nibble (first hash nibble changed); last-nibble; hash-of-X (hash of another function X with the same hash length under this function's name: SHA1<->GITSHA1, SHA256<->BLAKE3, SHA256TREE<-BLAKE3). ")
	b.WriteString("Delivered data per c: c; every proper prefix of c (source shorter than the digest says); c with its last byte flipped; c followed by each trailing string. ")
	for _, ct := range p.ctors {
		switch ct {
		case "slice":
			b.WriteString("slice: the delivered data is the byte slice. ")
		case "reader":
			fmt.Fprintf(&b, "reader: the delivered data split in every way into <=%d consecutive pieces, empty pieces allowed anywhere (an empty piece is a (0,nil) Read; for empty data also a source with no piece at all); a Read never crosses a piece boundary; source endings %v (EOF=io.EOF, EIO=UNAVAILABLE status error, EUNEXP=io.ErrUnexpectedEOF; hence an error after every prefix), returned by a separate Read or together with the last piece (n>0 and the ending at once). ", p.maxPieces, p.finals)
		case "chunk":
			fmt.Fprintf(&b, "chunk: the delivered data split in every way into <=%d chunks, empty chunks allowed anywhere (for empty data also no chunk at all); endings %v. ", p.maxPieces, p.finals)
		}
	}
	b.WriteString("Source in {UserProvided, BackendProvided(recording callback)}. ")
	b.WriteString(consText[p.consMode])
	return b.String()
}

type item struct {
	base string
	fn   string
}

type acc struct {
	evals, nontrivial int64
	outcomes          map[outcome]struct{}
	classes           map[classKey]int64
	byLen             map[int]int64
}

func newAcc() acc {
	return acc{outcomes: map[outcome]struct{}{}, classes: map[classKey]int64{}, byLen: map[int]int64{}}
}

type classKey struct {
	valid bool
	r1    string
}

func (k classKey) String() string {
	if k.valid {
		return "valid:" + k.r1
	}
	return "mismatch:" + k.r1
}

func runPlan(r *ev.Run, p plan) {
	countOnly := os.Getenv("C09_COUNT") != ""
	sub := r.NewSub(p.name, "venum", p.space())
	done := sub.Timer()
	defer done()
	var items []item
	maxLen := len(p.perLen) - 1
	bases := allStrings(p.alphabet, 0, maxLen)
	// Longest first: better load balance.
	for i := len(bases) - 1; i >= 0; i-- {
		for _, f := range p.perLen[len(bases[i])].fns {
			items = append(items, item{bases[i], f})
		}
	}
	var mu sync.Mutex
	total := newAcc()
	samples := make([]any, len(items))
	consCache := map[int][]Cons{}
	for n := 0; n <= maxLen+1; n++ {
		consCache[n] = consumersFor(n, p.consMode)
	}
	par.For(len(items), func(i int) {
		it := items[i]
		local := newAcc()
		f := fnByName(it.fn)
		dels := delivered(it.base, p.alphabet, p.perLen[len(it.base)].trailing)
		for _, dg := range digestsFor(f, it.base) {
			if !p.perLen[len(it.base)].wantKind(dg.Kind) {
				continue
			}
			cons := consCache[int(dg.Size)]
			for _, s := range dels {
				for _, ctor := range p.ctors {
					var scripts [][]string
					finals := p.finals
					eofWith := []bool{false}
					switch ctor {
					case "slice":
						scripts = [][]string{{s}}
						finals = []string{"EOF"}
					case "reader":
						scripts = scriptsFor(s, p.maxPieces)
						eofWith = []bool{false, true}
					case "chunk":
						scripts = scriptsFor(s, p.maxPieces)
					}
					for _, chunks := range scripts {
						for _, fin := range finals {
							for _, ew := range eofWith {
								if ew && len(chunks) == 0 {
									continue // nothing to attach the ending to
								}
								if countOnly {
									local.evals += int64(2 * len(cons))
									continue
								}
								c := Case{Base: it.base, Digest: dg, Ctor: ctor, Chunks: chunks, Final: fin, EOFWithIt: ew}
								t := mkTruth(&c)
								nontrivial := !t.valid || fin != "EOF" || len(chunks) >= 2
								for _, backend := range []bool{false, true} {
									c.Backend = backend
									for k := range cons {
										c.Cons = cons[k]
										vs, oc := runCase(&c, &t)
										local.evals++
										if nontrivial {
											local.nontrivial++
										}
										local.outcomes[oc] = struct{}{}
										local.classes[classKey{t.valid, oc.r1}]++
										for _, v := range vs {
											r.Violate(ev.Violation{Signature: v.sig, Sub: p.name, Message: v.msg + "\ncase: " + describe(&c), Case: c})
										}
										if samples[i] == nil && local.evals%9973 == 4242 {
											samples[i] = map[string]any{"sub": p.name, "case": c, "outcome": oc.String()}
										}
									}
								}
							}
						}
					}
				}
			}
		}
		local.byLen[len(it.base)] = local.evals
		mu.Lock()
		total.evals += local.evals
		total.nontrivial += local.nontrivial
		for o := range local.outcomes {
			total.outcomes[o] = struct{}{}
		}
		for k, v := range local.classes {
			total.classes[k] += v
		}
		for k, v := range local.byLen {
			total.byLen[k] += v
		}
		mu.Unlock()
	})
	sub.Evaluations = total.evals
	sub.Nontrivial = total.nontrivial
	sub.States, sub.Transitions = total.evals, total.evals
	sub.Validated = total.evals
	sub.Outcomes = int64(len(total.outcomes))
	sub.Exhaustive = !countOnly
	sub.BoundCompleted = fmt.Sprintf("base content length 0..%d, <=%d pieces", maxLen, p.maxPieces)
	extra := map[string]any{}
	for k, v := range total.classes {
		extra["first_leaf_result "+k.String()] = v
	}
	var lens []int
	for l := range total.byLen {
		lens = append(lens, l)
	}
	sort.Ints(lens)
	for _, l := range lens {
		extra[fmt.Sprintf("cases with base content length %d", l)] = total.byLen[l]
	}
	sub.Extra = extra
	if countOnly {
		// Debug aid: size of the space without executing it (no evidence).
		fmt.Printf("count %s: %d cases %v\n", p.name, total.evals, total.byLen)
		return
	}
	// Deterministic samples: evenly spaced over the item list.
	var have []any
	for _, s := range samples {
		if s != nil {
			have = append(have, s)
		}
	}
	for k := 0; k < 2 && len(have) > 0; k++ {
		r.Sample(have[(k*len(have))/2])
	}
	// Sanity against vacuity: valid contents must be readable.
	if total.classes[classKey{true, "ok"}] == 0 {
		ev.HarnessError("sub-check %s: no case in which valid content was read successfully", p.name)
	}
}

func describe(c *Case) string {
	src := "UserProvided"
	if c.Backend {
		src = "BackendProvided"
	}
	return fmt.Sprintf("digest %s/%s/%d (%s of %q), constructor %s, source pieces %q ending with %s (together with last piece: %v), %s, consumer %s",
		c.Digest.Fn, c.Digest.Hash, c.Digest.Size, c.Digest.Kind, c.Base, c.Ctor, c.Chunks, c.Final, c.EOFWithIt, src, c.Cons)
}

func allFnNames() []string {
	var out []string
	for _, f := range fns {
		out = append(out, f.Name)
	}
	return out
}

func rep(n int, c lenCfg) []lenCfg {
	out := make([]lenCfg, n)
	for i := range out {
		out[i] = c
	}
	return out
}

func cat(xs ...[]lenCfg) []lenCfg {
	var out []lenCfg
	for _, x := range xs {
		out = append(out, x...)
	}
	return out
}

func main() {
	r := ev.Start("C09")
	selfTestHashes()
	r.Rule("venum: every (base content x derived digest x delivered byte string x split into pieces x source ending x Source kind x consumer) of the stated product is executed once against the real buffer package; non-trivial = the delivered content mismatches the digest (size or hash), or the source ends with an I/O error, or the data arrives in >= 2 pieces")
	r.Assume("reference hashes: crypto/md5, sha1, sha256, sha512 and github.com/zeebo/blake3 called directly; GITSHA1(x)=SHA1(\"blob <len>\\0\"+x); SHA256TREE(x)=SHA256(x) for the <=8-byte contents used (single chunk); checked against published known answers at start-up")
	r.Assume("successful completion = nil error (ToByteSlice, IntoWriter, ToProto), io.EOF reached (ToReader, ToChunkReader), (n,nil) or (n,io.EOF) (ReadAt); success demands: the delivered content matches the digest (size and independently computed hash) and the bytes handed out == content[off:] (ReadAt: truncated to len(p); ToProto: message equal to an independent proto.Unmarshal)")
	r.Assume("an error is judged only against the causes the property names: a consumer's own invalid arguments (negative/too large offset, size limit below the digest size) admit INVALID_ARGUMENT; a source I/O error must come back with the same code and message, except that the mismatch code is also admitted when the bytes delivered before the I/O error already exceed the digest size or have the full size and a wrong hash; errors on valid content with a clean EOF (e.g. unparsable Protobuf) are not judged; that valid content must be readable is NOT demanded (only counted, and the harness aborts if it never happens)")
	r.Assume("final portion withheld: while the content mismatches, a reader/slice-backed buffer hands out at most size-1-off bytes (never the byte that completes the digest size); a chunk-reader-backed buffer hands out nothing from the source chunk that reaches or exceeds the digest size onwards; for an early EOF nothing can be withheld and nothing is demanded beyond that; data handed out must be a prefix of the source data at the offset; Reads issued after an error count as well (sticky error)")
	r.Assume("extras demanded by the task, beyond the property text: at most one true and one false callback verdict per buffer; the source is closed exactly once after every consumer (including Discard and early Close)")
	r.Assume("a source that ends with io.ErrUnexpectedEOF (what flate/zstd readers and HTTP bodies return for truncated input; pkg/blobstore/reference_expanding_blob_access.go and grpcservers/byte_stream_server.go feed such readers into NewCASBufferFromReader) is a source I/O error; it is enumerated in its own sub-check")
	r.Assume("CloneStream halves are the same object, so unordered pairs of leaf consumers are exhaustive; they run in two real goroutines; results are schedule-independent because the multiplexer runs consumers in lock-step; a 120 s timer is a liveness guard only (harness error, never part of the oracle)")

	if r.Replay != "" {
		rf := ev.LoadReplay(r.Replay)
		var c Case
		ev.MustJSON(rf.Case, &c)
		t := mkTruth(&c)
		vs, oc := runCase(&c, &t)
		fmt.Printf("replay %s\n  truth: delivered=%q valid=%v sizeRel=%d withheldFrom=%d\n  outcome: %s\n", describe(&c), t.data, t.valid, t.sizeRel, t.withheldFrom, oc)
		for _, v := range vs {
			fmt.Printf("  violation %s: %s\n", v.sig, v.msg)
			r.Violate(ev.Violation{Signature: v.sig, Sub: rf.Sub, Message: v.msg, Case: c})
		}
		r.Finish()
	}

	ab := "ab"
	trail6 := []string{"a", "b", "aa", "ab", "ba", "bb"}
	trail2 := []string{"a", "ab"}
	pieces := ev.Pick(r, 3, 4)
	all8 := allFnNames()
	two := []string{"SHA256", "GITSHA1"}
	one := []string{"GITSHA1"}
	// What is enumerated per base content length (index = length).
	mainCfg := ev.Pick(r,
		[]lenCfg{{all8, trail6, nil}, {all8, trail6, nil}, {all8, trail2, nil}, {two, trail2, nil}, {one, trail2, coreKinds}},
		[]lenCfg{{all8, trail6, nil}, {all8, trail6, nil}, {all8, trail6, nil}, {all8, trail6, nil}, {two, trail2, nil}, {one, trail2, coreKinds}, {one, trail2, coreKinds}})
	streamCfg := ev.Pick(r,
		rep(4, lenCfg{[]string{"SHA256"}, trail2, nil}),
		cat(rep(4, lenCfg{two, trail2, nil}), rep(1, lenCfg{[]string{"SHA256"}, trail2, coreKinds})))
	unexpCfg := ev.Pick(r, rep(3, lenCfg{two, trail2, nil}), rep(4, lenCfg{two, trail2, nil}))
	protoCfg := rep(ev.Pick(r, 5, 6), lenCfg{[]string{"SHA256", "MD5"}, []string{"\x08", "\x01"}, nil})

	plans := []plan{
		{name: "slice", what: "NewCASBufferFromByteSlice.", alphabet: ab, ctors: []string{"slice"}, finals: []string{"EOF"}, consMode: "all", maxPieces: 1, perLen: mainCfg},
		{name: "reader", what: "NewCASBufferFromReader.", alphabet: ab, ctors: []string{"reader"}, finals: []string{"EOF", "EIO"}, consMode: "main", maxPieces: pieces, perLen: mainCfg},
		{name: "chunk", what: "NewCASBufferFromChunkReader.", alphabet: ab, ctors: []string{"chunk"}, finals: []string{"EOF", "EIO"}, consMode: "main", maxPieces: pieces, perLen: mainCfg},
		{name: "clonestream", what: "CloneStream with every pair of consumers, on NewCASBufferFromReader and NewCASBufferFromChunkReader.", alphabet: ab, ctors: []string{"reader", "chunk"}, finals: []string{"EOF", "EIO"}, consMode: "stream", maxPieces: pieces, perLen: streamCfg},
		{name: "unexpected-eof", what: "Reader and chunk-reader constructors whose source ends with io.ErrUnexpectedEOF instead of io.EOF (truncated flate/zstd/HTTP input).", alphabet: ab, ctors: []string{"reader", "chunk"}, finals: []string{"EUNEXP"}, consMode: "main", maxPieces: pieces, perLen: unexpCfg},
		{name: "proto", what: "ToProto on all three constructors; the alphabet is chosen so that many contents are valid encodings (0x08 0x01 = field 1 varint 1) and many are not (a lone 0x08 is truncated).", alphabet: "\x08\x01", ctors: []string{"slice", "reader", "chunk"}, finals: []string{"EOF", "EIO"}, consMode: "proto", maxPieces: 2, perLen: protoCfg},
	}
	for _, p := range plans {
		if r.Want(p.name) {
			runPlan(r, p)
		}
	}
	if os.Getenv("C09_COUNT") != "" {
		os.Exit(0)
	}
	r.Finish()
}
