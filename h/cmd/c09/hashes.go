package main

// Independent computation of the eight supported digest functions. Nothing in
// here calls into /repo/pkg/digest for hashing: the standard library and the
// third-party BLAKE3 package are used directly.
//
//   - GITSHA1(x)    = SHA-1("blob " + decimal(len(x)) + "\x00" + x)  (git hash-object)
//   - SHA256TREE(x) = SHA-256(x) for len(x) <= 1024 (a single chunk has no
//     parent nodes; all contents enumerated here are <= 8 bytes)

import (
	"crypto/md5"
	"crypto/sha1"
	"crypto/sha256"
	"crypto/sha512"
	"encoding/hex"
	"sort"
	"strconv"

	remoteexecution "github.com/bazelbuild/remote-apis/build/bazel/remote/execution/v2"
	"github.com/buildbarn/bb-storage/pkg/digest"
	"github.com/zeebo/blake3"

	"verifh/ev"
)

type fnInfo struct {
	Name string
	Enum remoteexecution.DigestFunction_Value
	Sum  func(data []byte) []byte
	// Other is the name of another function with the same hash length whose
	// hash is used for the "other function" digest mutation ("" = none).
	Other string
}

var fns = []fnInfo{
	{"MD5", remoteexecution.DigestFunction_MD5, func(d []byte) []byte { h := md5.Sum(d); return h[:] }, ""},
	{"SHA1", remoteexecution.DigestFunction_SHA1, func(d []byte) []byte { h := sha1.Sum(d); return h[:] }, "GITSHA1"},
	{"SHA256", remoteexecution.DigestFunction_SHA256, func(d []byte) []byte { h := sha256.Sum256(d); return h[:] }, "BLAKE3"},
	{"SHA384", remoteexecution.DigestFunction_SHA384, func(d []byte) []byte { h := sha512.Sum384(d); return h[:] }, ""},
	{"SHA512", remoteexecution.DigestFunction_SHA512, func(d []byte) []byte { h := sha512.Sum512(d); return h[:] }, ""},
	{"BLAKE3", remoteexecution.DigestFunction_BLAKE3, func(d []byte) []byte { h := blake3.Sum256(d); return h[:] }, "SHA256"},
	{"GITSHA1", remoteexecution.DigestFunction_GITSHA1, func(d []byte) []byte {
		h := sha1.New()
		h.Write([]byte("blob " + strconv.Itoa(len(d)) + "\x00"))
		h.Write(d)
		return h.Sum(nil)
	}, "SHA1"},
	{"SHA256TREE", remoteexecution.DigestFunction_SHA256TREE, func(d []byte) []byte {
		if len(d) > 1024 {
			panic("harness: SHA256TREE reference only valid for a single chunk")
		}
		h := sha256.Sum256(d)
		return h[:]
	}, "BLAKE3"},
}

func fnByName(n string) *fnInfo {
	for i := range fns {
		if fns[i].Name == n {
			return &fns[i]
		}
	}
	ev.HarnessError("unknown digest function %q", n)
	return nil
}

// selfTestHashes checks the reference hash functions against published
// known answers and checks that the set of functions equals the set the
// repository declares as supported.
func selfTestHashes() {
	kat := []struct{ fn, in, out string }{
		{"MD5", "", "d41d8cd98f00b204e9800998ecf8427e"},
		{"MD5", "a", "0cc175b9c0f1b6a831c399e269772661"},
		{"SHA1", "", "da39a3ee5e6b4b0d3255bfef95601890afd80709"},
		{"SHA1", "abc", "a9993e364706816aba3e25717850c26c9cd0d89d"},
		{"SHA256", "", "e3b0c44298fc1c149afbf4c8996fb92427ae41e4649b934ca495991b7852b855"},
		{"SHA256", "abc", "ba7816bf8f01cfea414140de5dae2223b00361a396177a9cb410ff61f20015ad"},
		{"SHA384", "", "38b060a751ac96384cd9327eb1b1e36a21fdb71114be07434c0cc7bf63f6e1da274edebfe76f65fbd51ad2f14898b95b"},
		{"SHA512", "", "cf83e1357eefb8bdf1542850d66d8007d620e4050b5715dc83f4a921d36ce9ce47d0d13c5d85f2b0ff8318d2877eec2f63b931bd47417a81a538327af927da3e"},
		{"BLAKE3", "", "af1349b9f5f9a1a6a0404dea36dcc9499bcb25c9adc112b7cc9a93cae41f3262"},
		{"GITSHA1", "", "e69de29bb2d1d6434b8b29ae775ad8c2e48c5391"},
		{"GITSHA1", "a", "2e65efe2a145dda7ee51d1741299f848e5bf752e"},
		{"SHA256TREE", "abc", "ba7816bf8f01cfea414140de5dae2223b00361a396177a9cb410ff61f20015ad"},
	}
	for _, k := range kat {
		got := hex.EncodeToString(fnByName(k.fn).Sum([]byte(k.in)))
		if got != k.out {
			ev.HarnessError("reference %s(%q) = %s, known answer %s", k.fn, k.in, got, k.out)
		}
	}
	var mine, theirs []int
	for _, f := range fns {
		mine = append(mine, int(f.Enum))
	}
	for _, e := range digest.SupportedDigestFunctions {
		theirs = append(theirs, int(e))
	}
	sort.Ints(mine)
	sort.Ints(theirs)
	if len(mine) != len(theirs) {
		ev.HarnessError("repository supports %d digest functions, harness knows %d", len(theirs), len(mine))
	}
	for i := range mine {
		if mine[i] != theirs[i] {
			ev.HarnessError("digest function sets differ: %v vs %v", mine, theirs)
		}
	}
}

// digestSpec is one digest handed to a constructor.
type digestSpec struct {
	Fn   string `json:"fn"`
	Hash string `json:"hash"`
	Size int64  `json:"size"`
	Kind string `json:"kind"` // how it was derived from the base content
}

func (d digestSpec) build() digest.Digest {
	return digest.MustNewDigest("inst", fnByName(d.Fn).Enum, d.Hash, d.Size)
}

func flipNibble(h string, pos int) string {
	b := []byte(h)
	c := b[pos]
	// Change to a different lowercase hexadecimal digit.
	if c == 'f' {
		b[pos] = '0'
	} else if c == '9' {
		b[pos] = 'a'
	} else {
		b[pos] = c + 1
	}
	return string(b)
}

// digestsFor lists the digests derived from base content c for function f:
// the true one and the mutations.
func digestsFor(f *fnInfo, c string) []digestSpec {
	h := hex.EncodeToString(f.Sum([]byte(c)))
	n := int64(len(c))
	out := []digestSpec{{f.Name, h, n, "true"}}
	if n > 0 {
		out = append(out, digestSpec{f.Name, h, n - 1, "size-1"})
	}
	out = append(out,
		digestSpec{f.Name, h, n + 1, "size+1"},
		digestSpec{f.Name, flipNibble(h, 0), n, "first-nibble"},
		digestSpec{f.Name, flipNibble(h, len(h)-1), n, "last-nibble"},
	)
	if f.Other != "" {
		oh := hex.EncodeToString(fnByName(f.Other).Sum([]byte(c)))
		if oh != h {
			out = append(out, digestSpec{f.Name, oh, n, "hash-of-" + f.Other})
		}
	}
	return out
}
