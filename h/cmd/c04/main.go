//go:build verif

// C04 — block space is never reused while referenced, and never leaked; buffers are
// consumed or released exactly once.
//
// Oracles (all read from harness-side monitors around the REAL allocator / block list):
//   - ownership: a region handed out by NewBlock has no open reader / in-flight writer of an
//     earlier incarnation, is not held by the block list, and (persistent) is not listed in
//     the last durably written state file;
//   - pinned data: a reader opened before a rotation keeps returning the original bytes (raw,
//     non-validating read path, so an overwritten region would be SEEN);
//   - no leak: at quiescence every reader opened was closed exactly once, every upload source
//     was closed exactly once, and draining the real allocator yields exactly
//     total - (blocks still owned by the block list) free regions.
package main

import (
	"bytes"
	"context"
	"fmt"
	"io"
	"os"
	"strings"
	"time"

	"github.com/buildbarn/bb-storage/pkg/blobstore/buffer"
	"github.com/buildbarn/bb-storage/pkg/verifshim/vsched"
	"github.com/buildbarn/bb-storage/pkg/verifshim/vsync"
	"google.golang.org/grpc/codes"
	"google.golang.org/grpc/status"

	"verifh/ev"
	"verifh/lstore"
	"verifh/mc"
)

func failf(sig, format string, a ...any) { vsched.Fail(sig, format, a...) }

func firstWords(s string) string {
	// stable signature: digits replaced, first sentence, bounded length
	var b []byte
	prevHash := false
	for i := 0; i < len(s) && len(b) < 110; i++ {
		c := s[i]
		if c == '\n' || c == '(' {
			break
		}
		if c >= '0' && c <= '9' {
			if !prevHash {
				b = append(b, '#')
			}
			prevHash = true
			continue
		}
		prevHash = false
		b = append(b, c)
	}
	return string(b)
}

func monitors(s *lstore.Store) {
	if v := s.CheckMonitors(); len(v) > 0 {
		failf("monitor:"+firstWords(v[0]), "%s\nregions: %s", v[0], s.Alloc.Describe())
	}
}

func cmp(got, want int) string {
	if got < want {
		return "lost"
	}
	return "double-freed"
}

// ---- helpers -------------------------------------------------------------------------

type objs struct {
	A, B, C, F, G, H lstore.Obj
}

func universe(inst string) objs {
	return objs{
		A: lstore.CASObj("A3", inst, []byte("aaa")),
		B: lstore.CASObj("B5", inst, []byte("bbbbb")),
		C: lstore.CASObj("C8", inst, []byte("cccccccc")),
		F: lstore.CASObj("F8", inst, []byte("ffffffff")),
		G: lstore.CASObj("G8", inst, []byte("gggggggg")),
		H: lstore.CASObj("H8", inst, []byte("hhhhhhhh")),
	}
}

type env struct {
	s       *lstore.Store
	sources []*srcRec2
	cancel  context.CancelFunc
	manual  bool
}

type srcRec2 struct {
	what string
	get  func() int
}

func (e *env) put(o lstore.Obj, gate bool) error {
	err, src := e.s.Put(o.Digest, lstore.PutSpec{Chunks: [][]byte{o.Content}, Gate: gate})
	e.sources = append(e.sources, &srcRec2{what: "Put(" + o.Name + ")", get: func() int { return src.Closes }})
	return err
}

func (e *env) mustPut(o lstore.Obj) {
	if err := e.put(o, false); err != nil {
		vsched.HarnessFail("prefill Put(%s): %v", o.Name, err)
	}
}

func (e *env) finish() {
	if e.manual {
		e.s.StepSyncers(context.Background(), 8)
	} else if e.s.Geo.Persistent {
		vsched.WaitQuiescent()
	}
	s := e.s
	monitors(s)
	if s.RBF.Opened != s.RBF.Closed {
		failf("reader-leak", "%d readers were opened but %d closed after every operation returned (still open: %s)\nregions: %s", s.RBF.Opened, s.RBF.Closed, s.OpenReaders(), s.Alloc.Describe())
	}
	for _, sr := range e.sources {
		if n := sr.get(); n != 1 {
			failf(fmt.Sprintf("upload-source-closes=%d", n), "upload source of %s closed %d times (want exactly once)", sr.what, n)
		}
	}
	if s.Geo.InMemoryBlocks {
		return
	}
	if s.Geo.Persistent && s.StateStore != nil {
		// a popped block must have been handed back (judged from the allocation order, not from the list's bookkeeping)
		if n := len(s.StateStore.Written); n > 0 && !s.ReleaseWakeupReady() {
			if v := s.Alloc.PoppedNotReleased(s.StateStore.Written[n-1]); len(v) > 0 {
				failf("popped-block-never-released", "after all readers/writers finished and the syncer had nothing left to do: %s\nregions: %s", v[0], s.Alloc.Describe())
			}
		}
	}
	want := s.Geo.BlockCount() - s.Alloc.LiveInList()
	got := 0
	// Drain THROUGH the ownership monitor: every region handed out now is also checked against the last
	// durably written state file (a block released before a state file without it is durable shows here).
	inList := s.Alloc.LiveInList()
	want = s.Geo.BlockCount() - inList
	s.Alloc.FailNewBlock = 0
	for got <= s.Geo.BlockCount() {
		if _, _, err := s.Alloc.NewBlock(); err != nil {
			break
		}
		got++
	}
	monitors(s)
	vsched.Obs("free=%d inlist=%d", got, inList)
	if got != want {
		failf("capacity-"+cmp(got, want), "after all readers/writers finished (and the state file was rewritten) the allocator can hand out %d regions, expected %d (= %d total - %d owned by the block list)\nregions: %s", got, want, s.Geo.BlockCount(), inList, s.Alloc.Describe())
	}
}

func open(g lstore.Geometry) *env { return openD(g, true) }

func openD(g lstore.Geometry, daemons bool) *env {
	med := lstore.NewMedia(g)
	e := &env{manual: g.Persistent && !daemons}
	opt := lstore.OpenOptions{}
	if g.Persistent && daemons {
		ctx, cancel := context.WithCancel(context.Background())
		e.cancel = cancel
		opt.Ctx = ctx
	}
	e.s = lstore.OpenWith(g, med, opt)
	return e
}

func tolerated(err error) bool {
	c := status.Code(err)
	return c == codes.NotFound || c == codes.Unavailable || c == codes.Internal
}

// ---- scenario bodies ----------------------------------------------------------------------

// heldReader: a reader of A is held open (after its first chunk) across rotations caused by an uploader.
func heldReader(g lstore.Geometry, rotations int) func() {
	return func() {
		u := universe(instOf(g))
		e := open(g)
		e.mustPut(u.A)
		var wg vsync.WaitGroup
		wg.Add(2)
		vsched.GoNamed("reader", false, func() {
			defer wg.Done()
			r := e.s.BA.Get(context.Background(), u.A.Digest).ToChunkReader(0, 1)
			var got []byte
			for {
				c, err := r.Read()
				if err == io.EOF {
					break
				}
				if err != nil {
					vsched.Obs("reader err=%s", status.Code(err))
					if !tolerated(err) {
						failf("held-reader-error-"+status.Code(err).String(), "held reader failed: %v", err)
					}
					r.Close()
					return
				}
				got = append(got, c...)
				vsched.Yield("reader.hold")
			}
			r.Close()
			vsched.Obs("reader got=%q", got)
			if !bytes.Equal(got, u.A.Content) {
				failf("pinned-data-overwritten", "a reader opened before the rotations read %q, the object is %q: its block's region was reused while the reader was open\nregions: %s", got, u.A.Content, e.s.Alloc.Describe())
			}
		})
		vsched.GoNamed("uploader", false, func() {
			defer wg.Done()
			for i, o := range []lstore.Obj{u.C, u.F, u.G, u.H}[:rotations] {
				err := e.put(o, false)
				vsched.Obs("put%d=%s", i, status.Code(err))
				if err != nil && status.Code(err) != codes.Unavailable {
					failf("upload-error-"+status.Code(err).String(), "upload failed: %v", err)
				}
			}
		})
		wg.Wait()
		e.finish()
	}
}

// heldReaderRefresh: A was read before (so the integrity cache, when configured, serves it unvalidated) and
// has aged into an old block; a reader then obtains it (the store refreshes it through a cloned buffer: one
// clone is copied to a new block, the other is what the reader holds) and keeps it open across rotations.
func heldReaderRefresh(g lstore.Geometry, rotations int) func() {
	return func() {
		u := universe(instOf(g))
		e := open(g)
		e.mustPut(u.A)
		if d, err := e.s.Get(u.A.Digest); err != nil || !bytes.Equal(d, u.A.Content) {
			vsched.HarnessFail("first read of A: %q, %v", d, err)
		}
		e.mustPut(u.C)
		e.mustPut(u.F) // A's block is now old
		if g.Persistent {
			vsched.WaitQuiescent()
		}
		var wg vsync.WaitGroup
		wg.Add(2)
		vsched.GoNamed("reader", false, func() {
			defer wg.Done()
			r := e.s.BA.Get(context.Background(), u.A.Digest).ToChunkReader(0, 1)
			var got []byte
			for {
				c, err := r.Read()
				if err == io.EOF {
					break
				}
				if err != nil {
					vsched.Obs("reader err=%s", status.Code(err))
					if !tolerated(err) {
						failf("held-reader-error-"+status.Code(err).String(), "held reader failed: %v", err)
					}
					r.Close()
					return
				}
				got = append(got, c...)
				vsched.Yield("reader.hold")
			}
			r.Close()
			vsched.Obs("reader got=%q", got)
			if !bytes.Equal(got, u.A.Content) {
				failf("pinned-data-overwritten", "a reader that obtained A (refreshed through a cloned buffer) before the rotations read %q, the object is %q: its block's region was reused while the reader was open\nregions: %s", got, u.A.Content, e.s.Alloc.Describe())
			}
		})
		vsched.GoNamed("uploader", false, func() {
			defer wg.Done()
			for i, o := range []lstore.Obj{u.G, u.H, u.C, u.F}[:rotations] {
				err := e.put(o, false)
				vsched.Obs("put%d=%s", i, status.Code(err))
				if err != nil && status.Code(err) != codes.Unavailable {
					failf("upload-error-"+status.Code(err).String(), "upload failed: %v", err)
				}
			}
		})
		wg.Wait()
		e.finish()
	}
}

func instOf(g lstore.Geometry) string {
	if g.Hierarchical {
		return "a"
	}
	return ""
}

// refreshFaults: object A sits in an old block; one refreshing operation runs with fault injection enabled.
func refreshFaults(g lstore.Geometry, opName string, newBlockFaults, writeFaults, dirFaults int) func() {
	return func() {
		u := universe(instOf(g))
		e := open(g)
		parent := lstore.CASObj("P8", instOf(g), []byte("pppqqqqq"))
		sl := lstore.NewFixedSlicer(instOf(g), parent.Content, 3)
		first := u.A
		if opName == "GetFromComposite" {
			first = parent
		}
		e.mustPut(first)
		empty := lstore.CASObj("E0", instOf(g), []byte{})
		if opName == "GetEmptyObject" {
			e.mustPut(empty) // the empty object lives in a block like any other (it occupies no bytes of it)
		}
		e.mustPut(u.C)
		e.mustPut(u.F) // first block is now "old"
		if g.Persistent {
			vsched.WaitQuiescent()
		}
		e.s.Alloc.FailNewBlock = newBlockFaults
		e.s.Media.Data.WriteFaults = writeFaults
		e.s.Media.Dir.Faults = dirFaults
		switch opName {
		case "Get":
			d, err := e.s.Get(first.Digest)
			vsched.Obs("Get=%s", status.Code(err))
			if err == nil && !bytes.Equal(d, first.Content) {
				failf("wrong-bytes", "Get returned %q", d)
			}
		case "GetDiscard":
			e.s.BA.Get(context.Background(), first.Digest).Discard()
		case "GetReaderEarlyClose":
			r := e.s.BA.Get(context.Background(), first.Digest).ToReader()
			r.Read(make([]byte, 1))
			r.Close()
		case "GetEmptyObject":
			for i := 0; i < 2; i++ {
				d, err := e.s.Get(empty.Digest)
				vsched.Obs("GetEmpty=%s", status.Code(err))
				if err == nil && len(d) != 0 {
					failf("wrong-bytes", "Get of the empty object returned %q", d)
				}
			}
			_, err := e.s.FindMissing(empty.Digest)
			vsched.Obs("FMEmpty=%s", status.Code(err))
		case "GetTooSmall":
			// the consumer's size limit is smaller than the object: the read fails before any data is read
			_, err := e.s.BA.Get(context.Background(), first.Digest).ToByteSlice(1)
			vsched.Obs("GetTooSmall=%s", status.Code(err))
			if err == nil {
				failf("size-limit-ignored", "ToByteSlice(1) of a %d byte object succeeded", len(first.Content))
			}
			// the same on an object that needs no refresh (the store hands out the block's buffer itself)
			_, err = e.s.BA.Get(context.Background(), u.F.Digest).ToByteSlice(1)
			vsched.Obs("GetTooSmallFresh=%s", status.Code(err))
		case "GetHoldThenUseStore":
			// a caller that obtains a buffer (refresh in progress behind it) and talks to the store again before
			// consuming it: the refresh must not hold anything the store needs while it waits for the consumer
			b := e.s.BA.Get(context.Background(), first.Digest)
			_, err2 := e.s.Get(u.F.Digest)
			_, err3 := e.s.FindMissing(u.C.Digest)
			err4 := e.put(u.B, false)
			d, err := b.ToByteSlice(100)
			vsched.Obs("GetHold=%s then Get=%s FM=%s Put=%s", status.Code(err), status.Code(err2), status.Code(err3), status.Code(err4))
			if err == nil && !bytes.Equal(d, first.Content) {
				failf("wrong-bytes", "held Get returned %q", d)
			}
		case "GetCloneCopy":
			b1, b2 := e.s.BA.Get(context.Background(), first.Digest).CloneCopy(1)
			_, err1 := b1.ToByteSlice(100)
			_, err2 := b2.ToByteSlice(100)
			vsched.Obs("GetCloneCopy=%s,%s", status.Code(err1), status.Code(err2))
		case "FindMissing":
			_, err := e.s.FindMissing(first.Digest, u.B.Digest)
			vsched.Obs("FM=%s", status.Code(err))
		case "GetFromComposite":
			d, err := e.s.GetFromComposite(parent.Digest, sl.Pieces[1].Digest, sl)
			vsched.Obs("GFC=%s", status.Code(err))
			if err == nil && !bytes.Equal(d, parent.Content[3:]) {
				failf("wrong-bytes", "GetFromComposite returned %q", d)
			}
		case "Put":
			err := e.put(u.G, false)
			vsched.Obs("Put=%s", status.Code(err))
		case "PutThenGet":
			err := e.put(u.B, false)
			vsched.Obs("Put=%s", status.Code(err))
			_, err = e.s.Get(first.Digest)
			vsched.Obs("Get=%s", status.Code(err))
		}
		e.s.Alloc.FailNewBlock = 0
		e.s.Media.Data.WriteFaults = 0
		e.s.Media.Dir.Faults = 0
		// A few more rotations: a leaked reference shows as lost capacity only now.
		for _, o := range []lstore.Obj{u.G, u.H} {
			err := e.put(o, false)
			vsched.Obs("post-put=%s", status.Code(err))
		}
		e.finish()
	}
}

// mixed: two concurrent refreshing reads of the same old object plus an upload, with a fault budget.
func mixed(g lstore.Geometry, newBlockFaults int) func() {
	return func() {
		u := universe(instOf(g))
		e := open(g)
		e.mustPut(u.A)
		e.mustPut(u.C)
		e.mustPut(u.F)
		if g.Persistent {
			vsched.WaitQuiescent()
		}
		e.s.Alloc.FailNewBlock = newBlockFaults
		var wg vsync.WaitGroup
		run := func(name string, f func()) {
			wg.Add(1)
			vsched.GoNamed(name, false, func() { defer wg.Done(); f() })
		}
		run("get", func() {
			d, err := e.s.Get(u.A.Digest)
			vsched.Obs("Get=%s", status.Code(err))
			if err == nil && !bytes.Equal(d, u.A.Content) {
				failf("wrong-bytes", "Get returned %q", d)
			}
		})
		run("fm", func() {
			_, err := e.s.FindMissing(u.A.Digest)
			vsched.Obs("FM=%s", status.Code(err))
		})
		run("put", func() {
			err := e.put(u.G, true)
			vsched.Obs("Put=%s", status.Code(err))
		})
		wg.Wait()
		e.s.Alloc.FailNewBlock = 0
		err := e.put(u.H, false)
		vsched.Obs("post=%s", status.Code(err))
		e.finish()
	}
}

// heldWriter: an upload that ends in the middle of a sector (its last sector is written by a final
// flush) is in flight, gated at every device write, while another uploader rotates blocks: the region
// of the writer's block must not be handed out before that writer has finished.
func heldWriter(g lstore.Geometry, rot int) func() {
	return func() {
		u := universe(instOf(g))
		e := open(g)
		var wg vsync.WaitGroup
		wg.Add(2)
		vsched.GoNamed("writer", false, func() {
			defer wg.Done()
			err, src := e.s.Put(u.B.Digest, lstore.PutSpec{Chunks: [][]byte{u.B.Content[:2], u.B.Content[2:]}, Gate: true})
			e.sources = append(e.sources, &srcRec2{what: "Put(B5)", get: func() int { return src.Closes }})
			vsched.Obs("writer=%s", status.Code(err))
		})
		vsched.GoNamed("rotator", false, func() {
			defer wg.Done()
			for i, o := range []lstore.Obj{u.C, u.F, u.G, u.H}[:rot] {
				err := e.put(o, false)
				vsched.Obs("rot%d=%s", i, status.Code(err))
				monitors(e.s)
			}
		})
		wg.Wait()
		monitors(e.s)
		// whatever the index still resolves must read back intact (raw read path)
		for _, o := range []lstore.Obj{u.B, u.C, u.F, u.G, u.H}[:rot+1] {
			if !e.s.Held(o.Digest) {
				continue
			}
			d, err := e.s.Get(o.Digest)
			if err == nil && !bytes.Equal(d, o.Content) {
				failf("acknowledged-object-overwritten", "%s reads back as %q: its region was written by someone else\nregions: %s", o.Name, d, e.s.Alloc.Describe())
			}
		}
		e.finish()
	}
}

// hierTwoNames: the same object uploaded under two instance names, aged into an old block; every
// sequence of reads / existence checks under either name (refresh by copy, then refresh by syncing
// from the canonical entry) and uploads; no reader may stay open, no capacity may be lost.
func hierTwoNames(g lstore.Geometry, depth int) func() {
	return func() {
		e := open(g)
		ax := lstore.CASObj("A3@x", "x", []byte("aaa"))
		ay := lstore.CASObj("A3@y", "y", []byte("aaa"))
		e.mustPut(ax)
		vsched.Obs("after put x: x held=%v y held=%v", e.s.Held(ax.Digest), e.s.Held(ay.Digest))
		e.mustPut(ay)
		vsched.Obs("after put y: x held=%v y held=%v", e.s.Held(ax.Digest), e.s.Held(ay.Digest))
		fill := 0
		filler := func() {
			fill++
			o := lstore.CASObj("F", "z", []byte(fmt.Sprintf("fil%05d", fill)))
			err := e.put(o, false)
			vsched.Obs("F=%s", status.Code(err))
		}
		filler()
		filler()
		for i := 0; i < depth; i++ {
			k := vsched.ChooseFree("choice", 5)
			switch k {
			case 0, 1:
				o := []lstore.Obj{ax, ay}[k]
				d, err := e.s.Get(o.Digest)
				vsched.Obs("G%d=%s", k, status.Code(err))
				if err == nil && !bytes.Equal(d, o.Content) {
					failf("wrong-bytes", "Get = %q", d)
				}
			case 2, 3:
				o := []lstore.Obj{ax, ay}[k-2]
				_, err := e.s.FindMissing(o.Digest)
				vsched.Obs("FM%d=%s", k-2, status.Code(err))
			default:
				filler()
			}
			vsched.Obs("state: x old=%v held=%v, y old=%v held=%v, opened=%d", e.s.NeedsRefresh(ax.Digest), e.s.Held(ax.Digest), e.s.NeedsRefresh(ay.Digest), e.s.Held(ay.Digest), e.s.RBF.Opened)
			if os.Getenv("C04_DEBUG") != "" && i == depth-1 {
				failf("debug", "dump")
			}
			monitors(e.s)
			if e.s.RBF.Opened != e.s.RBF.Closed {
				failf("reader-leak", "after operation %d: %d readers opened, %d closed (still open: %s)", i, e.s.RBF.Opened, e.s.RBF.Closed, e.s.OpenReaders())
			}
		}
		e.finish()
	}
}

// rotations: one uploader performs n block-sized uploads (several PopFronts in a row) while both syncer
// loops run free: a pop can land between GetPersistentState and NotifyPersistentStateWritten of an
// in-flight state write. The ownership monitor checks every NewBlock against the last durable state file.
func rotations(g lstore.Geometry, n int) func() {
	return func() {
		e := open(g)
		in := instOf(g)
		for i := 0; i < n; i++ {
			if i == 3 {
				// let the first blocks be committed (data sync + state file) so that the state file lists them
				vsched.WaitQuiescent()
			}
			o := lstore.CASObj(fmt.Sprintf("R%d", i), in, []byte(fmt.Sprintf("rot%05d", i)))
			err := e.put(o, false)
			vsched.Obs("put%d=%s", i, status.Code(err))
			if err != nil && status.Code(err) != codes.Unavailable {
				failf("upload-error-"+status.Code(err).String(), "upload failed: %v", err)
			}
			monitors(e.s)
		}
		e.finish()
	}
}

// rotationsDuringCommit: like rotations, but the uploads that pop committed blocks are issued while a commit
// (data sync + state write of ProcessBlockPut) is in flight, so that the two syncer loops overlap: the
// release loop extracts its state while the put loop is between extracting and acknowledging its own.
func rotationsDuringCommit(g lstore.Geometry, n int) func() {
	return func() {
		e := open(g)
		in := instOf(g)
		for i := 0; i < n; i++ {
			if i == 3 {
				vsched.WaitQuiescent()
			}
			if i == 4 {
				// upload 3 armed the put loop's timer; wait (virtual time passes) until its data sync has been issued
				before := e.s.Media.Data.Syncs
				vsched.Block("await-commit-in-flight", false, func() bool { return e.s.Media.Data.Syncs > before })
			}
			o := lstore.CASObj(fmt.Sprintf("R%d", i), in, []byte(fmt.Sprintf("rot%05d", i)))
			err := e.put(o, false)
			vsched.Obs("put%d=%s", i, status.Code(err))
			if err != nil && status.Code(err) != codes.Unavailable {
				failf("upload-error-"+status.Code(err).String(), "upload failed: %v", err)
			}
			monitors(e.s)
		}
		e.finish()
	}
}

// longSeq: every sequence of block-sized uploads / reads / existence checks of the given depth with a NewBlock fault budget.
func longSeq(g lstore.Geometry, depth, faults int) func() {
	return func() {
		u := universe(instOf(g))
		e := openD(g, false)
		e.s.Alloc.FailNewBlock = faults
		all := []lstore.Obj{u.A, u.C, u.F, u.G}
		nops := 8
		if g.Persistent {
			nops = 10
		}
		for i := 0; i < depth; i++ {
			k := vsched.ChooseFree("choice", nops)
			switch {
			case k == 9:
				// the process ends here (nothing is held open between operations) and the store is started
				// again on the same media: restored blocks own their regions again
				monitors(e.s)
				e.s = e.s.Restart(g)
				vsched.Obs("restart=%d", e.s.InitialBlocks)
			case k == 8:
				n := e.s.StepSyncers(context.Background(), 1)
				vsched.Obs("sync=%d", n)
			case k == 7:
				_, err := e.s.BA.Get(context.Background(), u.C.Digest).ToByteSlice(1)
				vsched.Obs("GS=%s", status.Code(err))
			case k < 4:
				err := e.put(all[k], false)
				vsched.Obs("P%d=%s", k, status.Code(err))
			case k == 4:
				_, err := e.s.Get(u.A.Digest)
				vsched.Obs("G=%s", status.Code(err))
			case k == 5:
				_, err := e.s.FindMissing(u.A.Digest, u.C.Digest)
				vsched.Obs("FM=%s", status.Code(err))
			default:
				b := e.s.BA.Get(context.Background(), u.C.Digest)
				b1, b2 := b.CloneStream()
				var wg vsync.WaitGroup
				wg.Add(1)
				vsched.GoNamed("clone", false, func() { defer wg.Done(); b2.Discard() })
				_, err := b1.ToByteSlice(100)
				wg.Wait()
				vsched.Obs("GC=%s", status.Code(err))
			}
			monitors(e.s)
		}
		e.s.Alloc.FailNewBlock = 0
		e.finish()
	}
}

var _ = buffer.UserProvided
var _ = time.Second

func main() {
	r := ev.Start("C04")
	r.Rule("vsched: every schedule within the deviation bound, where injected allocation / device-write / state-write failures are choice points of the same search (each costs one deviation); long sequential histories enumerate every operation sequence; non-trivial = executions in which a thread waited or a fault was injected")
	r.Assume("region ownership is judged by an independent monitor wrapped around the real BlockAllocator/Block objects and the ReadBufferFactory")

	base := lstore.Geometry{SectorSize: 4, SectorsPerBlock: 2, Old: 1, Current: 1, New: 1, Spare: 1, IndexSlots: 127, GetAttempts: 16, PutAttempts: 64, RawReads: true, DataGates: true,
		MinEpochInterval: 10 * time.Second, ErrorRetry: 3 * time.Second}
	bound := ev.Pick(r, 2, 3)
	budget := time.Duration(ev.Pick(r, 40, 400)) * time.Second
	var scs []mc.Scenario
	add := func(name, space string, g lstore.Geometry, bnd int, body func()) {
		scs = append(scs, mc.Scenario{Name: name, Space: space + " on " + g.String(), Bound: bnd, Body: body, Budget: budget, MaxSteps: 40000})
	}
	for _, pers := range []bool{false, true} {
		for _, spare := range []int{0, 1, 2} {
			g := base
			g.Persistent, g.Spare = pers, spare
			rot := 3
			add(fmt.Sprintf("held-reader/pers=%v-spare=%d", pers, spare), fmt.Sprintf("reader of A3 held open across %d block-sized uploads (rotations)", rot), g, bound, heldReader(g, rot))
		}
	}
	for _, cache := range []bool{false, true} {
		for _, hier := range []bool{false, true} {
			g := base
			g.Hierarchical, g.Spare = hier, 1
			if hier {
				g.New = 2
			}
			if cache {
				g.RawReads, g.IntegrityCache = false, true
			}
			add(fmt.Sprintf("held-reader-refresh/hier=%v-cache=%v", hier, cache), "A read once, aged into an old block, then obtained again (refresh through a cloned buffer) and held open across 3 block-sized uploads; cache=true: validating CAS buffers behind the data integrity validation cache, so the second read is unvalidated", g, bound, heldReaderRefresh(g, 3))
		}
	}
	fb := ev.Pick(r, 1, 2)
	for _, hier := range []bool{false, true} {
		for _, pers := range []bool{false, true} {
			for _, opn := range []string{"Get", "GetDiscard", "GetReaderEarlyClose", "GetTooSmall", "GetEmptyObject", "GetCloneCopy", "GetHoldThenUseStore", "FindMissing", "GetFromComposite", "Put", "PutThenGet", "validating:Get", "validating:GetHoldThenUseStore", "validating:GetEmptyObject", "validating:GetDiscard", "validating:GetReaderEarlyClose", "validating:GetTooSmall", "validating:GetCloneCopy", "validating:GetFromComposite"} {
				g := base
				g.Hierarchical, g.Persistent = hier, pers
				if strings.HasPrefix(opn, "validating:") {
					// the checksum-validating CAS buffers (casReaderBuffer) instead of the raw read path
					if pers {
						continue
					}
					g.RawReads = false
				}
				if hier {
					g.New = 2
				}
				g.DataGates = false
				nbf, wf, df := fb, fb, 0
				if pers {
					df = fb
				}
				add(fmt.Sprintf("refresh-faults/hier=%v-pers=%v-%s", hier, pers, opn), fmt.Sprintf("object in an old block, then %s with up to %d allocation, %d device-write and %d state-write failures injected at every possible point, then two more rotations", opn, nbf, wf, df), g, ev.Pick(r, 2, 3), refreshFaults(g, strings.TrimPrefix(opn, "validating:"), nbf, wf, df))
			}
		}
	}
	for _, hier := range []bool{false, true} {
		g := base
		g.Hierarchical = hier
		if hier {
			g.New = 2
		}
		add(fmt.Sprintf("mixed/hier=%v", hier), "Get(A) || FindMissing(A) || Put(G) with A in an old block and 1 allocation failure", g, bound, mixed(g, 1))
	}
	for _, pers := range []bool{false, true} {
		for _, spare := range []int{0, 1} {
			g := base
			g.Persistent, g.Spare = pers, spare
			add(fmt.Sprintf("held-writer/pers=%v-spare=%d", pers, spare), "upload of B5 (ends mid-sector; every device write a gate) || 4 block-sized uploads rotating its block away", g, bound, heldWriter(g, 4))
		}
	}
	for _, pers := range []bool{false, true} {
		g := base
		g.Hierarchical, g.New, g.Persistent, g.DataGates = true, 2, pers, false
		g.Old, g.Spare = 2, 2 // refreshing under one name must not evict the old copy the other name still points to
		d := ev.Pick(r, 4, 6)
		add(fmt.Sprintf("hier-two-names/pers=%v", pers), fmt.Sprintf("one object uploaded under two instance names and aged into an old block, then every sequence of %d operations over {Get under x, Get under y, FindMissing under x, under y, block-sized upload}", d), g, 0, hierTwoNames(g, d))
	}
	for _, spare := range []int{2, 3} {
		g := base
		g.Persistent, g.Spare, g.DataGates = true, spare, false
		add(fmt.Sprintf("rotations/spare=%d", spare), "3 block-sized uploads, commit, 5 more block-sized uploads in a row (PopFronts of committed blocks) || both syncer loops; every Release and NewBlock is checked against the last durably written state file", g, bound, rotations(g, 8))
	}
	for _, spare := range []int{2, 3} {
		g := base
		g.Persistent, g.Spare, g.DataGates = true, spare, false
		add(fmt.Sprintf("rotations-during-commit/spare=%d", spare), "3 block-sized uploads, commit, 1 upload, then 3 more block-sized uploads (PopFronts of committed blocks) issued while the put loop's next commit is in flight || both syncer loops; every Release and NewBlock is checked against the last durably written state file", g, bound, rotationsDuringCommit(g, 7))
	}
	depth := ev.Pick(r, 5, 6)
	for _, hier := range []bool{false, true} {
		g := base
		g.Hierarchical, g.DataGates, g.RawReads = hier, false, false
		if hier {
			g.New = 2
		}
		add(fmt.Sprintf("long-seq/hier=%v-validating", hier), fmt.Sprintf("every sequence of %d operations over {Put A3/C8/F8/G8, Get A, FindMissing, Get+CloneStream C, Get C with a too small size limit} on checksum-validating CAS buffers with <=1 injected allocation failure, exact free-region count at the end", depth), g, 1, longSeq(g, depth, 1))
	}
	for _, hier := range []bool{false, true} {
		for _, pers := range []bool{false, true} {
			g := base
			g.Hierarchical, g.Persistent, g.DataGates = hier, pers, false
			if hier {
				g.New = 2
			}
			add(fmt.Sprintf("long-seq/hier=%v-pers=%v", hier, pers), fmt.Sprintf("every sequence of %d operations over {Put A3/C8/F8/G8, Get A, FindMissing, Get+CloneStream C, Get C with a too small size limit; persistent: one step of the syncer loops, restart on the same media} with <=1 injected allocation failure, exact free-region count at the end", depth), g, 1, longSeq(g, depth, 1))
		}
	}
	mc.Run(r, scs)
	r.Finish()
}
