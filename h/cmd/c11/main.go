//go:build verif

// C11 — mirrored storage: writes reach both replicas, reads repair, errors are not masked.
//
// The real mirrored.NewMirroredBlobAccess over two replicas and the real replicators. For every
// initial placement of two objects ({A, B, both, neither}^2), every operation sequence of the
// stated depth over {Get, GetFromComposite, FindMissing of each subset, Put}, every replicator
// strategy {local, deduplicating(local), concurrency-limiting(local)} and replica kind {model map,
// real local store whose objects sit in an OLD block (so Get returns a refresh-in-progress buffer:
// a stream clone with a background task)}: all schedules of the internal errgroups and every
// placement of injected replica failures (INTERNAL / UNAVAILABLE) within the deviation bound.
package main

import (
	"bytes"
	"context"
	"fmt"
	"strings"
	"time"

	"github.com/buildbarn/bb-storage/pkg/blobstore"
	"github.com/buildbarn/bb-storage/pkg/blobstore/mirrored"
	"github.com/buildbarn/bb-storage/pkg/blobstore/replication"
	"github.com/buildbarn/bb-storage/pkg/blobstore/slicing"
	"github.com/buildbarn/bb-storage/pkg/digest"
	"github.com/buildbarn/bb-storage/pkg/eviction"
	replicator_pb "github.com/buildbarn/bb-storage/pkg/proto/replicator"
	"github.com/buildbarn/bb-storage/pkg/verifshim/vsched"
	"github.com/buildbarn/bb-storage/pkg/verifshim/vsemaphore"
	"github.com/buildbarn/bb-storage/pkg/verifshim/vsync"
	"google.golang.org/grpc"
	"google.golang.org/grpc/codes"
	"google.golang.org/grpc/status"

	"google.golang.org/protobuf/proto"

	"verifh/ev"
	"verifh/lstore"
	"verifh/mc"
	"verifh/sim"
)

func failf(sig, format string, a ...any) { vsched.Fail(sig, format, a...) }

// Z is the empty object (it has a digest like any other, and "nothing to copy" is not "nothing to do").
var objContents = [][]byte{[]byte("xxxyy"), {}}

type replica struct {
	name   string
	ba     blobstore.BlobAccess
	model  *sim.ModelBlobAccess
	store  *lstore.Store
	faults *int
	seen   *[]codes.Code
}

func (r *replica) has(d digest.Digest) bool {
	if r.model != nil {
		return r.model.Has(d)
	}
	return r.store.Held(d)
}

// faulty wraps a BlobAccess: every call is a scheduling gate and may fail with an injected error.
type faulty struct {
	blobstore.BlobAccess
	name   string
	budget *int
	seen   *[]codes.Code
	where  *[]string // per injected failure: "<replica name>/<operation>"
	// lossy (model replicas only): while a read through the mirror is in progress, an upload this replica
	// accepted may be gone again right away (evicted, dropped) - recorded as an injected failure of code DATA_LOSS
	model *sim.ModelBlobAccess
	inGet *bool
}

func (f *faulty) inject(op string) error {
	vsched.Yield("replica." + op)
	if *f.budget > 0 {
		switch vsched.Choose("fault", 3) {
		case 1:
			*f.budget--
			*f.seen = append(*f.seen, codes.Internal)
			if f.where != nil {
				*f.where = append(*f.where, f.name+"/"+op)
			}
			return status.Errorf(codes.Internal, "injected failure of %s during %s", f.name, op)
		case 2:
			*f.budget--
			*f.seen = append(*f.seen, codes.Unavailable)
			if f.where != nil {
				*f.where = append(*f.where, f.name+"/"+op)
			}
			return status.Errorf(codes.Unavailable, "injected failure of %s during %s", f.name, op)
		}
	}
	return nil
}

type errBuf struct{}

func (f *faulty) Get(ctx context.Context, d digest.Digest) (b bufferT) {
	if err := f.inject("Get"); err != nil {
		return newErr(err)
	}
	return f.BlobAccess.Get(ctx, d)
}

func (f *faulty) GetFromComposite(ctx context.Context, p, c digest.Digest, s slicing.BlobSlicer) bufferT {
	if err := f.inject("GetFromComposite"); err != nil {
		return newErr(err)
	}
	return f.BlobAccess.GetFromComposite(ctx, p, c, s)
}

func (f *faulty) Put(ctx context.Context, d digest.Digest, b bufferT) error {
	if err := f.inject("Put"); err != nil {
		b.Discard()
		return err
	}
	err := f.BlobAccess.Put(ctx, d, b)
	if err == nil && f.model != nil && f.inGet != nil && *f.inGet && *f.budget > 0 && vsched.Choose("accepted upload lost again", 2) == 1 {
		*f.budget--
		*f.seen = append(*f.seen, codes.DataLoss)
		if f.where != nil {
			*f.where = append(*f.where, f.name+"/Put(lost)")
		}
		f.model.Remove(d)
	}
	return err
}

func (f *faulty) FindMissing(ctx context.Context, ds digest.Set) (digest.Set, error) {
	if err := f.inject("FindMissing"); err != nil {
		return digest.EmptySet, err
	}
	return f.BlobAccess.FindMissing(ctx, ds)
}

type world struct {
	a, b   *replica
	m      blobstore.BlobAccess
	objs   []lstore.Obj
	slicer *lstore.FixedSlicer
	gets   int // number of round-consuming calls so far
	budget int
	seen   []codes.Code
	where  []string
	local  bool
	inGet  bool // a Get / GetFromComposite through the mirror is in progress
	remote bool // "remote" strategy: instance-aware model replicas, Z under another instance name
}

// inprocConn is the client connection of the remote replicator: the one RPC it issues is dispatched, in the calling
// thread, to the repository's own ReplicatorServer over a local replicator (no transport, so that the scheduler owns
// every step; gRPC's marshalling is not part of this property).
type inprocConn struct{ srv replicator_pb.ReplicatorServer }

func (c inprocConn) Invoke(ctx context.Context, method string, args, reply any, opts ...grpc.CallOption) error {
	if method != replicator_pb.Replicator_ReplicateBlobs_FullMethodName {
		vsched.HarnessFail("remote replicator invoked unexpected method %s", method)
	}
	resp, err := c.srv.ReplicateBlobs(ctx, proto.Clone(args.(proto.Message)).(*replicator_pb.ReplicateBlobsRequest))
	if err != nil {
		return err
	}
	proto.Merge(reply.(proto.Message), resp)
	return nil
}

func (c inprocConn) NewStream(ctx context.Context, desc *grpc.StreamDesc, method string, opts ...grpc.CallOption) (grpc.ClientStream, error) {
	vsched.HarnessFail("remote replicator opened a stream %s", method)
	return nil, nil
}

func newReplica(name string, local bool, w *world) *replica {
	r := &replica{name: name}
	if local {
		g := lstore.Geometry{SectorSize: 4, SectorsPerBlock: 4, Old: 2, Current: 1, New: 1, Spare: 3, IndexSlots: 127, GetAttempts: 16, PutAttempts: 64}
		r.store = lstore.Open(g, lstore.NewMedia(g))
		r.ba = &faulty{BlobAccess: r.store.BA, name: name, budget: &w.budget, seen: &w.seen, where: &w.where}
	} else {
		kf := digest.KeyWithoutInstance
		if w.remote {
			kf = digest.KeyWithInstance
		}
		r.model = sim.NewModel(name, kf)
		r.ba = &faulty{BlobAccess: r.model, name: name, budget: &w.budget, seen: &w.seen, where: &w.where, model: r.model, inGet: &w.inGet}
	}
	return r
}

func (r *replica) place(o lstore.Obj) {
	if r.model != nil {
		r.model.Store(o.Digest, o.Content)
		return
	}
	if err := r.store.PutOK(o.Digest, o.Content); err != nil {
		vsched.HarnessFail("placement: %v", err)
	}
}

// age pushes the placed objects of a local replica into an old block (so that reading them
// returns a refresh-in-progress buffer) without evicting them.
func (r *replica) age(placed []lstore.Obj) {
	if r.store == nil || len(placed) == 0 {
		return
	}
	for i := 0; ; i++ {
		all := true
		for _, o := range placed {
			if !r.store.Held(o.Digest) {
				vsched.HarnessFail("aging evicted %s", o.Name)
			}
			if !r.store.NeedsRefresh(o.Digest) {
				all = false
			}
		}
		if all {
			return
		}
		if i > 8 {
			vsched.HarnessFail("could not age the objects into an old block")
		}
		o := lstore.CASObj("F", "", []byte(fmt.Sprintf("filler-%s-%05d!!", r.name[len(r.name)-1:], i))[:16])
		if err := r.store.PutOK(o.Digest, o.Content); err != nil {
			vsched.HarnessFail("aging: %v", err)
		}
	}
}

// mkReplicator wires the strategy by hand (configured == false) or lets the repository's own
// NewBlobReplicatorFromConfiguration do it (the choice is a free choice of every execution).
func mkReplicator(kind string, source, sink blobstore.BlobAccess, configured bool) replication.BlobReplicator {
	if configured {
		r, err := lstore.ConfiguredReplicator(kind, source, sink, digest.KeyWithoutInstance, 4, time.Minute)
		if err != nil {
			vsched.HarnessFail("NewBlobReplicatorFromConfiguration(%s): %v", kind, err)
		}
		return r
	}
	base := replication.NewLocalBlobReplicator(source, sink)
	switch kind {
	case "remote":
		return replication.NewRemoteBlobReplicator(source, inprocConn{replication.NewReplicatorServer(base)})
	case "dedup":
		return replication.NewDeduplicatingBlobReplicator(base, sink, digest.KeyWithoutInstance)
	case "limit":
		return replication.NewConcurrencyLimitingBlobReplicator(base, sink, vsemaphore.NewWeighted(1))
	case "queued":
		// remembers (for a minute of virtual time, which never passes here) what it has replicated
		ec := digest.NewExistenceCache(lstore.VClock{}, digest.KeyWithoutInstance, 4, time.Minute, eviction.NewLRUSet[string]())
		return replication.NewQueuedBlobReplicator(source, base, ec)
	}
	return base
}

func newWorld(local bool, repl string, placement int, wiringChoice bool) *world {
	w := &world{local: local, remote: repl == "remote"}
	w.a = newReplica("replica A", local, w)
	w.b = newReplica("replica B", local, w)
	if repl == "queued" {
		// The queued replicator remembers, for its cache duration, what it has copied and skips those objects: with
		// a replica that loses accepted copies a later existence check legitimately stays unsynchronised, so the
		// "accepted upload lost again" fault is not offered with this strategy.
		for _, rp := range []*replica{w.a, w.b} {
			if f, ok := rp.ba.(*faulty); ok {
				f.model = nil
			}
		}
	}
	parent := lstore.CASObj("X", "", objContents[0])
	w.slicer = lstore.NewFixedSlicer("", parent.Content, 3)
	zInstance := ""
	if w.remote {
		// replicas that tell instance names apart, and a second object under another instance name: an
		// existence check over {X, Z} spans two instance names
		zInstance = "j"
	}
	w.objs = []lstore.Obj{parent, lstore.CASObj("Z", zInstance, objContents[1])}
	var pa, pb []lstore.Obj
	for i, o := range w.objs {
		p := (placement >> (2 * i)) & 3
		if p&1 != 0 {
			w.a.place(o)
			pa = append(pa, o)
		}
		if p&2 != 0 {
			w.b.place(o)
			pb = append(pb, o)
		}
	}
	w.a.age(pa)
	w.b.age(pb)
	// sequential scenarios on model replicas: hand-wired or configuration-built replicators (free choice);
	// local-store replicas and the concurrent scenarios (many executions): always the configuration-built ones
	configured := repl != "remote" && (!wiringChoice || vsched.ChooseFree("replicators built by NewBlobReplicatorFromConfiguration", 2) == 1)
	w.m = mirrored.NewMirroredBlobAccess(w.a.ba, w.b.ba, mkReplicator(repl, w.a.ba, w.b.ba, configured), mkReplicator(repl, w.b.ba, w.a.ba, configured))
	return w
}

func (w *world) first() *replica {
	w.gets++
	if w.gets%2 == 1 {
		return w.a
	}
	return w.b
}

func named(err error) bool {
	return strings.Contains(err.Error(), "Backend A") || strings.Contains(err.Error(), "Backend B") || strings.Contains(err.Error(), "backend A") || strings.Contains(err.Error(), "backend B")
}

// checkErr validates an error surfaced while faults were injected during the operation.
func (w *world) checkErr(op string, err error, faultsBefore int) {
	injected := w.seen[faultsBefore:]
	c := status.Code(err)
	if len(injected) == 0 {
		failf(op+":error-without-cause-"+c.String(), "%s failed with %v although no replica failure was injected during it", op, err)
	}
	ok := false
	for _, ic := range injected {
		if ic == c {
			ok = true
		}
	}
	if !ok {
		failf(op+":replica-failure-masked-as-"+c.String(), "%s failed with code %s; the injected replica failures had codes %v (error: %v)", op, c, injected, err)
	}
	if !named(err) {
		failf(op+":error-does-not-name-replica", "%s: error %q does not name the replica", op, err.Error())
	}
}

func (w *world) get(i int, composite bool) {
	o := w.objs[i]
	hadA, hadB := w.a.has(o.Digest), w.b.has(o.Digest)
	first := w.first()
	fb := len(w.seen)
	var data []byte
	var err error
	want := o.Content
	ctx := context.Background()
	w.inGet = true
	defer func() { w.inGet = false }()
	if composite {
		child := w.slicer.Pieces[1]
		want = o.Content[child.OffsetBytes:]
		data, err = w.m.GetFromComposite(ctx, o.Digest, child.Digest, w.slicer).ToByteSlice(100)
	} else {
		data, err = w.m.Get(ctx, o.Digest).ToByteSlice(100)
	}
	vsched.Obs("Get%v(%s) first=%s had=%v/%v -> %s", composite, o.Name, first.name, hadA, hadB, status.Code(err))
	faulted := len(w.seen) > fb
	w.inGet = false
	lost := false
	for _, c := range w.seen[fb:] {
		if c == codes.DataLoss {
			lost = true
		}
	}
	if lost {
		// The replica that was being repaired accepted the copy and lost it again. The read may still deliver the
		// object or fail - but a replica holds the object, so the answer is never NOT_FOUND, and never other bytes.
		if err == nil && !bytes.Equal(data, want) {
			failf("get:wrong-bytes", "Get(%s) = %q want %q", o.Name, data, want)
		}
		if status.Code(err) == codes.NotFound {
			failf("get:lost-repair-copy-reported-as-NOT_FOUND", "Get(%s): replica A held it: %v, replica B held it: %v; the repaired replica lost the copy again and the read answered %v", o.Name, hadA, hadB, err)
		}
		return
	}
	if err == nil {
		if !hadA && !hadB {
			failf("get:success-from-nowhere", "Get(%s) succeeded although neither replica held the object", o.Name)
		}
		if !bytes.Equal(data, want) {
			failf("get:wrong-bytes", "Get(%s) = %q want %q", o.Name, data, want)
		}
		if !first.has(o.Digest) && !(w.local && first.store.IndexDiscards() > 0) {
			failf("get:first-replica-not-repaired", "Get(%s) succeeded but %s (consulted first, lacking the object: %v) still does not hold it", o.Name, first.name, !map[*replica]bool{w.a: hadA, w.b: hadB}[first])
		}
		vsched.Mark()
		return
	}
	if !faulted {
		if hadA || hadB {
			failf("get:fails-although-a-replica-holds-it-"+status.Code(err).String(), "Get(%s) failed with %v although replica A holds it: %v, replica B holds it: %v and no failure was injected", o.Name, err, hadA, hadB)
		}
		if status.Code(err) != codes.NotFound {
			failf("get:absent-object-error-"+status.Code(err).String(), "Get(%s) of an object neither replica holds failed with %v (want NOT_FOUND)", o.Name, err)
		}
		return
	}
	if status.Code(err) == codes.NotFound && !(hadA || hadB) {
		return // genuinely absent; the injected failure did not matter (e.g. it hit ... nothing)
	}
	w.checkErr("get", err, fb)
}

func (w *world) put(i int) {
	o := w.objs[i]
	fb := len(w.seen)
	chunks := [][]byte{o.Content}
	if len(o.Content) > 1 {
		chunks = [][]byte{o.Content[:1], o.Content[1:]}
	}
	src := sim.NewSource(sim.Script{Chunks: chunks})
	src.Gate = func() { vsched.Yield("upload.Read") }
	err := w.m.Put(context.Background(), o.Digest, newCASReaderBuffer(o.Digest, src))
	vsched.Obs("Put(%s) -> %s", o.Name, status.Code(err))
	if src.Closes != 1 {
		failf(fmt.Sprintf("put:source-closes=%d", src.Closes), "Put(%s): upload source closed %d times", o.Name, src.Closes)
	}
	if err == nil {
		if len(w.seen) > fb {
			failf("put:success-despite-replica-failure", "Put(%s) returned nil although a replica failure (%v) was injected during it", o.Name, w.seen[fb:])
		}
		if !w.a.has(o.Digest) || !w.b.has(o.Digest) {
			failf("put:not-in-both-replicas", "Put(%s) succeeded but replica A holds it: %v, replica B holds it: %v", o.Name, w.a.has(o.Digest), w.b.has(o.Digest))
		}
		vsched.Mark()
		return
	}
	w.checkErr("put", err, fb)
	// An upload involves no repair copy: the replica whose Put failed is the one the error must name.
	for _, wh := range w.where[fb:] {
		if strings.HasSuffix(wh, "/Put") {
			want := "Backend " + strings.TrimPrefix(strings.TrimSuffix(wh, "/Put"), "replica ")
			if !strings.Contains(err.Error(), want) {
				failf("put:error-names-the-wrong-replica", "Put(%s): the upload to %s failed, but the error names another replica: %q", o.Name, strings.TrimSuffix(wh, "/Put"), err.Error())
			}
		}
	}
}

func (w *world) findMissing(mask int) {
	var ds []digest.Digest
	var asked []lstore.Obj
	for i, o := range w.objs {
		if mask&(1<<i) != 0 {
			ds = append(ds, o.Digest)
			asked = append(asked, o)
		}
	}
	absent := lstore.CASObj("Q", "", []byte("never-stored"))
	ds = append(ds, absent.Digest)
	type st struct{ a, b bool }
	before := map[string]st{}
	for _, o := range asked {
		before[o.Name] = st{w.a.has(o.Digest), w.b.has(o.Digest)}
	}
	fb := len(w.seen)
	miss, err := w.m.FindMissing(context.Background(), sim.SetOf(ds...))
	vsched.Obs("FM(%d) -> %s", mask, status.Code(err))
	if err != nil {
		w.checkErr("findmissing", err, fb)
		return
	}
	got := map[string]bool{}
	for _, d := range miss.Items() {
		got[d.String()] = true
	}
	if !got[absent.Digest.String()] {
		failf("findmissing:absent-object-reported-present", "FindMissing did not report an object that neither replica holds")
	}
	for _, o := range asked {
		b := before[o.Name]
		wantMissing := !b.a && !b.b
		if got[o.Digest.String()] != wantMissing {
			failf("findmissing:wrong-answer", "FindMissing reports %s missing=%v; replica A held it: %v, replica B held it: %v", o.Name, got[o.Digest.String()], b.a, b.b)
		}
		if b.a != b.b && !(w.a.has(o.Digest) && w.b.has(o.Digest)) {
			failf("findmissing:not-synchronised", "FindMissing succeeded, %s was held by exactly one replica (A=%v B=%v) but afterwards A=%v B=%v", o.Name, b.a, b.b, w.a.has(o.Digest), w.b.has(o.Digest))
		}
	}
	if len(w.seen) > fb {
		// success although a fault was injected: legitimate only if the answer and the sync are still exact (checked above)
		vsched.Obs("fm-success-with-fault")
	}
	vsched.Mark()
}

func body(local bool, repl string, depth, faults int) func() {
	return func() {
		placement := vsched.ChooseFree("choice", 16)
		w := newWorld(local, repl, placement, !local)
		for step := 0; step < depth; step++ {
			w.budget = faults - len(w.seen)
			k := vsched.ChooseFree("choice", 9)
			switch {
			case k < 2:
				w.get(k, false)
			case k == 2:
				w.get(0, true)
			case k < 6:
				w.findMissing(k - 2)
			default:
				if k-6 < 2 {
					w.put(k - 6)
				} else {
					w.findMissing(0)
				}
			}
		}
		w.budget = 0
		for _, r := range []*replica{w.a, w.b} {
			if r.store != nil {
				if r.store.RBF.Opened != r.store.RBF.Closed {
					failf("reader-leak", "%s: %d readers opened, %d closed", r.name, r.store.RBF.Opened, r.store.RBF.Closed)
				}
				if v := r.store.CheckMonitors(); len(v) > 0 {
					failf("monitor", "%s: %s", r.name, v[0])
				}
			}
		}
	}
}

// concBody: two clients operate on the mirrored pair at the same time (this is where the deduplicating and
// the concurrency-limiting replicators differ from the plain one: a caller may wait for, and rely on, another
// caller's copy). X is held by exactly one replica, Z by the other or by both; one replica call may fail.
func concBody(repl string) func() {
	return func() {
		sel := vsched.ChooseFree("choice", 2)
		placement := []int{1 | 2<<2, 2 | 3<<2}[sel] // (X,Z): (A only, B only) (B only, both)
		w := newWorld(false, repl, placement, false)
		X, Z := w.objs[0], w.objs[1]
		w.budget = 1
		type res struct {
			asked []lstore.Obj
			miss  map[string]bool
			err   error
			get   bool
			data  []byte
		}
		results := make([]*res, 2)
		var wg vsync.WaitGroup
		second := vsched.ChooseFree("choice", 3)
		run := func(i int, kind int) {
			defer wg.Done()
			r := &res{}
			results[i] = r
			switch kind {
			case 0, 1:
				r.asked = []lstore.Obj{X}
				if kind == 1 {
					r.asked = []lstore.Obj{X, Z}
				}
				var ds []digest.Digest
				for _, o := range r.asked {
					ds = append(ds, o.Digest)
				}
				miss, err := w.m.FindMissing(context.Background(), sim.SetOf(ds...))
				r.err = err
				r.miss = map[string]bool{}
				if err == nil {
					for _, d := range miss.Items() {
						r.miss[d.String()] = true
					}
				}
				vsched.Obs("c%d FM -> %s", i, status.Code(err))
			default:
				r.get = true
				r.data, r.err = w.m.Get(context.Background(), X.Digest).ToByteSlice(100)
				vsched.Obs("c%d Get -> %s", i, status.Code(r.err))
			}
		}
		wg.Add(2)
		vsched.GoNamed("client0", false, func() { run(0, 0) })
		vsched.GoNamed("client1", false, func() { run(1, second) })
		wg.Wait()
		w.budget = 0
		for i, r := range results {
			if r.err != nil {
				c := status.Code(r.err)
				if len(w.seen) == 0 {
					failf("conc:error-without-cause-"+c.String(), "client %d failed with %v although no replica failure was injected", i, r.err)
				}
				if c != w.seen[0] {
					failf("conc:replica-failure-masked-as-"+c.String(), "client %d failed with code %s; the injected replica failure had code %s (error: %v)", i, c, w.seen[0], r.err)
				}
				if !named(r.err) {
					failf("conc:error-does-not-name-replica", "client %d: error %q does not name the replica", i, r.err.Error())
				}
				continue
			}
			if r.get {
				if !bytes.Equal(r.data, X.Content) {
					failf("get:wrong-bytes", "client %d: Get(X) = %q", i, r.data)
				}
				continue
			}
			for _, o := range r.asked {
				// nothing is ever removed here, and every object is held by at least one replica throughout
				if r.miss[o.Digest.String()] {
					failf("findmissing:wrong-answer", "client %d: FindMissing reports %s missing although a replica holds it", i, o.Name)
				}
				if !(w.a.has(o.Digest) && w.b.has(o.Digest)) {
					failf("findmissing:not-synchronised", "client %d: FindMissing succeeded, %s was held by exactly one replica, but after both clients returned A=%v B=%v", i, o.Name, w.a.has(o.Digest), w.b.has(o.Digest))
				}
			}
			vsched.Mark()
		}
	}
}

func main() {
	r := ev.Start("C11")
	r.Rule("vsched: per (replica kind, replicator strategy): every initial placement x every operation sequence of the stated depth (free choices), and within each every schedule of the errgroup threads and every placement of injected replica failures within the deviation bound; non-trivial = executions with at least one successful read-repair, upload or existence check verified against both replicas")
	r.Assume("replica contents are read from the model map / the local store's index (non-touching)")
	r.Assume("an error 'names the replica' if its text contains Backend A or Backend B (which one is not demanded for failures of the repair copy)")
	var scs []mc.Scenario
	depth := ev.Pick(r, 2, 3)
	budget := time.Duration(ev.Pick(r, 60, 600)) * time.Second
	for _, local := range []bool{false, true} {
		for _, repl := range []string{"local", "dedup", "limit", "queued", "remote"} {
			if local && (repl == "queued" || repl == "remote") {
				continue
			}
			kind := "model"
			if local {
				kind = "localstore"
			}
			scs = append(scs, mc.Scenario{Name: fmt.Sprintf("%s/%s", kind, repl), Space: fmt.Sprintf("16 placements x all sequences of %d operations over 9 operations; replicas: %s; replicator: %s; fault budget 1, deviation bound %d", depth, kind, repl, ev.Pick(r, 1, 2)), Bound: ev.Pick(r, 1, 2), ShardDepth: 2, Body: body(local, repl, depth, 1), Budget: budget, MaxSteps: 60000})
		}
	}
	for _, repl := range []string{"local", "dedup", "limit"} {
		scs = append(scs, mc.Scenario{Name: "conc/" + repl, Space: fmt.Sprintf("two clients at once: FindMissing({X}) || {FindMissing({X}), FindMissing({X,Z}), Get(X)}; (X,Z) held by (A only, B only) or (B only, both); model replicas; replicator: %s; at most one injected replica failure; deviation bound %d", repl, ev.Pick(r, 2, 3)), Bound: ev.Pick(r, 2, 3), MaxFreeSwitches: ev.Pick(r, 2, 3), MaxExec: ev.Pick(r, int64(1500000), int64(8000000)), Body: concBody(repl), Budget: budget})
	}
	mc.Run(r, scs)
	r.Finish()
}
