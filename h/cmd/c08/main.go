//go:build verif

// C08 — detected corruption is quarantined: affected and older blocks are not served.
//
//	seq/*   a scripted history spreads 8 objects over 3 blocks (neighbours sharing sectors); then for
//	        EVERY object x and EVERY corruption extent (each single byte of x, each sector overlapping
//	        x, all of x) the medium is corrupted, followed by EVERY sequence (depth bound) of reads of
//	        any object, existence checks, fresh uploads and a second corruption in the newest block.
//	        Reference model: q = newest block in which corruption has been detected so far; an object
//	        in a block <= q must be absent, a corrupted object must fail with INTERNAL (never complete),
//	        every other object must read back exactly.
//	conc/*  detection racing an upload in flight into the same block, another reader and a rotation.
package main

import (
	"bytes"
	"context"
	"fmt"
	"strings"
	"time"

	remoteexecution "github.com/bazelbuild/remote-apis/build/bazel/remote/execution/v2"
	"github.com/buildbarn/bb-storage/pkg/blobstore/local"
	"github.com/buildbarn/bb-storage/pkg/digest"
	"github.com/buildbarn/bb-storage/pkg/verifshim/vsched"
	"github.com/buildbarn/bb-storage/pkg/verifshim/vsync"
	"google.golang.org/grpc/codes"
	"google.golang.org/grpc/status"
	"google.golang.org/protobuf/proto"

	"github.com/buildbarn/bb-storage/pkg/blobstore/buffer"

	"verifh/ev"
	"verifh/lstore"
	"verifh/mc"
	"verifh/sim"
)

func failf(sig, format string, a ...any) { vsched.Fail(sig, format, a...) }

type obj struct {
	lstore.Obj
	block int // absolute block number, -1 when absent from the index
	off   int // offset of its bytes on the data device
}

type qlog struct {
	n        int // "Releasing n blocks"
	releases int // blocks physically released when it was logged
	at       int // logical time
}

type world struct {
	s       *lstore.Store
	objs    []*obj
	q       int // newest absolute block with detected corruption
	ac      bool
	logSeen int
	qlogs   []qlog
	clock   int
	cached  map[string]bool // objects the integrity cache may hold as validated
	level   int             // quarantine level (absolute number of blocks that must be gone) after the last detection
}

func (w *world) tick() int { w.clock++; return w.clock }

func (w *world) hook() {
	w.s.Errors.Hook = func(msg string) {
		var n int
		if _, err := fmt.Sscanf(msg, "rpc error: code = Internal desc = Releasing %d blocks", &n); err == nil {
			w.qlogs = append(w.qlogs, qlog{n: n, releases: w.s.Alloc.Releases, at: w.tick()})
		}
	}
}

// checkExtent: a detection in absolute block b must raise the quarantine level to exactly b+1.
func (w *world) checkExtent(b int, where string) {
	if len(w.qlogs) == 0 {
		return
	}
	l := w.qlogs[len(w.qlogs)-1]
	old := l.releases
	if w.level > old {
		old = w.level
	}
	if l.n+old != b+1 {
		failf("quarantine-extent-wrong", "%s: corruption was detected in absolute block %d, so blocks 0..%d must be discarded; the store announced the release of %d blocks on top of %d already gone, i.e. blocks 0..%d", where, b, b, l.n, old, l.n+old-1)
	}
	w.level = l.n + old
}

func (w *world) key(d digest.Digest) local.Key {
	kf := digest.KeyWithoutInstance
	if w.ac {
		kf = digest.KeyWithInstance
	}
	return local.NewKeyFromString(d.GetKey(kf))
}

// locate refreshes block numbers from the real index (non-touching).
func (w *world) locate() {
	s := w.s
	s.Lock.RLock()
	defer s.Lock.RUnlock()
	for _, o := range w.objs {
		loc, err := s.KLM.Get(w.key(o.Digest))
		if err != nil {
			o.block = -1
			continue
		}
		o.block = loc.BlockIndex + s.Alloc.Releases
	}
}

func (w *world) findOnDevice(o *obj) int {
	img := w.s.Media.Data.Image
	i := bytes.Index(img, o.Content)
	if i < 0 || bytes.Index(img[i+1:], o.Content) >= 0 {
		return -1
	}
	return i
}

func (w *world) corrupted(o *obj) bool {
	if o.off < 0 {
		return false
	}
	return !bytes.Equal(w.s.Media.Data.Image[o.off:o.off+len(o.Content)], o.Content)
}

func (w *world) put(o *obj) error {
	err := w.s.PutOK(o.Digest, o.Content)
	return err
}

func casObj(name string, content string) *obj {
	return &obj{Obj: lstore.CASObj(name, "", []byte(content)), block: -1, off: -1}
}

func acObj(name string, n int, val []byte) *obj {
	return &obj{Obj: lstore.Obj{Name: name, Digest: lstore.ACKey("i", n), Content: val}, block: -1, off: -1}
}

func newWorld(g lstore.Geometry) *world {
	w := &world{s: lstore.Open(g, lstore.NewMedia(g)), q: -1, ac: g.AC, cached: map[string]bool{}}
	w.hook()
	if g.AC {
		for i := 0; i < 6; i++ {
			m := &remoteexecution.ActionResult{ExitCode: int32(i + 1), StdoutRaw: []byte(fmt.Sprintf("o%d", i))}
			b, _ := proto.Marshal(m)
			w.objs = append(w.objs, acObj(fmt.Sprintf("K%d", i), i, b))
		}
	} else {
		for i, c := range []string{"AAA", "BBBBB", "CCCCCC", "DDDDD", "EEEEEE", "FFF", "GGGGG", "HHH"} {
			w.objs = append(w.objs, casObj(fmt.Sprintf("%c%d", 'A'+i, len(c)), c))
		}
	}
	for _, o := range w.objs {
		if err := w.put(o); err != nil {
			vsched.HarnessFail("history Put(%s): %v", o.Name, err)
		}
	}
	w.locate()
	for _, o := range w.objs {
		o.off = w.findOnDevice(o)
		if o.off < 0 || o.block < 0 {
			vsched.HarnessFail("object %s not uniquely locatable on the device (block %d)", o.Name, o.block)
		}
	}
	return w
}

// expect returns what the reference model demands for a read of o right now.
func (w *world) expect(o *obj) string {
	switch {
	case o.block < 0 || o.block <= w.q:
		return "absent"
	case w.corrupted(o):
		if w.s.Geo.IntegrityCache && w.cached[o.Name] {
			return "undetectable" // validated earlier: the integrity cache serves it unchecked for the cache duration, by design
		}
		if w.ac && !w.corruptedUnparsable(o) {
			return "undetectable" // AC corruption that still parses cannot be noticed; out of the property's scope
		}
		return "detect"
	}
	return "data"
}

func (w *world) checkLogger() {
	// every increase of the quarantine level is announced exactly once through the ErrorLogger
	n := 0
	for _, m := range w.s.Errors.Messages {
		if strings.Contains(m, "due to a data integrity error") {
			n++
		}
	}
	w.logSeen = n
}

func (w *world) get(o *obj, where string) {
	w.locate()
	want := w.expect(o)
	logsBefore := w.logSeen
	d, err := w.s.Get(o.Digest)
	vsched.Obs("G:%s=%s(%s)", o.Name, status.Code(err), want)
	switch want {
	case "undetectable":
		w.locate()
		return
	case "absent":
		if err == nil {
			failf("quarantined-object-served", "%s: Get(%s) returned %q although the object lies in block %d and corruption was detected in block %d", where, o.Name, d, o.block, w.q)
		}
		if status.Code(err) != codes.NotFound {
			failf("quarantined-object-error-"+status.Code(err).String(), "%s: Get(%s) of a quarantined/absent object failed with %v (want NOT_FOUND)", where, o.Name, err)
		}
	case "detect":
		if err == nil {
			failf("corrupted-read-completed", "%s: Get(%s) completed with %q although its stored bytes are corrupted", where, o.Name, d)
		}
		if status.Code(err) != codes.Internal {
			failf("corrupted-read-code-"+status.Code(err).String(), "%s: Get(%s) of corrupted data failed with %v (want INTERNAL)", where, o.Name, err)
		}
		if o.block > w.q {
			w.q = o.block
		}
		w.checkLogger()
		if w.logSeen != logsBefore+1 {
			failf("release-not-logged-once", "%s: detection in block %d produced %d ErrorLogger messages (want exactly 1)", where, o.block, w.logSeen-logsBefore)
		}
		w.checkExtent(o.block, where)
		vsched.Mark()
	default:
		if err != nil {
			failf("unaffected-object-error-"+status.Code(err).String(), "%s: Get(%s) failed with %v although the object lies in block %d, newer than every block with detected corruption (%d), and its bytes are intact", where, o.Name, err, o.block, w.q)
		}
		if !bytes.Equal(d, o.Content) {
			failf("wrong-bytes", "%s: Get(%s) = %q", where, o.Name, d)
		}
		w.cached[o.Name] = true
	}
	w.locate()
}

func (w *world) findMissing(where string) {
	w.locate()
	var ds []digest.Digest
	for _, o := range w.objs {
		ds = append(ds, o.Digest)
	}
	wants := map[string]string{}
	for _, o := range w.objs {
		wants[o.Name] = w.expect(o)
	}
	miss, err := w.s.FindMissing(ds...)
	if err != nil {
		// FindMissing refreshes objects in old blocks by copying them: reading corrupted data there is a detection.
		if status.Code(err) != codes.Internal {
			failf("findmissing-error-"+status.Code(err).String(), "%s: FindMissing failed: %v", where, err)
		}
		vsched.Obs("FM=Internal")
		// figure out which block was detected: the newest corrupted object in an old block
		w.locate()
		for _, o := range w.objs {
			if wants[o.Name] == "detect" && o.block > w.q {
				// detection may have happened for this object; the resolver tells us (absent now)
				if !w.indexHas(o) {
					w.q = max(w.q, o.block)
				}
			}
		}
		w.checkLogger()
		return
	}
	for _, o := range w.objs {
		if wants[o.Name] == "absent" && !miss[o.Digest.String()] {
			failf("quarantined-object-reported-present", "%s: FindMissing reports %s present although it lies in block %d <= quarantined block %d", where, o.Name, o.block, w.q)
		}
		if wants[o.Name] == "data" && miss[o.Digest.String()] {
			failf("unaffected-object-reported-missing", "%s: FindMissing reports %s missing although it lies in block %d, newer than the quarantined block %d", where, o.Name, o.block, w.q)
		}
		if !miss[o.Digest.String()] {
			w.cached[o.Name] = true // a refresh copies through a validating buffer
		}
	}
	vsched.Obs("FM=OK")
	w.locate()
}

func (w *world) indexHas(o *obj) bool {
	w.s.Lock.RLock()
	defer w.s.Lock.RUnlock()
	_, err := w.s.KLM.Get(w.key(o.Digest))
	return err == nil
}

func max(a, b int) int {
	if a > b {
		return a
	}
	return b
}

// corruptions enumerates the corruption extents for object o: (offset,length) pairs on the device.
func corruptions(g lstore.Geometry, o *obj) [][2]int {
	var out [][2]int
	for i := 0; i < len(o.Content); i++ {
		out = append(out, [2]int{o.off + i, 1})
	}
	first := o.off / g.SectorSize
	last := (o.off + len(o.Content) - 1) / g.SectorSize
	for sct := first; sct <= last; sct++ {
		out = append(out, [2]int{sct * g.SectorSize, g.SectorSize})
	}
	out = append(out, [2]int{o.off, len(o.Content)})
	return out
}

func (w *world) corrupt(off, n int) {
	img := w.s.Media.Data.Image
	for i := off; i < off+n && i < len(img); i++ {
		img[i] ^= 0xff
	}
}

func seqBody(g lstore.Geometry, depth int) func() {
	return func() {
		w := newWorld(g)
		xi := vsched.ChooseFree("choice", len(w.objs))
		x := w.objs[xi]
		cs := corruptions(g, x)
		ci := vsched.ChooseFree("choice", len(cs))
		w.corrupt(cs[ci][0], cs[ci][1])
		vsched.Obs("corrupt %s block %d extent %v", x.Name, x.block, cs[ci])
		if g.AC && !w.corruptedUnparsable(x) {
			// AC: only corruption that makes the message unparsable is detectable; others are out of scope.
			vsched.Obs("skipped: corruption keeps the ActionResult parsable")
			return
		}
		fresh := 0
		second := false
		for step := 0; step < depth; step++ {
			nops := len(w.objs) + 3
			k := vsched.ChooseFree("choice", nops)
			where := fmt.Sprintf("step %d", step)
			switch {
			case k < len(w.objs):
				w.get(w.objs[k], where)
			case k == len(w.objs):
				w.findMissing(where)
			case k == len(w.objs)+1:
				fresh++
				var o *obj
				if g.AC {
					m := &remoteexecution.ActionResult{ExitCode: int32(100 + fresh)}
					b, _ := proto.Marshal(m)
					o = acObj(fmt.Sprintf("N%d", fresh), 100+fresh, b)
				} else {
					o = casObj(fmt.Sprintf("N%d", fresh), fmt.Sprintf("new%02d", fresh))
				}
				err := w.put(o)
				vsched.Obs("P:%s=%s", o.Name, status.Code(err))
				if err != nil {
					failf("upload-after-detection-fails-"+status.Code(err).String(), "%s: upload after corruption failed: %v (the store must keep accepting uploads)", where, err)
				}
				w.objs = append(w.objs, o)
				w.locate()
				o.off = w.findOnDevice(o)
				if o.block < 0 && w.s.IndexDiscards() == 0 {
					failf("fresh-upload-invisible", "%s: object uploaded after detection is not in the index", where)
				}
				w.get(o, where+" (fresh upload)")
			default:
				if second {
					continue
				}
				second = true
				// second corruption: the newest object that is still present and intact
				w.locate()
				var tgt *obj
				for _, o := range w.objs {
					if o.block > w.q && o.off >= 0 && !w.corrupted(o) && (tgt == nil || o.block >= tgt.block) {
						tgt = o
					}
				}
				if tgt != nil {
					w.corrupt(tgt.off, len(tgt.Content))
					vsched.Obs("second corruption: %s block %d", tgt.Name, tgt.block)
					if g.AC && !w.corruptedUnparsable(tgt) {
						return
					}
				}
			}
		}
		if w.s.RBF.Opened != w.s.RBF.Closed {
			failf("reader-leak", "%d readers opened, %d closed", w.s.RBF.Opened, w.s.RBF.Closed)
		}
	}
}

func (w *world) corruptedUnparsable(o *obj) bool {
	if o.off < 0 {
		return true
	}
	var m remoteexecution.ActionResult
	return proto.Unmarshal(w.s.Media.Data.Image[o.off:o.off+len(o.Content)], &m) != nil
}

func concBody(g lstore.Geometry, variant int) func() {
	return func() {
		w := newWorld(g)
		// x = an object in the newest block, the one that still accepts uploads (U4 fits into it)
		x := w.objs[0]
		for _, o := range w.objs {
			if o.block >= x.block {
				x = o
			}
		}
		if variant == 2 {
			x = w.objs[0] // oldest block: detection racing a rotation
		}
		if variant == 3 {
			// a middle block: newer blocks exist and must survive, older ones rotate away meanwhile
			for _, o := range w.objs {
				if o.block == 1 {
					x = o
				}
			}
		}
		w.corrupt(x.off, len(x.Content))
		bx := x.block
		up := casObj("U4", "uXYz")
		var upErr error
		lastUploadRead, uploadReturned := 0, 0
		var wg vsync.WaitGroup
		run := func(name string, f func()) {
			wg.Add(1)
			vsched.GoNamed(name, false, func() { defer wg.Done(); f() })
		}
		run("detect", func() {
			d, err := w.s.Get(x.Digest)
			vsched.Obs("detect=%s", status.Code(err))
			if err == nil {
				failf("corrupted-read-completed", "Get(%s) completed with %q although its bytes are corrupted", x.Name, d)
			}
			if c := status.Code(err); c != codes.Internal && c != codes.NotFound {
				failf("corrupted-read-code-"+c.String(), "Get(%s) failed with %v", x.Name, err)
			}
		})
		run("upload", func() {
			src := sim.NewSource(sim.Script{Chunks: [][]byte{up.Content[:2], up.Content[2:]}})
			src.Gate = func() { vsched.Yield("upload.Read"); lastUploadRead = w.tick() }
			upErr = w.s.BA.Put(context.Background(), up.Digest, buffer.NewCASBufferFromReader(up.Digest, sim.ReaderView{S: src}, buffer.UserProvided))
			uploadReturned = w.tick()
			vsched.Obs("upload=%s", status.Code(upErr))
		})
		other := w.objs[len(w.objs)-2]
		if variant == 0 {
			run("reader", func() {
				d, err := w.s.Get(other.Digest)
				vsched.Obs("reader=%s", status.Code(err))
				if err == nil && !bytes.Equal(d, other.Content) {
					failf("wrong-bytes", "Get(%s) = %q", other.Name, d)
				}
				if err != nil && status.Code(err) != codes.NotFound {
					failf("unaffected-object-error-"+status.Code(err).String(), "concurrent Get(%s) failed with %v", other.Name, err)
				}
			})
		}
		if variant >= 1 {
			run("rotate", func() {
				for i := 0; i < 3; i++ {
					f := casObj("R16", fmt.Sprintf("rotate-rotate-%02d", i))
					err := w.put(f)
					vsched.Obs("rotate%d=%s", i, status.Code(err))
				}
			})
		}
		wg.Wait()
		// The detection must not take healthy newer blocks with it: rotation only ever drops the oldest
		// blocks and keeps at least the newest old+current+new ones, so an object that sat in a block newer
		// than x's and inside that window must still be resolvable (it may have been refreshed, never lost).
		window := w.s.Alloc.NewBlocks - (g.Old + g.Current + g.New)
		for _, o := range w.objs {
			if o.block > bx && o.block >= window && !w.indexHas(o) && w.s.IndexDiscards() == 0 {
				failf("healthy-newer-block-quarantined", "corruption was detected in absolute block %d; %s sat in the newer block %d, which rotation cannot have dropped yet (%d blocks allocated, the newest %d are kept), but it is no longer resolvable", bx, o.Name, o.block, w.s.Alloc.NewBlocks, g.Old+g.Current+g.New)
			}
		}
		// An upload whose data was still being read when the corruption was detected (so its finalizer ran
		// afterwards) into a block that got quarantined must fail rather than be acknowledged.
		if len(w.qlogs) > 0 && upErr == nil && w.qlogs[0].at < lastUploadRead {
			w.locate()
			if !w.indexHas(up) {
				failf("in-flight-upload-into-quarantined-block-acknowledged", "the upload of U4 was still reading its data at logical time %d, after the corruption had been detected at %d; it was acknowledged (returned at %d) although its block was quarantined: the object is not resolvable", lastUploadRead, w.qlogs[0].at, uploadReturned)
			}
		}
		// After everything returned: nothing stored in a block <= bx may be visible.
		w.q = bx
		w.objs = append(w.objs, up)
		w.locate()
		for _, o := range w.objs {
			o := o
			if o == up {
				continue
			}
			if o.block >= 0 && o.block <= bx {
				failf("quarantined-object-served", "after detection in block %d object %s is still resolvable in block %d", bx, o.Name, o.block)
			}
		}
		// The upload: if acknowledged it must be readable now or lie in a quarantined block (then absent); never wrong.
		d, err := w.s.Get(up.Digest)
		vsched.Obs("final upload read=%s", status.Code(err))
		if err == nil && !bytes.Equal(d, up.Content) {
			failf("wrong-bytes", "Get(U4) = %q", d)
		}
		if err != nil && status.Code(err) != codes.NotFound {
			failf("upload-read-error-"+status.Code(err).String(), "Get(U4) failed with %v", err)
		}
		// Store keeps accepting uploads.
		n := casObj("N5", "after")
		if err := w.put(n); err != nil {
			failf("upload-after-detection-fails-"+status.Code(err).String(), "upload after detection failed: %v", err)
		}
		if d, err := w.s.Get(n.Digest); err != nil || !bytes.Equal(d, n.Content) {
			failf("fresh-upload-unreadable", "Get of an object uploaded after detection = %q, %v", d, err)
		}
	}
}

// fmRaceBody: the store is aged so that its first blocks are old; x sits in a newer (not old) block and is
// corrupted. FindMissing over all objects (which refreshes the objects in old blocks by copying them in a
// second pass) races with the Get that detects the corruption and thereby quarantines the old blocks too.
// Refresh copies go to the newest block, which is newer than x's, so: an object that needed a refresh when
// FindMissing started and that FindMissing reports present was copied, hence must be resolvable afterwards;
// one that could not be copied any more must be reported missing.
func fmRaceBody(g lstore.Geometry) func() {
	return func() {
		w := newWorld(g)
		for i := 0; i < 2; i++ {
			f := casObj("R16", fmt.Sprintf("ageing-filler-%02d", i))
			if err := w.put(f); err != nil {
				vsched.HarnessFail("ageing upload: %v", err)
			}
		}
		w.locate()
		var x *obj
		var old []*obj
		for _, o := range w.objs {
			if w.s.NeedsRefresh(o.Digest) {
				old = append(old, o)
			} else if o.block >= 0 && (x == nil || o.block < x.block) {
				x = o // the oldest object that is not in an old block
			}
		}
		if x == nil || len(old) == 0 {
			vsched.HarnessFail("ageing did not produce old blocks below a non-old object (old=%d)", len(old))
		}
		for _, o := range w.objs {
			o.off = w.findOnDevice(o)
		}
		w.corrupt(x.off, len(x.Content))
		var ds []digest.Digest
		for _, o := range w.objs {
			ds = append(ds, o.Digest)
		}
		var miss map[string]bool
		var fmErr error
		var wg vsync.WaitGroup
		wg.Add(2)
		vsched.GoNamed("detect", false, func() {
			defer wg.Done()
			_, err := w.s.Get(x.Digest)
			vsched.Obs("detect=%s", status.Code(err))
			if err == nil {
				failf("corrupted-read-completed", "Get(%s) completed although its bytes are corrupted", x.Name)
			}
		})
		vsched.GoNamed("findmissing", false, func() {
			defer wg.Done()
			miss, fmErr = w.s.FindMissing(ds...)
			vsched.Obs("FM=%s", status.Code(fmErr))
		})
		wg.Wait()
		if fmErr != nil {
			if status.Code(fmErr) != codes.Internal {
				failf("findmissing-error-"+status.Code(fmErr).String(), "FindMissing failed: %v", fmErr)
			}
			return
		}
		for _, o := range old {
			if !miss[o.Digest.String()] && !w.indexHas(o) && w.s.IndexDiscards() == 0 {
				failf("quarantined-object-reported-present", "%s lay in an old block when FindMissing started (so it had to be copied to be kept); FindMissing reports it present, but after both calls returned nothing resolves it: it was quarantined before it could be copied and must have been reported missing", o.Name)
			}
			vsched.Mark()
		}
	}
}

// discardRefreshBody: aged store; x lies in an old block and is corrupted. A client obtains Get(x) (the store
// starts copying x to the newest block behind a cloned buffer) and abandons the download with Discard, in
// either order relative to the copy's registration with the shared stream. The copy must still be
// validated: whatever happens, afterwards x is not served, and a later read of x must not take blocks newer
// than x's original one with it (which it would if the corrupted bytes had been copied, unnoticed, into the
// newest block).
func discardRefreshBody(g lstore.Geometry) func() {
	return func() {
		w := newWorld(g)
		for i := 0; i < 2; i++ {
			f := casObj("R16", fmt.Sprintf("ageing-filler-%02d", i))
			if err := w.put(f); err != nil {
				vsched.HarnessFail("ageing upload: %v", err)
			}
		}
		w.locate()
		var x *obj
		for _, o := range w.objs {
			if w.s.NeedsRefresh(o.Digest) && (x == nil || o.block > x.block) {
				x = o
			}
		}
		if x == nil {
			vsched.HarnessFail("ageing did not produce an old block")
		}
		for _, o := range w.objs {
			o.off = w.findOnDevice(o)
		}
		bx := x.block
		var newer []*obj
		for _, o := range w.objs {
			if o.block > bx {
				newer = append(newer, o)
			}
		}
		w.corrupt(x.off, len(x.Content))
		b := w.s.BA.Get(context.Background(), x.Digest)
		if vsched.ChooseFree("choice", 2) == 0 {
			b.Discard()
			vsched.Obs("discarded")
		} else {
			_, err := b.ToByteSlice(100)
			vsched.Obs("consumed=%s", status.Code(err))
			if err == nil {
				failf("corrupted-read-completed", "Get(%s) completed although its bytes are corrupted", x.Name)
			}
		}
		vsched.WaitQuiescent()
		d, err := w.s.Get(x.Digest)
		vsched.Obs("second=%s", status.Code(err))
		if err == nil {
			failf("corrupted-read-completed", "second Get(%s) returned %q although its bytes are corrupted", x.Name, d)
		}
		vsched.WaitQuiescent()
		for _, o := range newer {
			if !w.indexHas(o) && w.s.IndexDiscards() == 0 {
				failf("healthy-newer-block-quarantined", "x=%s was corrupted in block %d; %s sat in the newer block %d and is no longer resolvable after two reads of x: the corruption travelled, unnoticed, into a newer block with the refresh copy", x.Name, bx, o.Name, o.block)
			}
		}
		vsched.Mark()
	}
}

// persistentBody: the quarantine on a persistent block list (blocks carry epochs; popping recent blocks is
// something only a quarantine does).
func persistentBody(g lstore.Geometry) func() {
	return func() {
		w := newWorld(g)
		if vsched.ChooseFree("choice", 2) == 1 {
			n := w.s.StepSyncers(context.Background(), 1)
			vsched.Obs("sync=%d", n)
		}
		x := w.objs[vsched.ChooseFree("choice", len(w.objs))]
		w.corrupt(x.off, len(x.Content))
		_, err := w.s.Get(x.Digest)
		vsched.Obs("detect %s=%s", x.Name, status.Code(err))
		if err == nil {
			failf("corrupted-read-completed", "Get(%s) completed although its bytes are corrupted", x.Name)
		}
		if status.Code(err) != codes.Internal {
			failf("corrupted-read-code-"+status.Code(err).String(), "Get(%s) of corrupted data failed with %v (want INTERNAL)", x.Name, err)
		}
		for i := 0; i < 3; i++ {
			n := casObj(fmt.Sprintf("N%d", i), fmt.Sprintf("new-%d!", i))
			if err := w.put(n); err != nil {
				failf("upload-after-detection-fails-"+status.Code(err).String(), "upload %d after the detection failed: %v (the store must keep accepting uploads)", i, err)
			}
			if d, err := w.s.Get(n.Digest); err != nil || !bytes.Equal(d, n.Content) {
				failf("fresh-upload-unreadable", "Get of an object uploaded after detection = %q, %v", d, err)
			}
		}
		if d, err := w.s.Get(x.Digest); err == nil {
			failf("quarantined-object-served", "Get(%s) returned %q after its corruption had been detected", x.Name, d)
		} else if status.Code(err) != codes.NotFound {
			failf("quarantined-object-error-"+status.Code(err).String(), "Get(%s) after the detection failed with %v (want NOT_FOUND)", x.Name, err)
		}
		vsched.Mark()
	}
}

// hierDedupBody: hierarchical store, X and Y stored under instance name a in the same block; the bytes of Y
// are corrupted. A gated upload of X under instance name b (which the store de-duplicates against the copy
// it already holds instead of storing the data again) is in flight while Get(a/Y) detects the corruption.
func hierDedupBody(g lstore.Geometry) func() {
	return func() {
		s := lstore.Open(g, lstore.NewMedia(g))
		clock, detectedAt, lastUploadRead := 0, 0, 0
		tick := func() int { clock++; return clock }
		s.Errors.Hook = func(msg string) {
			if strings.Contains(msg, "due to a data integrity error") && detectedAt == 0 {
				detectedAt = tick()
			}
		}
		xa := lstore.CASObj("X", "a", []byte("xxXx"))
		ya := lstore.CASObj("Y", "a", []byte("yyYyy"))
		xb := lstore.CASObj("X", "b", []byte("xxXx"))
		for _, o := range []lstore.Obj{xa, ya} {
			if err := s.PutOK(o.Digest, o.Content); err != nil {
				vsched.HarnessFail("history Put(%s): %v", o.Name, err)
			}
		}
		img := s.Media.Data.Image
		off := bytes.Index(img, ya.Content)
		if off < 0 {
			vsched.HarnessFail("Y not found on the device")
		}
		img[off] ^= 0x40
		var upErr error
		var wg vsync.WaitGroup
		wg.Add(2)
		vsched.GoNamed("detect", false, func() {
			defer wg.Done()
			_, err := s.Get(ya.Digest)
			vsched.Obs("detect=%s", status.Code(err))
			if err == nil {
				failf("corrupted-read-completed", "Get(a/Y) completed although its bytes are corrupted")
			}
		})
		vsched.GoNamed("upload", false, func() {
			defer wg.Done()
			src := sim.NewSource(sim.Script{Chunks: [][]byte{xb.Content[:2], xb.Content[2:]}})
			src.Gate = func() { vsched.Yield("upload.Read"); lastUploadRead = tick() }
			upErr = s.BA.Put(context.Background(), xb.Digest, buffer.NewCASBufferFromReader(xb.Digest, sim.ReaderView{S: src}, buffer.UserProvided))
			vsched.Obs("upload=%s", status.Code(upErr))
		})
		wg.Wait()
		if upErr != nil && status.Code(upErr) != codes.Internal {
			failf("upload-error-"+status.Code(upErr).String(), "Put(b/X) failed with %v", upErr)
		}
		if upErr == nil && detectedAt != 0 && detectedAt < lastUploadRead {
			miss, err := s.FindMissing(xb.Digest)
			d, gerr := s.Get(xb.Digest)
			if err != nil || miss[xb.Digest.String()] || gerr != nil || !bytes.Equal(d, xb.Content) {
				failf("in-flight-upload-into-quarantined-block-acknowledged", "the upload of b/X was still reading its data after the corruption had been detected and was acknowledged; the object is not there: FindMissing missing=%v err=%v, Get=%q err=%v", miss[xb.Digest.String()], err, d, gerr)
			}
			vsched.Mark()
		}
		// nothing stored in the quarantined block may be visible under a
		if detectedAt != 0 {
			if d, err := s.Get(xa.Digest); err == nil {
				if upErr != nil || !bytes.Equal(d, xa.Content) {
					failf("quarantined-object-served", "after the detection Get(a/X) returned %q although it shared the quarantined block and nothing re-uploaded it", d)
				}
			} else if status.Code(err) != codes.NotFound {
				failf("quarantined-object-error-"+status.Code(err).String(), "Get(a/X) failed with %v", err)
			}
		}
		// store keeps accepting uploads
		n := lstore.CASObj("N", "b", []byte("after"))
		if err := s.PutOK(n.Digest, n.Content); err != nil {
			failf("upload-after-detection-fails-"+status.Code(err).String(), "upload after detection failed: %v", err)
		}
		if d, err := s.Get(n.Digest); err != nil || !bytes.Equal(d, n.Content) {
			failf("fresh-upload-unreadable", "Get of an object uploaded after detection = %q, %v", d, err)
		}
	}
}

var _ = context.Background

func main() {
	r := ev.Start("C08")
	r.Rule("vsched/vstate: every (object, corruption extent) x every follow-up operation sequence of the stated depth, one execution each; reference model = newest block with detected corruption; non-trivial = executions in which a corrupted read was actually detected")
	r.Assume("'from that moment' = operations started after the detecting call returned (DESIGN 5.2)")
	r.Assume("AC: only corruption that leaves the ActionResult unparsable is detectable by construction; other AC corruptions are skipped")
	base := lstore.Geometry{SectorSize: 4, SectorsPerBlock: 4, Old: 2, Current: 2, New: 1, Spare: 2, IndexSlots: 127, GetAttempts: 16, PutAttempts: 64}
	depth := ev.Pick(r, 3, 4)
	var scs []mc.Scenario
	scs = append(scs, mc.Scenario{Name: "seq/cas", Space: fmt.Sprintf("8 objects in 3 blocks; every object x every corruption extent (single bytes, overlapping sectors, whole object) x all sequences of %d follow-up operations over {Get of each object, FindMissing(all), fresh upload + read-back, second corruption} on %s", depth, base), Bound: 0, ShardDepth: 2, Body: seqBody(base, depth), Budget: time.Duration(ev.Pick(r, 150, 1200)) * time.Second})
	ac := base
	ac.AC, ac.Mutable = true, true
	scs = append(scs, mc.Scenario{Name: "seq/ac", Space: fmt.Sprintf("AC store (Protobuf validation): 6 ActionResults; every object x every corruption extent that breaks parsing x all sequences of %d follow-up operations on %s", depth, ac), Bound: 0, ShardDepth: 2, Body: seqBody(ac, depth), Budget: time.Duration(ev.Pick(r, 100, 900)) * time.Second})
	ic := base
	ic.IntegrityCache = true
	scs = append(scs, mc.Scenario{Name: "seq/cas-integrity-cache", Space: fmt.Sprintf("as seq/cas with the data integrity validation cache in front of the CAS buffers (a validated object is served unchecked afterwards, so only corruption of not yet validated objects is detectable; a detection must still quarantine) on %s", ic), Bound: 0, ShardDepth: 2, Body: seqBody(ic, depth), Budget: time.Duration(ev.Pick(r, 150, 1200)) * time.Second})
	cg := base
	cg.DataGates = true
	for v := 0; v < 4; v++ {
		scs = append(scs, mc.Scenario{Name: fmt.Sprintf("conc/variant%d", v), Space: []string{"detecting Get(x) || upload in flight into x's block || Get(neighbour)", "detecting Get(x) || upload in flight into x's block || three block-sized uploads forcing rotations", "x in the oldest block: detection || upload || three block-sized uploads forcing rotations", "x in a middle block: detection || upload || three block-sized uploads forcing rotations"}[v] + " on " + cg.String(), Bound: ev.Pick(r, 2, 3), Body: concBody(cg, v), Budget: time.Duration(ev.Pick(r, 40, 400)) * time.Second})
	}
	scs = append(scs, mc.Scenario{Name: "conc/findmissing-refresh-race", Space: "aged store (first blocks old), x corrupted in a newer block: detecting Get(x) || FindMissing(all objects) whose second pass copies the objects of the old blocks, on " + cg.String(), Bound: ev.Pick(r, 2, 3), Body: fmRaceBody(cg), Budget: time.Duration(ev.Pick(r, 40, 400)) * time.Second})
	scs = append(scs, mc.Scenario{Name: "conc/abandoned-refreshing-read", Space: "aged store, x corrupted in an old block: Get(x) (refresh copy behind a cloned buffer) abandoned with Discard or consumed, every order of the two consumers' registration; then a second Get(x); blocks newer than x's must survive, on " + cg.String(), Bound: ev.Pick(r, 2, 3), Body: discardRefreshBody(cg), Budget: time.Duration(ev.Pick(r, 40, 400)) * time.Second})
	pg := base
	pg.Persistent, pg.IndexOnDevice, pg.MinEpochInterval, pg.ErrorRetry = true, true, 10*time.Second, 3*time.Second
	scs = append(scs, mc.Scenario{Name: "seq/persistent", Space: fmt.Sprintf("persistent block list (epochs; optionally one step of the syncer loops before the corruption, so that the quarantine pops blocks whose epochs are synchronised, synchronising or neither): every one of 8 objects corrupted in turn, detecting Get, then uploads and reads: the store keeps accepting uploads, the corrupted object stays absent, on %s", pg), Bound: 0, Body: persistentBody(pg), Budget: time.Duration(ev.Pick(r, 60, 400)) * time.Second})
	hg := base
	hg.Hierarchical, hg.New, hg.DataGates = true, 2, true
	scs = append(scs, mc.Scenario{Name: "conc/hier-dedup-upload", Space: "hierarchical store: detecting Get(a/Y) || gated upload of X under instance name b while a/X (same block as Y) is what the store de-duplicates against, on " + hg.String(), Bound: ev.Pick(r, 2, 3), Body: hierDedupBody(hg), Budget: time.Duration(ev.Pick(r, 40, 400)) * time.Second})
	mc.Run(r, scs)
	r.Finish()
}
