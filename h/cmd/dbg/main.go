//go:build verif

package main

import (
	"fmt"

	"verifh/lstore"
	"verifh/sim"
	"context"
	"github.com/buildbarn/bb-storage/pkg/blobstore/buffer"
)

func main() {
	g := lstore.Geometry{SectorSize: 4, SectorsPerBlock: 4, Old: 1, Current: 1, New: 1, Spare: 1, IndexSlots: 127, GetAttempts: 16, PutAttempts: 64, RawReads: true}
	lstore.UseRealWiring = false
	s := lstore.Open(g, lstore.NewMedia(g))
	A := lstore.CASObj("A3", "", []byte("aXy"))
	B := lstore.CASObj("B6", "", []byte("bKLMNO"))
	D := lstore.CASObj("D4", "", []byte("dW9z"))
	F := lstore.CASObj("F16", "", []byte("0123456789abcdef"))
	fmt.Println("F:", s.PutOK(F.Digest, F.Content))
	F2 := lstore.CASObj("F16b", "", []byte("0123456789abcdeg"))
	fmt.Println("F2:", s.PutOK(F2.Digest, F2.Content))
	// A's source: on first read, run B's whole upload (B allocates after A, finishes before A flushes)
	srcA := sim.NewSource(sim.Script{Chunks: [][]byte{A.Content}})
	first := true
	srcA.Gate = func() {
		if first {
			first = false
			fmt.Println("B:", s.PutOK(B.Digest, B.Content))
		}
	}
	fmt.Println("A:", s.BA.Put(context.Background(), A.Digest, buffer.NewCASBufferFromReader(A.Digest, sim.ReaderView{S: srcA}, buffer.UserProvided)))
	fmt.Println("D:", s.PutOK(D.Digest, D.Content))
	for _, o := range []lstore.Obj{A, B, D} {
		d, err := s.Get(o.Digest)
		fmt.Printf("%s = %q %v\n", o.Name, d, err)
	}
	fmt.Printf("image %q\n", s.Media.Data.Image)
}
