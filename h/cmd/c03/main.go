//go:build verif

// C03 — acknowledged uploads survive graceful shutdown and committed epochs.
//
//	shutdown/*  uploaders, both syncer loops and a shutdown thread (cancels the context at ANY point:
//	            its position is part of the schedule search). After ProcessBlockPut returned false and
//	            everything is quiescent the store is restarted from the media with the same geometry.
//	            Oracle: every Put that returned nil and that the live store still held is served with
//	            identical bytes after restart; a Put issued after the final sync fails with UNAVAILABLE;
//	            no Put is acknowledged after ProcessBlockPut returned.
//	commit/*    every sequence (depth bound) over {uploads, reads that may refresh, one syncer step of
//	            each kind}; after every completed commit (data sync + state write), and after any
//	            number of following operations that wrote nothing, the process "crashes" (all issued
//	            I/O survives), the store is restarted and every object acknowledged before the commit
//	            started and not rotated out must be served.
package main

import (
	"context"
	"fmt"
	"time"

	"github.com/buildbarn/bb-storage/pkg/verifshim/vsched"
	"github.com/buildbarn/bb-storage/pkg/verifshim/vsync"
	"google.golang.org/grpc/codes"
	"google.golang.org/grpc/status"

	"verifh/ev"
	"verifh/lstore"
	"verifh/mc"
)

func failf(sig, format string, a ...any) { vsched.Fail(sig, format, a...) }

var contents = map[string]string{
	"A3": "aaa", "B5": "bbbbb", "C8": "cccccccc", "D4": "dddd", "F8": "ffffffff", "G8": "gggggggg", "H8": "hhhhhhhh", "E0": "",
}

func geometry(hier, idxdev bool, spare int) lstore.Geometry {
	g := lstore.Geometry{SectorSize: 4, SectorsPerBlock: 2, Old: 1, Current: 1, New: 1, Spare: spare, Persistent: true, Hierarchical: hier,
		IndexSlots: 127, GetAttempts: 16, PutAttempts: 64, MinEpochInterval: 10 * time.Second, ErrorRetry: 3 * time.Second, IndexOnDevice: idxdev}
	if hier {
		g.New = 2
	}
	return g
}

// largeStateBody: a scripted history on the largest geometry the configuration accepts (just under 100 blocks):
// hundreds of small uploads, each followed by a commit, so that every live block carries several epochs and the
// state file spans several KiB; then a process crash. Restoring the state must not depend on its size.
func largeStateBody(g lstore.Geometry, uploads int) func() {
	return func() {
		med := lstore.NewMedia(g)
		s := lstore.Open(g, med)
		ctx := context.Background()
		var acks []lstore.Ack
		for i := 0; i < uploads; i++ {
			o := lstore.CASObj(fmt.Sprintf("L%03d", i), inst(g), []byte(fmt.Sprintf("%04d", i)))
			if err := s.PutOK(o.Digest, o.Content); err != nil {
				failf("upload-error-"+status.Code(err).String(), "Put %d failed: %v", i, err)
			}
			acks = append(acks, lstore.Ack{Obj: o, Seq: i})
			if s.PutWakeupReady() {
				s.Syncer.ProcessBlockPut(ctx)
			}
			if s.ReleaseWakeupReady() {
				s.Syncer.ProcessBlockRelease()
			}
		}
		if n := len(s.StateStore.Written); n == 0 {
			failf("harness", "no state was ever written")
		}
		rs := s.Restart(g)
		vsched.Obs("restored blocks=%d", rs.InitialBlocks)
		held := 0
		for _, a := range acks {
			if !s.Held(a.Obj.Digest) {
				continue
			}
			held++
			if !rs.Held(a.Obj.Digest) {
				failf("committed-upload-lost-by-process-crash", "Put(%s) was acknowledged before a commit that ran to completion and the live store still held it; after a process crash the restarted store (restored blocks=%d) does not resolve it", a.Obj.Name, rs.InitialBlocks)
			}
		}
		// Byte-for-byte on fresh restarts for a spread of the held objects (a read may refresh and rotate).
		for i := len(acks) - 1; i >= 0; i -= 37 {
			a := acks[i]
			if !s.Held(a.Obj.Digest) {
				continue
			}
			r2 := s.Restart(g)
			if ok, err := r2.Served(a.Obj.Digest, a.Obj.Content); err != nil || !ok {
				failf("committed-upload-lost-by-process-crash", "Put(%s) was committed and still held, yet after a process crash the restarted store does not serve it (err=%v)", a.Obj.Name, err)
			}
			vsched.Mark()
		}
		vsched.Obs("held=%d", held)
	}
}

func largeGeometry() lstore.Geometry {
	g := geometry(false, true, 3)
	g.SectorsPerBlock = 8
	g.Old, g.Current = 46, 46
	g.IndexSlots = 4093
	return g
}

func inst(g lstore.Geometry) string {
	if g.Hierarchical {
		return "a"
	}
	return ""
}

func shutdownBody(g lstore.Geometry, uploads [][]string, lateUpload bool, dirFaults int) func() {
	return func() {
		med := lstore.NewMedia(g)
		med.Dir.Faults = dirFaults // transient failures of state-directory operations (also of the final state write)
		ctx, cancel := context.WithCancel(context.Background())
		defer cancel()
		exited := false
		s := lstore.OpenWith(g, med, lstore.OpenOptions{Ctx: ctx, OnPutLoopExit: func() { exited = true }})
		var acks []lstore.Ack
		var wg vsync.WaitGroup
		requested := false
		up := func(n string) {
			o := lstore.CASObj(n, inst(g), []byte(contents[n]))
			exitedBefore := exited
			err := s.PutOK(o.Digest, o.Content)
			vsched.Obs("Put %s=%s", n, status.Code(err))
			switch {
			case err == nil:
				if exitedBefore {
					failf("ack-after-final-sync", "Put(%s) started after ProcessBlockPut had returned and was acknowledged", n)
				}
				acks = append(acks, lstore.Ack{Obj: o, At: vsched.Now(), Seq: len(acks)})
			case status.Code(err) == codes.Unavailable:
				if !requested {
					failf("upload-unavailable-before-shutdown", "Put(%s) failed with %v before shutdown was requested", n, err)
				}
			case status.Code(err) == codes.Internal && requested:
				// block rotated away while the write was in flight: legitimate refusal
			default:
				failf("upload-error-"+status.Code(err).String(), "Put(%s) failed with %v", n, err)
			}
			if exitedBefore && err == nil {
				failf("ack-after-final-sync", "Put(%s) acknowledged after the final synchronisation", n)
			}
			if exitedBefore && status.Code(err) != codes.Unavailable {
				failf("late-upload-not-unavailable", "Put(%s) issued after the final synchronisation returned %v, want UNAVAILABLE", n, err)
			}
		}
		for ti, names := range uploads {
			names := names
			wg.Add(1)
			vsched.GoNamed(fmt.Sprintf("uploader%d", ti), false, func() {
				defer wg.Done()
				for _, n := range names {
					up(n)
				}
			})
		}
		wg.Add(1)
		vsched.GoNamed("shutdown", false, func() {
			defer wg.Done()
			requested = true
			cancel()
		})
		wg.Wait()
		vsched.WaitQuiescent()
		if !exited {
			failf("shutdown-did-not-complete", "the context was cancelled but ProcessBlockPut never returned false")
		}
		if lateUpload {
			up("D4")
		}
		rs := s.Restart(g)
		if rs.InitialBlocks == 0 && len(acks) > 0 {
			vsched.Obs("restart restored no blocks")
		}
		for _, a := range acks {
			if !s.Held(a.Obj.Digest) {
				vsched.Obs("%s evicted", a.Obj.Name)
				continue
			}
			rs := s.Restart(g) // fresh restart per object: a read may refresh and rotate others out
			ok, err := rs.Served(a.Obj.Digest, a.Obj.Content)
			if err != nil || !ok {
				failf("acknowledged-upload-lost-by-graceful-shutdown", "Put(%s) was acknowledged before the shutdown completed and the live store still held the object, but the restarted store does not serve it (err=%v, restored blocks=%d)", a.Obj.Name, err, rs.InitialBlocks)
			}
			vsched.Mark()
		}
		// The restarted store keeps serving them while it accepts further uploads: space holding an acknowledged
		// object is not handed out again (only rotation, visible as the index no longer resolving it, ends that).
		if len(acks) > 0 {
			rs := s.Restart(g)
			for i, c := range []string{"zzz", "yyyy"} {
				z := lstore.CASObj(fmt.Sprintf("Z%d", i), inst(g), []byte(c))
				if err := rs.PutOK(z.Digest, z.Content); err != nil {
					break
				}
				for _, a := range acks {
					if !rs.Held(a.Obj.Digest) {
						continue
					}
					if ok, err := rs.Served(a.Obj.Digest, a.Obj.Content); err != nil || !ok {
						failf("acknowledged-upload-overwritten-after-restart", "Put(%s) was acknowledged before the shutdown; after the restart and %d further upload(s) the store still resolves the object but does not serve its bytes (err=%v)", a.Obj.Name, i+1, err)
					}
				}
			}
		}
		// A second run that accepts nothing and shuts down gracefully (its final commit rewrites the state file
		// from what was restored), then a third run that accepts uploads: still nothing acknowledged is damaged.
		if len(acks) > 0 {
			run2 := s.Restart(g)
			cctx, ccancel := context.WithCancel(context.Background())
			ccancel()
			run2.Syncer.ProcessBlockPut(cctx)
			run3 := run2.Restart(g)
			for i, c := range []string{"www", "vvvv"} {
				z := lstore.CASObj(fmt.Sprintf("W%d", i), inst(g), []byte(c))
				if err := run3.PutOK(z.Digest, z.Content); err != nil {
					break
				}
				for _, a := range acks {
					if !run3.Held(a.Obj.Digest) {
						continue
					}
					if ok, err := run3.Served(a.Obj.Digest, a.Obj.Content); err != nil || !ok {
						failf("acknowledged-upload-overwritten-after-second-restart", "Put(%s) was acknowledged before the first shutdown; a second run only shut down gracefully; in the third run, after %d further upload(s), the store still resolves the object but does not serve its bytes (err=%v)", a.Obj.Name, i+1, err)
					}
				}
			}
		}
		if v := s.CheckMonitors(); len(v) > 0 {
			failf("monitor", "%s", v[0])
		}
	}
}

// commitBody: sequential histories with inline syncer steps and process crashes after completed commits.
func commitBody(g lstore.Geometry, depth int) func() {
	return func() {
		med := lstore.NewMedia(g)
		s := lstore.Open(g, med)
		ctx := context.Background()
		names := []string{"A3", "B5", "C8", "F8", "G8"}
		var acks []lstore.Ack
		committedUpTo := -1 // acks[0..committedUpTo] were acknowledged before the last completed commit started
		cleanSince := false // no device write since that commit completed
		writes := func() int {
			n := med.Data.Writes
			if med.Index != nil {
				n += med.Index.Writes
			}
			return n
		}
		crash := func(where string) {
			for i := 0; i <= committedUpTo; i++ {
				a := acks[i]
				if !s.Held(a.Obj.Digest) {
					continue
				}
				// a fresh restart per object: reading one object may refresh it and thereby rotate others out
				rs := s.Restart(g)
				ok, err := rs.Served(a.Obj.Digest, a.Obj.Content)
				if err != nil || !ok {
					failf("committed-upload-lost-by-process-crash", "%s: Put(%s) was acknowledged before a commit (data sync + state write) that ran to completion, nothing was written since, yet after a process crash the restarted store does not serve it (err=%v)", where, a.Obj.Name, err)
				}
				vsched.Mark()
			}
		}
		for step := 0; step < depth; step++ {
			k := vsched.ChooseFree("choice", len(names)+4)
			w0 := writes()
			switch {
			case k < len(names):
				o := lstore.CASObj(names[k], inst(g), []byte(contents[names[k]]))
				err := s.PutOK(o.Digest, o.Content)
				vsched.Obs("P%s=%s", names[k], status.Code(err))
				if err == nil {
					acks = append(acks, lstore.Ack{Obj: o, Seq: len(acks)})
				} else if status.Code(err) != codes.Unavailable {
					failf("upload-error-"+status.Code(err).String(), "Put failed: %v", err)
				}
			case k == len(names):
				o := lstore.CASObj("A3", inst(g), []byte(contents["A3"]))
				_, err := s.Get(o.Digest)
				vsched.Obs("G=%s", status.Code(err))
			case k == len(names)+1:
				o := lstore.CASObj("C8", inst(g), []byte(contents["C8"]))
				_, err := s.FindMissing(o.Digest)
				vsched.Obs("FM=%s", status.Code(err))
			case k == len(names)+2:
				if s.PutWakeupReady() {
					before := len(acks) - 1
					nStates := len(s.StateStore.Written)
					s.Syncer.ProcessBlockPut(ctx)
					vsched.Obs("commit")
					if len(s.StateStore.Written) > nStates {
						committedUpTo = before
						cleanSince = true
						crash(fmt.Sprintf("right after the commit at step %d", step))
						continue
					}
				} else {
					vsched.Obs("commit-idle")
				}
			default:
				if s.ReleaseWakeupReady() {
					s.Syncer.ProcessBlockRelease()
					vsched.Obs("release-step")
				}
			}
			if writes() != w0 {
				cleanSince = false
			}
			if cleanSince && committedUpTo >= 0 {
				crash(fmt.Sprintf("after step %d (no writes since the commit)", step))
			}
		}
	}
}

func main() {
	r := ev.Start("C03")
	r.Rule("vsched: every schedule within the deviation bound of uploaders / syncer loops / shutdown thread (shutdown/*); every operation sequence of the stated depth with a process crash after every completed commit (commit/*); non-trivial = executions in which at least one acknowledged upload was checked against a restarted store")
	r.Assume("graceful restart and process crash: every issued I/O operation survives (lost writes are C02)")
	r.Assume("'still held' is read from the live store's index at the end (never from a hand-computed expectation); a restarted read that cannot refresh for lack of a free block counts as served when the index resolves the object")
	bound := ev.Pick(r, 2, 3)
	budget := time.Duration(ev.Pick(r, 45, 500)) * time.Second
	var scs []mc.Scenario
	type sd struct {
		name    string
		g       lstore.Geometry
		uploads [][]string
		late    bool
		faults  int
	}
	for _, x := range []sd{
		{"one-uploader", geometry(false, true, 1), [][]string{{"A3", "C8"}}, false, 0},
		{"one-uploader-state-fault", geometry(false, true, 1), [][]string{{"A3"}}, false, 1},
		{"one-uploader-late-put", geometry(false, true, 1), [][]string{{"A3"}}, true, 0},
		{"two-uploaders", geometry(false, true, 1), [][]string{{"A3", "B5"}, {"D4", "E0"}}, false, 0},
		{"rotation", geometry(false, true, 1), [][]string{{"C8", "F8", "G8"}}, false, 0},
		{"rotation-two-uploaders", geometry(false, true, 2), [][]string{{"C8", "F8"}, {"G8", "A3"}}, false, 0},
		{"hierarchical", geometry(true, true, 1), [][]string{{"A3", "C8"}, {"B5"}}, false, 0},
	} {
		scs = append(scs, mc.Scenario{Name: "shutdown/" + x.name, Space: fmt.Sprintf("uploaders %v || syncer loops || shutdown thread (late upload after restart point: %v; state-directory fault budget %d) on %s", x.uploads, x.late, x.faults, x.g), Bound: bound, Body: shutdownBody(x.g, x.uploads, x.late, x.faults), Budget: budget, MaxSteps: 60000})
	}
	// The largest geometry the configuration accepts, every block carrying several epochs: a state file of several KiB.
	lg := largeGeometry()
	scs = append(scs, mc.Scenario{Name: "commit/large-state", Space: fmt.Sprintf("one scripted history: 800 four-byte uploads, each followed by a commit and a release step, on %s (about 96 live blocks with 8 epochs each); process crash at the end: every acknowledged upload the live store still resolves is resolved by the restarted store, a spread of them read back byte for byte", lg), Bound: 0, Body: largeStateBody(lg, 800), Budget: budget, MaxSteps: 40000000})
	depth := ev.Pick(r, 5, 7)
	for _, hier := range []bool{false, true} {
		g := geometry(hier, true, 1)
		scs = append(scs, mc.Scenario{Name: fmt.Sprintf("commit/hier=%v", hier), Space: fmt.Sprintf("all sequences of %d operations over {Put A3/B5/C8/F8/G8, Get A3, FindMissing C8, one ProcessBlockPut step, one ProcessBlockRelease step} with a process crash + restart after every completed commit and after every following write-free operation, on %s", depth, g), Bound: 0, ShardDepth: 2, Body: commitBody(g, depth), Budget: time.Duration(ev.Pick(r, 90, 900)) * time.Second})
	}
	mc.Run(r, scs)
	r.Finish()
}
