//go:build verif

// C15 — cloned buffers and background tasks: same bytes for all, no deadlock, no panic.
//
// vsched explorations of the real pkg/blobstore/buffer code:
//
//	clone2/*  : CloneStream into 2 consumers, every pair of consumer programs x source
//	            chunkings x error positions x base buffer kind, all schedules within the bound
//	clone3/*  : 3 consumers (clone of a clone)
//	task/*    : the refresh pattern of the local store: b1,b2 := b.CloneStream();
//	            b1.WithTask(task consuming b2) consumed by every method, task ok / failing
//	prog/*    : compositions (depth <= 3) of CloneStream / CloneCopy / WithTask / WithErrorHandler
//	            over every buffer kind, every Buffer method on the result
package main

import (
	"bytes"
	"fmt"
	"io"
	"strings"

	remoteexecution "github.com/bazelbuild/remote-apis/build/bazel/remote/execution/v2"
	"github.com/buildbarn/bb-storage/pkg/blobstore/buffer"
	"github.com/buildbarn/bb-storage/pkg/digest"
	"github.com/buildbarn/bb-storage/pkg/verifshim/vsched"
	"github.com/buildbarn/bb-storage/pkg/verifshim/vsync"
	"google.golang.org/grpc/codes"
	"google.golang.org/grpc/status"

	"verifh/ev"
	"verifh/mc"
	"verifh/sim"
)

var content = []byte("abc")

var chunkings = [][][]byte{
	{[]byte("abc")},
	{[]byte("a"), []byte("bc")},
	{[]byte("a"), []byte("b"), []byte("c")},
	{[]byte("ab"), {}, []byte("c")},
}

var errSource = status.Error(codes.Unavailable, "injected source failure")

type result struct {
	prog     string
	complete bool // the program reads to the end of the stream
	data     []byte
	want     []byte
	err      error
}

type program struct {
	name     string
	complete bool
	want     []byte
	run      func(b buffer.Buffer) ([]byte, error)
}

func readAllChunks(r buffer.ChunkReader) ([]byte, error) {
	var out []byte
	for {
		c, err := r.Read()
		if err == io.EOF {
			r.Close()
			return out, nil
		}
		if err != nil {
			r.Close()
			return out, err
		}
		out = append(out, c...)
	}
}

var programs = []program{
	{"ToByteSlice", true, content, func(b buffer.Buffer) ([]byte, error) { return b.ToByteSlice(10) }},
	{"ChunkAll", true, content, func(b buffer.Buffer) ([]byte, error) { return readAllChunks(b.ToChunkReader(0, 2)) }},
	{"ChunkOff1", true, content[1:], func(b buffer.Buffer) ([]byte, error) { return readAllChunks(b.ToChunkReader(1, 1)) }},
	{"Reader", true, content, func(b buffer.Buffer) ([]byte, error) {
		r := b.ToReader()
		d, err := io.ReadAll(r)
		if cerr := r.Close(); err == nil {
			err = cerr
		}
		return d, err
	}},
	{"IntoWriter", true, content, func(b buffer.Buffer) ([]byte, error) {
		var w bytes.Buffer
		err := b.IntoWriter(&w)
		return w.Bytes(), err
	}},
	{"ReadAt1", true, content[1:3], func(b buffer.Buffer) ([]byte, error) {
		p := make([]byte, 2)
		n, err := b.ReadAt(p, 1)
		return p[:n], err
	}},
	{"Discard", false, nil, func(b buffer.Buffer) ([]byte, error) { b.Discard(); return nil, nil }},
	// the consumer's size limit is smaller than the object: it gets an error without reading, and must still let go
	{"ToByteSliceTooSmall", false, nil, func(b buffer.Buffer) ([]byte, error) {
		b.ToByteSlice(2) // whether the limit is enforced is not C15's business; what it pins or blocks is
		return nil, nil
	}},
	{"ChunkClose0", false, nil, func(b buffer.Buffer) ([]byte, error) { b.ToChunkReader(0, 2).Close(); return nil, nil }},
	{"ChunkClose1", false, nil, func(b buffer.Buffer) ([]byte, error) {
		r := b.ToChunkReader(0, 2)
		r.Read()
		r.Close()
		return nil, nil
	}},
	{"ReaderClose1", false, nil, func(b buffer.Buffer) ([]byte, error) {
		r := b.ToReader()
		r.Read(make([]byte, 1))
		r.Close()
		return nil, nil
	}},
}

func dig() digest.Digest { return sim.SHA256Digest("inst", content) }

// newBase builds the base buffer over a gated scripted source.
func newBase(kind string, chunking int, errPos int) (buffer.Buffer, *sim.Source) {
	chunks := chunkings[chunking]
	sc := sim.Script{Chunks: chunks}
	if errPos >= 0 {
		sc.Chunks = chunks[:errPos]
		sc.FinalErr = errSource
	}
	src := sim.NewSource(sc)
	src.Gate = func() { vsched.Yield("source.Read") }
	switch kind {
	case "chunk":
		return buffer.NewCASBufferFromChunkReader(dig(), sim.ChunkView{S: src}, buffer.UserProvided), src
	default:
		return buffer.NewCASBufferFromReader(dig(), sim.ReaderView{S: src}, buffer.UserProvided), src
	}
}

func checkResults(rs []result, src *sim.Source, errPos int) {
	for _, r := range rs {
		vsched.Obs("%s:%s:%q", r.prog, sim.Code(r.err), r.data)
		if !r.complete {
			continue
		}
		if errPos < 0 {
			if r.err != nil {
				vsched.Fail("clone:consumer-error-without-source-error", "consumer %s got error %v although the source delivered everything", r.prog, r.err)
			}
			if !bytes.Equal(r.data, r.want) {
				vsched.Fail("clone:wrong-bytes", "consumer %s got %q, want %q", r.prog, r.data, r.want)
			}
		} else {
			if r.err == nil {
				vsched.Fail("clone:success-despite-source-error", "consumer %s completed successfully (%q) although the source failed", r.prog, r.data)
			}
			if status.Code(r.err) != codes.Unavailable || !strings.Contains(r.err.Error(), "injected source failure") {
				vsched.Fail("clone:different-error", "consumer %s got %v, want the source's error", r.prog, r.err)
			}
		}
	}
	if src.Closes != 1 {
		vsched.Fail(fmt.Sprintf("clone:source-closes=%d", src.Closes), "underlying source closed %d times, want exactly once", src.Closes)
	}
	if src.ReadAfterClose != 0 {
		vsched.Fail("clone:read-after-close", "underlying source read %d times after Close", src.ReadAfterClose)
	}
}

func cloneScenario(kind string, chunking, errPos int, progs []int) func() {
	return func() {
		base, src := newBase(kind, chunking, errPos)
		bufs := make([]buffer.Buffer, 0, len(progs))
		rest := base
		for i := 0; i < len(progs)-1; i++ {
			var b buffer.Buffer
			b, rest = rest.CloneStream()
			bufs = append(bufs, b)
		}
		bufs = append(bufs, rest)
		rs := make([]result, len(progs))
		var wg vsync.WaitGroup
		for i, pi := range progs {
			i, p, b := i, programs[pi], bufs[i]
			wg.Add(1)
			vsched.GoNamed(fmt.Sprintf("c%d-%s", i, p.name), false, func() {
				defer wg.Done()
				d, err := p.run(b)
				vsched.Obs("finished:%d", i)
				rs[i] = result{prog: p.name, complete: p.complete, data: d, want: p.want, err: err}
			})
		}
		wg.Wait()
		checkResults(rs, src, errPos)
	}
}

// ---- task scenarios ---------------------------------------------------------------

var errTask = status.Error(codes.Aborted, "injected task failure")

// taskScenario mirrors flat_blob_access.Get's refresh: clone, attach a task that consumes the second clone.
func taskScenario(kind string, chunking, errPos int, prog int, taskFails bool, again string) func() {
	return func() {
		base, src := newBase(kind, chunking, errPos)
		b1, b2 := base.CloneStream()
		taskDone := false
		var copied []byte
		var copyErr error
		b := b1.WithTask(func() error {
			var w bytes.Buffer
			copyErr = b2.IntoWriter(&w)
			copied = w.Bytes()
			vsched.Yield("task.finalize")
			taskDone = true
			if copyErr != nil {
				return copyErr
			}
			if taskFails {
				return errTask
			}
			return nil
		})
		p := programs[prog]
		var d []byte
		var err error
		extraOK := true
		switch again {
		case "":
			d, err = p.run(b)
		case "size":
			sz, serr := b.GetSizeBytes()
			if serr != nil || sz != int64(len(content)) {
				vsched.Fail("task:GetSizeBytes", "GetSizeBytes on buffer with task = %d, %v", sz, serr)
			}
			d, err = p.run(b)
		case "clone-size":
			// Clone the buffer that has a task; ask the clone for its size (what a sink's Put does first).
			c1, c2 := b.CloneStream()
			sz, serr := c1.GetSizeBytes()
			if serr != nil || sz != int64(len(content)) {
				vsched.Fail("task:clone-GetSizeBytes", "GetSizeBytes on a clone of a buffer with task = %d, %v (want %d)", sz, serr, len(content))
			}
			var wg vsync.WaitGroup
			wg.Add(1)
			vsched.GoNamed("second-clone", false, func() {
				defer wg.Done()
				d2, e2 := programs[0].run(c2)
				if e2 == nil && !bytes.Equal(d2, content) {
					extraOK = false
				}
			})
			d, err = p.run(c1)
			wg.Wait()
		case "task-again":
			// Attach a second task to a clone of the buffer with a task.
			c1, c2 := b.CloneStream()
			second := false
			c1 = c1.WithTask(func() error { c2.Discard(); second = true; return nil })
			d, err = p.run(c1)
			if !second {
				vsched.Fail("task:second-task-not-finished", "consumption returned before the second task finished")
			}
		}
		vsched.Obs("task:%s:%s:%q:done=%v", p.name, sim.Code(err), d, taskDone)
		if !extraOK {
			vsched.Fail("task:second-clone-wrong-bytes", "second clone read wrong bytes")
		}
		if !taskDone {
			vsched.Fail("task:completion-before-task", "%s returned (err=%v) before the background task had finished", p.name, err)
		}
		if p.complete {
			switch {
			case errPos >= 0:
				if err == nil {
					vsched.Fail("task:success-despite-source-error", "%s succeeded although the source failed", p.name)
				}
				if status.Code(err) != codes.Unavailable {
					vsched.Fail("task:data-error-masked", "%s returned %v, want the data error (UNAVAILABLE)", p.name, err)
				}
			case taskFails:
				if status.Code(err) != codes.Aborted {
					vsched.Fail("task:task-error-not-reported", "%s returned %v, want the task's error since the data was fine", p.name, err)
				}
			default:
				if err != nil {
					vsched.Fail("task:unexpected-error", "%s returned %v", p.name, err)
				}
				if !bytes.Equal(d, p.want) {
					vsched.Fail("task:wrong-bytes", "%s got %q want %q", p.name, d, p.want)
				}
			}
		}
		if errPos < 0 && copyErr == nil && !bytes.Equal(copied, content) {
			vsched.Fail("task:copy-wrong-bytes", "the task's clone read %q", copied)
		}
		if src.Closes != 1 {
			vsched.Fail(fmt.Sprintf("task:source-closes=%d", src.Closes), "source closed %d times", src.Closes)
		}
	}
}

// ---- program compositions -----------------------------------------------------------

type readerAt struct {
	data   []byte
	closes *int
}

func (r readerAt) ReadAt(p []byte, off int64) (int, error) {
	vsched.Yield("readerAt.ReadAt")
	if off >= int64(len(r.data)) {
		return 0, io.EOF
	}
	n := copy(p, r.data[off:])
	if n < len(p) {
		return n, io.EOF
	}
	return n, nil
}
func (r readerAt) Close() error { *r.closes++; return nil }

type handler struct {
	dones  int
	errors int
}

func (h *handler) OnError(err error) (buffer.Buffer, error) { h.errors++; return nil, err }
func (h *handler) Done()                                    { h.dones++ }

var kinds = []string{"validated-slice", "cas-slice", "cas-reader", "cas-chunk", "reader-at", "error", "proto"}

var errBuf = status.Error(codes.NotFound, "error buffer")

func kindBuffer(kind string) (buffer.Buffer, func() string, bool) {
	switch kind {
	case "validated-slice":
		return buffer.NewValidatedBufferFromByteSlice(append([]byte(nil), content...)), func() string { return "" }, false
	case "cas-slice":
		return buffer.NewCASBufferFromByteSlice(dig(), append([]byte(nil), content...), buffer.UserProvided), func() string { return "" }, false
	case "cas-reader", "cas-chunk":
		k := "reader"
		if kind == "cas-chunk" {
			k = "chunk"
		}
		b, src := newBase(k, 1, -1)
		return b, func() string {
			if src.Closes != 1 {
				return fmt.Sprintf("source closed %d times", src.Closes)
			}
			return ""
		}, false
	case "reader-at":
		closes := 0
		return buffer.NewValidatedBufferFromReaderAt(readerAt{data: content, closes: &closes}, int64(len(content))), func() string {
			if closes != 1 {
				return fmt.Sprintf("ReadAtCloser closed %d times", closes)
			}
			return ""
		}, false
	case "proto":
		return buffer.NewProtoBufferFromProto(&remoteexecution.ActionResult{ExitCode: 7}, buffer.UserProvided), func() string { return "" }, false
	}
	return buffer.NewBufferFromError(errBuf), func() string { return "" }, true
}

var decorators = []string{"CloneStreamL", "CloneStreamR", "CloneCopy", "TaskOK", "TaskErr", "ErrHandler"}

type progState struct {
	pendingTasks []*bool
	wg           vsync.WaitGroup
	handlers     []*handler
	taskErr      bool
}

// discardAside consumes the other half of a clone concurrently, as a real
// second consumer would (a stream clone only makes progress once every clone
// has declared how it will read).
func (st *progState) discardAside(b buffer.Buffer) {
	st.wg.Add(1)
	vsched.GoNamed("side", false, func() { defer st.wg.Done(); b.Discard() })
}

func decorate(b buffer.Buffer, d string, st *progState) buffer.Buffer {
	switch d {
	case "CloneStreamL":
		l, r := b.CloneStream()
		st.discardAside(r)
		return l
	case "CloneStreamR":
		l, r := b.CloneStream()
		st.discardAside(l)
		return r
	case "CloneCopy":
		l, r := b.CloneCopy(100)
		st.discardAside(r)
		return l
	case "TaskOK", "TaskErr":
		done := new(bool)
		st.pendingTasks = append(st.pendingTasks, done)
		fails := d == "TaskErr"
		if fails {
			st.taskErr = true
		}
		return b.WithTask(func() error {
			vsched.Yield("task")
			*done = true
			if fails {
				return errTask
			}
			return nil
		})
	default:
		h := &handler{}
		st.handlers = append(st.handlers, h)
		return buffer.WithErrorHandler(b, h)
	}
}

var methods = []string{"GetSizeBytes", "ToByteSliceTooSmall", "CloneCopyTooSmall", "ToByteSlice", "ChunkAll", "Reader", "IntoWriter", "ReadAt1", "ToProto", "Discard", "CloneStreamBoth", "CloneCopyBoth", "WithTaskThenSlice", "ChunkClose1"}

func progScenario(kind string, decos []string, method string) func() {
	return func() {
		b, closeCheck, isErr := kindBuffer(kind)
		st := &progState{}
		for _, d := range decos {
			b = decorate(b, d, st)
		}
		wg := &st.wg
		want := content
		isProto := kind == "proto"
		var data []byte
		var err error
		wholeObject := true
		switch method {
		case "GetSizeBytes":
			wholeObject = false
			sz, serr := b.GetSizeBytes()
			vsched.Obs("size=%d err=%s", sz, sim.Code(serr))
			if isErr {
				if status.Code(serr) != codes.NotFound {
					vsched.Fail("prog:GetSizeBytes-error-buffer", "GetSizeBytes on error buffer composition returned %d, %v", sz, serr)
				}
			} else if st.taskErr && status.Code(serr) == codes.Aborted {
				// a buffer whose (synchronously executed) task failed reports the task's error
			} else if !isProto && (serr != nil || sz != int64(len(content))) {
				vsched.Fail("prog:GetSizeBytes", "GetSizeBytes = %d, %v; want %d (kind %s, decorators %v)", sz, serr, len(content), kind, decos)
			}
			b.Discard()
		case "ToByteSliceTooSmall":
			wholeObject = false
			b.ToByteSlice(2)
		case "CloneCopyTooSmall":
			wholeObject = false
			l, r2 := b.CloneCopy(2)
			l.ToByteSlice(100)
			r2.ToByteSlice(100)
		case "ToByteSlice":
			data, err = b.ToByteSlice(100)
		case "ChunkAll":
			data, err = readAllChunks(b.ToChunkReader(0, 2))
		case "Reader":
			data, err = programs[3].run(b)
		case "IntoWriter":
			data, err = programs[4].run(b)
		case "ReadAt1":
			data, err = programs[5].run(b)
			want = content[1:3]
		case "ToProto":
			wholeObject = false
			_, err = b.ToProto(&remoteexecution.ActionResult{}, 100)
			if isProto && err != nil && !st.taskErr {
				vsched.Fail("prog:ToProto", "ToProto on proto buffer failed: %v", err)
			}
			err = nil
		case "Discard":
			wholeObject = false
			b.Discard()
		case "ChunkClose1":
			wholeObject = false
			programs[9].run(b)
		case "CloneStreamBoth":
			l, r2 := b.CloneStream()
			wg.Add(1)
			var d2 []byte
			var e2 error
			vsched.GoNamed("second", false, func() { defer wg.Done(); d2, e2 = r2.ToByteSlice(100) })
			data, err = l.ToByteSlice(100)
			wg.Wait()
			if (err == nil) != (e2 == nil) || !bytes.Equal(data, d2) {
				vsched.Fail("prog:clones-disagree", "stream clones disagree: %q,%v vs %q,%v", data, err, d2, e2)
			}
		case "CloneCopyBoth":
			l, r2 := b.CloneCopy(100)
			d2, e2 := r2.ToByteSlice(100)
			data, err = l.ToByteSlice(100)
			if (err == nil) != (e2 == nil) || !bytes.Equal(data, d2) {
				vsched.Fail("prog:copies-disagree", "copy clones disagree: %q,%v vs %q,%v", data, err, d2, e2)
			}
		case "WithTaskThenSlice":
			done := new(bool)
			st.pendingTasks = append(st.pendingTasks, done)
			b = b.WithTask(func() error { vsched.Yield("task"); *done = true; return nil })
			data, err = b.ToByteSlice(100)
		}
		// Completion never precedes task completion. Only a method that consumed the object reports completion;
		// Discard, GetSizeBytes, an early Close or a consumer refused for its size limit return at once, and with a
		// stream clone below them the task then still waits for the other clone's consumer.
		for i, d := range st.pendingTasks {
			if !wholeObject {
				break
			}
			if !*d {
				vsched.Fail("prog:completion-before-task", "method %s returned before background task %d finished (kind %s, decorators %v)", method, i, kind, decos)
			}
		}
		vsched.Obs("%s:%q", sim.Code(err), data)
		if wholeObject {
			switch {
			case isErr:
				if status.Code(err) != codes.NotFound {
					vsched.Fail("prog:error-buffer-lost-error", "method %s on error buffer returned %v", method, err)
				}
			case st.taskErr:
				if status.Code(err) != codes.Aborted {
					vsched.Fail("prog:task-error-not-reported", "method %s: data fine, task failed, got %v (kind %s decorators %v)", method, err, kind, decos)
				}
			case isProto:
				if err != nil && method != "ReadAt1" {
					vsched.Fail("prog:proto-error", "method %s on proto buffer: %v", method, err)
				}
			default:
				if err != nil {
					vsched.Fail("prog:unexpected-error", "method %s: %v (kind %s decorators %v)", method, err, kind, decos)
				}
				if !bytes.Equal(data, want) {
					vsched.Fail("prog:wrong-bytes", "method %s: got %q want %q (kind %s decorators %v)", method, data, want, kind, decos)
				}
			}
		}
		wg.Wait()
		if msg := closeCheck(); msg != "" {
			vsched.Fail("prog:release-count", "%s (kind %s decorators %v method %s)", msg, kind, decos, method)
		}
		for _, h := range st.handlers {
			if h.dones != 1 {
				vsched.Fail(fmt.Sprintf("prog:handler-done=%d", h.dones), "ErrorHandler.Done called %d times (kind %s decorators %v method %s)", h.dones, kind, decos, method)
			}
		}
	}
}

func main() {
	r := ev.Start("C15")
	r.Rule("vsched: every schedule (within the stated deviation bound) of every scenario; a scenario = consumer programs x source chunking x error position x base kind (clone*), consumption method x task outcome x follow-up (task*), buffer kind x decorator composition x method (prog*), the local replicator's ReplicateSingle x consumption method x source error x context state (user*); non-trivial = executions in which at least one thread had to wait for another")
	r.Assume("sequentially consistent interleavings at synchronisation operations; data races are looked for separately")
	thorough := r.Thorough()
	var scs []mc.Scenario
	add := func(group, name string, bound int, body func()) {
		scs = append(scs, mc.Scenario{Name: group + "/" + name, Group: group, Bound: bound, Body: body})
	}
	b2 := ev.Pick(r, 3, 6)
	for _, kind := range []string{"chunk", "reader"} {
		for ck := range chunkings {
			if !thorough && ck == 3 {
				continue
			}
			for errPos := -1; errPos <= len(chunkings[ck]); errPos++ {
				if !thorough && errPos > 1 {
					continue
				}
				for p1 := range programs {
					for p2 := p1; p2 < len(programs); p2++ {
						add("clone2", fmt.Sprintf("%s-k%d-e%d-%s-%s", kind, ck, errPos, programs[p1].name, programs[p2].name), b2, cloneScenario(kind, ck, errPos, []int{p1, p2}))
					}
				}
			}
		}
	}
	b3 := ev.Pick(r, 2, 3)
	three := []int{0, 1, 3, 6, 8}
	for _, ck := range []int{1} {
		for _, errPos := range []int{-1, 1} {
			for _, p1 := range three {
				for _, p2 := range three {
					for _, p3 := range three {
						if p1 > p2 {
							continue
						}
						add("clone3", fmt.Sprintf("chunk-k%d-e%d-%s-%s-%s", ck, errPos, programs[p1].name, programs[p2].name, programs[p3].name), b3, cloneScenario("chunk", ck, errPos, []int{p1, p2, p3}))
					}
				}
			}
		}
	}
	bt := ev.Pick(r, 2, 4)
	for _, kind := range []string{"chunk", "reader"} {
		for _, errPos := range []int{-1, 1} {
			for pi := range programs {
				for _, tf := range []bool{false, true} {
					for _, again := range []string{"", "size", "clone-size", "task-again"} {
						add("task", fmt.Sprintf("%s-e%d-%s-fail%v-%s", kind, errPos, programs[pi].name, tf, again), bt, taskScenario(kind, 1, errPos, pi, tf, again))
					}
				}
			}
		}
	}
	for _, kind := range []string{"chunk", "reader"} {
		for _, errPos := range []int{-1, 1} {
			for pi := range programs {
				for cm := range cancelModes {
					add("user", fmt.Sprintf("local-replicator-%s-e%d-%s-%s", kind, errPos, programs[pi].name, cancelModes[cm]), bt, replicatorScenario(kind, errPos, pi, cm))
				}
			}
		}
	}
	maxDepth := ev.Pick(r, 2, 3)
	var rec func(prefix []string)
	var compositions [][]string
	rec = func(prefix []string) {
		compositions = append(compositions, append([]string(nil), prefix...))
		if len(prefix) == maxDepth {
			return
		}
		for _, d := range decorators {
			rec(append(prefix, d))
		}
	}
	rec(nil)
	for _, kind := range kinds {
		for _, comp := range compositions {
			for _, m := range methods {
				add("prog", fmt.Sprintf("%s-%s-%s", kind, strings.Join(comp, "+"), m), 1, progScenario(kind, comp, m))
			}
		}
	}
	mc.Run(r, scs)
	r.Finish()
}
