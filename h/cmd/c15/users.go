//go:build verif

package main

// The repository's own users of "stream-clone + background task": the local replicator's ReplicateSingle (read from
// the source, upload the second clone to the sink in a task). Driven with the gated sources and consumer programs
// of the clone scenarios; the request context is live, cancelled before the call, or cancelled while the source is
// being asked (a caller that went away must not leave the other clone unconsumed).

import (
	"context"
	"fmt"

	"github.com/buildbarn/bb-storage/pkg/blobstore"
	"github.com/buildbarn/bb-storage/pkg/blobstore/buffer"
	"github.com/buildbarn/bb-storage/pkg/blobstore/replication"
	"github.com/buildbarn/bb-storage/pkg/digest"
	"github.com/buildbarn/bb-storage/pkg/verifshim/vsched"

	"verifh/sim"
)

type oneObjectSource struct {
	blobstore.BlobAccess
	get func() buffer.Buffer
}

func (s oneObjectSource) Get(ctx context.Context, d digest.Digest) buffer.Buffer { return s.get() }

var cancelModes = []string{"live", "cancelled-before", "cancelled-during-get"}

func replicatorScenario(kind string, errPos, prog, cancelMode int) func() {
	return func() {
		base, src := newBase(kind, 1, errPos)
		ctx, cancel := context.WithCancel(context.Background())
		defer cancel()
		if cancelMode == 1 {
			cancel()
		}
		source := oneObjectSource{get: func() buffer.Buffer {
			if cancelMode == 2 {
				cancel()
			}
			return base
		}}
		sink := sim.NewModel("sink", digest.KeyWithInstance)
		sink.Hook = func(op string, ds []digest.Digest) error { vsched.Yield("sink." + op); return nil }
		rep := replication.NewLocalBlobReplicator(source, sink)
		p := programs[prog]
		d, err := p.run(rep.ReplicateSingle(ctx, dig()))
		vsched.Obs("finished:%s", fmt.Sprint(err))
		checkResults([]result{{prog: p.name, complete: p.complete, data: d, want: p.want, err: err}}, src, errPos)
		if errPos < 0 && p.complete && err == nil && !sink.Has(dig()) {
			vsched.Fail("user:replicated-object-not-in-sink", "ReplicateSingle's buffer was consumed successfully with %s but the sink does not hold the object", p.name)
		}
	}
}
