package main

import (
	"fmt"
	"reflect"
	"sort"
	"strings"

	"github.com/buildbarn/bb-storage/pkg/digest"

	"verifh/ev"
	"verifh/sim"
)

// ---- reference model of the trie -----------------------------------------

type refTrie map[string]int

func (r refTrie) key() string {
	ks := make([]string, 0, len(r))
	for k := range r {
		ks = append(ks, k)
	}
	sort.Strings(ks)
	var sb strings.Builder
	for _, k := range ks {
		fmt.Fprintf(&sb, "%q=%d;", k, r[k])
	}
	return sb.String()
}

func (r refTrie) clone() refTrie {
	c := refTrie{}
	for k, v := range r {
		c[k] = v
	}
	return c
}

func (r refTrie) getExact(n string) int {
	if v, ok := r[n]; ok {
		return v
	}
	return -1
}

// getLongestPrefix: linear scan over the component-wise prefixes of n, most
// specific first.
func (r refTrie) getLongestPrefix(n string) int {
	for _, p := range chain(n) {
		if v, ok := r[p]; ok {
			return v
		}
	}
	return -1
}

// queryNames: the universe plus names outside it (deeper, sibling, string
// prefix extensions, unrelated).
var trieQueryNames = append(append([]string(nil), universe...), "a/bc", "a/b/c/d", "a/b/d", "abc", "b/a", "x", "a/b/c/d/e")

type trieOp struct {
	Kind  string `json:"kind"` // "set" or "remove"
	Name  string `json:"name"`
	Value int    `json:"value"`
}

func (o trieOp) String() string {
	if o.Kind == "set" {
		return fmt.Sprintf("Set(%q,%d)", o.Name, o.Value)
	}
	return fmt.Sprintf("Remove(%q)", o.Name)
}

// dumpTrie renders the private node structure of the real trie (harness-side
// reflection, read-only) so that the search deduplicates on the real
// implementation state, not only on the abstract map.
func dumpTrie(t *digest.InstanceNameTrie) (s string, ok bool) {
	defer func() {
		if recover() != nil {
			s, ok = "", false
		}
	}()
	root := reflect.ValueOf(t).Elem().FieldByName("root")
	if !root.IsValid() {
		return "", false
	}
	return dumpNode(root), true
}

func dumpNode(v reflect.Value) string {
	val := v.FieldByName("value").Int()
	ch := v.FieldByName("children")
	keys := ch.MapKeys()
	ks := make([]string, len(keys))
	byName := map[string]reflect.Value{}
	for i, k := range keys {
		ks[i] = k.String()
		byName[ks[i]] = k
	}
	sort.Strings(ks)
	var sb strings.Builder
	fmt.Fprintf(&sb, "(%d", val)
	for _, k := range ks {
		fmt.Fprintf(&sb, " %s:%s", k, dumpNode(ch.MapIndex(byName[k]).Elem()))
	}
	sb.WriteString(")")
	return sb.String()
}

// trieApply applies op to both the real trie and the reference and checks the
// result of Remove. It returns a failure message or "".
func trieApply(t *digest.InstanceNameTrie, ref refTrie, op trieOp) (msg, sig string) {
	in := sim.Instance(op.Name)
	switch op.Kind {
	case "set":
		t.Set(in, op.Value)
		ref[op.Name] = op.Value
	case "remove":
		if _, ok := ref[op.Name]; !ok {
			ev.HarnessError("trie: Remove(%q) generated for an absent name", op.Name)
		}
		got := t.Remove(in)
		delete(ref, op.Name)
		if want := len(ref) == 0; got != want {
			return fmt.Sprintf("Remove(%q) returned %v, but the trie is empty=%v afterwards (reference %s)", op.Name, got, want, ref.key()), "trie:remove-emptiness-result"
		}
	}
	return "", ""
}

// trieAnswers queries the real trie for every name and compares with the
// reference. It returns the answer vector as a string.
func trieAnswers(t *digest.InstanceNameTrie, ref refTrie) (vec, msg, sig string) {
	var sb strings.Builder
	for _, n := range trieQueryNames {
		in := sim.Instance(n)
		ge, gl, ce, cp := t.GetExact(in), t.GetLongestPrefix(in), t.ContainsExact(in), t.ContainsPrefix(in)
		fmt.Fprintf(&sb, "%d,%d,%v,%v|", ge, gl, ce, cp)
		if msg != "" {
			continue
		}
		we, wl := ref.getExact(n), ref.getLongestPrefix(n)
		switch {
		case ge != we:
			msg, sig = fmt.Sprintf("GetExact(%q)=%d, reference %d (contents %s)", n, ge, we, ref.key()), "trie:GetExact"
		case gl != wl:
			msg, sig = fmt.Sprintf("GetLongestPrefix(%q)=%d, reference %d (contents %s)", n, gl, wl, ref.key()), "trie:GetLongestPrefix"
		case ce != (we >= 0):
			msg, sig = fmt.Sprintf("ContainsExact(%q)=%v, reference %v (contents %s)", n, ce, we >= 0, ref.key()), "trie:ContainsExact"
		case cp != (wl >= 0):
			msg, sig = fmt.Sprintf("ContainsPrefix(%q)=%v, reference %v (contents %s)", n, cp, wl >= 0, ref.key()), "trie:ContainsPrefix"
		}
	}
	return sb.String(), msg, sig
}

// trieRun replays ops on a fresh trie, checking after every operation when
// checkAll is set, otherwise only after the last one.
func trieRun(ops []trieOp, checkAll bool) (t *digest.InstanceNameTrie, ref refTrie, vec, msg, sig string) {
	t = digest.NewInstanceNameTrie()
	ref = refTrie{}
	defer func() {
		if p := recover(); p != nil {
			msg, sig = fmt.Sprintf("panic while executing %v: %v", ops, p), "trie:panic"
		}
	}()
	if len(ops) == 0 || checkAll {
		vec, msg, sig = trieAnswers(t, ref)
		if msg != "" {
			return
		}
	}
	for i, op := range ops {
		if msg, sig = trieApply(t, ref, op); msg != "" {
			msg = fmt.Sprintf("after %v: %s", ops[:i+1], msg)
			return
		}
		if checkAll || i == len(ops)-1 {
			vec, msg, sig = trieAnswers(t, ref)
			if msg != "" {
				msg = fmt.Sprintf("after %v: %s", ops[:i+1], msg)
				return
			}
		}
	}
	return
}

type trieCase struct {
	Ops []trieOp `json:"ops"`
}

func trieSub(r *ev.Run) {
	nvals := ev.Pick(r, 2, 3)
	maxStates := 200000
	sub := r.NewSub("trie", "vstate", fmt.Sprintf("explicit-state BFS over Set(n,v)/Remove(n present) on %d names x %d values, state = (reference map, reflective dump of the real node structure), to fixpoint; every transition replayed on a fresh real trie; 4 queries x %d names compared after every transition", len(universe), nvals, len(trieQueryNames)))
	done := sub.Timer()
	defer done()

	type st struct {
		path []trieOp
		ref  refTrie
	}
	seen := map[string]bool{}
	firstVec := map[string]string{} // reference key -> answers of first arrival
	refStates := map[string]bool{}
	var outcomes ev.Set
	nontrivial := map[string]bool{}
	structural := true

	t0, ref0, vec0, msg, sig := trieRun(nil, true)
	if msg != "" {
		r.Violate(ev.Violation{Signature: sig, Sub: "trie", Message: msg, Case: trieCase{}})
	}
	d0, ok := dumpTrie(t0)
	if !ok {
		structural = false
		r.Note("trie: private structure not readable by reflection; states deduplicated by reference map only")
	}
	seen[ref0.key()+"|"+d0] = true
	firstVec[ref0.key()] = vec0
	refStates[ref0.key()] = true
	outcomes.Add(vec0)
	queue := []st{{nil, ref0}}
	sampled := 0
	maxDepth := 0
	for qi := 0; qi < len(queue); qi++ {
		s := queue[qi]
		var ops []trieOp
		for _, n := range universe {
			for v := 0; v < nvals; v++ {
				ops = append(ops, trieOp{"set", n, v})
			}
		}
		for _, n := range universe {
			if _, ok := s.ref[n]; ok {
				ops = append(ops, trieOp{"remove", n, 0})
			}
		}
		for _, op := range ops {
			full := append(append([]trieOp(nil), s.path...), op)
			t, ref, vec, msg, sig := trieRun(full, false)
			sub.Transitions++
			sub.Evaluations++
			if msg != "" {
				r.Violate(ev.Violation{Signature: sig, Sub: "trie", Message: msg, Case: trieCase{full}})
				continue // do not explore beyond a broken state
			}
			outcomes.Add(vec)
			rk := ref.key()
			refStates[rk] = true
			if fv, ok := firstVec[rk]; !ok {
				firstVec[rk] = vec
			} else if fv != vec {
				// Differential: same abstract contents, different path, different answers.
				r.Violate(ev.Violation{Signature: "trie:path-dependent-answers", Sub: "trie", Message: fmt.Sprintf("contents %s reached via %v answers %s, but answered %s when first reached", rk, full, vec, fv), Case: trieCase{full}})
			}
			if len(ref) >= 2 {
				nontrivial[rk] = true
			}
			d := ""
			if structural {
				d, _ = dumpTrie(t)
			}
			k := rk + "|" + d
			if seen[k] {
				continue
			}
			seen[k] = true
			if len(seen) > maxStates {
				sub.CapsHit = append(sub.CapsHit, fmt.Sprintf("state cap %d", maxStates))
				goto out
			}
			if len(full) > maxDepth {
				maxDepth = len(full)
			}
			queue = append(queue, st{full, ref})
			if len(seen)%97 == 5 && sampled < 3 {
				sampled++
				r.Sample(map[string]any{"sub": "trie", "ops": fmt.Sprint(full), "contents": rk, "structure": d, "answers(GetExact,GetLongestPrefix,ContainsExact,ContainsPrefix per name)": vec})
			}
		}
	}
out:
	sub.States = int64(len(seen))
	sub.Nontrivial = int64(len(nontrivial))
	sub.Outcomes = outcomes.Len()
	sub.Exhaustive = len(sub.CapsHit) == 0
	sub.BoundCompleted = fmt.Sprintf("fixpoint, longest shortest-path %d ops", maxDepth)
	sub.Extra = map[string]any{"reference_states": len(refStates), "implementation_states": len(seen), "structure_canonical": len(refStates) == len(seen), "structural_dedup": structural}
}

func trieReplay(r *ev.Run, c trieCase) {
	_, ref, vec, msg, sig := trieRun(c.Ops, true)
	fmt.Printf("replay trie ops=%v contents=%s answers=%s message=%q\n", c.Ops, ref.key(), vec, msg)
	if msg != "" {
		r.Violate(ev.Violation{Signature: sig, Sub: "trie", Message: msg, Case: c})
		return
	}
	// Differential against the canonical construction of the same contents.
	var canon []trieOp
	for _, n := range universe {
		if v, ok := ref[n]; ok {
			canon = append(canon, trieOp{"set", n, v})
		}
	}
	_, _, cvec, _, _ := trieRun(canon, false)
	if len(canon) == 0 {
		_, _, cvec, _, _ = trieRun(nil, true)
	}
	if cvec != vec {
		r.Violate(ev.Violation{Signature: "trie:path-dependent-answers", Sub: "trie", Message: fmt.Sprintf("contents %s: answers %s via %v, %s via %v", ref.key(), vec, c.Ops, cvec, canon), Case: c})
	}
}
