package main

import (
	"context"
	"crypto/sha256"
	"encoding/hex"
	"fmt"
	"sort"
	"strings"

	remoteexecution "github.com/bazelbuild/remote-apis/build/bazel/remote/execution/v2"
	"github.com/buildbarn/bb-storage/pkg/blobstore"
	"github.com/buildbarn/bb-storage/pkg/digest"
	"google.golang.org/grpc/codes"
	"google.golang.org/grpc/status"
	"google.golang.org/protobuf/proto"

	"verifh/ev"
	"verifh/par"
	"verifh/sim"
)

// The hierarchical decorator is meant for the Action Cache (its own comment
// says so): keys are action digests, values are ActionResults, so the value
// stored under (digest, instance name) is NOT determined by the digest. The
// backend is therefore sim.ModelBlobAccess in AC mode (KeyWithInstance,
// Protobuf-backed buffers, no content validation) and the copy stored at level
// i of object o is ActionResult{exit_code: 1000*(o+1)+i+1}: which copy came
// back is directly observable.

// Names under which copies may be stored: the ancestor chain of a/b/c, a
// string-but-not-component sibling ("ab") and a descendant ("a/b/c/d").
var hierStoreNames = []string{"", "a", "a/b", "a/b/c", "ab", "a/b/c/d"}

// Names under which objects are requested.
var hierQueryNames = []string{"", "a", "a/b", "a/b/c", "ab", "a/b/c/d", "a/bc", "b"}

var hierHashes = func() []string {
	var out []string
	for _, s := range []string{"action0", "action1"} {
		h := sha256.Sum256([]byte(s))
		out = append(out, hex.EncodeToString(h[:]))
	}
	return out
}()

var hierDigestTab = func() (t [2]map[string]digest.Digest) {
	for o := 0; o < 2; o++ {
		t[o] = map[string]digest.Digest{}
		for _, l := range [][]string{hierStoreNames, hierQueryNames} {
			for _, n := range l {
				t[o][n] = digest.MustNewDigest(n, remoteexecution.DigestFunction_SHA256, hierHashes[o], 42)
			}
		}
	}
	return
}()

func hierDigest(obj int, name string) digest.Digest {
	if d, ok := hierDigestTab[obj][name]; ok {
		return d
	}
	return digest.MustNewDigest(name, remoteexecution.DigestFunction_SHA256, hierHashes[obj], 42)
}

func hierValue(obj, level int) int32 { return int32(1000*(obj+1) + level + 1) }

func hierPayload(obj, level int) []byte {
	b, err := proto.Marshal(&remoteexecution.ActionResult{ExitCode: hierValue(obj, level)})
	if err != nil {
		ev.HarnessError("marshal: %v", err)
	}
	return b
}

// hierBackend builds the AC model holding the copies selected by the
// placement bit mask (bit obj*len(names)+level).
func hierBackend(names []string, placement int) *sim.ModelBlobAccess {
	m := sim.NewModel("base", digest.KeyWithInstance)
	m.AC = true
	for o := 0; o < 2; o++ {
		for l, n := range names {
			if placement&(1<<(o*len(names)+l)) != 0 {
				m.Store(hierDigest(o, n), hierPayload(o, l))
			}
		}
	}
	return m
}

// hierLookup is the reference: the most specific ancestor-or-self of name that
// holds the object; level -1 if none.
func hierLookup(names []string, placement, obj int, name string) int {
	for _, anc := range chain(name) {
		for l, n := range names {
			if n == anc && placement&(1<<(obj*len(names)+l)) != 0 {
				return l
			}
		}
	}
	return -1
}

type faultHook struct {
	at    int
	n     int
	fired bool
}

func (f *faultHook) hook(string, []digest.Digest) error {
	f.n++
	if f.n-1 == f.at {
		f.fired = true
		return status.Error(codes.Unavailable, "injected-error")
	}
	return nil
}

type hierGetCase struct {
	Placement int    `json:"placement"` // over hierStoreNames x 2 objects
	Name      string `json:"name"`
	Obj       int    `json:"obj"`
	Op        string `json:"op"`
	Fault     int    `json:"fault"` // index of the backend call that fails, -1 none
}

func describePlacement(names []string, placement int) string {
	var p []string
	for o := 0; o < 2; o++ {
		for l, n := range names {
			if placement&(1<<(o*len(names)+l)) != 0 {
				p = append(p, fmt.Sprintf("obj%d@%q=%d", o, n, hierValue(o, l)))
			}
		}
	}
	return strings.Join(p, " ")
}

// runHierGet runs one case; m may be a reusable backend already holding
// c.Placement (reads do not modify it) or nil.
func runHierGet(m *sim.ModelBlobAccess, c hierGetCase) (msg, sig, outcome string, calls int) {
	defer func() {
		if p := recover(); p != nil {
			msg, sig = fmt.Sprintf("panic: %v", p), "hier:"+c.Op+":panic"
		}
	}()
	if m == nil {
		m = hierBackend(hierStoreNames, c.Placement)
	}
	m.Calls, m.Hook = nil, nil
	fh := &faultHook{at: c.Fault}
	if c.Fault >= 0 {
		m.Hook = fh.hook
	}
	ba := blobstore.NewHierarchicalInstanceNamesBlobAccess(m)
	d := hierDigest(c.Obj, c.Name)
	ctx := context.Background()
	var pm proto.Message
	var err error
	switch c.Op {
	case "Get":
		pm, err = ba.Get(ctx, d).ToProto(&remoteexecution.ActionResult{}, 10000)
	case "GetFromComposite":
		pm, err = ba.GetFromComposite(ctx, d, hierDigest(1-c.Obj, c.Name), sliceAll{}).ToProto(&remoteexecution.ActionResult{}, 10000)
	default:
		ev.HarnessError("unknown op %q", c.Op)
	}
	calls = m.CallCount()
	got := int32(-1)
	if err == nil {
		got = pm.(*remoteexecution.ActionResult).GetExitCode()
	}
	want := hierLookup(hierStoreNames, c.Placement, c.Obj, c.Name)
	where := lazyString(func() string {
		return fmt.Sprintf("%s(obj%d under %q) with [%s]", c.Op, c.Obj, c.Name, describePlacement(hierStoreNames, c.Placement))
	})
	if fh.fired {
		outcome = fmt.Sprintf("%s:fault@%d:%s", c.Op, c.Fault, sim.Code(err))
		if err == nil {
			return fmt.Sprintf("%s: backend call %d failed with UNAVAILABLE, but the read succeeded with value %d", where, c.Fault, got), "hier:" + c.Op + ":fault-swallowed", outcome, calls
		}
		if status.Code(err) != codes.Unavailable || !strings.Contains(err.Error(), "injected-error") {
			return fmt.Sprintf("%s: backend call %d failed with UNAVAILABLE injected-error, surfaced as %v", where, c.Fault, err), "hier:" + c.Op + ":fault-not-surfaced", outcome, calls
		}
		return "", "", outcome, calls
	}
	if want < 0 {
		outcome = fmt.Sprintf("%s:none:%s:calls=%d", c.Op, sim.Code(err), calls)
		if status.Code(err) != codes.NotFound {
			return fmt.Sprintf("%s: no ancestor holds the object; want NOT_FOUND, got value %d err %v", where, got, err), "hier:" + c.Op + ":absent-not-notfound", outcome, calls
		}
		return "", "", outcome, calls
	}
	outcome = fmt.Sprintf("%s:level=%q:%s:calls=%d", c.Op, hierStoreNames[want], sim.Code(err), calls)
	if err != nil {
		return fmt.Sprintf("%s: the copy under %q should be returned, got error %v", where, hierStoreNames[want], err), "hier:" + c.Op + ":present-but-error", outcome, calls
	}
	if got != hierValue(c.Obj, want) {
		return fmt.Sprintf("%s: returned value %d, but the most specific ancestor holding it is %q with value %d", where, got, hierStoreNames[want], hierValue(c.Obj, want)), "hier:" + c.Op + ":wrong-copy", outcome, calls
	}
	return "", "", outcome, calls
}

func hierGetSub(r *ev.Run) {
	nbits := 2 * len(hierStoreNames)
	sub := r.NewSub("hier-get", "venum", fmt.Sprintf("all %d placements of 2 objects over %v (distinct value per level) x request names %v x 2 objects x {Get,GetFromComposite} x {no fault, fault at every backend call index}", 1<<nbits, hierStoreNames, hierQueryNames))
	done := sub.Timer()
	defer done()
	var outcomes ev.Set
	type res struct{ evals, nontriv int64 }
	results := make([]res, 1<<nbits)
	smp := &sampler{max: 2}
	par.For(1<<nbits, func(pl int) {
		m := hierBackend(hierStoreNames, pl)
		for _, n := range hierQueryNames {
			for o := 0; o < 2; o++ {
				for _, op := range []string{"Get", "GetFromComposite"} {
					c := hierGetCase{Placement: pl, Name: n, Obj: o, Op: op, Fault: -1}
					msg, sig, oc, calls := runHierGet(m, c)
					results[pl].evals++
					// non-trivial: more than one ancestor-or-self holds a copy, or the
					// copy is found at a proper ancestor.
					holders := 0
					for _, anc := range chain(n) {
						for l, sn := range hierStoreNames {
							if sn == anc && pl&(1<<(o*len(hierStoreNames)+l)) != 0 {
								holders++
							}
						}
					}
					w := hierLookup(hierStoreNames, pl, o, n)
					if holders >= 2 || (w >= 0 && hierStoreNames[w] != n) {
						results[pl].nontriv++
					}
					outcomes.Add(oc)
					if msg != "" {
						r.Violate(ev.Violation{Signature: sig, Sub: "hier-get", Message: msg, Case: c})
						continue
					}
					if pl == 0b000010_001010 && n == "a/b/c" && op == "Get" {
						smp.add(r, map[string]any{"sub": "hier-get", "case": c, "placement": describePlacement(hierStoreNames, pl), "outcome": oc})
					}
					for k := 0; k < calls; k++ {
						c.Fault = k
						msg, sig, oc, _ := runHierGet(m, c)
						results[pl].evals++
						outcomes.Add(oc)
						if msg != "" {
							r.Violate(ev.Violation{Signature: sig, Sub: "hier-get", Message: msg, Case: c})
						}
					}
				}
			}
		}
	})
	for _, x := range results {
		sub.Evaluations += x.evals
		sub.Nontrivial += x.nontriv
	}
	sub.States, sub.Transitions = sub.Evaluations, sub.Evaluations
	sub.Outcomes = outcomes.Len()
	sub.Exhaustive = true
}

// ---- FindMissing ----------------------------------------------------------------

var hierFMQueryNames = []string{"", "a", "a/b", "a/b/c", "ab", "a/b/c/d"}

type hierFMCase struct {
	StoreNames []string `json:"store_names"`
	Placement  int      `json:"placement"`
	Digests    []int    `json:"digests"` // obj*len(hierFMQueryNames)+name
	Fault      int      `json:"fault"`
}

// hierFMPlan holds what is constant for one placement: the backend and, per
// digest of the universe, the reference verdict.
type hierFMPlan struct {
	storeNames []string
	placement  int
	m          *sim.ModelBlobAccess
	d          []digest.Digest
	ds         []string
	kind       []string // "self", "up<k>/<chain length>", "missing/<chain length>"
	missing    []bool
}

func newHierFMPlan(storeNames []string, placement int) *hierFMPlan {
	p := &hierFMPlan{storeNames: storeNames, placement: placement, m: hierBackend(storeNames, placement)}
	for o := 0; o < 2; o++ {
		for _, n := range hierFMQueryNames {
			d := hierDigest(o, n)
			p.d = append(p.d, d)
			p.ds = append(p.ds, d.String())
			l := hierLookup(storeNames, placement, o, n)
			switch {
			case l < 0:
				p.kind = append(p.kind, fmt.Sprintf("missing/%d", len(chain(n))))
			case storeNames[l] == n:
				p.kind = append(p.kind, "self")
			default:
				p.kind = append(p.kind, fmt.Sprintf("up%d/%d", len(chain(n))-len(chain(storeNames[l])), len(chain(n))))
			}
			p.missing = append(p.missing, l < 0)
		}
	}
	return p
}

func runHierFM(p *hierFMPlan, c hierFMCase) (msg, sig, outcome string, calls int) {
	defer func() {
		if pn := recover(); pn != nil {
			msg, sig = fmt.Sprintf("panic: %v", pn), "hier:FindMissing:panic"
		}
	}()
	if p == nil {
		p = newHierFMPlan(c.StoreNames, c.Placement)
	}
	m := p.m
	m.Calls = nil
	fh := &faultHook{at: c.Fault}
	m.Hook = nil
	if c.Fault >= 0 {
		m.Hook = fh.hook
	}
	ba := blobstore.NewHierarchicalInstanceNamesBlobAccess(m)
	ds := make([]digest.Digest, 0, len(c.Digests))
	want := make([]string, 0, len(c.Digests))
	kinds := make([]string, 0, len(c.Digests))
	for _, i := range c.Digests {
		ds = append(ds, p.d[i])
		kinds = append(kinds, p.kind[i])
		if p.missing[i] {
			want = append(want, p.ds[i])
		}
	}
	missing, err := ba.FindMissing(context.Background(), sim.SetOf(ds...))
	calls = len(m.Calls)
	where := lazyString(func() string {
		return fmt.Sprintf("FindMissing(%v) with [%s]", sim.SetStrings(sim.SetOf(ds...)), describePlacement(c.StoreNames, c.Placement))
	})
	if fh.fired {
		outcome = "fault:" + sim.Code(err)
		if err == nil {
			return fmt.Sprintf("%s: backend call %d failed with UNAVAILABLE, but FindMissing succeeded with %v", where, c.Fault, sim.SetStrings(missing)), "hier:FindMissing:fault-swallowed", outcome, calls
		}
		if status.Code(err) != codes.Unavailable || !strings.Contains(err.Error(), "injected-error") {
			return fmt.Sprintf("%s: backend call %d failed with UNAVAILABLE injected-error, surfaced as %v", where, c.Fault, err), "hier:FindMissing:fault-not-surfaced", outcome, calls
		}
		return "", "", outcome, calls
	}
	sort.Strings(kinds)
	outcome = sim.Code(err) + ":" + strings.Join(kinds, ",") + ":calls=" + string(rune('0'+calls))
	if err != nil {
		return fmt.Sprintf("%s: unexpected error %v", where, err), "hier:FindMissing:unexpected-error", outcome, calls
	}
	got := sim.SetStrings(missing)
	sort.Strings(want)
	if !equalStrings(got, want) {
		return fmt.Sprintf("%s: reported missing %v; missing under the name and all its ancestors are %v", where, got, want), "hier:FindMissing:wrong-set", outcome, calls
	}
	return "", "", outcome, calls
}

func subsetsUpTo(n, k int) [][]int {
	var out [][]int
	var rec func(start int, cur []int)
	rec = func(start int, cur []int) {
		out = append(out, append([]int(nil), cur...))
		if len(cur) == k {
			return
		}
		for i := start; i < n; i++ {
			rec(i+1, append(cur, i))
		}
	}
	rec(0, nil)
	return out
}

func hierFMSub(r *ev.Run) {
	storeNames := hierStoreNames[:ev.Pick(r, 5, 6)]
	maxSet := ev.Pick(r, 4, 5)
	faultMaxSet := ev.Pick(r, 2, 5)
	nbits := 2 * len(storeNames)
	sets := subsetsUpTo(2*len(hierFMQueryNames), maxSet)
	sub := r.NewSub("hier-findmissing", "venum", fmt.Sprintf("all %d placements of 2 objects over %v x all %d digest sets of size<=%d over 2 objects x names %v, fault-free; plus a fault at every backend call index for every set of size<=%d", 1<<nbits, storeNames, len(sets), maxSet, hierFMQueryNames, faultMaxSet))
	done := sub.Timer()
	defer done()
	var outcomes ev.Set
	type res struct{ evals, nontriv int64 }
	results := make([]res, 1<<nbits)
	smp := &sampler{max: 2}
	par.For(1<<nbits, func(pl int) {
		m := newHierFMPlan(storeNames, pl)
		local := map[string]bool{}
		for si, set := range sets {
			c := hierFMCase{StoreNames: storeNames, Placement: pl, Digests: set, Fault: -1}
			msg, sig, oc, calls := runHierFM(m, c)
			results[pl].evals++
			local[oc] = true
			// non-trivial: chains of different lengths, one object found at a proper
			// ancestor and one missing everywhere.
			if strings.Contains(oc, "up") && strings.Contains(oc, "missing/") {
				lens := map[int]bool{}
				for _, i := range set {
					lens[len(chain(hierFMQueryNames[i%len(hierFMQueryNames)]))] = true
				}
				if len(lens) >= 2 {
					results[pl].nontriv++
				}
			}
			if msg != "" {
				r.Violate(ev.Violation{Signature: sig, Sub: "hier-findmissing", Message: msg, Case: c})
				continue
			}
			if pl == 0b00101_00010 && si%199 == 150 {
				smp.add(r, map[string]any{"sub": "hier-findmissing", "case": c, "placement": describePlacement(storeNames, pl), "outcome": oc})
			}
			if len(set) > faultMaxSet {
				continue
			}
			for k := 0; k < calls; k++ {
				c.Fault = k
				msg, sig, oc, _ := runHierFM(m, c)
				results[pl].evals++
				local[oc] = true
				if msg != "" {
					r.Violate(ev.Violation{Signature: sig, Sub: "hier-findmissing", Message: msg, Case: c})
				}
			}
		}
		for oc := range local {
			outcomes.Add(oc)
		}
	})
	for _, x := range results {
		sub.Evaluations += x.evals
		sub.Nontrivial += x.nontriv
	}
	sub.States, sub.Transitions = sub.Evaluations, sub.Evaluations
	sub.Outcomes = outcomes.Len()
	sub.Exhaustive = true
	sub.Extra = map[string]any{"digest_sets": len(sets), "placements": 1 << nbits}
}
