// C19 — instance-name routing: longest-prefix demultiplexing, hierarchical
// fallback.
//
// Sub-checks (all against the real exported code of /repo):
//
//	trie                     explicit-state search over Set/Remove sequences of
//	                         digest.InstanceNameTrie to fixpoint vs. a reference map
//	patcher                  digest.NewInstanceNamePatcher over all (old,new,name)
//	demux-single-copy        DemultiplexingBlobAccess, getBackend wired by a
//	demux-findmissing-copy   faithful harness copy of new_blob_access.go
//	demux-single-config      the same spaces, wired by the REAL
//	demux-findmissing-config configuration.NewBlobAccessFromConfiguration
//	hier-get                 NewHierarchicalInstanceNamesBlobAccess Get /
//	hier-findmissing         GetFromComposite / FindMissing over all placements
package main

import (
	"fmt"

	"verifh/ev"
)

func main() {
	r := ev.Start("C19")
	r.Rule("trie: vstate, distinct reference contents with >=2 names present; demux-single: cases where >=2 registered prefixes are STRING prefixes of the instance name (longest-component-prefix choice matters); demux-findmissing: digest sets spanning >=2 backends (or mixing known and unknown names); hier-get: >=2 ancestors-or-self hold a copy or the copy is at a proper ancestor; hier-findmissing: chains of different lengths with one digest found at a proper ancestor and one missing everywhere; patcher: old != new and name longer than old")
	r.Assume("trie: Remove is only called for names currently present (DESIGN 5.6, precondition of the pruning walk); Set is only called with values >= 0 (negative values mean 'absent' inside the trie)")
	r.Assume("trie: Remove's result is compared with 'the reference map is empty afterwards' (doc comment: 'whether removing the instance name has caused the trie to become empty')")
	r.Assume("trie: implementation states are identified by a read-only reflective dump of the private node structure (harness side only; /repo unchanged); every transition is re-executed on a fresh real trie by replaying the shortest operation sequence of its source state")
	r.Assume("demux wiring 'copy': the getBackend closure is a line-by-line harness copy of the Demultiplexing case of pkg/blobstore/configuration/new_blob_access.go (trie.Set(prefix, index), NewInstanceNamePatcher(match, add), backendName = prefix string, INVALID_ARGUMENT for GetLongestPrefix < 0); wiring 'config': the same spaces are driven through configuration.NewBlobAccessFromConfiguration with a Demultiplexing message whose leaves are `grpc` backends resolved by a harness BlobAccessCreator (embedding the real CAS creator, overriding only NewCustomBlobAccess) to recording model backends; the result is additionally wrapped by the real MetricsBlobAccess and EmptyBlobInjectingBlobAccess (no empty blobs are used)")
	r.Assume("demux: registration order only decides trie values; wiring 'config' iterates a Go map, so its order is not controlled; wiring 'copy' enumerates every order for single-digest operations (and for FindMissing in the thorough tier)")
	r.Assume("demux: 'reaches only the right backend' is judged on the call logs of all backends (digests asked per backend compared as sets; the number of calls per backend is not constrained); which failing backend's error FindMissing reports is map-order dependent, any failing contacted backend is accepted")
	r.Assume("demux: a surfaced backend error must keep the code and the backend's message and carry the backend name (registered prefix) before it; the exact format is not demanded (DESIGN 5.9)")
	r.Assume("demux: GetFromComposite uses parent and child under the same instance name; release of the Put buffer on rejection is recorded in the outcome but not demanded (not part of C19)")
	r.Assume("hierarchical decorator: backend = sim.ModelBlobAccess in AC mode (KeyWithInstance, Protobuf buffers, no content validation) because for CAS the payload is determined by the digest and copies under different instance names would be indistinguishable; each level stores ActionResult{exit_code unique per (object, level)}")
	r.Assume("hierarchical decorator: the order and number of backend calls is not demanded; a fault is 'the k-th backend call of that operation returns UNAVAILABLE' for every k below the number of calls of the fault-free run; if the fault fired the operation must fail with that code and message (NOT_FOUND faults are indistinguishable from absence and not injected)")

	if r.Replay != "" {
		replay(r, ev.LoadReplay(r.Replay))
		r.Finish()
	}

	if r.Want("trie") {
		trieSub(r)
	}
	if r.Want("patcher") {
		patcherSub(r)
	}
	for _, w := range []string{"copy", "config"} {
		if r.Want("demux-single-" + w) {
			demuxSingleSub(r, w)
		}
		if r.Want("demux-findmissing-" + w) {
			demuxFMSub(r, w)
		}
	}
	if r.Want("hier-get") {
		hierGetSub(r)
	}
	if r.Want("hier-findmissing") {
		hierFMSub(r)
	}
	r.Finish()
}

func report(r *ev.Run, sub, msg, sig, oc string, c any) {
	fmt.Printf("replay %s case=%+v outcome=%s message=%q\n", sub, c, oc, msg)
	if msg != "" {
		r.Violate(ev.Violation{Signature: sig, Sub: sub, Message: msg, Case: c})
	}
}

func replay(r *ev.Run, rf ev.ReplayFile) {
	switch rf.Sub {
	case "trie":
		var c trieCase
		ev.MustJSON(rf.Case, &c)
		trieReplay(r, c)
	case "patcher":
		var c patchCase
		ev.MustJSON(rf.Case, &c)
		msg, sig, oc := runPatch(c)
		report(r, rf.Sub, msg, sig, oc, c)
	case "demux-single-copy", "demux-single-config":
		var c singleCase
		ev.MustJSON(rf.Case, &c)
		msg, sig, oc := runSingle(nil, c)
		report(r, rf.Sub, msg, sig, oc, c)
	case "demux-findmissing-copy", "demux-findmissing-config":
		var c fmCase
		ev.MustJSON(rf.Case, &c)
		msg, sig, oc := newFMPlan(c.Cfg, c.Names).run(c.Code, c.FailMask)
		report(r, rf.Sub, msg, sig, oc, c)
	case "hier-get":
		var c hierGetCase
		ev.MustJSON(rf.Case, &c)
		msg, sig, oc, _ := runHierGet(nil, c)
		report(r, rf.Sub, msg, sig, oc, c)
	case "hier-findmissing":
		var c hierFMCase
		ev.MustJSON(rf.Case, &c)
		msg, sig, oc, _ := runHierFM(nil, c)
		report(r, rf.Sub, msg, sig, oc, c)
	default:
		ev.HarnessError("unknown sub %q in replay file", rf.Sub)
	}
}
