package main

import (
	"context"
	"fmt"
	"sort"
	"strings"
	"sync"

	remoteexecution "github.com/bazelbuild/remote-apis/build/bazel/remote/execution/v2"
	"github.com/buildbarn/bb-storage/pkg/blobstore"
	"github.com/buildbarn/bb-storage/pkg/blobstore/buffer"
	"github.com/buildbarn/bb-storage/pkg/blobstore/configuration"
	"github.com/buildbarn/bb-storage/pkg/blobstore/slicing"
	"github.com/buildbarn/bb-storage/pkg/digest"
	"github.com/buildbarn/bb-storage/pkg/program"
	pb "github.com/buildbarn/bb-storage/pkg/proto/configuration/blobstore"
	grpcpb "github.com/buildbarn/bb-storage/pkg/proto/configuration/grpc"
	"google.golang.org/grpc/codes"
	"google.golang.org/grpc/status"

	"verifh/ev"
	"verifh/par"
	"verifh/sim"
)

// ---- configurations --------------------------------------------------------

type entry struct {
	Prefix string `json:"prefix"`
	Add    string `json:"add"` // resolved add_instance_name_prefix
}

type demuxCfg struct {
	Entries []entry `json:"entries"` // registration order (decides the trie values)
	Wiring  string  `json:"wiring"`  // "copy": harness copy of new_blob_access.go; "config": NewBlobAccessFromConfiguration
}

func (c demuxCfg) String() string {
	var p []string
	for _, e := range c.Entries {
		p = append(p, fmt.Sprintf("%q->%q", e.Prefix, e.Add))
	}
	return c.Wiring + "{" + strings.Join(p, ",") + "}"
}

// route is the reference: longest component-wise prefix, prefix replaced.
func (c demuxCfg) route(name string) (idx int, patched string) {
	idx = -1
	for i, e := range c.Entries {
		if isCompPrefix(e.Prefix, name) && (idx < 0 || len(e.Prefix) > len(c.Entries[idx].Prefix)) {
			idx = i
		}
	}
	if idx < 0 {
		return -1, ""
	}
	e := c.Entries[idx]
	return idx, join(e.Add, rest(e.Prefix, name))
}

// ambiguous: more than one registered prefix is a *string* prefix of name.
func (c demuxCfg) ambiguous(name string) bool {
	n := 0
	for _, e := range c.Entries {
		if strings.HasPrefix(name, e.Prefix) {
			n++
		}
	}
	return n >= 2
}

var rewrites = []string{"<same>", "", "x", "x/y"}

// allConfigs: every prefix set of size <= 3 over the universe x every rewrite
// per prefix (deduplicated after resolving "<same>"), optionally in every
// registration order.
func allConfigs(wiring string, allOrders bool) []demuxCfg {
	var out []demuxCfg
	seen := map[string]bool{}
	n := len(universe)
	for mask := 0; mask < 1<<n; mask++ {
		var ps []string
		for i, u := range universe {
			if mask&(1<<i) != 0 {
				ps = append(ps, u)
			}
		}
		if len(ps) > 3 {
			continue
		}
		total := 1
		for range ps {
			total *= len(rewrites)
		}
		for rw := 0; rw < total; rw++ {
			es := make([]entry, len(ps))
			x := rw
			for i, p := range ps {
				a := rewrites[x%len(rewrites)]
				x /= len(rewrites)
				if a == "<same>" {
					a = p
				}
				es[i] = entry{p, a}
			}
			orders := [][]int{nil}
			if allOrders {
				orders = permutations(len(es))
			} else {
				id := make([]int, len(es))
				for i := range id {
					id[i] = i
				}
				orders = [][]int{id}
			}
			for _, o := range orders {
				c := demuxCfg{Wiring: wiring, Entries: make([]entry, len(es))}
				for i, j := range o {
					c.Entries[i] = es[j]
				}
				k := c.String()
				if !seen[k] {
					seen[k] = true
					out = append(out, c)
				}
			}
		}
	}
	return out
}

func inUniverseOrder(c demuxCfg) bool {
	pos := map[string]int{}
	for i, u := range universe {
		pos[u] = i
	}
	for i := 1; i < len(c.Entries); i++ {
		if pos[c.Entries[i-1].Prefix] > pos[c.Entries[i].Prefix] {
			return false
		}
	}
	return true
}

// keepTwoOrders keeps, of all registration orders of a prefix set, the one in
// universe order and its reverse (so every prefix is index 0 at least once for
// sets of size <= 2, and first and last are swapped for size 3).
func keepTwoOrders(in []demuxCfg) []demuxCfg {
	pos := map[string]int{}
	for i, u := range universe {
		pos[u] = i
	}
	var out []demuxCfg
	for _, c := range in {
		asc, desc := true, true
		for i := 1; i < len(c.Entries); i++ {
			if pos[c.Entries[i-1].Prefix] > pos[c.Entries[i].Prefix] {
				asc = false
			} else {
				desc = false
			}
		}
		if asc || desc {
			out = append(out, c)
		}
	}
	return out
}

// ---- backends ---------------------------------------------------------------

// recBackend is sim.ModelBlobAccess plus recording of GetCapabilities.
type recBackend struct {
	*sim.ModelBlobAccess
	capCalls []string
	capErr   error
}

func (b *recBackend) GetCapabilities(ctx context.Context, in digest.InstanceName) (*remoteexecution.ServerCapabilities, error) {
	b.capCalls = append(b.capCalls, in.String())
	if b.capErr != nil {
		return nil, b.capErr
	}
	return &remoteexecution.ServerCapabilities{}, nil
}

type fixture struct {
	dirty bool
	cfg   demuxCfg
	ba    blobstore.BlobAccess
	be    []*recBackend
}

func newBackends(cfg demuxCfg) []*recBackend {
	be := make([]*recBackend, len(cfg.Entries))
	for i := range be {
		be[i] = &recBackend{ModelBlobAccess: sim.NewModel(fmt.Sprintf("model%d", i), digest.KeyWithInstance)}
	}
	return be
}

// buildCopy wires trie + patchers + getBackend closure exactly like the
// Demultiplexing case of pkg/blobstore/configuration/new_blob_access.go.
func buildCopy(cfg demuxCfg) *fixture {
	be := newBackends(cfg)
	backendsTrie := digest.NewInstanceNameTrie()
	type demultiplexedBackendInfo struct {
		backend             blobstore.BlobAccess
		backendName         string
		instanceNamePatcher digest.InstanceNamePatcher
	}
	backends := make([]demultiplexedBackendInfo, 0, len(cfg.Entries))
	for i, e := range cfg.Entries {
		matchInstanceNamePrefix, err := digest.NewInstanceName(e.Prefix)
		if err != nil {
			ev.HarnessError("bad prefix %q: %v", e.Prefix, err)
		}
		addInstanceNamePrefix, err := digest.NewInstanceName(e.Add)
		if err != nil {
			ev.HarnessError("bad add prefix %q: %v", e.Add, err)
		}
		backendsTrie.Set(matchInstanceNamePrefix, len(backends))
		backends = append(backends, demultiplexedBackendInfo{
			backend:             be[i],
			backendName:         matchInstanceNamePrefix.String(),
			instanceNamePatcher: digest.NewInstanceNamePatcher(matchInstanceNamePrefix, addInstanceNamePrefix),
		})
	}
	ba := blobstore.NewDemultiplexingBlobAccess(
		func(i digest.InstanceName) (blobstore.BlobAccess, string, digest.InstanceNamePatcher, error) {
			idx := backendsTrie.GetLongestPrefix(i)
			if idx < 0 {
				return nil, "", digest.NoopInstanceNamePatcher, status.Errorf(codes.InvalidArgument, "Unknown instance name: %#v", i.String())
			}
			return backends[idx].backend, backends[idx].backendName, backends[idx].instanceNamePatcher, nil
		},
	)
	return &fixture{cfg: cfg, ba: ba, be: be}
}

// modelCreator is a BlobAccessCreator that behaves like the CAS creator but
// resolves `grpc` leaf backends with address "model:<i>" to the harness'
// recording model backends, so that the REAL Demultiplexing case of
// NewBlobAccessFromConfiguration does the wiring.
type modelCreator struct {
	configuration.BlobAccessCreator
	models map[string]*recBackend
}

func (c *modelCreator) NewCustomBlobAccess(tg program.Group, cfg *pb.BlobAccessConfiguration, nc configuration.NestedBlobAccessCreator) (configuration.BlobAccessInfo, string, error) {
	if g, ok := cfg.Backend.(*pb.BlobAccessConfiguration_Grpc); ok {
		if m, ok := c.models[g.Grpc.GetClient().GetAddress()]; ok {
			return configuration.BlobAccessInfo{BlobAccess: m, DigestKeyFormat: digest.KeyWithInstance}, "model", nil
		}
	}
	return configuration.BlobAccessInfo{}, "", status.Error(codes.Unimplemented, "harness creator: unexpected leaf backend")
}

func buildConfig(cfg demuxCfg) *fixture {
	be := newBackends(cfg)
	mc := &modelCreator{BlobAccessCreator: configuration.NewCASBlobAccessCreator(nil, 0, nil), models: map[string]*recBackend{}}
	m := map[string]*pb.DemultiplexedBlobAccessConfiguration{}
	for i, e := range cfg.Entries {
		addr := fmt.Sprintf("model:%d", i)
		mc.models[addr] = be[i]
		m[e.Prefix] = &pb.DemultiplexedBlobAccessConfiguration{
			AddInstanceNamePrefix: e.Add,
			Backend: &pb.BlobAccessConfiguration{Backend: &pb.BlobAccessConfiguration_Grpc{Grpc: &pb.GrpcBlobAccessConfiguration{
				Client: &grpcpb.ClientConfiguration{Address: addr},
			}}},
		}
	}
	info, err := configuration.NewBlobAccessFromConfiguration(nil, &pb.BlobAccessConfiguration{
		Backend: &pb.BlobAccessConfiguration_Demultiplexing{Demultiplexing: &pb.DemultiplexingBlobAccessConfiguration{InstanceNamePrefixes: m}},
	}, mc)
	if err != nil {
		ev.HarnessError("NewBlobAccessFromConfiguration(%v): %v", cfg, err)
	}
	if info.DigestKeyFormat != digest.KeyWithInstance {
		ev.HarnessError("demultiplexing key format is not KeyWithInstance")
	}
	return &fixture{cfg: cfg, ba: info.BlobAccess, be: be}
}

func build(cfg demuxCfg) *fixture {
	if cfg.Wiring == "config" {
		return buildConfig(cfg)
	}
	return buildCopy(cfg)
}

// ---- single-digest operations -----------------------------------------------

var contents = [][]byte{[]byte("x"), []byte("yy")}

var digCache sync.Map

// dig is a memoised sim.SHA256Digest(name, contents[...]).
func dig(name string, content []byte) digest.Digest {
	k := name + "|" + string(content)
	if d, ok := digCache.Load(k); ok {
		return d.(digest.Digest)
	}
	d := sim.SHA256Digest(name, content)
	digCache.Store(k, d)
	return d
}

// Names used by single-digest operations: the universe, deeper names, string
// but not component extensions, names equal to rewrite targets, unrelated.
var singleNames = []string{"", "a", "a/b", "a/b/c", "ab", "b", "a/bc", "a/b/c/d", "abc/a", "x", "x/y/a", "b/a"}

var faultCodes = []codes.Code{codes.Internal, codes.Unavailable, codes.ResourceExhausted}

func faultOf(i int) error {
	return status.Errorf(faultCodes[i%len(faultCodes)], "injected-error-%d", i)
}

type sliceAll struct{}

func (sliceAll) Slice(b buffer.Buffer, child digest.Digest) (buffer.Buffer, []slicing.BlobSlice) {
	return b, nil
}

type singleCase struct {
	Cfg      demuxCfg `json:"cfg"`
	Op       string   `json:"op"`
	Name     string   `json:"name"`
	Hash     int      `json:"hash"`
	Scenario string   `json:"scenario"` // present | absent | fault
}

// checkNamed verifies that a backend error is surfaced with the same code, the
// original text and the backend's name in front of it.
func checkNamed(err error, wantCode codes.Code, orig, name string) string {
	if err == nil {
		return "operation succeeded although the backend failed"
	}
	if status.Code(err) != wantCode {
		return fmt.Sprintf("error code %s, backend returned %s (%v)", status.Code(err), wantCode, err)
	}
	m := status.Convert(err).Message()
	i := strings.Index(m, orig)
	if orig != "" && i < 0 {
		return fmt.Sprintf("error %q lost the backend's message %q", m, orig)
	}
	if orig == "" {
		i = len(m)
	}
	if !strings.Contains(m[:i], name) {
		return fmt.Sprintf("error %q does not name backend %q", m, name)
	}
	return ""
}

// runSingle runs one case on fx (built from c.Cfg when nil). A fixture can be
// reused as long as fx.dirty stays false (all backends are empty again).
func runSingle(fx *fixture, c singleCase) (msg, sig, outcome string) {
	if fx == nil {
		fx = build(c.Cfg)
	}
	defer func() {
		if p := recover(); p != nil {
			msg, sig = fmt.Sprintf("panic: %v", p), "demux:"+c.Op+":panic"
			fx.dirty = true
		}
		for _, b := range fx.be {
			b.Calls, b.Hook, b.capCalls, b.capErr = nil, nil, nil, nil
			if len(b.Keys()) != 0 {
				fx.dirty = true
			}
		}
	}()
	ctx := context.Background()
	idx, pname := c.Cfg.route(c.Name)
	d := dig(c.Name, contents[c.Hash])
	child := dig(c.Name, contents[1-c.Hash])
	var pd, pchild digest.Digest
	if idx >= 0 {
		pd = dig(pname, contents[c.Hash])
		pchild = dig(pname, contents[1-c.Hash])
		defer fx.be[idx].Remove(pd) // runs before the emptiness check above
		switch c.Scenario {
		case "present":
			fx.be[idx].Store(pd, contents[c.Hash])
		case "fault":
			fx.be[idx].Hook = func(string, []digest.Digest) error { return faultOf(idx) }
			fx.be[idx].capErr = faultOf(idx)
		}
	}

	var err error
	var data []byte
	src := sim.NewSource(sim.Script{Chunks: [][]byte{contents[c.Hash]}})
	switch c.Op {
	case "Get":
		data, err = fx.ba.Get(ctx, d).ToByteSlice(100)
	case "GetFromComposite":
		data, err = fx.ba.GetFromComposite(ctx, d, child, sliceAll{}).ToByteSlice(100)
	case "Put":
		err = fx.ba.Put(ctx, d, buffer.NewCASBufferFromReader(d, sim.ReaderView{S: src}, buffer.UserProvided))
	case "GetCapabilities":
		_, err = fx.ba.GetCapabilities(ctx, sim.Instance(c.Name))
	default:
		ev.HarnessError("unknown op %q", c.Op)
	}

	// What the backends saw.
	var seen []string
	for i, b := range fx.be {
		for _, cl := range b.CallsCopy() {
			seen = append(seen, fmt.Sprintf("%d:%s(%s)", i, cl.Op, strings.Join(cl.Digests, ",")))
		}
		for _, n := range b.capCalls {
			seen = append(seen, fmt.Sprintf("%d:GetCapabilities(%s)", i, n))
		}
	}
	outcome = fmt.Sprintf("%s:%s:%s:calls=%d:closes=%d", c.Op, c.Scenario, sim.Code(err), len(seen), src.Closes)
	where := lazyString(func() string { return fmt.Sprintf("%s(%d@%q) on %v", c.Op, c.Hash, c.Name, c.Cfg) })

	if idx < 0 {
		if len(seen) != 0 {
			return fmt.Sprintf("%s: no registered prefix matches, but backends were contacted: %v", where, seen), "demux:" + c.Op + ":unknown-name-reached-backend", outcome
		}
		if status.Code(err) != codes.InvalidArgument {
			return fmt.Sprintf("%s: no registered prefix matches; want INVALID_ARGUMENT, got %v", where, err), "demux:" + c.Op + ":unknown-name-not-rejected", outcome
		}
		return "", "", outcome
	}

	var want string
	switch c.Op {
	case "Get", "Put":
		want = fmt.Sprintf("%d:%s(%s)", idx, c.Op, pd.String())
	case "GetFromComposite":
		want = fmt.Sprintf("%d:GetFromComposite(%s,%s)", idx, pd.String(), pchild.String())
	case "GetCapabilities":
		want = fmt.Sprintf("%d:GetCapabilities(%s)", idx, pname)
	}
	if len(seen) != 1 || seen[0] != want {
		return fmt.Sprintf("%s: backends saw %v; the longest component prefix is %q (backend %d), expected exactly [%s]", where, seen, c.Cfg.Entries[idx].Prefix, idx, want), "demux:" + c.Op + ":wrong-backend-or-name", outcome
	}
	name := c.Cfg.Entries[idx].Prefix
	switch c.Scenario {
	case "fault":
		if m := checkNamed(err, faultCodes[idx%len(faultCodes)], fmt.Sprintf("injected-error-%d", idx), name); m != "" {
			return where.String() + ": " + m, "demux:" + c.Op + ":backend-error-not-surfaced", outcome
		}
	case "absent":
		if c.Op == "Get" || c.Op == "GetFromComposite" {
			if m := checkNamed(err, codes.NotFound, "", name); m != "" {
				return where.String() + ": " + m, "demux:" + c.Op + ":backend-error-not-surfaced", outcome
			}
			break
		}
		fallthrough
	case "present":
		if err != nil {
			return fmt.Sprintf("%s: unexpected error %v", where, err), "demux:" + c.Op + ":unexpected-error", outcome
		}
		switch c.Op {
		case "Get", "GetFromComposite":
			if string(data) != string(contents[c.Hash]) {
				return fmt.Sprintf("%s: returned %q, stored %q", where, data, contents[c.Hash]), "demux:" + c.Op + ":wrong-data", outcome
			}
		case "Put":
			if got, ok := fx.be[idx].Peek(pd); !ok || string(got) != string(contents[c.Hash]) {
				return fmt.Sprintf("%s: backend %d does not hold %s afterwards", where, idx, pd), "demux:Put:not-stored", outcome
			}
			for j, b := range fx.be {
				if j != idx && len(b.Keys()) != 0 {
					return fmt.Sprintf("%s: backend %d holds %v", where, j, b.Keys()), "demux:Put:stored-elsewhere", outcome
				}
			}
		}
	}
	return "", "", outcome
}

func singleScenarios(op string) []string {
	switch op {
	case "Get", "GetFromComposite":
		return []string{"present", "absent", "fault"}
	}
	return []string{"present", "fault"}
}

func demuxSingleSub(r *ev.Run, wiring string) {
	name := "demux-single-" + wiring
	cfgs := allConfigs(wiring, wiring == "copy")
	if wiring == "copy" && !r.Thorough() {
		cfgs = keepTwoOrders(cfgs)
	}
	sub := r.NewSub(name, "venum", fmt.Sprintf("%d configurations (prefix sets of size<=3 over %v x rewrites %v; wiring=%s; registration orders for wiring=copy: universe order and its reverse (quick) / all (thorough)) x {Get,GetFromComposite: present/absent/fault; Put,GetCapabilities: ok/fault} x 2 hashes x %d instance names", len(cfgs), universe, rewrites, wiring, len(singleNames)))
	done := sub.Timer()
	defer done()
	var outcomes ev.Set
	smp := &sampler{max: 2}
	type res struct{ evals, nontriv int64 }
	results := make([]res, len(cfgs))
	par.For(len(cfgs), func(ci int) {
		cfg := cfgs[ci]
		local := map[string]bool{}
		defer func() {
			for oc := range local {
				outcomes.Add(oc)
			}
		}()
		var fx *fixture
		for _, op := range []string{"Get", "GetFromComposite", "Put", "GetCapabilities"} {
			for _, sc := range singleScenarios(op) {
				for _, n := range singleNames {
					for h := 0; h < 2; h++ {
						if op == "GetCapabilities" && h == 1 {
							continue
						}
						c := singleCase{Cfg: cfg, Op: op, Name: n, Hash: h, Scenario: sc}
						if fx == nil || fx.dirty {
							fx = build(cfg)
						}
						msg, sig, oc := runSingle(fx, c)
						results[ci].evals++
						if cfg.ambiguous(n) {
							results[ci].nontriv++
						}
						local[oc] = true
						if msg != "" {
							r.Violate(ev.Violation{Signature: sig, Sub: name, Message: msg, Case: c})
						}
						if ci%397 == 101 && op == "GetFromComposite" && sc == "present" && n == "a/b/c/d" && h == 0 {
							idx, pn := cfg.route(n)
							smp.add(r, map[string]any{"sub": name, "case": c, "outcome": oc, "expected_backend": idx, "expected_patched_name": pn})
						}
					}
				}
			}
		}
	})
	for _, x := range results {
		sub.Evaluations += x.evals
		sub.Nontrivial += x.nontriv
	}
	sub.States, sub.Transitions = sub.Evaluations, sub.Evaluations
	sub.Outcomes = outcomes.Len()
	sub.Exhaustive = true
	sub.Extra = map[string]any{"configurations": len(cfgs)}
}

// ---- FindMissing --------------------------------------------------------------

var fmQuads = [][]string{
	{"", "a/b", "ab", "a/b/c/d"},
	{"a", "a/bc", "b", "a/b/c"},
	{"x", "a/b/c", "abc/a", "a/b"},
}

type fmCase struct {
	Cfg      demuxCfg `json:"cfg"`
	Names    []string `json:"names"`
	Code     int      `json:"code"`      // base-3 digit per digest (hash*len(names)+name): 0 not asked, 1 asked+stored, 2 asked+missing at its backend
	FailMask int      `json:"fail_mask"` // bit i: backend of entry i fails FindMissing
}

type fmDigest struct {
	d     digest.Digest
	ds    string
	idx   int
	pd    digest.Digest
	pds   string
	decoy []fmDecoy
}

type fmDecoy struct {
	be int
	d  digest.Digest
}

type fmPlan struct {
	fx     *fixture
	ds     []fmDigest
	stored []fmDecoy
	pow    []int
}

func newFMPlan(cfg demuxCfg, names []string) *fmPlan {
	p := &fmPlan{fx: build(cfg)}
	legit := map[string]bool{}
	for h := 0; h < 2; h++ {
		for _, n := range names {
			fd := fmDigest{d: dig(n, contents[h])}
			fd.ds = fd.d.String()
			var pn string
			fd.idx, pn = cfg.route(n)
			if fd.idx >= 0 {
				fd.pd = dig(pn, contents[h])
				fd.pds = fd.pd.String()
				legit[fmt.Sprintf("%d|%s", fd.idx, fd.pds)] = true
			}
			p.ds = append(p.ds, fd)
		}
	}
	// Decoys: when a digest is to be missing at its own backend, every OTHER
	// backend holds it under both the caller's and the rewritten name (unless
	// that is another digest's legitimate location), so misrouting shows up
	// as a wrong answer, not just as a wrong call log.
	for i := range p.ds {
		fd := &p.ds[i]
		for j := range cfg.Entries {
			if j == fd.idx {
				continue
			}
			cands := []digest.Digest{fd.d}
			if fd.idx >= 0 {
				cands = append(cands, fd.pd)
			}
			for _, x := range cands {
				if !legit[fmt.Sprintf("%d|%s", j, x.String())] {
					fd.decoy = append(fd.decoy, fmDecoy{j, x})
				}
			}
		}
	}
	p.pow = make([]int, len(p.ds)+1)
	p.pow[0] = 1
	for i := 1; i <= len(p.ds); i++ {
		p.pow[i] = p.pow[i-1] * 3
	}
	return p
}

func (p *fmPlan) run(code, failMask int) (msg, sig, outcome string) {
	defer func() {
		if pn := recover(); pn != nil {
			msg, sig = fmt.Sprintf("panic: %v", pn), "demux:FindMissing:panic"
		}
	}()
	fx := p.fx
	for _, s := range p.stored {
		fx.be[s.be].Remove(s.d)
	}
	p.stored = p.stored[:0]
	for i, b := range fx.be {
		b.Calls = nil
		b.Hook = nil
		if failMask&(1<<i) != 0 {
			i := i
			b.Hook = func(string, []digest.Digest) error { return faultOf(i) }
		}
	}
	var asked []digest.Digest
	var wantMissing []string
	wantAsked := make([][]string, len(fx.be))
	unknown := false
	for i := range p.ds {
		fd := &p.ds[i]
		st := code / p.pow[i] % 3
		if st == 0 {
			continue
		}
		asked = append(asked, fd.d)
		if fd.idx < 0 {
			unknown = true
			for _, dc := range fd.decoy {
				fx.be[dc.be].Store(dc.d, nil)
				p.stored = append(p.stored, dc)
			}
			continue
		}
		wantAsked[fd.idx] = append(wantAsked[fd.idx], fd.pds)
		if st == 1 {
			fx.be[fd.idx].Store(fd.pd, nil)
			p.stored = append(p.stored, fmDecoy{fd.idx, fd.pd})
		} else {
			wantMissing = append(wantMissing, fd.ds)
			for _, dc := range fd.decoy {
				fx.be[dc.be].Store(dc.d, nil)
				p.stored = append(p.stored, dc)
			}
		}
	}
	missing, err := fx.ba.FindMissing(context.Background(), sim.SetOf(asked...))

	contacted, failing := 0, []int{}
	gotAsked := make([][]string, len(fx.be))
	for i, b := range fx.be {
		seen := map[string]bool{}
		for _, cl := range b.Calls {
			if cl.Op != "FindMissing" {
				return fmt.Sprintf("backend %d received %s during FindMissing", i, cl.Op), "demux:FindMissing:foreign-call", ""
			}
			for _, x := range cl.Digests {
				if !seen[x] {
					seen[x] = true
					gotAsked[i] = append(gotAsked[i], x)
				}
			}
		}
		sort.Strings(gotAsked[i])
		sort.Strings(wantAsked[i])
		if len(wantAsked[i]) > 0 {
			contacted++
			if failMask&(1<<i) != 0 {
				failing = append(failing, i)
			}
		}
	}
	outcome = fmt.Sprintf("%s:asked=%d:missing=%d:backends=%d:failing=%d", sim.Code(err), len(asked), missing.Length(), contacted, len(failing))
	where := lazyString(func() string {
		return fmt.Sprintf("FindMissing(%v) on %v", sim.SetStrings(sim.SetOf(asked...)), fx.cfg)
	})

	if unknown {
		for i := range fx.be {
			if len(fx.be[i].Calls) != 0 {
				return fmt.Sprintf("%s: a digest has no matching prefix, but backend %d was contacted: %v", where, i, fx.be[i].Calls), "demux:FindMissing:unknown-name-reached-backend", outcome
			}
		}
		if status.Code(err) != codes.InvalidArgument {
			return fmt.Sprintf("%s: a digest has no matching prefix; want INVALID_ARGUMENT, got %v", where, err), "demux:FindMissing:unknown-name-not-rejected", outcome
		}
		return "", "", outcome
	}
	if len(failing) > 0 {
		// Which failing backend is reported depends on map iteration order:
		// any of them is acceptable. Digests may only have gone where they belong.
		for i := range fx.be {
			for _, x := range gotAsked[i] {
				if k := sort.SearchStrings(wantAsked[i], x); k >= len(wantAsked[i]) || wantAsked[i][k] != x {
					return fmt.Sprintf("%s: backend %d was asked about %s, which is not routed to it (%v)", where, i, x, wantAsked[i]), "demux:FindMissing:wrong-backend-or-name", outcome
				}
			}
		}
		var why []string
		for _, i := range failing {
			m := checkNamed(err, faultCodes[i%len(faultCodes)], fmt.Sprintf("injected-error-%d", i), fx.cfg.Entries[i].Prefix)
			if m == "" {
				return "", "", outcome
			}
			why = append(why, m)
		}
		return fmt.Sprintf("%s with failing backends %v: result (%v, %v) is not the surfaced error of any of them: %v", where, failing, sim.SetStrings(missing), err, why), "demux:FindMissing:backend-error-not-surfaced", outcome
	}
	for i := range fx.be {
		if !equalStrings(gotAsked[i], wantAsked[i]) {
			return fmt.Sprintf("%s: backend %d (prefix %q -> %q) was asked about %v, expected %v", where, i, fx.cfg.Entries[i].Prefix, fx.cfg.Entries[i].Add, gotAsked[i], wantAsked[i]), "demux:FindMissing:wrong-backend-or-name", outcome
		}
	}
	if err != nil {
		return fmt.Sprintf("%s: unexpected error %v", where, err), "demux:FindMissing:unexpected-error", outcome
	}
	got := sim.SetStrings(missing)
	sort.Strings(wantMissing)
	if !equalStrings(got, wantMissing) {
		return fmt.Sprintf("%s: reported missing %v, union of the backends' answers in the caller's names is %v", where, got, wantMissing), "demux:FindMissing:wrong-union", outcome
	}
	return "", "", outcome
}

// fmWork lists the (assignment code, fault?) pairs of one (configuration,
// quadruple). nd = number of digests (8). Codes are base-3 numbers, digit i =
// state of digest i (0 not asked, 1 asked+stored, 2 asked+missing).
//
// thorough: all 3^nd assignments; faults for every assignment without a
// missing digest.
// quick: every asked subset S (2^nd) with the answer patterns {nothing
// missing, everything missing, exactly one digest of S missing}; faults for
// the subsets {hash 0 x every non-empty name subset} and {all digests}, all
// stored.
func fmWork(nd int, thorough bool) (codes []int, faultCodes map[int]bool) {
	pow := make([]int, nd+1)
	pow[0] = 1
	for i := 1; i <= nd; i++ {
		pow[i] = pow[i-1] * 3
	}
	faultCodes = map[int]bool{}
	if thorough {
		for code := 0; code < pow[nd]; code++ {
			codes = append(codes, code)
			only1 := code != 0
			for i := 0; i < nd; i++ {
				if code/pow[i]%3 == 2 {
					only1 = false
				}
			}
			if only1 {
				faultCodes[code] = true
			}
		}
		return
	}
	seen := map[int]bool{}
	add := func(c int) {
		if !seen[c] {
			seen[c] = true
			codes = append(codes, c)
		}
	}
	for mask := 0; mask < 1<<nd; mask++ {
		stored, missing := 0, 0
		for i := 0; i < nd; i++ {
			if mask&(1<<i) != 0 {
				stored += pow[i]
				missing += 2 * pow[i]
			}
		}
		add(stored)
		add(missing)
		for i := 0; i < nd; i++ {
			if mask&(1<<i) != 0 {
				add(stored + pow[i])
			}
		}
		if mask != 0 && (mask < 1<<(nd/2) || mask == 1<<nd-1) {
			faultCodes[stored] = true
		}
	}
	return
}

func demuxFMSub(r *ev.Run, wiring string) {
	name := "demux-findmissing-" + wiring
	thorough := r.Thorough()
	cfgs := allConfigs(wiring, thorough && wiring == "copy")
	quads := fmQuads[:ev.Pick(r, 2, 3)]
	// quick + config wiring (about 3x dearer per case because of the metrics
	// decorators): one quadruple per configuration, alternating.
	alternate := !thorough && wiring == "config"
	codes, faultCodes := fmWork(8, thorough)
	redCodes, redFaultCodes := fmWork(8, false)
	canonical := map[string]bool{}
	for _, c := range cfgs {
		if inUniverseOrder(c) {
			canonical[c.String()] = true
		}
	}
	space := "every asked subset S of the 8 digests x answers {nothing missing, all of S missing, exactly one digest of S missing}; faults: S in {hash 0 x non-empty name subsets, all 8}, all stored, x every non-empty set of failing backends"
	if thorough {
		space = "all 3^8 (not asked | asked+stored | asked+missing) assignments; faults: every assignment without a missing digest x every non-empty set of failing backends (configurations registered in universe order); for the other registration orders of wiring=copy: " + space
	}
	per := fmt.Sprintf("%d name quadruples", len(quads))
	if alternate {
		per = "1 of 2 name quadruples (alternating by configuration index)"
	}
	sub := r.NewSub(name, "venum", fmt.Sprintf("%d configurations (wiring=%s) x %s of 4 instance names x 2 hashes: %s", len(cfgs), wiring, per, space))
	done := sub.Timer()
	defer done()
	var outcomes ev.Set
	type res struct{ evals, nontriv int64 }
	nq := len(quads)
	if alternate {
		nq = 1
	}
	n := len(cfgs) * nq
	results := make([]res, n)
	smp := &sampler{max: 1}
	par.For(n, func(k int) {
		cfg, quad := cfgs[k/nq], quads[k%nq]
		if alternate {
			quad = quads[k%len(quads)]
		}
		p := newFMPlan(cfg, quad)
		local := map[string]bool{}
		codes, faultCodes := codes, faultCodes
		if !canonical[cfg.String()] {
			codes, faultCodes = redCodes, redFaultCodes
		}
		for ci, code := range codes {
			// non-trivial: the asked digests span >= 2 backends, or known and unknown names are mixed.
			span, spanN := 0, 0 // bit idx+1
			for i := range p.ds {
				if code/p.pow[i]%3 != 0 && span&(1<<(p.ds[i].idx+1)) == 0 {
					span |= 1 << (p.ds[i].idx + 1)
					spanN++
				}
			}
			nmasks := 1
			if faultCodes[code] && span&1 == 0 {
				nmasks = 1 << len(cfg.Entries)
			}
			for fm := 0; fm < nmasks; fm++ {
				msg, sig, oc := p.run(code, fm)
				results[k].evals++
				if spanN >= 2 {
					results[k].nontriv++
				}
				local[oc] = true
				if msg != "" {
					r.Violate(ev.Violation{Signature: sig, Sub: name, Message: msg, Case: fmCase{cfg, quad, code, fm}})
				}
				if k%811 == 300 && ci == len(codes)*2/3 && fm == 0 {
					smp.add(r, map[string]any{"sub": name, "case": fmCase{cfg, quad, code, fm}, "outcome": oc})
				}
			}
		}
		for oc := range local {
			outcomes.Add(oc)
		}
	})
	for _, x := range results {
		sub.Evaluations += x.evals
		sub.Nontrivial += x.nontriv
	}
	sub.States, sub.Transitions = sub.Evaluations, sub.Evaluations
	sub.Outcomes = outcomes.Len()
	sub.Exhaustive = true
	sub.Extra = map[string]any{"configurations": len(cfgs), "quadruples": quads, "assignments_per_configuration_and_quadruple": len(codes)}
}

type lazyString func() string

func (l lazyString) String() string { return l() }

// ---- patcher ------------------------------------------------------------------

type patchCase struct {
	Old  string `json:"old"`
	New  string `json:"new"`
	Name string `json:"name"`
	Hash int    `json:"hash"`
}

func runPatch(c patchCase) (msg, sig, outcome string) {
	defer func() {
		if p := recover(); p != nil {
			msg, sig = fmt.Sprintf("panic: %v", p), "patcher:panic"
		}
	}()
	ip := digest.NewInstanceNamePatcher(sim.Instance(c.Old), sim.Instance(c.New))
	want := join(c.New, rest(c.Old, c.Name))
	if got := ip.PatchInstanceName(sim.Instance(c.Name)).String(); got != want {
		return fmt.Sprintf("patcher(%q->%q).PatchInstanceName(%q)=%q, want %q", c.Old, c.New, c.Name, got, want), "patcher:PatchInstanceName", ""
	}
	d := dig(c.Name, contents[c.Hash])
	pd := ip.PatchDigest(d)
	if wd := dig(want, contents[c.Hash]); pd != wd {
		return fmt.Sprintf("patcher(%q->%q).PatchDigest(%s)=%s, want %s", c.Old, c.New, d, pd, wd), "patcher:PatchDigest", ""
	}
	if ud := ip.UnpatchDigest(pd); ud != d {
		return fmt.Sprintf("patcher(%q->%q).UnpatchDigest(PatchDigest(%s))=%s", c.Old, c.New, d, ud), "patcher:Unpatch-not-inverse", ""
	}
	return "", "", fmt.Sprintf("%q", want)
}

var patchPrefixes = []string{"", "a", "a/b", "a/b/c", "ab", "b", "x", "x/y"}

func patcherSub(r *ev.Run) {
	sub := r.NewSub("patcher", "venum", fmt.Sprintf("NewInstanceNamePatcher(old,new) for old,new in %v x every name of %v that has old as a component prefix x 2 hashes: PatchInstanceName, PatchDigest, UnpatchDigest(PatchDigest)", patchPrefixes, singleNames))
	done := sub.Timer()
	defer done()
	var outcomes ev.Set
	for _, o := range patchPrefixes {
		for _, nw := range patchPrefixes {
			for _, n := range singleNames {
				if !isCompPrefix(o, n) {
					continue
				}
				for h := 0; h < 2; h++ {
					c := patchCase{o, nw, n, h}
					msg, sig, oc := runPatch(c)
					sub.Evaluations++
					if o != nw && n != o {
						sub.Nontrivial++
					}
					outcomes.Add(oc)
					if msg != "" {
						r.Violate(ev.Violation{Signature: sig, Sub: "patcher", Message: msg, Case: c})
					}
				}
			}
		}
	}
	sub.States, sub.Transitions = sub.Evaluations, sub.Evaluations
	sub.Outcomes = outcomes.Len()
	sub.Exhaustive = true
}
