package main

import (
	"sort"
	"strings"
	"sync"

	"verifh/ev"
)

// sampler hands at most max samples of one sub-check to the run.
type sampler struct {
	mu  sync.Mutex
	n   int
	max int
}

func (s *sampler) add(r *ev.Run, x any) {
	s.mu.Lock()
	defer s.mu.Unlock()
	if s.n < s.max {
		s.n++
		r.Sample(x)
	}
}

// universe is the set of registered prefixes / trie keys of DESIGN section 3
// C19. "ab" is a string- but not a component-prefix extension of "a".
var universe = []string{"", "a", "a/b", "a/b/c", "ab", "b"}

// isCompPrefix reports whether p is a component-wise prefix of n.
func isCompPrefix(p, n string) bool {
	return p == "" || n == p || strings.HasPrefix(n, p+"/")
}

// chain returns n and all its ancestors, most specific first, ending in "".
func chain(n string) []string {
	out := []string{}
	for n != "" {
		out = append(out, n)
		i := strings.LastIndexByte(n, '/')
		if i < 0 {
			n = ""
		} else {
			n = n[:i]
		}
	}
	return append(out, "")
}

// rest strips the component prefix p from n (precondition isCompPrefix(p, n)).
func rest(p, n string) string {
	if p == "" {
		return n
	}
	if n == p {
		return ""
	}
	return n[len(p)+1:]
}

// join concatenates a prefix and a remainder with the right number of slashes.
func join(p, r string) string {
	switch {
	case r == "":
		return p
	case p == "":
		return r
	}
	return p + "/" + r
}

func sortedCopy(in []string) []string {
	out := append([]string(nil), in...)
	sort.Strings(out)
	return out
}

func equalStrings(a, b []string) bool {
	if len(a) != len(b) {
		return false
	}
	for i := range a {
		if a[i] != b[i] {
			return false
		}
	}
	return true
}

// permutations of 0..n-1 in lexicographic order.
func permutations(n int) [][]int {
	var out [][]int
	var rec func(cur []int, used int)
	rec = func(cur []int, used int) {
		if len(cur) == n {
			out = append(out, append([]int(nil), cur...))
			return
		}
		for i := 0; i < n; i++ {
			if used&(1<<i) == 0 {
				rec(append(cur, i), used|1<<i)
			}
		}
	}
	rec(nil, 0)
	return out
}
