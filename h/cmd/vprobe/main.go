//go:build verif

package main

import (
	_ "github.com/buildbarn/bb-storage/pkg/blobstore"
	_ "github.com/buildbarn/bb-storage/pkg/blobstore/buffer"
	_ "github.com/buildbarn/bb-storage/pkg/blobstore/completenesschecking"
	_ "github.com/buildbarn/bb-storage/pkg/blobstore/local"
	_ "github.com/buildbarn/bb-storage/pkg/blobstore/mirrored"
	_ "github.com/buildbarn/bb-storage/pkg/blobstore/readcaching"
	_ "github.com/buildbarn/bb-storage/pkg/blobstore/readfallback"
	_ "github.com/buildbarn/bb-storage/pkg/blobstore/replication"
	_ "github.com/buildbarn/bb-storage/pkg/blobstore/sharding"
	"github.com/buildbarn/bb-storage/pkg/verifshim/vsched"
)

func main() { vsched.Yield("x") }
