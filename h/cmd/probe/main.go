package main

import (
	"fmt"

	"github.com/buildbarn/bb-storage/pkg/blobstore/buffer"
)

func main() {
	b := buffer.NewValidatedBufferFromByteSlice([]byte("Hello"))
	x, err := b.ToByteSlice(10)
	fmt.Println(string(x), err)
}
