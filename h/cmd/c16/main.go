// C16 — I/O-error recovery resumes at the right offset: each byte delivered
// exactly once.
//
// Exhaustive bounded enumeration (venum) against the real
// buffer.WithErrorHandler and the Buffer consumption methods:
//
//	original buffer   x  handler script            x  consumer
//	(kind, chunking,     (translate | pass |          (ToByteSlice, ToProto, ReadAt(off,len),
//	 failure position)    replacement buffer           IntoWriter, ToReader(read size, stop),
//	                      [kind, chunking, 2nd         ToChunkReader(off,max,stop), Discard,
//	                      failure position],           GetSizeBytes)
//	                      then 2nd answer, ...)
//
// The oracle (run.go) demands: successful completion => exactly the digest's
// bytes (also when a replacement holds wrong content: the stitched stream is
// still validated); with only right-content buffers whatever was delivered
// is a prefix of content[off:] and the only error a consumer can see is the one
// the handler returned; every I/O error produced by an underlying buffer is
// offered to OnError exactly once; Done() exactly once, after the last OnError;
// every source released exactly once; no panic.
package main

import (
	"encoding/json"
	"fmt"
	"sort"
	"strings"
	"sync"
	"sync/atomic"
	"time"

	"verifh/ev"
	"verifh/par"
	"verifh/sim"
)

// chunkings returns every way to hand out n bytes in at most 3 pieces.
func chunkings(n int, allowEmpty bool) [][]int {
	if n == 0 {
		if allowEmpty {
			return [][]int{{}, {0}}
		}
		return [][]int{{}}
	}
	data := make([]byte, n)
	for i := range data {
		data[i] = byte('a' + i)
	}
	var out [][]int
	seen := map[string]bool{}
	for _, comp := range sim.Compositions(data, 3, allowEmpty) {
		var l []int
		tot := 0
		for _, p := range comp {
			l = append(l, len(p))
			tot += len(p)
		}
		if tot != n {
			ev.HarnessError("composition %v does not cover %d bytes", l, n)
		}
		k := fmt.Sprint(l)
		if !seen[k] {
			seen[k] = true
			out = append(out, l)
		}
	}
	return out
}

// sourceSpecs enumerates the scripted sources of one kind over data variant dv:
// failing after every j in [0,size] (error instead of more data / instead of
// EOF) and, when withOK, never failing.
func sourceSpecs(kind, dv string, size int, allowEmpty, withFail, withOK bool) []BufSpec {
	var out []BufSpec
	withIts := []bool{false}
	if kind == "reader" {
		withIts = []bool{false, true}
	}
	if withFail {
		for j := 0; j <= size; j++ {
			for _, ch := range chunkings(j, allowEmpty) {
				for _, wi := range withIts {
					if wi && len(ch) == 0 {
						continue
					}
					out = append(out, BufSpec{Kind: kind, Data: dv, Chunks: ch, FailAt: j, WithIt: wi})
				}
			}
		}
	}
	if withOK {
		n := size
		switch dv {
		case "S":
			n = size - 1
		case "L":
			n = size + 1
		}
		for _, ch := range chunkings(n, allowEmpty) {
			for _, wi := range withIts {
				out = append(out, BufSpec{Kind: kind, Data: dv, Chunks: ch, FailAt: -1, WithIt: wi})
			}
		}
	}
	return out
}

func bufAns(b BufSpec) Answer { return Answer{Kind: "buf", Buf: &b} }

// scripts enumerates the handler scripts. Every script is implicitly followed
// by "translate" answers.
func scripts(size int, allowEmpty, extra bool) [][]Answer {
	var out [][]Answer
	out = append(out, []Answer{{Kind: "translate"}}, []Answer{{Kind: "pass"}})

	// First replacements that cannot fail and hold the right content.
	var good []BufSpec
	good = append(good, BufSpec{Kind: "vslice", Data: "C", FailAt: -1}, BufSpec{Kind: "casslice", Data: "C", FailAt: -1})
	good = append(good, sourceSpecs("reader", "C", size, allowEmpty, false, true)...)
	good = append(good, sourceSpecs("chunk", "C", size, allowEmpty, false, true)...)
	for _, g := range good {
		out = append(out, []Answer{bufAns(g)})
	}

	// First replacements after which the handler is (or may be) asked again.
	var again []BufSpec
	again = append(again, BufSpec{Kind: "error", FailAt: -1})
	again = append(again, sourceSpecs("reader", "C", size, allowEmpty, true, false)...)
	again = append(again, sourceSpecs("chunk", "C", size, allowEmpty, true, false)...)
	for _, dv := range []string{"W", "Wm", "S", "L"} {
		n := size
		if dv == "S" {
			n--
		} else if dv == "L" {
			n++
		}
		again = append(again,
			BufSpec{Kind: "casslice", Data: dv, FailAt: -1},
			BufSpec{Kind: "reader", Data: dv, Chunks: []int{n}, FailAt: -1},
			BufSpec{Kind: "reader", Data: dv, Chunks: []int{1, n - 1}, FailAt: -1, WithIt: true},
			BufSpec{Kind: "chunk", Data: dv, Chunks: []int{2, n - 2}, FailAt: -1},
		)
	}
	// Second answers.
	second := []Answer{
		{Kind: "translate"},
		{Kind: "pass"},
		bufAns(BufSpec{Kind: "vslice", Data: "C", FailAt: -1}),
		bufAns(BufSpec{Kind: "reader", Data: "C", Chunks: []int{2, size - 2}, FailAt: -1}),
		bufAns(BufSpec{Kind: "chunk", Data: "C", Chunks: []int{1, size - 1}, FailAt: -1}),
		bufAns(BufSpec{Kind: "reader", Data: "C", Chunks: []int{1, 2}, FailAt: 3}), // third failure, then translate
		bufAns(BufSpec{Kind: "error", FailAt: -1}),
	}
	if extra {
		second = append(second,
			bufAns(BufSpec{Kind: "casslice", Data: "C", FailAt: -1}),
			bufAns(BufSpec{Kind: "chunk", Data: "C", Chunks: []int{3}, FailAt: 3}),
			bufAns(BufSpec{Kind: "reader", Data: "C", Chunks: []int{size}, FailAt: size, WithIt: true}),
			bufAns(BufSpec{Kind: "chunk", Data: "W", Chunks: []int{size}, FailAt: -1}),
			bufAns(BufSpec{Kind: "reader", Data: "S", Chunks: []int{size - 1}, FailAt: -1}),
		)
	}
	for _, a := range again {
		for _, s := range second {
			sc := []Answer{bufAns(a), s}
			if extra && s.Kind == "buf" && (s.Buf.FailAt >= 0 || s.Buf.Kind == "error" || s.Buf.Data != "C") {
				// third answer: a good buffer instead of the implicit translate
				out = append(out, sc, []Answer{bufAns(a), s, bufAns(BufSpec{Kind: "chunk", Data: "C", Chunks: []int{2, 1, size - 3}, FailAt: -1})})
				continue
			}
			out = append(out, sc)
		}
	}
	return out
}

func consumers(size int, thorough bool) []Consumer {
	var out []Consumer
	out = append(out,
		Consumer{Op: "ToByteSlice", StopAfter: -1},
		Consumer{Op: "ToProto", StopAfter: -1},
		Consumer{Op: "IntoWriter", StopAfter: -1},
		Consumer{Op: "IntoWriter", StopAfter: -1, WriterErr: true},
		Consumer{Op: "Discard", StopAfter: -1},
		Consumer{Op: "GetSizeBytes", StopAfter: -1},
	)
	for off := 0; off <= size; off++ {
		for l := 0; l <= size+1; l++ {
			out = append(out, Consumer{Op: "ReadAt", Off: off, Len: l, StopAfter: -1})
		}
	}
	stops := []int{-1, 0, 1, 2}
	if thorough {
		stops = []int{-1, 0, 1, 2, 3, 4}
	}
	for _, rs := range []int{1, 2, 100} {
		for _, st := range stops {
			out = append(out, Consumer{Op: "ToReader", ReadSize: rs, StopAfter: st})
		}
	}
	for off := 0; off <= size; off++ {
		for _, mx := range []int{1, 2, size + 1} {
			for _, st := range stops {
				out = append(out, Consumer{Op: "ToChunkReader", Off: off, Max: mx, StopAfter: st})
			}
		}
	}
	// Offsets outside the object: no data may be obtained; Done/close rules still hold.
	for _, off := range []int{-1, size + 1} {
		out = append(out, Consumer{Op: "ToChunkReader", Off: off, Max: 2, StopAfter: -1})
		out = append(out, Consumer{Op: "ToChunkReader", Off: off, Max: 2, StopAfter: 0})
	}
	return out
}

type family struct {
	name  string
	light bool
	desc  string
	origs func(size int, allowEmpty bool) []BufSpec
}

func wrapAll(specs []BufSpec, wrap string) []BufSpec {
	out := make([]BufSpec, len(specs))
	for i, s := range specs {
		s.Wrap = wrap
		out[i] = s
	}
	return out
}

func streamOrigs(size int, allowEmpty bool) []BufSpec {
	var o []BufSpec
	o = append(o, sourceSpecs("reader", "C", size, allowEmpty, true, true)...)
	o = append(o, sourceSpecs("chunk", "C", size, allowEmpty, true, true)...)
	return o
}

var families = []family{
	{name: "plain", desc: "CAS buffer from reader / from chunk reader", origs: func(size int, th bool) []BufSpec { return streamOrigs(size, th) }},
	{"clone", true, "one stream-clone (CloneStream) of a CAS reader / chunk reader buffer carries the handler; the other clone is discarded or read with ToByteSlice concurrently", func(size int, th bool) []BufSpec {
		return append(wrapAll(streamOrigs(size, th), "clone-discard"), wrapAll(streamOrigs(size, th), "clone-bytes")...)
	}},
	{"task", false, "CAS reader / chunk reader buffer with a trivial background task (WithTask returning nil)", func(size int, th bool) []BufSpec { return wrapAll(streamOrigs(size, th), "task") }},
	{"errbuf", false, "error buffer (NewBufferFromError): the error is offered by WithErrorHandler itself", func(size int, th bool) []BufSpec {
		return []BufSpec{{Kind: "error", FailAt: -1}}
	}},
	{"nested", true, "a second WithErrorHandler below the scripted one (inner handler translates / passes every error)", func(size int, th bool) []BufSpec {
		o := streamOrigs(size, false)
		return append(wrapAll(o, "nested-translate"), wrapAll(o, "nested-pass")...)
	}},
}

func describeAny(x any) string {
	b, _ := json.Marshal(x)
	return string(b)
}

// coreChunking: one piece, or a first piece of one byte followed by the rest.
func coreChunking(ch []int) bool {
	for _, l := range ch {
		if l == 0 {
			return false
		}
	}
	return len(ch) <= 1 || (len(ch) == 2 && ch[0] == 1)
}

// coreSpec selects the boundary / representative sources: failure at 0, 1,
// 3, size or never; chunked as one piece or 1+rest.
func coreSpec(b BufSpec, size int) bool {
	if b.Kind != "reader" && b.Kind != "chunk" {
		return true
	}
	if b.Data != "C" {
		return true
	}
	switch b.FailAt {
	case -1, 0, 1, 3, size:
	default:
		return false
	}
	return coreChunking(b.Chunks)
}

// coreScript: all replacement buffers are core; the second answer (if any) is a
// translated error, a validated byte slice or a reader that fails again.
func coreScript(sc []Answer, size int) bool {
	for i, a := range sc {
		if a.Kind != "buf" {
			if i > 0 && a.Kind == "pass" {
				return false
			}
			continue
		}
		if !coreSpec(*a.Buf, size) {
			return false
		}
		if i > 0 && !(a.Buf.Kind == "vslice" || (a.Buf.Kind == "reader" && a.Buf.FailAt >= 0)) {
			return false
		}
	}
	return len(sc) <= 2
}

func coreConsumer(c Consumer, size int) bool {
	switch c.Op {
	case "ReadAt":
		return (c.Off == 1 && c.Len == 2) || (c.Off == 0 && c.Len == size+1) || (c.Off == size && c.Len == 1) || (c.Off == 3 && c.Len == 0)
	case "ToReader":
		return c.StopAfter == -1 || (c.ReadSize == 2 && c.StopAfter <= 1)
	case "ToChunkReader":
		if c.Off < 0 || c.Off > size {
			return c.StopAfter == -1 && c.Off > size
		}
		if c.StopAfter == -1 {
			return (c.Off == 0 && c.Max == 1) || (c.Off == 2 && c.Max == 2) || (c.Off == 3 && c.Max == size+1) || (c.Off == size && c.Max == 2)
		}
		return c.Off == 2 && c.Max == 2 && c.StopAfter <= 1
	}
	return true
}

func describe(c Case) string {
	b, _ := json.Marshal(c)
	return string(b)
}

func main() {
	r := ev.Start("C16")
	r.Rule("venum: (original buffer kind x chunking into <=3 pieces x failure position j in [0,size] or none) x (handler script of <=2 (thorough 3) scripted answers: translated error | same error | replacement buffer of every kind/chunking/second failure position/wrong content) x (consumer incl. every ReadAt(off,len), ToChunkReader(off,max), read size and early Close point). quick = every original x core scripts x every consumer UNION core originals x every script x core consumers; thorough = the full product plus the same union with empty pieces and for a 4-byte object. non-trivial = OnError was invoked at least once in the case")
	r.Assume("the handler only supplies replacement buffers created for the SAME digest; NewValidatedBufferFromByteSlice replacements always hold the right content (that constructor declares the data valid, so a wrong one is the handler's fault); wrong-content replacements are CAS buffers (byte slice / reader / chunk reader)")
	r.Assume("'each byte exactly once or an error' is read as: successful completion => exactly content[off:]; when every buffer involved holds the right content, the bytes delivered before an error form a prefix of content[off:] and the only error the consumer may see is the one the handler returned (a data-integrity error there means a duplicated/skipped range)")
	r.Assume("with a wrong-content replacement only 'no successful completion with different bytes' is demanded; bytes already streamed before the mismatch is detected are not judged (ErrorHandler documentation: checksum mismatches on streams cannot be undone)")
	r.Assume("'every I/O error offered exactly once' is demanded in full for consumers that read to the end with right-content buffers; for consumers that Close/Discard early an error a lower layer read ahead may legitimately never surface, so only 'at most once, and nothing else is offered' is demanded; data-integrity errors of whole-operation retries (ToByteSlice/ReadAt/ToProto) may be offered too (documented) and are tolerated, never required")
	r.Assume("every failing source / error buffer has its own unique error message and keeps returning that error once it failed (io.ReadFull legitimately drops an error returned together with the last wanted byte and meets it again on the next Read); errors are identified by gRPC code + message")
	r.Assume("sources released exactly once is included at the requester's instruction (Buffer contract: exactly one consuming call releases the resources); reads after Close are not judged")
	r.Assume("the stream-clone original is a clone of a plain CAS reader/chunk-reader buffer; a clone of a buffer with a background task is left to C15 (known defect F1 lives there)")
	r.Assume("ReadAt is exercised for 0<=off<=size and 0<=len<=size+1; nil vs io.EOF of a short ReadAt is not judged, n and the bytes are; offsets outside [0,size] for ToChunkReader only check Done/close/no-panic")
	r.Assume("quick tier does not run the full product: it pairs every original (all chunkings, all failure positions) with the core handler scripts under every consumer, and the core originals with every handler script (all replacement chunkings / second failure positions) under the core consumers; clone and nested families pair every original with core consumers and core originals with every consumer; thorough runs the full product for the 5-byte object and the union again with empty pieces, third answers and a 4-byte object")
	r.Assume("liveness: a consumer call that has not returned after 180 s wall (cases take microseconds) is reported as a hang violation and ends the run; no outcome of a terminating case depends on time")
	r.Assume("a background task that itself fails is not exercised (the task error is not an I/O error of an underlying buffer)")

	if r.Replay != "" {
		rf := ev.LoadReplay(r.Replay)
		if rf.Sub == "nested-replacement" {
			var nc NestedCase
			ev.MustJSON(rf.Case, &nc)
			vs, oc := runNested(nc)
			fmt.Printf("replay case=%+v\n  outcome=%s\n", nc, oc)
			for _, v := range vs {
				fmt.Printf("  %s: %s\n", v.sig, v.msg)
				r.Violate(ev.Violation{Signature: v.sig, Sub: rf.Sub, Message: v.msg, Case: nc})
			}
			r.Finish()
		}
		var c Case
		ev.MustJSON(rf.Case, &c)
		res := runCase(c)
		fmt.Printf("replay case=%s\n  outcome=%s\n", describe(c), res.outcome)
		for _, v := range res.viols {
			fmt.Printf("  %s: %s\n", v.sig, v.msg)
			r.Violate(ev.Violation{Signature: v.sig, Sub: rf.Sub, Message: v.msg, Case: c})
		}
		r.Finish()
	}

	thorough := r.Thorough()

	for _, fam := range families {
		if !r.Want(fam.name) {
			continue
		}
		// The space of a family is a union of blocks
		//   (content, originals, scripts, consumers);
		// a (content, original, script) triple that occurs in several blocks is
		// run once, with the largest consumer set.
		type work struct {
			content string
			orig    BufSpec
			script  []Answer
			allCons bool
		}
		var ws []work
		index := map[string]int{}
		var blocks []string
		addBlock := func(label, cn string, origs []BufSpec, scs [][]Answer, allCons bool) {
			n := 0
			for _, o := range origs {
				ok := describeAny(o)
				for _, sc := range scs {
					k := cn + "|" + ok + "|" + describeAny(sc)
					if at, dup := index[k]; dup {
						if allCons && !ws[at].allCons {
							ws[at].allCons = true
							n++
						}
						continue
					}
					index[k] = len(ws)
					ws = append(ws, work{cn, o, sc, allCons})
					n++
				}
			}
			blocks = append(blocks, fmt.Sprintf("%s[%s: %d originals x %d scripts x %s consumers; %d new pairs]", label, cn, len(origs), len(scs), map[bool]string{true: "all", false: "core"}[allCons], n))
		}
		consAll := map[string][]Consumer{}
		consCore := map[string][]Consumer{}
		for cn, c := range contents {
			consAll[cn] = consumers(len(c), thorough)
			for _, co := range consAll[cn] {
				if coreConsumer(co, len(c)) {
					consCore[cn] = append(consCore[cn], co)
				}
			}
		}
		union := func(cn string, allowEmpty, extra bool) {
			size := len(contents[cn])
			origs := fam.origs(size, allowEmpty)
			scs := scripts(size, allowEmpty, extra)
			var coreO []BufSpec
			for _, o := range origs {
				if coreSpec(o, size) {
					coreO = append(coreO, o)
				}
			}
			var coreS [][]Answer
			for _, sc := range scs {
				if coreScript(sc, size) {
					coreS = append(coreS, sc)
				}
			}
			tag := map[bool]string{true: "+empty-pieces", false: ""}[allowEmpty]
			if fam.light && !thorough {
				// Families that only vary what lies below the original buffer
				// (and are slow: goroutine hand-offs): quick tier pairs every
				// original with the core consumers and the core originals with
				// every consumer; thorough runs the full product.
				addBlock("core-original", cn, coreO, coreS, true)
				addBlock("every-original", cn, origs, coreS, false)
				return
			}
			addBlock("every-original"+tag, cn, origs, coreS, true)
			addBlock("every-script"+tag, cn, coreO, scs, false)
		}
		if !thorough {
			union("P5", false, false)
		} else {
			size := len(contents["P5"])
			addBlock("full-product", "P5", fam.origs(size, false), scripts(size, false, false), true)
			union("P5", true, true)
			union("P4", false, true)
		}
		sub := r.NewSub(fam.name, "venum", fam.desc+"; space = union of blocks: "+strings.Join(blocks, " + ")+
			fmt.Sprintf("; all consumers = %d (P5), core consumers = %d (P5); core = boundary/representative failure positions and chunkings, see coreSpec/coreScript/coreConsumer", len(consAll["P5"]), len(consCore["P5"])))
		done := sub.Timer()
		wd := startWatchdog(r, fam.name)

		type acc struct {
			evals, nontriv, stitched int64
			outcomes                 map[string]struct{}
		}
		var mu sync.Mutex
		total := acc{outcomes: map[string]struct{}{}}
		sampleAt := map[int]bool{}
		for k := 0; k < 3; k++ {
			sampleAt[(len(ws)/3)*k+len(ws)/7] = true
		}
		samples := map[int]any{}
		par.For(len(ws), func(i int) {
			w := ws[i]
			local := acc{outcomes: map[string]struct{}{}}
			cons := consCore[w.content]
			if w.allCons {
				cons = consAll[w.content]
			}
			slot := wd.begin()
			defer wd.end(slot)
			for ci, co := range cons {
				c := Case{Content: w.content, Orig: w.orig, Script: w.script, Cons: co}
				slot.cur.Store(&c)
				slot.since.Store(time.Now().UnixNano())
				res := runCase(c)
				local.evals++
				if res.nontrivial {
					local.nontriv++
				}
				if res.stitched {
					local.stitched++
				}
				local.outcomes[res.outcome] = struct{}{}
				for _, v := range res.viols {
					if strings.HasPrefix(v.sig, "HARNESS:") {
						ev.HarnessError("%s: %s case=%s", v.sig, v.msg, describe(c))
					}
					r.Violate(ev.Violation{Signature: v.sig, Sub: fam.name, Message: v.msg + "\ncase: " + describe(c), Case: c})
				}
				if sampleAt[i] && ci == (i*7)%len(cons) {
					mu.Lock()
					samples[i] = map[string]any{"sub": fam.name, "case": c, "outcome": res.outcome}
					mu.Unlock()
				}
			}
			mu.Lock()
			total.evals += local.evals
			total.nontriv += local.nontriv
			total.stitched += local.stitched
			for k := range local.outcomes {
				total.outcomes[k] = struct{}{}
			}
			mu.Unlock()
		})
		wd.stop()
		var sk []int
		for k := range samples {
			sk = append(sk, k)
		}
		sort.Ints(sk)
		for _, k := range sk {
			r.Sample(samples[k])
		}
		sub.Evaluations = total.evals
		sub.Nontrivial = total.nontriv
		sub.Outcomes = int64(len(total.outcomes))
		sub.States, sub.Transitions = total.evals, total.evals
		sub.Exhaustive = true
		sub.Extra = map[string]any{"cases_with_a_replacement_buffer_supplied": total.stitched, "original_x_script_pairs": len(ws)}
		done()
		if fam.name == "plain" {
			var ocs []string
			for k := range total.outcomes {
				ocs = append(ocs, k)
			}
			sort.Strings(ocs)
			classes := map[string]int{}
			for _, o := range ocs {
				p := strings.Split(o, "|")
				classes[p[0]+"|"+p[1]+"|"+p[2]]++
			}
			var cl []string
			for k, v := range classes {
				cl = append(cl, fmt.Sprintf("%s x%d", k, v))
			}
			sort.Strings(cl)
			r.Note("plain outcome classes: " + strings.Join(cl, "; "))
		}
	}
	nestedReplacement(r)
	r.Finish()
}

// ---- liveness watchdog ----------------------------------------------------------

// A consumer call that never returns (e.g. a stream clone waiting for a reader
// that nobody closes) would hang the check. The watchdog reports a case that
// has been running for hangAfter (each case takes microseconds) as a
// violation and ends the run. It is a liveness detector only; no outcome of a
// terminating case depends on time.
const hangAfter = 180 * time.Second

type watchdog struct {
	mu      sync.Mutex
	running map[*wdSlot]struct{}
	quit    chan struct{}
}

type wdSlot struct {
	cur   atomic.Pointer[Case]
	since atomic.Int64
}

func startWatchdog(r *ev.Run, sub string) *watchdog {
	w := &watchdog{running: map[*wdSlot]struct{}{}, quit: make(chan struct{})}
	go func() {
		t := time.NewTicker(5 * time.Second)
		defer t.Stop()
		for {
			select {
			case <-w.quit:
				return
			case <-t.C:
			}
			w.mu.Lock()
			var stuck *Case
			now := time.Now().UnixNano()
			for e := range w.running {
				if c := e.cur.Load(); c != nil && now-e.since.Load() > int64(hangAfter) {
					stuck = c
				}
			}
			w.mu.Unlock()
			if stuck != nil {
				r.Violate(ev.Violation{Signature: "hang:" + stuck.Cons.Op + ":" + stuck.Orig.Kind + "/" + stuck.Orig.Wrap, Sub: sub,
					Message: "the consumer call did not return within " + hangAfter.String() + " (deadlock); case: " + describe(*stuck), Case: *stuck})
				r.Finish()
			}
		}
	}()
	return w
}

func (w *watchdog) begin() *wdSlot {
	s := &wdSlot{}
	w.mu.Lock()
	w.running[s] = struct{}{}
	w.mu.Unlock()
	return s
}

func (w *watchdog) end(s *wdSlot) {
	w.mu.Lock()
	delete(w.running, s)
	w.mu.Unlock()
}

func (w *watchdog) stop() { close(w.quit) }
