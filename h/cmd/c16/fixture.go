package main

import (
	"fmt"
	"io"
	"strings"
	"sync"

	"github.com/buildbarn/bb-storage/pkg/blobstore/buffer"
	"github.com/buildbarn/bb-storage/pkg/digest"
	"google.golang.org/grpc/codes"
	"google.golang.org/grpc/status"

	"verifh/sim"
)

// ---- case description (JSON-encodable, sufficient for --replay) -------------

// BufSpec describes one buffer (the original one or one supplied by the handler).
type BufSpec struct {
	// Kind: reader | chunk | vslice | casslice | error
	Kind string `json:"kind"`
	// Wrap (original only): "" | clone-discard | clone-bytes | task | nested
	Wrap string `json:"wrap,omitempty"`
	// Data: C (the digest's content), W (same size, last byte differs), Wm (same
	// size, byte 2 differs), S (one byte short), L (one byte long).
	Data string `json:"data,omitempty"`
	// Chunks: lengths of the pieces in which the source hands out Data[:FailAt]
	// (or all of Data if FailAt<0).
	Chunks []int `json:"chunks,omitempty"`
	// FailAt: -1 = the source ends with io.EOF; j>=0 = after j bytes the source
	// returns an I/O error (UNAVAILABLE, unique message) instead.
	FailAt int `json:"fail_at"`
	// WithIt (reader sources): the last piece is returned together with the
	// terminal io.EOF / I/O error in one Read call.
	WithIt bool `json:"with_it,omitempty"`
	// UnexpectedEOF: the source's I/O error is exactly io.ErrUnexpectedEOF (what a truncated compressed
	// stream or an io.ReadFull-based reader returns) instead of an UNAVAILABLE status.
	UnexpectedEOF bool `json:"unexpected_eof,omitempty"`
}

// Answer is one scripted reply of the ErrorHandler.
type Answer struct {
	// Kind: translate (return a fresh error) | pass (return the offered error
	// unchanged) | buf (return a replacement buffer)
	Kind string   `json:"kind"`
	Buf  *BufSpec `json:"buf,omitempty"`
}

// Consumer describes how the buffer is consumed.
type Consumer struct {
	Op        string `json:"op"`
	Off       int    `json:"off,omitempty"`
	Len       int    `json:"len,omitempty"`        // ReadAt
	ReadSize  int    `json:"read_size,omitempty"`  // ToReader
	Max       int    `json:"max,omitempty"`        // ToChunkReader
	StopAfter int    `json:"stop_after"`           // -1: until EOF/error, n: Close after n Read calls
	WriterErr bool   `json:"writer_err,omitempty"` // IntoWriter: the writer fails on its first Write
}

// Case is one element of the enumerated space.
type Case struct {
	Content string   `json:"content"` // P5 | P4
	Orig    BufSpec  `json:"orig"`
	Script  []Answer `json:"script"`
	Cons    Consumer `json:"consumer"`
}

var contents = map[string][]byte{
	"P5": {0x0a, 0x03, 'a', 'b', 'c'}, // wrapperspb.BytesValue{Value:"abc"}
	"P4": {0x0a, 0x02, 'a', 'b'},      // wrapperspb.BytesValue{Value:"ab"}
}

func variant(content []byte, v string) []byte {
	d := append([]byte(nil), content...)
	switch v {
	case "C":
	case "W":
		d[len(d)-1] ^= 0x18
	case "Wm":
		d[2] ^= 0x18
	case "S":
		d = d[:len(d)-1]
	case "L":
		d = append(d, 'z')
	default:
		panic("harness: unknown data variant " + v)
	}
	return d
}

// ---- scripted sources -------------------------------------------------------

// src is a scripted source; its I/O error has a message unique to the source.
type src struct {
	mu       sync.Mutex
	name     string
	role     string // orig | repl
	pieces   [][]byte
	fail     bool
	withIt   bool
	pos, off int
	closes   int
	emits    int
	emitted  []string
	readsAC  int // reads after close
	gaveData int // bytes handed out
	failErr  error
}

func (s *src) final() error {
	if !s.fail {
		return io.EOF
	}
	// Like a real broken stream the source keeps returning its error; io.ReadFull
	// legitimately drops an error that arrives together with the last wanted
	// byte and sees it again on the next Read, so emissions are not counted.
	s.emits++
	if s.failErr != nil {
		return s.failErr
	}
	msg := "io-fail " + s.name
	if s.emits == 1 {
		s.emitted = append(s.emitted, msg)
	}
	return status.Error(codes.Unavailable, msg)
}

type readerView struct{ s *src }

func (r readerView) Read(p []byte) (int, error) {
	s := r.s
	s.mu.Lock()
	defer s.mu.Unlock()
	if s.closes > 0 {
		s.readsAC++
	}
	if s.pos >= len(s.pieces) {
		return 0, s.final()
	}
	if len(p) == 0 {
		return 0, nil
	}
	c := s.pieces[s.pos][s.off:]
	n := copy(p, c)
	s.off += n
	s.gaveData += n
	last := false
	if s.off >= len(s.pieces[s.pos]) {
		s.pos++
		s.off = 0
		last = s.pos >= len(s.pieces)
	}
	if last && s.withIt {
		return n, s.final()
	}
	return n, nil
}

func (r readerView) Close() error {
	r.s.mu.Lock()
	r.s.closes++
	r.s.mu.Unlock()
	return nil
}

type chunkView struct{ s *src }

func (c chunkView) Read() ([]byte, error) {
	s := c.s
	s.mu.Lock()
	defer s.mu.Unlock()
	if s.closes > 0 {
		s.readsAC++
	}
	if s.pos >= len(s.pieces) {
		return nil, s.final()
	}
	d := s.pieces[s.pos]
	s.pos++
	s.gaveData += len(d)
	return append([]byte(nil), d...), nil
}

func (c chunkView) Close() {
	c.s.mu.Lock()
	c.s.closes++
	c.s.mu.Unlock()
}

// ---- environment of one case --------------------------------------------------

type env struct {
	content []byte
	dg      digest.Digest

	mu        sync.Mutex
	srcs      []*src
	errbufs   []string // messages of error buffers created (orig or handed out)
	dirty     bool     // a buffer whose data differs from the digest's content was created
	valid     int
	invalid   int
	taskRuns  int
	buildFail string
}

var digests = func() map[string]digest.Digest {
	m := map[string]digest.Digest{}
	for k, c := range contents {
		m[k] = sim.SHA256Digest("c16", c)
	}
	return m
}()

func newEnv(contentName string) *env {
	c, ok := contents[contentName]
	if !ok {
		panic("harness: unknown content " + contentName)
	}
	return &env{content: c, dg: digests[contentName]}
}

func (e *env) source() buffer.Source {
	return buffer.BackendProvided(func(ok bool) {
		e.mu.Lock()
		if ok {
			e.valid++
		} else {
			e.invalid++
		}
		e.mu.Unlock()
	})
}

// build creates the bare buffer of a spec (without Wrap).
func (e *env) build(spec BufSpec, name, role string) buffer.Buffer {
	switch spec.Kind {
	case "error":
		msg := "io-fail errbuf " + name
		e.mu.Lock()
		e.errbufs = append(e.errbufs, msg)
		e.mu.Unlock()
		return buffer.NewBufferFromError(status.Error(codes.Unavailable, msg))
	case "vslice":
		if spec.Data != "C" {
			panic("harness: validated slices are only built with the right content")
		}
		return buffer.NewValidatedBufferFromByteSlice(variant(e.content, "C"))
	case "casslice":
		d := variant(e.content, spec.Data)
		if spec.Data != "C" {
			e.mu.Lock()
			e.dirty = true
			e.mu.Unlock()
		}
		return buffer.NewCASBufferFromByteSlice(e.dg, d, e.source())
	case "reader", "chunk":
		d := variant(e.content, spec.Data)
		if spec.Data != "C" {
			e.mu.Lock()
			e.dirty = true
			e.mu.Unlock()
		}
		total := len(d)
		if spec.FailAt >= 0 {
			total = spec.FailAt
		}
		s := &src{name: name, role: role, fail: spec.FailAt >= 0, withIt: spec.WithIt}
		if spec.UnexpectedEOF {
			s.failErr = io.ErrUnexpectedEOF
		}
		at := 0
		for _, l := range spec.Chunks {
			if at+l > total {
				panic(fmt.Sprintf("harness: bad chunking %v for %d bytes", spec.Chunks, total))
			}
			s.pieces = append(s.pieces, d[at:at+l])
			at += l
		}
		if at != total {
			panic(fmt.Sprintf("harness: chunking %v does not cover %d bytes", spec.Chunks, total))
		}
		e.mu.Lock()
		e.srcs = append(e.srcs, s)
		e.mu.Unlock()
		if spec.Kind == "reader" {
			return buffer.NewCASBufferFromReader(e.dg, readerView{s}, e.source())
		}
		return buffer.NewCASBufferFromChunkReader(e.dg, chunkView{s}, e.source())
	}
	panic("harness: unknown buffer kind " + spec.Kind)
}

// ---- scripted error handler -----------------------------------------------------

type hevent struct {
	kind string // onerror | done
	err  error
	buf  *BufSpec
	ret  error
}

type handler struct {
	e      *env
	name   string
	script []Answer

	mu        sync.Mutex
	offered   []error
	returned  []error
	nrepl     int
	done      int
	afterDone int
	events    []hevent
}

// logString renders the call log (only needed when reporting).
func (h *handler) logString() string {
	h.mu.Lock()
	defer h.mu.Unlock()
	var out []string
	for _, ev := range h.events {
		switch {
		case ev.kind == "done":
			out = append(out, "Done()")
		case ev.buf != nil:
			out = append(out, fmt.Sprintf("OnError(%v) -> buffer %+v", ev.err, *ev.buf))
		default:
			out = append(out, fmt.Sprintf("OnError(%v) -> error %v", ev.err, ev.ret))
		}
	}
	return "[" + strings.Join(out, "; ") + "]"
}

var replNames = func() map[string][]string {
	m := map[string][]string{}
	for _, n := range []string{"", "inner"} {
		for i := 0; i < 8; i++ {
			m[n] = append(m[n], fmt.Sprintf("%srepl%d", n, i))
		}
	}
	return m
}()

func (h *handler) OnError(err error) (buffer.Buffer, error) {
	h.mu.Lock()
	defer h.mu.Unlock()
	if h.done > 0 {
		h.afterDone++
	}
	idx := len(h.offered)
	h.offered = append(h.offered, err)
	a := Answer{Kind: "translate"}
	if idx < len(h.script) {
		a = h.script[idx]
	}
	if a.Kind == "pass" && (err == nil || err == io.EOF) {
		a.Kind = "translate"
	}
	switch a.Kind {
	case "pass":
		h.returned = append(h.returned, err)
		h.events = append(h.events, hevent{kind: "onerror", err: err, ret: err})
		return nil, err
	case "buf":
		name := "replN"
		if idx < 8 {
			name = replNames[h.name][idx]
		}
		b := h.e.build(*a.Buf, name, "repl")
		h.nrepl++
		h.events = append(h.events, hevent{kind: "onerror", err: err, buf: a.Buf})
		return b, nil
	default:
		te := status.Errorf(codes.FailedPrecondition, "translated %s#%d", h.name, idx)
		h.returned = append(h.returned, te)
		h.events = append(h.events, hevent{kind: "onerror", err: err, ret: te})
		return nil, te
	}
}

func (h *handler) Done() {
	h.mu.Lock()
	h.done++
	h.events = append(h.events, hevent{kind: "done"})
	h.mu.Unlock()
}
