package main

import (
	"bytes"
	"errors"
	"fmt"
	"io"
	"runtime/debug"
	"strings"
	"sync"

	"github.com/buildbarn/bb-storage/pkg/blobstore/buffer"
	"google.golang.org/grpc/codes"
	"google.golang.org/grpc/status"
	"google.golang.org/protobuf/proto"
	"google.golang.org/protobuf/types/known/wrapperspb"

	"verifh/ev"
)

type viol struct{ sig, msg string }

type result struct {
	viols      []viol
	outcome    string
	nontrivial bool // the handler was asked at least once
	stitched   bool // a replacement buffer was supplied at least once
}

// cres is what the consumer observed.
type cres struct {
	ok        bool   // completed successfully (whole result / EOF reached)
	err       error  // the error the consumer got (nil if ok or stopped early)
	data      []byte // bytes delivered (in order of delivery)
	n         int    // ReadAt: n
	size      int64  // GetSizeBytes
	stopped   bool   // the consumer closed before EOF/error by its own choice
	noProg    bool
	protoOK   bool
	panicked  string
	writerErr error
}

type failingWriter struct {
	buf  bytes.Buffer
	fail error
}

func (w *failingWriter) Write(p []byte) (int, error) {
	if w.fail != nil {
		return 0, w.fail
	}
	return w.buf.Write(p)
}

const maxIter = 5000

func consume(b buffer.Buffer, c Consumer, e *env) (res cres) {
	size := len(e.content)
	switch c.Op {
	case "ToByteSlice":
		d, err := b.ToByteSlice(size + 10)
		res.data, res.err, res.ok = d, err, err == nil
	case "ToProto":
		m, err := b.ToProto(&wrapperspb.BytesValue{}, size+10)
		res.err, res.ok = err, err == nil
		if err == nil {
			var want wrapperspb.BytesValue
			if uerr := proto.Unmarshal(e.content, &want); uerr != nil {
				panic("harness: content is not a valid proto")
			}
			res.protoOK = m != nil && proto.Equal(m, &want)
			if m != nil {
				res.data, _ = proto.MarshalOptions{Deterministic: true}.Marshal(m)
			}
		}
	case "ReadAt":
		p := bytes.Repeat([]byte{0xee}, c.Len)
		n, err := b.ReadAt(p, int64(c.Off))
		res.n = n
		if err == nil || err == io.EOF {
			res.ok = true
			if n >= 0 && n <= len(p) {
				res.data = p[:n]
			}
		} else {
			res.err = err
		}
	case "IntoWriter":
		w := &failingWriter{}
		if c.WriterErr {
			w.fail = errors.New("writer failure")
			res.writerErr = w.fail
		}
		err := b.IntoWriter(w)
		res.data, res.err, res.ok = w.buf.Bytes(), err, err == nil
	case "ToReader":
		r := b.ToReader()
		p := make([]byte, c.ReadSize)
		for i := 0; ; i++ {
			if c.StopAfter >= 0 && i >= c.StopAfter {
				res.stopped = true
				break
			}
			if i > maxIter {
				res.noProg = true
				break
			}
			n, err := r.Read(p)
			res.data = append(res.data, p[:n]...)
			if err == io.EOF {
				res.ok = true
				break
			}
			if err != nil {
				res.err = err
				break
			}
		}
		r.Close()
	case "ToChunkReader":
		r := b.ToChunkReader(int64(c.Off), c.Max)
		for i := 0; ; i++ {
			if c.StopAfter >= 0 && i >= c.StopAfter {
				res.stopped = true
				break
			}
			if i > maxIter {
				res.noProg = true
				break
			}
			chunk, err := r.Read()
			if err == io.EOF {
				res.ok = true
				break
			}
			if err != nil {
				res.err = err
				break
			}
			res.data = append(res.data, chunk...)
		}
		r.Close()
	case "Discard":
		b.Discard()
		res.stopped = true
	case "GetSizeBytes":
		sz, err := b.GetSizeBytes()
		res.size, res.err, res.ok = sz, err, err == nil
		b.Discard()
	default:
		panic("harness: unknown consumer " + c.Op)
	}
	return res
}

func msgOf(err error) string {
	if err == nil {
		return "<nil>"
	}
	if s, ok := status.FromError(err); ok {
		return s.Code().String() + ": " + s.Message()
	}
	return "non-status: " + err.Error()
}

func isIOFail(err error) bool {
	return err != nil && strings.Contains(err.Error(), "io-fail ")
}

// full reports whether the consumer reads the object to its end.
func (c Consumer) full(size int) bool {
	switch c.Op {
	case "ToByteSlice", "ToProto", "ReadAt":
		return true
	case "IntoWriter":
		return !c.WriterErr
	case "ToReader":
		return c.StopAfter < 0
	case "ToChunkReader":
		return c.StopAfter < 0 && c.Off >= 0 && c.Off <= size
	}
	return false
}

func runCase(c Case) (res result) {
	e := newEnv(c.Content)
	size := len(e.content)
	outer := &handler{e: e, name: "", script: c.Script}
	var inner *handler
	var other struct {
		used     bool
		data     []byte
		err      error
		panicked string
	}
	var wg sync.WaitGroup
	var cr cres

	add := func(sig, format string, a ...any) {
		res.viols = append(res.viols, viol{sig, fmt.Sprintf(format, a...)})
	}

	func() {
		defer func() {
			if p := recover(); p != nil {
				if s, ok := p.(string); ok && strings.HasPrefix(s, "harness:") {
					ev.HarnessError("%s", s)
				}
				cr.panicked = fmt.Sprintf("%v\n%s", p, trimStack(debug.Stack()))
			}
		}()
		base := e.build(BufSpec{Kind: c.Orig.Kind, Data: c.Orig.Data, Chunks: c.Orig.Chunks, FailAt: c.Orig.FailAt, WithIt: c.Orig.WithIt}, "orig", "orig")
		switch c.Orig.Wrap {
		case "":
		case "task":
			base = base.WithTask(func() error {
				e.mu.Lock()
				e.taskRuns++
				e.mu.Unlock()
				return nil
			})
		case "clone-discard", "clone-bytes":
			b1, b2 := base.CloneStream()
			base = b1
			other.used = true
			wg.Add(1)
			go func() {
				defer wg.Done()
				defer func() {
					if p := recover(); p != nil {
						other.panicked = fmt.Sprintf("%v\n%s", p, trimStack(debug.Stack()))
					}
				}()
				if c.Orig.Wrap == "clone-discard" {
					b2.Discard()
				} else {
					other.data, other.err = b2.ToByteSlice(size + 10)
				}
			}()
		case "nested-translate", "nested-pass":
			k := "translate"
			if c.Orig.Wrap == "nested-pass" {
				k = "pass"
			}
			inner = &handler{e: e, name: "inner", script: []Answer{{Kind: k}, {Kind: k}}}
			base = buffer.WithErrorHandler(base, inner)
		default:
			panic("harness: unknown wrap " + c.Orig.Wrap)
		}
		b := buffer.WithErrorHandler(base, outer)
		cr = consume(b, c.Cons, e)
	}()
	if other.used {
		if cr.panicked != "" {
			// The other clone may be blocked forever; do not wait for it.
			add("panic:"+c.Cons.Op+":"+c.Orig.Kind+"/"+c.Orig.Wrap, "panic: %s", cr.panicked)
			res.outcome = "panic"
			return res
		}
		wg.Wait()
	}

	op := c.Cons.Op
	e.mu.Lock()
	dirty := e.dirty
	e.mu.Unlock()
	regime := "clean"
	if dirty {
		regime = "dirty"
	}
	full := c.Cons.full(size)
	validOff := c.Cons.Off >= 0 && c.Cons.Off <= size

	// ---- O1: no panic ----
	if cr.panicked != "" {
		add("panic:"+op+":"+c.Orig.Kind+"/"+c.Orig.Wrap, "panic: %s", cr.panicked)
		res.outcome = "panic"
		return res
	}
	if other.panicked != "" {
		add("panic-in-other-clone:"+op, "panic in the goroutine consuming the second clone: %s", other.panicked)
	}
	if cr.noProg {
		add("no-progress:"+op, "%s: more than %d Read calls without EOF or error", op, maxIter)
	}

	// ---- O2: successful completion implies exactly the object's bytes ----
	var lastReturned error
	if n := len(outer.returned); n > 0 {
		lastReturned = outer.returned[n-1]
	}
	if cr.ok {
		switch op {
		case "ToByteSlice", "IntoWriter", "ToReader":
			if !bytes.Equal(cr.data, e.content) {
				add("wrong-bytes-on-success:"+op+":"+regime, "%s completed successfully with %q, the digest's content is %q", op, cr.data, e.content)
			}
		case "ToProto":
			if !cr.protoOK {
				add("wrong-bytes-on-success:"+op+":"+regime, "ToProto completed successfully with a message marshaling to %q, the digest's content is %q", cr.data, e.content)
			}
		case "ToChunkReader":
			if validOff {
				if !bytes.Equal(cr.data, e.content[c.Cons.Off:]) {
					add("wrong-bytes-on-success:"+op+":"+regime, "ToChunkReader(off=%d,max=%d) reached EOF after delivering %q, want content[%d:]=%q", c.Cons.Off, c.Cons.Max, cr.data, c.Cons.Off, e.content[c.Cons.Off:])
				}
			}
		case "ReadAt":
			want := e.content[c.Cons.Off:]
			if len(want) > c.Cons.Len {
				want = want[:c.Cons.Len]
			}
			if cr.n != len(want) || !bytes.Equal(cr.data, want) {
				add("wrong-bytes-on-success:"+op+":"+regime, "ReadAt(len=%d,off=%d) returned n=%d data=%q without error, want %q", c.Cons.Len, c.Cons.Off, cr.n, cr.data, want)
			}
		case "GetSizeBytes":
			if !dirty && cr.size != int64(size) {
				add("wrong-size:"+regime, "GetSizeBytes returned %d, object has %d bytes", cr.size, size)
			}
		}
	}

	// ---- O4: with only correct buffers, whatever was delivered is a prefix ----
	if !dirty && !cr.ok && (op == "IntoWriter" || op == "ToReader" || (op == "ToChunkReader" && validOff)) {
		want := e.content
		if op == "ToChunkReader" {
			want = e.content[c.Cons.Off:]
		}
		if !bytes.HasPrefix(want, cr.data) {
			add("delivered-not-prefix:"+op, "%s delivered %q before stopping (err=%s); that is not a prefix of %q: bytes were duplicated, skipped or reordered", op, cr.data, msgOf(cr.err), want)
		}
	}

	// ---- O3: an error seen by the consumer is the one the handler returned ----
	if cr.err != nil {
		switch {
		case lastReturned != nil && msgOf(cr.err) == msgOf(lastReturned):
			// what the handler returned
		case cr.writerErr != nil && cr.err.Error() == cr.writerErr.Error():
			// the consumer's own writer failed
		case op == "ToChunkReader" && !validOff && status.Code(cr.err) == codes.InvalidArgument:
			// invalid offset requested by the consumer
		case isIOFail(cr.err):
			add("io-error-reached-consumer-unhandled:"+op, "%s: consumer got the underlying I/O error %q, which the handler did not return (handler returned %v)", op, msgOf(cr.err), msgsOf(outer.returned))
		case !dirty:
			add("spurious-error-with-correct-content:"+op, "%s: all buffers hold the digest's content, yet the consumer got %q (handler returned %v, handler log %v)", op, msgOf(cr.err), msgsOf(outer.returned), outer.logString())
		default:
			// dirty regime: data integrity (or size/offset) error produced by validation
		}
	}
	if full && lastReturned != nil {
		if cr.err == nil || msgOf(cr.err) != msgOf(lastReturned) {
			add("handler-error-not-delivered:"+op, "%s: the handler returned %q but the consumer observed ok=%v err=%s data=%q", op, msgOf(lastReturned), cr.ok, msgOf(cr.err), cr.data)
		}
	}
	if full && !dirty && lastReturned == nil && !cr.ok && cr.err == nil && !cr.noProg {
		add("HARNESS:inconsistent-consumer-result", "full consumer neither ok nor error")
	}

	// ---- O5: handler log ----
	checkHandler := func(h *handler, hname string, below []string, belowComplete bool) {
		if h.done != 1 {
			add(fmt.Sprintf("done-count=%d:%s%s", h.done, hname, op), "%s: Done() was called %d times on the %shandler (want exactly 1); log %v", op, h.done, hname, h.logString())
		}
		if h.afterDone > 0 {
			add("onerror-after-done:"+hname+op, "%s: OnError was called after Done(); log %v", op, h.logString())
		}
		var keys []string // distinct offered messages
		var counts []int
		for _, oe := range h.offered {
			if oe == nil || oe == io.EOF {
				add("onerror-with-nil-or-eof:"+hname+op, "%s: OnError(%v) was called", op, oe)
				continue
			}
			m := msgOf(oe)
			found := false
			for i, k := range keys {
				if k == m {
					counts[i]++
					found = true
				}
			}
			if !found {
				keys = append(keys, m)
				counts = append(counts, 1)
			}
		}
		in := func(list []string, m string) bool {
			for _, x := range list {
				if x == m {
					return true
				}
			}
			return false
		}
		for i, k := range keys {
			// Only I/O errors have an identity (unique message per source / error
			// buffer / translation); two different wrong-content buffers
			// legitimately produce identical data-integrity messages.
			if counts[i] > 1 && (strings.Contains(k, "io-fail ") || strings.Contains(k, "translated ")) {
				add("error-offered-twice:"+hname+op, "%s: error %q was offered to OnError %d times; log %v", op, k, counts[i], h.logString())
			}
			if !in(below, k) {
				if strings.Contains(k, "io-fail ") || strings.Contains(k, "translated ") {
					add("unknown-io-error-offered:"+hname+op, "%s: OnError got %q, which no underlying buffer produced (produced: %v)", op, k, below)
				} else if !dirty {
					add("foreign-error-offered-with-correct-content:"+hname+op, "%s: all buffers hold the digest's content, yet OnError got %q; log %v", op, k, h.logString())
				}
			}
		}
		if belowComplete {
			for _, m := range below {
				if !in(keys, m) {
					add("io-error-not-offered:"+hname+op, "%s: underlying buffer produced %q but it was never offered to OnError (offered %v; consumer ok=%v err=%s)", op, m, keys, cr.ok, msgOf(cr.err))
				}
			}
		}
	}
	var origEmitted, replEmitted []string
	e.mu.Lock()
	srcs := append([]*src(nil), e.srcs...)
	errbufs := append([]string(nil), e.errbufs...)
	e.mu.Unlock()
	for _, s := range srcs {
		s.mu.Lock()
		for _, m := range s.emitted {
			if s.role == "orig" {
				origEmitted = append(origEmitted, "Unavailable: "+m)
			} else {
				replEmitted = append(replEmitted, "Unavailable: "+m)
			}
		}
		s.mu.Unlock()
	}
	var origErrbuf, replErrbuf []string
	for _, m := range errbufs {
		if strings.HasSuffix(m, " orig") {
			origErrbuf = append(origErrbuf, "Unavailable: "+m)
		} else {
			replErrbuf = append(replErrbuf, "Unavailable: "+m)
		}
	}
	// Which produced errors must have been offered: every emitted source error
	// and every error buffer handed out when the consumer reads to the end and
	// all content is right; the original error buffer's error always.
	complete := full && !dirty
	if inner != nil {
		checkHandler(inner, "inner:", origEmitted, complete)
		var below []string
		below = append(below, msgsOf(inner.returned)...)
		below = append(below, replEmitted...)
		below = append(below, replErrbuf...)
		checkHandler(outer, "", below, complete)
	} else {
		var below []string
		below = append(below, origEmitted...)
		below = append(below, origErrbuf...)
		below = append(below, replEmitted...)
		below = append(below, replErrbuf...)
		checkHandler(outer, "", below, complete)
		if !complete {
			// The original error buffer's error is offered by WithErrorHandler itself.
			for _, m := range origErrbuf {
				found := false
				for _, oe := range outer.offered {
					if msgOf(oe) == m {
						found = true
					}
				}
				if !found {
					add("io-error-not-offered:"+op, "%s: the error buffer's error %q was never offered to OnError", op, m)
				}
			}
		}
	}

	// ---- O6: every source is released exactly once ----
	for _, s := range srcs {
		s.mu.Lock()
		cl := s.closes
		s.mu.Unlock()
		if cl != 1 {
			add(fmt.Sprintf("source-closes=%d:%s:%s:%s", cl, s.role, op, c.Orig.Wrap), "%s: source %s (%s) was closed %d times, want exactly 1; handler log %v", op, s.name, s.role, cl, outer.logString())
		}
	}

	// ---- the other clone (no handler attached) must not see wrong data ----
	if other.used && c.Orig.Wrap == "clone-bytes" && other.panicked == "" {
		if other.err == nil && !bytes.Equal(other.data, e.content) {
			add("other-clone-wrong-bytes:"+op, "the second clone's ToByteSlice returned %q without error, content is %q", other.data, e.content)
		}
	}

	// ---- outcome ----
	class := "stopped"
	switch {
	case cr.ok:
		class = "ok"
	case cr.err != nil:
		switch {
		case lastReturned != nil && msgOf(cr.err) == msgOf(lastReturned):
			class = "err:handler:" + status.Code(cr.err).String()
		case cr.writerErr != nil && cr.err.Error() == cr.writerErr.Error():
			class = "err:writer"
		default:
			class = "err:" + status.Code(cr.err).String() + ":" + firstWords(status.Convert(cr.err).Message(), 3)
		}
	}
	nrepl := outer.nrepl
	res.outcome = fmt.Sprintf("%s|%s|%s|onerr=%d|repl=%d|delivered=%d|valid=%d|invalid=%d", op, class, regime, len(outer.offered), nrepl, len(cr.data), e.valid, e.invalid)
	res.nontrivial = len(outer.offered) > 0
	res.stitched = nrepl > 0
	return res
}

func msgsOf(errs []error) []string {
	var out []string
	for _, e := range errs {
		out = append(out, msgOf(e))
	}
	return out
}

func firstWords(s string, n int) string {
	f := strings.Fields(s)
	if len(f) > n {
		f = f[:n]
	}
	return strings.Join(f, " ")
}

func trimStack(b []byte) string {
	lines := strings.Split(string(b), "\n")
	var keep []string
	for _, l := range lines {
		if strings.Contains(l, "bb-storage/pkg/") {
			keep = append(keep, strings.TrimSpace(l))
		}
		if len(keep) >= 6 {
			break
		}
	}
	return strings.Join(keep, " <- ")
}
