package main

import (
	"bytes"
	"fmt"

	"github.com/buildbarn/bb-storage/pkg/blobstore/buffer"

	"verifh/ev"
	"verifh/par"
)

// NestedCase: the replacement buffer the (outer) handler supplies is itself a buffer with an error handler
// (as when a read-fallback composite sits on top of a mirrored one), and its base fails later on: the inner
// handler then supplies a further replacement, which has to be resumed at the right absolute offset.
type NestedCase struct {
	Kind       string `json:"kind"`        // reader | chunk (all three sources)
	OrigChunks []int  `json:"orig_chunks"` // pieces of content[:K]
	K          int    `json:"k"`           // the original source fails after K bytes
	MidChunks  []int  `json:"mid_chunks"`  // pieces of content[:J] of the first replacement's base
	J          int    `json:"j"`           // the first replacement's base fails after J bytes (J > K), -1: never
	LastChunks []int  `json:"last_chunks"` // pieces of the complete second replacement
	// UnexpectedEOF: the sources' I/O errors are exactly io.ErrUnexpectedEOF instead of a status error
	UnexpectedEOF bool     `json:"unexpected_eof,omitempty"`
	Cons          Consumer `json:"consumer"`
}

func runNested(c NestedCase) (viols []viol, outcome string) {
	e := newEnv("P5")
	size := len(e.content)
	add := func(sig, format string, a ...any) { viols = append(viols, viol{sig, fmt.Sprintf(format, a...)}) }
	inner := &handler{e: e, name: "inner", script: []Answer{{Kind: "buf", Buf: &BufSpec{Kind: c.Kind, Data: "C", Chunks: c.LastChunks, FailAt: -1}}}}
	outer := &nestedOuter{e: e, mid: BufSpec{Kind: c.Kind, Data: "C", Chunks: c.MidChunks, FailAt: c.J, UnexpectedEOF: c.UnexpectedEOF}, inner: inner}
	base := e.build(BufSpec{Kind: c.Kind, Data: "C", Chunks: c.OrigChunks, FailAt: c.K, UnexpectedEOF: c.UnexpectedEOF}, "orig", "orig")
	b := buffer.WithErrorHandler(base, outer)
	cr := consume(b, c.Cons, e)
	op := c.Cons.Op
	var want []byte
	switch op {
	case "ReadAt":
		end := c.Cons.Off + c.Cons.Len
		if end > size {
			end = size
		}
		if c.Cons.Off <= size {
			want = e.content[c.Cons.Off:end]
		}
	case "ToChunkReader":
		if c.Cons.Off >= 0 && c.Cons.Off <= size {
			want = e.content[c.Cons.Off:]
		}
	default:
		want = e.content
	}
	// Every failure is recovered with right-content buffers, so the consumer must complete with exactly the
	// bytes it asked for.
	if cr.panicked != "" {
		add("nested-replacement:panic:"+op, "panic: %s", cr.panicked)
	} else if !cr.ok {
		add("nested-replacement:error-although-every-failure-was-recovered:"+op, "%s failed with %s after delivering %q; every source failure was answered with a right-content replacement (outer offered %d, inner offered %d)", op, msgOf(cr.err), cr.data, outer.offered, len(inner.offered))
	} else if op != "ToProto" && op != "GetSizeBytes" && !bytes.Equal(cr.data, want) {
		add("nested-replacement:wrong-bytes:"+op, "%s completed with %q, want %q", op, cr.data, want)
	}
	if outer.done != 1 {
		add(fmt.Sprintf("nested-replacement:outer-done-count=%d:%s", outer.done, op), "outer handler: Done called %d times", outer.done)
	}
	if outer.supplied && inner.done != 1 {
		add(fmt.Sprintf("nested-replacement:inner-done-count=%d:%s", inner.done, op), "inner handler: Done called %d times (its buffer was handed out)", inner.done)
	}
	e.mu.Lock()
	srcs := append([]*src(nil), e.srcs...)
	e.mu.Unlock()
	for _, s := range srcs {
		s.mu.Lock()
		cl := s.closes
		s.mu.Unlock()
		if cl != 1 {
			add(fmt.Sprintf("nested-replacement:source-closes=%d:%s", cl, op), "source %s was closed %d times, want exactly 1", s.name, cl)
		}
	}
	return viols, fmt.Sprintf("%s|ok=%v|outer=%d|inner=%d|delivered=%d", op, cr.ok, outer.offered, len(inner.offered), len(cr.data))
}

// nestedOuter answers its first error with WithErrorHandler(mid, inner) and translates every later one.
type nestedOuter struct {
	e        *env
	mid      BufSpec
	inner    *handler
	offered  int
	done     int
	supplied bool
}

func (h *nestedOuter) OnError(err error) (buffer.Buffer, error) {
	h.offered++
	if h.offered == 1 {
		h.supplied = true
		return buffer.WithErrorHandler(h.e.build(h.mid, "mid", "repl"), h.inner), nil
	}
	return nil, err
}

func (h *nestedOuter) Done() { h.done++ }

func nestedReplacement(r *ev.Run) {
	if !r.Want("nested-replacement") {
		return
	}
	size := len(contents["P5"])
	var cases []NestedCase
	cons := consumers(size, r.Thorough())
	for _, kind := range []string{"chunk", "reader"} {
		for k := 1; k < size; k++ {
			for _, oc := range chunkings(k, false) {
				for j := k + 1; j <= size; j++ {
					jj := j
					if j == size {
						jj = -1 // the first replacement does not fail at all
					}
					n := j
					for _, mc := range chunkings(n, false) {
						if !r.Thorough() && (len(mc) > 2 || len(oc) > 2) {
							continue
						}
						for _, lc := range chunkings(size, false) {
							if !r.Thorough() && len(lc) > 2 {
								continue
							}
							for _, co := range cons {
								if !co.full(size) {
									continue
								}
								cases = append(cases, NestedCase{Kind: kind, OrigChunks: oc, K: k, MidChunks: mc, J: jj, LastChunks: lc, Cons: co})
								if len(lc) == 1 {
									cases = append(cases, NestedCase{Kind: kind, OrigChunks: oc, K: k, MidChunks: mc, J: jj, LastChunks: lc, Cons: co, UnexpectedEOF: true})
								}
							}
						}
					}
				}
			}
		}
	}
	sub := r.NewSub("nested-replacement", "venum", fmt.Sprintf("the replacement supplied by the outer handler is itself a buffer with an error handler whose base fails later: original fails after K in [1,%d) bytes, first replacement's base after J in (K,%d] bytes (or not at all), second replacement complete; all chunkings into <=2 (thorough 3) pieces of each, reader and chunk-reader sources, every consumer that reads to the end (all offsets); the sources fail with a status error or with exactly io.ErrUnexpectedEOF; every failure is recovered, so the consumer must complete with exactly the bytes it asked for", size, size))
	done := sub.Timer()
	outcomes := make([]map[string]struct{}, len(cases))
	par.For(len(cases), func(i int) {
		c := cases[i]
		vs, oc := runNested(c)
		outcomes[i] = map[string]struct{}{oc: {}}
		for _, v := range vs {
			r.Violate(ev.Violation{Signature: v.sig, Sub: "nested-replacement", Message: v.msg + fmt.Sprintf("\ncase: %+v", c), Case: c})
		}
	})
	all := map[string]struct{}{}
	for _, m := range outcomes {
		for k := range m {
			all[k] = struct{}{}
		}
	}
	sub.Evaluations, sub.Nontrivial = int64(len(cases)), int64(len(cases))
	sub.States, sub.Transitions = int64(len(cases)), int64(len(cases))
	sub.Outcomes = int64(len(all))
	sub.Exhaustive = true
	done()
}
