//go:build verif

// C02 — after a crash and restart no object is served with wrong bytes.
//
// Histories: every operation sequence of the stated depth over {uploads that share sectors,
// block-sized uploads (rotation), a read that refreshes, one ProcessBlockPut step (data sync +
// state write), one ProcessBlockRelease step} on the real persistent store (block-device data,
// block-device index, directory-backed state). For EVERY crash point between any two logged I/O
// operations (data write / sync call / sync return, index record write, state-file remove /
// create / write / fsync / rename / directory fsync) EVERY admissible post-crash medium is built:
//
//	data device   everything issued before the call of the last completed sync is durable; each
//	              later sector write is independently kept or lost (torn multi-sector writes)
//	index device  never synced: each record write since the start of the run is kept or lost
//	directory     metadata operations after the last directory fsync survive as any prefix of
//	              their order (thorough: any subset); unsynced file data survives as a prefix
//
// The real store is restarted on each medium (raw, non-validating read path) and every object
// its index resolves must have exactly the uploaded bytes at the location the store reads; then
// fresh uploads are accepted and the objects must stay intact while they remain resolvable; in
// the thorough tier a second crash inside that post-restart workload is enumerated as well.
package main

import (
	"bytes"
	"context"
	"crypto/sha256"
	"fmt"
	"time"

	"github.com/buildbarn/bb-storage/pkg/blobstore/local"
	"github.com/buildbarn/bb-storage/pkg/digest"
	"github.com/buildbarn/bb-storage/pkg/verifshim/vsched"
	"google.golang.org/grpc/status"

	"github.com/buildbarn/bb-storage/pkg/verifshim/vsync"

	"verifh/ev"
	"verifh/lstore"
	"verifh/mc"
)

func failf(sig, format string, a ...any) { vsched.Fail(sig, format, a...) }

var contents = map[string]string{"A3": "aaa", "B5": "bbbbb", "C8": "cccccccc", "F8": "ffffffff", "D4": "dddd", "G8": "gggggggg", "H8": "hhhhhhhh", "I8": "iiiiiiii", "J8": "jjjjjjjj"}
var names = []string{"A3", "B5", "C8", "F8", "D4", "G8", "H8", "I8", "J8"}

func geometry(hier bool) lstore.Geometry {
	g := lstore.Geometry{SectorSize: 4, SectorsPerBlock: 2, Old: 1, Current: 1, New: 1, Spare: 1, Persistent: true, Hierarchical: hier,
		IndexSlots: 61, GetAttempts: 16, PutAttempts: 64, MinEpochInterval: 10 * time.Second, ErrorRetry: 3 * time.Second, IndexOnDevice: true}
	if hier {
		g.New = 2
	}
	return g
}

func inst(g lstore.Geometry) string {
	if g.Hierarchical {
		return "a"
	}
	return ""
}

func obj(g lstore.Geometry, n string) lstore.Obj {
	return lstore.CASObj(n, inst(g), []byte(contents[n]))
}

// resolve reads, without any refresh, the bytes at the location the restarted store's index gives for d.
func resolve(s *lstore.Store, d digest.Digest) ([]byte, bool, error) {
	s.Lock.RLock()
	defer s.Lock.RUnlock()
	var loc local.Location
	var err error
	found := false
	if s.Geo.Hierarchical {
		for _, pd := range d.GetDigestsWithParentInstanceNames() {
			if loc, err = s.KLM.Get(local.NewKeyFromString(pd.GetKey(digest.KeyWithInstance))); err == nil {
				found = true
				break
			}
		}
	} else if loc, err = s.KLM.Get(local.NewKeyFromString(d.GetKey(digest.KeyWithoutInstance))); err == nil {
		found = true
	}
	if !found {
		return nil, false, nil
	}
	getter, _ := s.LBM.Get(loc)
	data, rerr := getter(d).ToByteSlice(1 << 20)
	return data, true, rerr
}

type stats struct {
	cs        lstore.CrashStats
	verified  int64 // objects found resolvable after a crash and checked byte for byte
	nested    int64
	recovered int64
}

// verify restarts the real store on medium c and applies the oracle. depth>0 enumerates a second crash.
func verify(g lstore.Geometry, c *lstore.Media, desc string, lim lstore.CrashLimits, st *stats, nested bool) {
	g2 := g
	g2.RawReads = true
	rs := lstore.Open(g2, c)
	st.recovered++
	var served []lstore.Obj
	for _, n := range names {
		o := obj(g, n)
		data, ok, err := resolve(rs, o.Digest)
		if !ok {
			continue
		}
		if err != nil {
			failf("recovered-object-unreadable", "%s: after restart the index resolves %s but reading it fails: %v", desc, n, err)
		}
		if !bytes.Equal(data, o.Content) {
			failf("wrong-bytes-after-crash", "%s: after restart the store resolves %s to bytes %q; the uploaded content is %q (state directory: %s)", desc, n, data, o.Content, c.Dir.Describe())
		}
		st.verified++
		served = append(served, o)
		vsched.Mark()
	}
	// Post-restart workload: fresh uploads must not overwrite space that holds served objects.
	j0 := len(c.Journal)
	var freshAll []lstore.Obj
	for i := 0; i < 3; i++ {
		fresh := lstore.CASObj(fmt.Sprintf("N%d", i), inst(g), []byte(fmt.Sprintf("n%dn%d!", i, i))[:3+i])
		if err := rs.PutOK(fresh.Digest, fresh.Content); err != nil {
			break
		}
		freshAll = append(freshAll, fresh)
		for _, n := range names {
			o := obj(g, n)
			data, ok, err := resolve(rs, o.Digest)
			if !ok {
				continue
			}
			if err != nil || !bytes.Equal(data, o.Content) {
				wasServed := false
				for _, so := range served {
					if so.Name == n {
						wasServed = true
					}
				}
				if wasServed {
					failf("served-object-overwritten-after-restart", "%s: %s was served correctly after the restart, but after %d fresh upload(s) the store resolves it to %q (err=%v)", desc, n, i+1, data, err)
				}
				failf("wrong-bytes-after-crash", "%s: after the restart and %d fresh upload(s) the store resolves %s to %q (err=%v); the uploaded content is %q", desc, i+1, n, data, err, o.Content)
			}
			st.verified++
		}
		if data, ok, err := resolve(rs, fresh.Digest); ok && (err != nil || !bytes.Equal(data, fresh.Content)) {
			failf("wrong-bytes-after-crash", "%s: object uploaded after the restart reads back as %q (err=%v)", desc, data, err)
		}
	}
	if rs.ReleaseWakeupReady() {
		// the release loop rewrites the state file without a data sync, possibly before the put loop's first
		// commit of this run; a restart from exactly that state must not hand out space holding served objects
		rs.Syncer.ProcessBlockRelease()
		secondRestart(g, rs, desc+", then fresh uploads and a release-triggered state write", freshAll)
	}
	if rs.PutWakeupReady() {
		// commit the post-restart uploads and look again: records of epochs that were never
		// committed before the crash must not come back to life under a re-used epoch id
		rs.Syncer.ProcessBlockPut(context.Background())
		for _, n := range names {
			o := obj(g, n)
			if data, ok, err := resolve(rs, o.Digest); ok && (err != nil || !bytes.Equal(data, o.Content)) {
				failf("wrong-bytes-after-crash", "%s: after the restart, fresh uploads and a commit the store resolves %s to %q (err=%v); the uploaded content is %q", desc, n, data, err, o.Content)
			}
		}
	}
	if nested {
		for p := j0; p <= len(c.Journal); p++ {
			c.EnumerateCrashMedia(p, lim, &st.cs, func(c2 *lstore.Media, d2 string) {
				st.nested++
				verify(g, c2, desc+" THEN "+d2, lim, st, false)
			})
		}
	}
}

// secondRestart restarts once more, cleanly (every I/O operation issued so far survives), from whatever the
// first recovered run has written, and checks every resolvable object before and after two more uploads.
func secondRestart(g lstore.Geometry, rs *lstore.Store, desc string, fresh []lstore.Obj) {
	g2 := g
	g2.RawReads = true
	r2 := rs.Restart(g2)
	check := func(when string) {
		all := append([]lstore.Obj{}, fresh...)
		for _, n := range names {
			all = append(all, obj(g, n))
		}
		for _, o := range all {
			if data, ok, err := resolve(r2, o.Digest); ok && (err != nil || !bytes.Equal(data, o.Content)) {
				failf("wrong-bytes-after-second-restart", "%s, then a clean restart: %s the store resolves %s to %q (err=%v); the uploaded content is %q", desc, when, o.Name, data, err, o.Content)
			}
		}
	}
	check("right away")
	for i := 0; i < 2; i++ {
		o := lstore.CASObj(fmt.Sprintf("M%d", i), inst(g), []byte(fmt.Sprintf("m%dm%dm", i, i))[:3+2*i])
		if err := r2.PutOK(o.Digest, o.Content); err != nil {
			break
		}
		check(fmt.Sprintf("after %d more upload(s)", i+1))
	}
}

func body(g lstore.Geometry, depth int, lim, nestedLim lstore.CrashLimits, nested bool) func() {
	return func() {
		med := lstore.NewMedia(g)
		s := lstore.Open(g, med)
		ctx := context.Background()
		choices := make([]int, depth)
		bounds := make([]int, depth+1)
		ops := []string{"PutA3", "PutB5", "PutC8", "PutF8", "PutD4", "GetA3", "StepPut", "StepRelease"}
		for step := 0; step < depth; step++ {
			k := vsched.ChooseFree("choice", len(ops))
			choices[step] = k
			bounds[step] = len(med.Journal)
			switch ops[k] {
			case "GetA3":
				_, err := s.Get(obj(g, "A3").Digest)
				vsched.Obs("G=%s", status.Code(err))
			case "StepPut":
				if s.PutWakeupReady() {
					s.Syncer.ProcessBlockPut(ctx)
					vsched.Obs("commit")
				}
			case "StepRelease":
				if s.ReleaseWakeupReady() {
					s.Syncer.ProcessBlockRelease()
					vsched.Obs("release")
				}
			default:
				o := obj(g, ops[k][3:])
				err := s.PutOK(o.Digest, o.Content)
				vsched.Obs("%s=%s", ops[k], status.Code(err))
			}
		}
		bounds[depth] = len(med.Journal)
		st := &stats{}
		// Crash points inside operation k's journal segment are owned by the execution whose later
		// operations are all the default one (so every (history prefix, crash point) is enumerated once).
		for k := 0; k < depth; k++ {
			owned := true
			for j := k + 1; j < depth; j++ {
				if choices[j] != 0 {
					owned = false
				}
			}
			if !owned {
				continue
			}
			lo := bounds[k] + 1
			if k == 0 {
				lo = 0
			}
			for p := lo; p <= bounds[k+1]; p++ {
				med.EnumerateCrashMedia(p, lim, &st.cs, func(c *lstore.Media, desc string) {
					verify(g, c, fmt.Sprintf("history %v, %s", opNames(ops, choices[:k+1]), desc), nestedLim, st, nested)
				})
			}
		}
		report(st)
	}
}

// scriptBody: a fixed client script (uploads forcing rotations, refreshing reads); before every
// client operation a free choice inserts {nothing, a ProcessBlockPut step, a ProcessBlockRelease step}. Crash points of the journal segment of step k are owned by the execution whose
// later choices are all "nothing".
func scriptBody(g lstore.Geometry, script []string, lim, nestedLim lstore.CrashLimits, nested bool) func() {
	return func() {
		med := lstore.NewMedia(g)
		s := lstore.Open(g, med)
		ctx := context.Background()
		n := len(script)
		choices := make([]int, n)
		bounds := make([]int, n+1)
		var hist []string
		hists := make([][]string, n)
		for step := 0; step < n; step++ {
			k := vsched.ChooseFree("choice", 3)
			choices[step] = k
			bounds[step] = len(med.Journal)
			if k == 1 && s.PutWakeupReady() {
				s.Syncer.ProcessBlockPut(ctx)
				hist = append(hist, "StepPut")
			}
			if k == 2 && s.ReleaseWakeupReady() {
				s.Syncer.ProcessBlockRelease()
				hist = append(hist, "StepRelease")
			}
			op := script[step]
			hist = append(hist, op)
			if op[:3] == "Get" {
				_, err := s.Get(obj(g, op[3:]).Digest)
				vsched.Obs("%s=%s", op, status.Code(err))
			} else {
				o := obj(g, op[3:])
				err := s.PutOK(o.Digest, o.Content)
				vsched.Obs("%s=%s", op, status.Code(err))
			}
			hists[step] = append([]string(nil), hist...)
		}
		bounds[n] = len(med.Journal)
		st := &stats{}
		for k := 0; k < n; k++ {
			owned := true
			for j := k + 1; j < n; j++ {
				if choices[j] != 0 {
					owned = false
				}
			}
			if !owned {
				continue
			}
			lo := bounds[k] + 1
			if k == 0 {
				lo = 0
			}
			for p := lo; p <= bounds[k+1]; p++ {
				med.EnumerateCrashMedia(p, lim, &st.cs, func(c *lstore.Media, desc string) {
					verify(g, c, fmt.Sprintf("history %v, %s", hists[k], desc), nestedLim, st, nested)
				})
			}
		}
		report(st)
	}
}

func report(st *stats) {
	vsched.Count("crash_points", st.cs.CrashPoints)
	vsched.Count("media_built", st.cs.Media)
	vsched.Count("distinct_media_recovered", st.recovered)
	vsched.Count("objects_verified_after_crash", st.verified)
	vsched.Count("full_products", st.cs.FullProducts)
	vsched.Count("deviation_bounded_products", st.cs.Bounded)
	vsched.Count("second_crash_media", st.nested)
}

var seenPrefix = map[[32]byte]bool{}

// concBody: a client script with both syncer loops running as free daemon threads; every schedule
// within the deviation bound produces an I/O journal; every crash point of every journal whose
// prefix has not been seen before (by this worker) is enumerated.
func concBody(g lstore.Geometry, script []string, others [][]string, lim lstore.CrashLimits) func() {
	return func() {
		med := lstore.NewMedia(g)
		ctx, cancel := context.WithCancel(context.Background())
		defer cancel()
		s := lstore.OpenWith(g, med, lstore.OpenOptions{Ctx: ctx})
		run := func(who string, script []string) {
			for _, op := range script {
				if op[:3] == "Get" {
					_, err := s.Get(obj(g, op[3:]).Digest)
					vsched.Obs("%s%s=%s", who, op, status.Code(err))
				} else {
					o := obj(g, op[3:])
					err := s.PutOK(o.Digest, o.Content)
					vsched.Obs("%s%s=%s", who, op, status.Code(err))
				}
			}
		}
		var wg vsync.WaitGroup
		for i, sc := range others {
			i, sc := i, sc
			wg.Add(1)
			vsched.GoNamed(fmt.Sprintf("uploader%d", i+1), false, func() { defer wg.Done(); run(fmt.Sprintf("u%d:", i+1), sc) })
		}
		run("", script)
		wg.Wait()
		vsched.WaitQuiescent()
		enumerateNewPrefixes(g, med, fmt.Sprintf("concurrent history %v || %v", script, others), lim)
	}
}

// enumerateNewPrefixes enumerates every crash point of med's journal whose journal prefix has not
// been verified before by this worker.
func enumerateNewPrefixes(g lstore.Geometry, med *lstore.Media, what string, lim lstore.CrashLimits) {
	st := &stats{}
	h := sha256.New()
	for p := 0; p <= len(med.Journal); p++ {
		if p > 0 {
			e := med.Journal[p-1]
			h.Write([]byte{e.Dev})
			switch e.Dev {
			case 'D':
				o := med.Data.Log[e.Idx]
				h.Write([]byte{o.Kind, byte(o.Off), byte(o.Off >> 8)})
				h.Write(o.Data)
			case 'I':
				o := med.Index.Log[e.Idx]
				h.Write([]byte{o.Kind, byte(o.Off), byte(o.Off >> 8)})
				h.Write(o.Data)
			default:
				o := med.Dir.Log[e.Idx]
				h.Write([]byte(o.Kind + "|" + o.Name + "|" + o.To + "|"))
				h.Write(o.Data)
			}
		}
		var key [32]byte
		copy(key[:], h.Sum(nil))
		if seenPrefix[key] {
			continue
		}
		med.EnumerateCrashMedia(p, lim, &st.cs, func(c *lstore.Media, desc string) {
			verify(g, c, fmt.Sprintf("%s, %s", what, desc), lim, st, false)
		})
		// only a prefix that was verified completely is skipped later (a violation aborts before this
		// point, so re-executing a failing schedule enumerates and fails again)
		seenPrefix[key] = true
	}
	report(st)
}

// faultScriptBody: the client script with inserted syncer steps as in scriptBody, but every syncer step runs
// in its own thread and one I/O operation of it (data sync, or any state-directory operation) may fail. The
// client continues as soon as the step has finished or has gone to sleep before its retry, so uploads and
// rotations happen between a failed commit / release and its retry; every crash point of every distinct
// journal prefix is enumerated.
func faultScriptBody(g lstore.Geometry, script []string, lim lstore.CrashLimits) func() {
	return func() {
		med := lstore.NewMedia(g)
		s := lstore.Open(g, med)
		med.Dir.Faults, med.Data.SyncFaults = 1, 1
		ctx := context.Background()
		sleeping := 0
		s.Errors.Hook = func(string) { sleeping++ }
		var hist []string
		step := func(name string, f func()) {
			done := false
			before := sleeping
			vsched.GoNamed(name, false, func() { f(); done = true })
			vsched.Block("await-step", false, func() bool { return done || sleeping > before })
			if done {
				hist = append(hist, name)
			} else {
				hist = append(hist, name+"(failed, retry pending)")
			}
		}
		for _, op := range script {
			k := vsched.ChooseFree("choice", 3)
			if k == 1 && s.PutWakeupReady() {
				step("StepPut", func() { s.Syncer.ProcessBlockPut(ctx) })
			}
			if k == 2 && s.ReleaseWakeupReady() {
				step("StepRelease", func() { s.Syncer.ProcessBlockRelease() })
			}
			hist = append(hist, op)
			if op[:3] == "Get" {
				_, err := s.Get(obj(g, op[3:]).Digest)
				vsched.Obs("%s=%s", op, status.Code(err))
			} else {
				o := obj(g, op[3:])
				err := s.PutOK(o.Digest, o.Content)
				vsched.Obs("%s=%s", op, status.Code(err))
			}
		}
		vsched.WaitOthersFinished()
		med.Dir.Faults, med.Data.SyncFaults = 0, 0
		enumerateNewPrefixes(g, med, fmt.Sprintf("history %v", hist), lim)
	}
}

// slowWriteBody: the client script with inserted syncer steps, each in its own thread, where a step's state
// write may be slow: it stalls before creating or before renaming the state file, the client performs its
// next operation meanwhile (a rotation that lands between the extraction of the state and its
// acknowledgement), then the write completes. Every crash point of every distinct journal prefix.
func slowWriteBody(g lstore.Geometry, script []string, lim lstore.CrashLimits, nchoices int) func() {
	return func() {
		med := lstore.NewMedia(g)
		s := lstore.Open(g, med)
		ctx := context.Background()
		slowAt, stalled, pending := "", 0, 0
		st := &stats{}
		med.Dir.Slow = func(kind string) {
			if slowAt != "" && kind == slowAt {
				slowAt = ""
				stalled++
				vsched.YieldLow("slow-state-write")
			}
		}
		var hist []string
		step := func(name string, f func(), slow string) {
			done := false
			before := stalled
			slowAt = slow
			pending++
			vsched.GoNamed(name, false, func() { f(); done = true; pending-- })
			vsched.Block("await-step", false, func() bool { return done || stalled > before })
			slowAt = ""
			if done {
				hist = append(hist, name)
			} else {
				hist = append(hist, name+"(state write stalled before "+slow+")")
			}
		}
		for _, op := range script {
			switch vsched.ChooseFree("choice", nchoices) {
			case 1:
				if s.PutWakeupReady() {
					step("StepPut", func() { s.Syncer.ProcessBlockPut(ctx) }, "")
				}
			case 2:
				if s.ReleaseWakeupReady() {
					step("StepRelease", func() { s.Syncer.ProcessBlockRelease() }, "")
				}
			case 3:
				if s.PutWakeupReady() {
					step("StepPut", func() { s.Syncer.ProcessBlockPut(ctx) }, "rename")
				}
			case 4:
				if s.ReleaseWakeupReady() {
					step("StepRelease", func() { s.Syncer.ProcessBlockRelease() }, "rename")
				}
			case 5:
				if s.PutWakeupReady() {
					step("StepPut", func() { s.Syncer.ProcessBlockPut(ctx) }, "create")
				}
			case 6:
				if s.ReleaseWakeupReady() {
					step("StepRelease", func() { s.Syncer.ProcessBlockRelease() }, "create")
				}
			}
			hist = append(hist, op)
			o := obj(g, op[3:])
			err := s.PutOK(o.Digest, o.Content)
			vsched.Obs("%s=%s", op, status.Code(err))
			// a stalled state write spans exactly this one client operation
			vsched.Block("await-stalled-steps", false, func() bool { return pending == 0 })
			// the process dies here; every issued I/O operation survives (lost writes are the other families'
			// business: what matters here is which blocks the state file on the medium lists)
			c := med.Clone()
			c.Data.Gates, c.Dir.Gates, c.Dir.Slow = false, false, nil
			verify(g, c, fmt.Sprintf("history %v, process crash (nothing lost)", hist), lim, st, false)
			s.Reactivate() // the first run goes on
		}
		report(st)
	}
}

func opNames(ops []string, c []int) []string {
	out := make([]string, len(c))
	for i, k := range c {
		out[i] = ops[k]
	}
	return out
}

func main() {
	r := ev.Start("C02")
	r.Rule("vcrash over vstate histories: every operation sequence of the stated depth; for each history prefix every crash point of its I/O journal; for each crash point every admissible medium (full product of independently losable units when small, otherwise every medium within the stated deviation from 'everything survived' and from 'nothing unsynced survived'); the real store is restarted on each distinct medium. non-trivial = executions in which at least one object was found resolvable after a crash and verified byte for byte")
	r.Assume("sector-granular loss model for the data device, atomic-or-lost index records (66 bytes), journalled directory metadata; media lose but do not corrupt (C08 covers corruption)")
	r.Assume("hash seeds drawn after a restart never repeat earlier ones (deterministic generator with a persisted, advanced counter)")
	depth := ev.Pick(r, 3, 4)
	lim := lstore.CrashLimits{FullProductMax: ev.Pick(r, 1<<9, 1<<14), Deviation: ev.Pick(r, 2, 3), DirSubsets: r.Thorough()}
	nlim := lstore.CrashLimits{FullProductMax: 1 << 6, Deviation: 1}
	var scs []mc.Scenario
	for _, hier := range []bool{false, true} {
		g := geometry(hier)
		scs = append(scs, mc.Scenario{Name: fmt.Sprintf("crash/hier=%v", hier), Space: fmt.Sprintf("all sequences of %d operations over {Put A3, B5, C8, F8, D4, Get A3, one ProcessBlockPut step, one ProcessBlockRelease step}; every crash point; media: full product up to %d, else deviation %d; second crash: %v; on %s", depth, lim.FullProductMax, lim.Deviation, r.Thorough(), g), Bound: 0, ShardDepth: 2, Body: body(g, depth, lim, nlim, r.Thorough()), Budget: time.Duration(ev.Pick(r, 200, 2400)) * time.Second, MaxSteps: 2000000000})
	}
	slim := lstore.CrashLimits{FullProductMax: ev.Pick(r, 1<<7, 1<<11), Deviation: ev.Pick(r, 1, 2), DirSubsets: r.Thorough()}
	scripts := map[string][]string{
		"rotation":         {"PutC8", "PutF8", "PutG8", "PutD4", "PutB5", "PutA3"}, // allocation is byte-granular: D4+B5 exceed a block, so B5 rotates a second time
		"rotation-refresh": {"PutA3", "PutC8", "PutF8", "GetA3", "PutG8", "PutB5"},
		"shared-sectors":   {"PutA3", "PutB5", "PutD4", "GetA3", "PutC8", "PutF8"},
	}
	for _, name := range []string{"rotation", "rotation-refresh", "shared-sectors"} {
		for _, hier := range []bool{false, true} {
			if hier && !r.Thorough() && name != "rotation" {
				continue
			}
			g := geometry(hier)
			if !r.Thorough() {
				scripts[name] = scripts[name][:5]
			}
			scs = append(scs, mc.Scenario{Name: fmt.Sprintf("script/%s-hier=%v", name, hier), Space: fmt.Sprintf("client script %v with every insertion of {nothing, ProcessBlockPut step, ProcessBlockRelease step} before each operation (3^%d histories); every crash point; media: full product up to %d, else deviation %d; on %s", scripts[name], len(scripts[name]), slim.FullProductMax, slim.Deviation, g), Bound: 0, ShardDepth: 2, Body: scriptBody(g, scripts[name], slim, nlim, false), Budget: time.Duration(ev.Pick(r, 150, 1800)) * time.Second, MaxSteps: 2000000000})
		}
	}
	clim := lstore.CrashLimits{FullProductMax: ev.Pick(r, 1<<6, 1<<9), Deviation: 1}
	type cs struct {
		name   string
		spb    int
		script []string
		others [][]string
	}
	quickLen := func(sc []string, n int) []string {
		if !r.Thorough() && len(sc) > n {
			return sc[:n]
		}
		return sc
	}
	for _, x := range []cs{
		{"rotation", 2, quickLen(scripts["rotation"], 5), nil}, // two rotations: a block popped while a state write is in flight can be handed out again
		{"shared-sectors", 2, quickLen(scripts["shared-sectors"], 4), nil},
		// 16-byte blocks: several uploads share a block, so an upload can complete while the sync covering its
		// block's earlier content is in flight
		{"same-block", 4, quickLen([]string{"PutA3", "PutD4", "PutB5", "GetA3", "PutC8"}, 3), nil},
		// two uploaders allocating in the same block and completing in either order
		{"two-uploaders", 4, []string{"PutA3", "PutB5"}, [][]string{{"PutD4"}}},
	} {
		g := geometry(false)
		g.SectorsPerBlock = x.spb
		g.DataGates, g.DirGates = true, true
		scs = append(scs, mc.Scenario{Name: "conc/" + x.name, Space: fmt.Sprintf("client script %v (further uploader threads: %v) with both syncer loops as free daemon threads: every schedule with <=%d deviations (preemptions and early timer expiries); every crash point of every distinct journal prefix; media: full product up to %d, else deviation 1; after every recovery three fresh uploads and a re-check of every resolvable object; on %s", x.script, x.others, ev.Pick(r, 2, 3), clim.FullProductMax, g), Bound: ev.Pick(r, 2, 3), EarlyTimers: true, Body: concBody(g, x.script, x.others, clim), Budget: time.Duration(ev.Pick(r, 120, 1500)) * time.Second, MaxSteps: 2000000000})
	}
	for _, x := range []cs{
		{"rotation", 2, []string{"PutC8", "PutF8", "PutG8", "PutD4", "PutB5"}, nil},
		{"same-block", 4, []string{"PutA3", "PutD4", "PutB5", "PutC8", "PutF8"}, nil},
	} {
		g := geometry(false)
		g.SectorsPerBlock = x.spb
		scs = append(scs, mc.Scenario{Name: "faults/" + x.name, Space: fmt.Sprintf("client script %v with every insertion of {nothing, ProcessBlockPut step, ProcessBlockRelease step} before each operation, each step in its own thread, at most one failing I/O operation (data sync or any state-directory operation; the client continues while the step sleeps before its retry); every crash point of every distinct journal prefix; media: full product up to %d, else deviation %d; on %s", x.script, slim.FullProductMax, slim.Deviation, g), Bound: 1, ShardDepth: 2, Body: faultScriptBody(g, x.script, slim), Budget: time.Duration(ev.Pick(r, 150, 1800)) * time.Second, MaxSteps: 2000000000})
	}
	{
		g := geometry(false)
		g.Old, g.Spare = 0, 2
		sc := []string{"PutC8", "PutF8", "PutG8", "PutH8", "PutI8", "PutJ8"}
		scs = append(scs, mc.Scenario{Name: "slow-writes/rotation", Space: fmt.Sprintf("client script %v (every upload rotates: old=0) with every insertion of {nothing, ProcessBlockPut step, ProcessBlockRelease step, either of them with its state write stalled before renaming (thorough: or before creating) the state file while the next client operation runs} before each operation; after every client operation a process crash in which nothing is lost (the medium as it is), recovery, fresh uploads, second restart; on %s", sc, g), Bound: 0, ShardDepth: 2, Body: slowWriteBody(g, sc, slim, ev.Pick(r, 5, 7)), Budget: time.Duration(ev.Pick(r, 150, 1800)) * time.Second, MaxSteps: 2000000000})
	}
	mc.Run(r, scs)
	r.Finish()
}
