package main

// Reference model, transition-level oracle, key search and the explicit-state
// search (vstate).

import (
	"fmt"
	"sort"
	"strings"

	"github.com/buildbarn/bb-storage/pkg/blobstore/local"

	"verifh/ev"
	"verifh/par"
)

// ---------------------------------------------------------------- model

// model is the history part of a state: how many blocks are live and, per
// key, the set of locations (relative to the oldest live block) that were ever
// stored for that key and lie in a live block. Bit l of stored[k] <=> location
// with alphabet index l.
type model struct {
	live   int
	stored [4]uint8
}

func (m model) mask() uint32 {
	return uint32(m.stored[0]) | uint32(m.stored[1])<<8 | uint32(m.stored[2])<<16 | uint32(m.stored[3])<<24
}

func modelFrom(live int, mask uint32) model {
	var m model
	m.live = live
	for k := 0; k < 4; k++ {
		m.stored[k] = uint8(mask >> (8 * k))
	}
	return m
}

func (m *model) apply(c *config, op int) {
	switch {
	case op == c.opPush():
		m.live++
	case op == c.opRelease():
		m.live--
		for k := range m.stored {
			m.stored[k] >>= nOff
		}
	case c.isFaultPut(op):
		// a Put that fails stores nothing
	default:
		m.stored[op/c.nLoc()] |= 1 << (op % c.nLoc())
	}
}

func (m model) describe(c *config) string {
	var parts []string
	for k := range c.Keys {
		var ls []string
		for l := 0; l < nLocMax; l++ {
			if m.stored[k]&(1<<l) != 0 {
				ls = append(ls, locName(l))
			}
		}
		parts = append(parts, c.Keys[k]+":{"+strings.Join(ls, ",")+"}")
	}
	return fmt.Sprintf("live=%d stored=%s", m.live, strings.Join(parts, " "))
}

// ---------------------------------------------------------------- oracle

type viol struct {
	Sig string
	Msg string
}

func visString(c *config, v []getRes) string {
	var p []string
	for k, g := range v {
		p = append(p, c.Keys[k]+"="+g.String())
	}
	return strings.Join(p, " ")
}

// soundGet: the always-clause. A lookup yields nothing, or a location that
// was stored for exactly that key and lies in an unreleased block.
func soundGet(c *config, m model, k int, g getRes) *viol {
	if g.Err != "" {
		return &viol{"get:unexpected-error", fmt.Sprintf("Get(%s) failed with %s (neither a location nor NOT_FOUND)", c.Keys[k], g.Err)}
	}
	if !g.Found {
		return nil
	}
	if g.Loc < 0 || g.Loc/nOff >= m.live {
		return &viol{"get:location-never-stored-or-released", fmt.Sprintf("Get(%s) returned %+v which is not a stored location in a live block (live blocks: %d)", c.Keys[k], g.Raw, m.live)}
	}
	if m.stored[k]&(1<<g.Loc) == 0 {
		for o := range c.Keys {
			if o != k && m.stored[o]&(1<<g.Loc) != 0 {
				return &viol{"get:location-of-another-key", fmt.Sprintf("Get(%s) returned %s, which was never stored for %s but was stored for %s", c.Keys[k], locName(g.Loc), c.Keys[k], c.Keys[o])}
			}
		}
		return &viol{"get:location-never-stored-or-released", fmt.Sprintf("Get(%s) returned %s, which was never stored for that key (or only in a block released since)", c.Keys[k], locName(g.Loc))}
	}
	return nil
}

func sameObs(a, b getRes) bool {
	if a.Err != "" || b.Err != "" {
		return a.Err == b.Err
	}
	if a.Found != b.Found {
		return false
	}
	return !a.Found || a.Raw == b.Raw
}

// step executes one operation on the real objects and judges the transition.
// before = the Get results for all keys observed immediately before the
// operation (a function of the implementation state); m = model before the
// operation, updated in place.
type stepOut struct {
	viols      []viol
	outcome    string
	nontrivial bool
	after      []getRes
	delta      counts
}

func step(in *instance, m *model, op int, before []getRes) (out stepOut) {
	c := in.cfg
	kind := "put"
	if op == c.opPush() {
		kind = "push"
	} else if op == c.opRelease() {
		kind = "release"
	}
	modelDone := false
	defer func() {
		if p := recover(); p != nil {
			out.viols = append(out.viols, viol{"panic:" + kind, fmt.Sprintf("%s panicked: %v", c.opName(op), p)})
			out.outcome = kind + ":panic"
			if !modelDone {
				m.apply(c, op)
			}
		}
	}()
	if c.isFaultPut(op) {
		// The device fails the first record read of this Put: nothing is known about the slot, so nothing may
		// be stored over it; the call fails and every lookup stays what it was.
		kind = "putF"
		err := in.apply(op)
		after := in.getAll()
		out.after = after
		modelDone = true
		if err == nil {
			out.viols = append(out.viols, viol{"put:device-read-error-swallowed", fmt.Sprintf("%s returned nil although the record array's device failed the read; lookups before: %s; lookups after: %s", c.opName(op), visString(c, before), visString(c, after))})
		}
		for k := range after {
			if !sameObs(before[k], after[k]) {
				out.viols = append(out.viols, viol{"put:failed-put-changed-lookup", fmt.Sprintf("%s (device read error) changed the lookup of %s; lookups before: %s; lookups after: %s", c.opName(op), c.Keys[k], visString(c, before), visString(c, after))})
			}
		}
		out.outcome = "putF:error=" + fmt.Sprint(err != nil)
		out.nontrivial = true
		return out
	}
	c0 := in.h.read()
	err := in.apply(op)
	c1 := in.h.read()
	after := in.getAll()
	out.after = after
	d := c1.minus(c0)
	out.delta = d
	if err != nil {
		out.viols = append(out.viols, viol{"put:unexpected-error", fmt.Sprintf("%s returned %v", c.opName(op), err)})
	}
	mb := *m
	m.apply(c, op)
	modelDone = true
	for k, g := range after {
		if v := soundGet(c, *m, k, g); v != nil {
			v.Msg += fmt.Sprintf(" after %s; lookups before: %s; lookups after: %s; model before: %s", c.opName(op), visString(c, before), visString(c, after), mb.describe(c))
			out.viols = append(out.viols, *v)
		}
	}
	ctx := func() string {
		return fmt.Sprintf("%s; lookups before: %s; lookups after: %s; reported discards during the call: %d (TooManyAttempts +%d, too_many_iterations +%d)",
			c.opName(op), visString(c, before), visString(c, after), d.discards(), d.Put[3], d.TooManyIt)
	}
	switch kind {
	case "push":
		for k := range after {
			if !sameObs(before[k], after[k]) {
				out.viols = append(out.viols, viol{"push:lookup-changed", fmt.Sprintf("appending a block changed the lookup of %s: %s", c.Keys[k], ctx())})
			}
		}
		out.outcome = "push"
	case "release":
		removed, kept := 0, 0
		for k := range after {
			b, a := before[k], after[k]
			switch {
			case !b.Found:
				if a.Found {
					out.viols = append(out.viols, viol{"release:entry-appeared", fmt.Sprintf("releasing the oldest block made an entry for %s appear: %s", c.Keys[k], ctx())})
				}
			case b.Raw.BlockIndex == 0:
				removed++
				if a.Found {
					out.viols = append(out.viols, viol{"release:entry-of-released-block-not-removed", fmt.Sprintf("%s pointed into the released block and is still/again found: %s", c.Keys[k], ctx())})
				}
			default:
				kept++
				want := b.Raw
				want.BlockIndex--
				if !a.Found || a.Raw != want {
					out.viols = append(out.viols, viol{"release:entry-of-other-block-changed", fmt.Sprintf("%s pointed into a block that was not released, expected %+v afterwards: %s", c.Keys[k], want, ctx())})
				}
			}
		}
		out.outcome = fmt.Sprintf("release:removed%d:kept%d", removed, kept)
		out.nontrivial = removed > 0
	default:
		pk, pl := op/c.nLoc(), op%c.nLoc()
		var devs []string
		devClass := "-"
		nDev := 0
		for k := range after {
			exp := before[k]
			if k == pk && (!exp.Found || exp.Loc < pl) {
				exp = getRes{Found: true, Loc: pl, Raw: mkLoc(pl)}
			}
			if sameObs(exp, after[k]) {
				continue
			}
			nDev++
			who := "other"
			if k == pk {
				who = "self"
			}
			devs = append(devs, c.Keys[k])
			a := after[k]
			// A deviating key may only fall back: to nothing or to an older
			// location (that it was stored for that key in a live block is the
			// soundness clause above).
			if a.Found && !(a.Loc >= 0 && exp.Loc >= 0 && a.Loc < exp.Loc) {
				out.viols = append(out.viols, viol{"put:change-is-not-a-fallback:" + who, fmt.Sprintf("%s expected %s, found %s which is not older: %s", c.Keys[k], exp, a, ctx())})
			}
			// The entry that was lost must not be newer than the one stored.
			if exp.Loc > pl {
				out.viols = append(out.viols, viol{"put:discarded-entry-newer-than-stored:" + who, fmt.Sprintf("%s lost %s, which is newer than the stored %s: %s", c.Keys[k], exp, locName(pl), ctx())})
			}
			if a.Found {
				devClass = who + "-older"
			} else {
				devClass = who + "-nothing"
			}
		}
		if uint64(nDev) > d.discards() {
			who := "other"
			for _, dk := range devs {
				if dk == c.Keys[pk] {
					who = "self"
				}
			}
			if nDev > 1 {
				who = "several"
			}
			out.viols = append(out.viols, viol{"put:deviation-without-reported-discard:" + who, fmt.Sprintf("%d key(s) %v deviate from 'stored key := newer(old,new), others unchanged' but only %d discard(s) were reported: %s", nDev, devs, d.discards(), ctx())})
		}
		oc := "?"
		n := 0
		for i, x := range d.Put {
			if x > 0 {
				oc = putOutcomes[i]
				n += int(x)
			}
		}
		if d.TooManyIt > 0 {
			oc = "TooManyIterations"
			n += int(d.TooManyIt)
		}
		if n != 1 {
			oc = fmt.Sprintf("outcomes%d", n)
		}
		iters := int(d.PutSum)
		if d.TooManyIt > 0 {
			iters = c.P
		}
		out.outcome = fmt.Sprintf("put:%s:iter%d:dev=%s", oc, iters, devClass)
		out.nontrivial = iters >= 2 || d.discards() > 0
	}
	return out
}

// ---------------------------------------------------------------- key search

func probeSeq(k local.Key, init uint64, size int) [3]int {
	var s [3]int
	for a := 0; a < 3; a++ {
		rk := local.LocationRecordKey{Key: k, Attempt: uint32(a)}
		s[a] = int(rk.Hash(init) % uint64(size))
	}
	return s
}

var hashInitCandidates = []uint64{14695981039346656037, 0, 1, 2, 3, 0x9E3779B97F4A7C15, 0x243F6A8885A308D3, 0xdeadbeefcafef00d}

const nKeyCandidates = 40

type keyChoice struct {
	HashInit uint64   `json:"hash_init"`
	Keys     []string `json:"keys"`
	Seqs     [][3]int `json:"probe_slots_attempt_0_1_2"`
	Score    int      `json:"score"`
	Stats    [5]int   `json:"sum_own_distinct_slots__distinct_sequences__slots_covered__same_attempt0_pairs__cross_attempt_pairs"`
	Searched [2]int   `json:"hash_inits_searched__key_tuples_searched"`
}

// chooseKeys searches, at run time, hash initialisations x nk-subsets of the
// candidate key strings "k0".."k39" for a tuple whose probe sequences collide
// pairwise within the first two attempts (hard requirement), maximising, in
// this order: the number of distinct slots within each key's own 3-attempt
// sequence (summed), the number of distinct sequences, then bonuses for: two
// keys sharing the attempt-0 slot, two keys with different attempt-0 slots, a
// cross-attempt collision (attempt-0 slot of one key = attempt-1 slot of
// another), the number of table slots covered, the number of collisions.
// First best in enumeration order wins. skip = hash initialisations not to
// use (to obtain a second, different choice).
func chooseKeys(size, nk int, skip map[uint64]bool) keyChoice {
	best := keyChoice{Score: -1}
	tuples := 0
	inits := 0
	for _, init := range hashInitCandidates {
		if skip[init] {
			continue
		}
		inits++
		var seqs [nKeyCandidates][3]int
		for i := range seqs {
			seqs[i] = probeSeq(local.NewKeyFromString(fmt.Sprintf("k%d", i)), init, size)
		}
		idx := make([]int, nk)
		var rec func(pos, from int)
		rec = func(pos, from int) {
			if pos == nk {
				tuples++
				distinct := map[[3]int]bool{}
				first := map[int]bool{}
				covered := map[int]bool{}
				same0, cross, selfDistinct := 0, 0, 0
				for i := 0; i < nk; i++ {
					a := seqs[idx[i]]
					distinct[a] = true
					first[a[0]] = true
					own := map[int]bool{a[0]: true, a[1]: true, a[2]: true}
					selfDistinct += len(own)
					for s := range own {
						covered[s] = true
					}
					for j := 0; j < nk; j++ {
						if i == j {
							continue
						}
						b := seqs[idx[j]]
						if i < j && a[0] == b[0] {
							same0++
						}
						if a[0] == b[1] {
							cross++
						}
					}
				}
				score := selfDistinct*10000 + len(distinct)*1000 + len(covered)*20 + min(cross+same0, 19)
				if same0 > 0 {
					score += 400
				}
				if len(first) >= 2 {
					score += 400
				}
				if cross > 0 {
					score += 300
				}
				if score > best.Score {
					best = keyChoice{HashInit: init, Score: score, Stats: [5]int{selfDistinct, len(distinct), len(covered), same0, cross}}
					for _, i := range idx {
						best.Keys = append(best.Keys, fmt.Sprintf("k%d", i))
						best.Seqs = append(best.Seqs, seqs[i])
					}
				}
				return
			}
			for i := from; i < nKeyCandidates; i++ {
				// pairwise collision within the first two attempts
				ok := true
				for p := 0; p < pos; p++ {
					a, b := seqs[idx[p]], seqs[i]
					if a[0] != b[0] && a[0] != b[1] && a[1] != b[0] && a[1] != b[1] {
						ok = false
						break
					}
				}
				if ok {
					idx[pos] = i
					rec(pos+1, i+1)
				}
			}
		}
		rec(0, 0)
	}
	if best.Score < 0 {
		ev.HarnessError("no %d keys with pairwise colliding probe sequences for table size %d", nk, size)
	}
	best.Searched = [2]int{inits, tuples}
	return best
}

// ---------------------------------------------------------------- search

type node struct {
	parent int32
	op     uint8
	depth  uint16
	live   uint8
	stored uint32
	key    string
}

type succ struct {
	op         int
	key        string
	live       int
	stored     uint32
	viols      []viol
	outcome    string
	nontrivial bool
	after      string
	before     string
	disc       uint64
}

type violCase struct {
	Config config   `json:"config"`
	Path   []string `json:"path"`
}

type sampleT struct {
	Config  string   `json:"config"`
	Path    []string `json:"path"`
	Op      string   `json:"op"`
	Before  string   `json:"lookups_before"`
	After   string   `json:"lookups_after"`
	Table   string   `json:"table_after"`
	Outcome string   `json:"outcome"`
}

type bfsResult struct {
	cfg          *config
	states       int64
	transitions  int64
	nontrivial   int64
	validated    int64
	depth        int
	fixpoint     bool
	cap          string
	pruned       int64 // successors dropped because a state with equal table and a subset history exists
	maxAntichain int
	outcomes     map[string]int64
	samples      map[string]sampleT
	viols        []ev.Violation
	discards     int64
	withDiscard  int64
	devFallback  int64
}

func pathOf(nodes []node, i int32) []int {
	var p []int
	for i > 0 {
		p = append(p, int(nodes[i].op))
		i = nodes[i].parent
	}
	for a, b := 0, len(p)-1; a < b; a, b = a+1, b-1 {
		p[a], p[b] = p[b], p[a]
	}
	return p
}

func opNames(c *config, p []int) []string {
	out := make([]string, len(p))
	for i, o := range p {
		out[i] = c.opName(o)
	}
	return out
}

// expand computes all successors of one state by replaying its path on a
// fresh instance once per operation.
func expand(c *config, nodes []node, ni int32) []succ {
	h := <-labelPool
	defer func() { labelPool <- h }()
	n := nodes[ni]
	path := pathOf(nodes, ni)
	var out []succ
	for op := 0; op < c.nOps(); op++ {
		if !c.enabled(op, int(n.live)) {
			continue
		}
		in := newInstance(c, h)
		for _, o := range path {
			if err := in.apply(o); err != nil {
				ev.HarnessError("replay of an already judged path failed: %v", err)
			}
		}
		if k := in.canon(); k != n.key {
			ev.HarnessError("replay of %v on a fresh instance gave table %q, recorded %q: the implementation state is not a function of the operation path", opNames(c, path), k, n.key)
		}
		before := in.getAll()
		m := modelFrom(int(n.live), n.stored)
		so := step(in, &m, op, before)
		s := succ{op: op, viols: so.viols, outcome: so.outcome, nontrivial: so.nontrivial, live: m.live, stored: m.mask(), disc: so.delta.discards()}
		func() {
			defer func() {
				if p := recover(); p != nil {
					s.key = fmt.Sprintf("panic-state(%v)", p)
				}
			}()
			s.key = in.canon()
			s.before = visString(c, before)
			s.after = visString(c, so.after)
		}()
		if in.bl.live() != m.live {
			ev.HarnessError("live block count of harness (%d) and model (%d) differ", in.bl.live(), m.live)
		}
		out = append(out, s)
	}
	return out
}

func bfs(c *config, maxStates int, maxViol int) *bfsResult {
	res := &bfsResult{cfg: c, outcomes: map[string]int64{}, samples: map[string]sampleT{}}
	h := <-labelPool
	root := newInstance(c, h)
	rootKey := root.canon()
	labelPool <- h
	nodes := []node{{parent: -1, key: rootKey}}
	seen := map[string][]uint32{rootKey: {0}}
	frontier := []int32{0}
	const chunk = 2048
	stop := false
	for len(frontier) > 0 && !stop {
		var next []int32
		for lo := 0; lo < len(frontier) && !stop; lo += chunk {
			hi := min(lo+chunk, len(frontier))
			results := make([][]succ, hi-lo)
			par.For(hi-lo, func(i int) { results[i] = expand(c, nodes, frontier[lo+i]) })
			for i, rs := range results {
				ni := frontier[lo+i]
				res.validated += int64(len(rs))
				for _, s := range rs {
					res.transitions++
					res.outcomes[s.outcome]++
					if s.nontrivial {
						res.nontrivial++
					}
					res.discards += int64(s.disc)
					if s.disc > 0 {
						res.withDiscard++
					}
					if strings.Contains(s.outcome, "dev=self") || strings.Contains(s.outcome, "dev=other") {
						res.devFallback++
					}
					if _, ok := res.samples[s.outcome]; !ok {
						res.samples[s.outcome] = sampleT{Config: c.name(), Path: opNames(c, pathOf(nodes, ni)), Op: c.opName(s.op), Before: s.before, After: s.after, Table: s.key, Outcome: s.outcome}
					}
					for _, v := range s.viols {
						p := append(pathOf(nodes, ni), s.op)
						res.viols = append(res.viols, ev.Violation{Signature: v.Sig, Message: fmt.Sprintf("[%s] after %v: %s", c.name(), opNames(c, p[:len(p)-1]), v.Msg), Case: violCase{Config: *c, Path: opNames(c, p)}})
					}
					// Deduplicate: equal table (through the real record array) and a
					// history that is a subset of the new one => the known state is at
					// least as strict for every continuation.
					sub := false
					for _, e := range seen[s.key] {
						if e&s.stored == e {
							sub = true
							break
						}
					}
					if sub {
						res.pruned++
						continue
					}
					if len(nodes) >= maxStates {
						res.cap = fmt.Sprintf("state cap %d reached at depth %d", maxStates, int(nodes[ni].depth)+1)
						stop = true
						continue
					}
					seen[s.key] = append(seen[s.key], s.stored)
					if len(seen[s.key]) > res.maxAntichain {
						res.maxAntichain = len(seen[s.key])
					}
					nodes = append(nodes, node{parent: ni, op: uint8(s.op), depth: nodes[ni].depth + 1, live: uint8(s.live), stored: s.stored, key: s.key})
					next = append(next, int32(len(nodes)-1))
				}
			}
			if len(res.viols) >= maxViol {
				res.cap = fmt.Sprintf("search of this configuration stopped after %d violating transitions", len(res.viols))
				stop = true
			}
		}
		if !stop {
			if len(next) > 0 {
				res.depth = int(nodes[next[0]].depth)
			}
			frontier = next
		}
	}
	res.states = int64(len(nodes))
	res.fixpoint = !stop
	return res
}

func sortedOutcomes(m map[string]sampleT) []string {
	var ks []string
	for k := range m {
		ks = append(ks, k)
	}
	sort.Strings(ks)
	return ks
}
