package main

import (
	"fmt"
	"sync"

	"verifh/ev"
	"verifh/par"
)

// seqSearch enumerates EVERY operation sequence of the given length on a fresh instance, without merging
// states: the breadth-first search identifies states by what the record array returns, which is exact only
// as long as the implementation keeps no other state (a cache inside the record array or the map would be
// invisible to it). Here nothing is assumed: each sequence is executed from scratch and judged step by step.
func seqSearch(r *ev.Run, backend string, kc keyChoice, size, depth int) {
	sub := fmt.Sprintf("sequences/%s", backend)
	if !r.Want(sub) {
		return
	}
	c := &config{Backend: backend, Size: size, MaxLive: 2, G: 2, P: 2, HashInit: kc.HashInit, Keys: kc.Keys[:3]}
	c.init()
	s := r.NewSub(sub, "vstate", fmt.Sprintf("every sequence of %d operations (no state merging: each sequence runs on a fresh instance) over put(k,loc) [3 colliding keys x <=2 live blocks x 2 offsets]%s, push, release-oldest on a table of %d slots, get/put attempt limits 2/2; same oracle as the breadth-first search after every operation", depth, map[bool]string{true: ", put with a failing first record read", false: ""}[c.hasFaultOps()], size))
	done := s.Timer()
	// first-level split for parallelism
	var firsts [][]int
	for a := 0; a < c.nOps(); a++ {
		if !c.enabled(a, 0) {
			continue
		}
		la := liveAfter(c, a, 0)
		for b := 0; b < c.nOps(); b++ {
			if c.enabled(b, la) {
				firsts = append(firsts, []int{a, b})
			}
		}
	}
	var mu sync.Mutex
	var total, nontrivial int64
	outcomes := map[string]bool{}
	par.For(len(firsts), func(i int) {
		h := <-labelPool
		defer func() { labelPool <- h }()
		var n, nt int64
		local := map[string]bool{}
		var rec func(path []int, live int)
		rec = func(path []int, live int) {
			if len(path) == depth {
				in := newInstance(c, h)
				m := modelFrom(0, 0)
				for k, op := range path {
					before := in.getAll()
					so := step(in, &m, op, before)
					if k == len(path)-1 {
						local[so.outcome] = true
						if so.nontrivial {
							nt++
						}
					}
					for _, v := range so.viols {
						r.Violate(ev.Violation{Signature: v.Sig, Sub: sub, Message: fmt.Sprintf("[%s] after %v: %s", c.name(), opNames(c, path[:k]), v.Msg), Case: violCase{Config: *c, Path: opNames(c, path[:k+1])}})
					}
					if len(so.viols) > 0 {
						break
					}
				}
				n++
				return
			}
			for op := 0; op < c.nOps(); op++ {
				if c.enabled(op, live) {
					rec(append(append([]int{}, path...), op), liveAfter(c, op, live))
				}
			}
		}
		f := firsts[i]
		rec(f, liveAfter(c, f[1], liveAfter(c, f[0], 0)))
		mu.Lock()
		total += n
		nontrivial += nt
		for k := range local {
			outcomes[k] = true
		}
		mu.Unlock()
	})
	s.Evaluations, s.States, s.Transitions = total, total, total*int64(depth)
	s.Nontrivial = nontrivial
	s.Validated = total
	s.Outcomes = int64(len(outcomes))
	s.Exhaustive = true
	s.BoundCompleted = fmt.Sprintf("all operation sequences of length %d", depth)
	done()
}

func liveAfter(c *config, op, live int) int {
	switch {
	case op == c.opPush():
		return live + 1
	case op == c.opRelease():
		return live - 1
	}
	return live
}
